// ---- property-level theory of --sort-by (pure spec; no code of /repo): the bucket machine of lemmas/sort.rs, which SortProcess is
// verified against, IS the textbook stable insertion sort — given that the key order (Ord for JsonValue) is a total order.
pub type Bk = Seq<(JsonValue, Seq<Context>)>;
// what C07 says about the key order; established by unit ORD (jv.cmp.order), the Kani harnesses v2_* (numbers) and std's
// lexicographic orders (assumed) — here a HYPOTHESIS of every lemma that needs it
pub open spec fn klt(a: JsonValue, b: JsonValue) -> bool { key_cmp_lt(a, b) }
pub open spec fn keq(a: JsonValue, b: JsonValue) -> bool { key_cmp_eq(a, b) }
#[verifier::opaque]
pub open spec fn key_order_total() -> bool {
    &&& forall|a: JsonValue| #[trigger] keq(a, a)
    &&& forall|a: JsonValue, b: JsonValue| #[trigger] keq(a, b) ==> keq(b, a)
    &&& forall|a: JsonValue, b: JsonValue, c: JsonValue| #[trigger] keq(a, b) && #[trigger] keq(b, c) ==> keq(a, c)
    &&& forall|a: JsonValue, b: JsonValue| #[trigger] klt(a, b) ==> !klt(b, a) && !keq(a, b) && !keq(b, a)
    &&& forall|a: JsonValue, b: JsonValue| #[trigger] klt(a, b) || keq(a, b) || #[trigger] klt(b, a)
    &&& forall|a: JsonValue, b: JsonValue, c: JsonValue| #[trigger] klt(a, b) && #[trigger] klt(b, c) ==> klt(a, c)
    &&& forall|a: JsonValue, b: JsonValue, c: JsonValue| #[trigger] keq(a, b) && #[trigger] klt(b, c) ==> klt(a, c)
    &&& forall|a: JsonValue, b: JsonValue, c: JsonValue| #[trigger] klt(a, b) && #[trigger] keq(b, c) ==> klt(a, c)
}

// the order facts, one at a time (key_order_total is opaque: its eight quantified clauses together swamp the solver)
pub proof fn lemma_k_refl(a: JsonValue) requires key_order_total() ensures keq(a, a) { reveal(key_order_total); }
pub proof fn lemma_k_sym(a: JsonValue, b: JsonValue) requires key_order_total(), keq(a, b) ensures keq(b, a) { reveal(key_order_total); }
pub proof fn lemma_k_eq_trans(a: JsonValue, b: JsonValue, c: JsonValue) requires key_order_total(), keq(a, b), keq(b, c) ensures keq(a, c) { reveal(key_order_total); }
pub proof fn lemma_k_lt_excl(a: JsonValue, b: JsonValue) requires key_order_total(), klt(a, b) ensures !klt(b, a), !keq(a, b), !keq(b, a) { reveal(key_order_total); }
pub proof fn lemma_k_trich(a: JsonValue, b: JsonValue) requires key_order_total() ensures klt(a, b) || keq(a, b) || klt(b, a) { reveal(key_order_total); }
pub proof fn lemma_k_lt_trans(a: JsonValue, b: JsonValue, c: JsonValue) requires key_order_total(), klt(a, b), klt(b, c) ensures klt(a, c) { reveal(key_order_total); }
pub proof fn lemma_k_eq_lt(a: JsonValue, b: JsonValue, c: JsonValue) requires key_order_total(), keq(a, b), klt(b, c) ensures klt(a, c) { reveal(key_order_total); }
pub proof fn lemma_k_lt_eq(a: JsonValue, b: JsonValue, c: JsonValue) requires key_order_total(), klt(a, b), keq(b, c) ensures klt(a, c) { reveal(key_order_total); }
pub open spec fn key_of(g: Rc<dyn Get>, c: Context) -> JsonValue { g.get_spec(&c)->0 }
// ---- the hypothesis is not vacuous: the same eight clauses, with the two relations as parameters, hold for the order induced by
// ANY ranking of the values (so they have models, trivial and non-trivial), and key_order_total() is exactly that schema at (keq, klt)
pub open spec fn order_axioms(eq: spec_fn(JsonValue, JsonValue) -> bool, lt: spec_fn(JsonValue, JsonValue) -> bool) -> bool {
    &&& forall|a: JsonValue| #[trigger] eq(a, a)
    &&& forall|a: JsonValue, b: JsonValue| #[trigger] eq(a, b) ==> eq(b, a)
    &&& forall|a: JsonValue, b: JsonValue, c: JsonValue| #[trigger] eq(a, b) && #[trigger] eq(b, c) ==> eq(a, c)
    &&& forall|a: JsonValue, b: JsonValue| #[trigger] lt(a, b) ==> !lt(b, a) && !eq(a, b) && !eq(b, a)
    &&& forall|a: JsonValue, b: JsonValue| #[trigger] lt(a, b) || eq(a, b) || #[trigger] lt(b, a)
    &&& forall|a: JsonValue, b: JsonValue, c: JsonValue| #[trigger] lt(a, b) && #[trigger] lt(b, c) ==> lt(a, c)
    &&& forall|a: JsonValue, b: JsonValue, c: JsonValue| #[trigger] eq(a, b) && #[trigger] lt(b, c) ==> lt(a, c)
    &&& forall|a: JsonValue, b: JsonValue, c: JsonValue| #[trigger] lt(a, b) && #[trigger] eq(b, c) ==> lt(a, c)
}
pub proof fn lemma_order_hypothesis_has_models(rank: spec_fn(JsonValue) -> int)
    ensures order_axioms(|a: JsonValue, b: JsonValue| rank(a) == rank(b), |a: JsonValue, b: JsonValue| rank(a) < rank(b)), // @obl THY.C07.order_hypothesis_has_models : C07
{
}
pub proof fn lemma_order_hypothesis_is_the_schema()
    ensures key_order_total() == order_axioms(|a: JsonValue, b: JsonValue| keq(a, b), |a: JsonValue, b: JsonValue| klt(a, b)), // @obl THY.C07.order_hypothesis_is_the_schema : C07
{
    let eq = |a: JsonValue, b: JsonValue| keq(a, b);
    let lt = |a: JsonValue, b: JsonValue| klt(a, b);
    assert forall|a: JsonValue, b: JsonValue| #[trigger] eq(a, b) == keq(a, b) && #[trigger] lt(a, b) == klt(a, b) by {}
    if key_order_total() {
        reveal(key_order_total);
        assert(order_axioms(eq, lt));
    }
    if order_axioms(eq, lt) {
        assert forall|a: JsonValue| #[trigger] keq(a, a) by { assert(eq(a, a)); }
        assert forall|a: JsonValue, b: JsonValue| #[trigger] keq(a, b) implies keq(b, a) by { assert(eq(a, b)); assert(eq(b, a)); }
        assert forall|a: JsonValue, b: JsonValue, c: JsonValue| #[trigger] keq(a, b) && #[trigger] keq(b, c) implies keq(a, c) by { assert(eq(a, b) && eq(b, c)); assert(eq(a, c)); }
        assert forall|a: JsonValue, b: JsonValue| #[trigger] klt(a, b) implies !klt(b, a) && !keq(a, b) && !keq(b, a) by { assert(lt(a, b)); assert(!lt(b, a) && !eq(a, b) && !eq(b, a)); }
        assert forall|a: JsonValue, b: JsonValue| #[trigger] klt(a, b) || keq(a, b) || #[trigger] klt(b, a) by { assert(lt(a, b) || eq(a, b) || lt(b, a)); }
        assert forall|a: JsonValue, b: JsonValue, c: JsonValue| #[trigger] klt(a, b) && #[trigger] klt(b, c) implies klt(a, c) by { assert(lt(a, b) && lt(b, c)); assert(lt(a, c)); }
        assert forall|a: JsonValue, b: JsonValue, c: JsonValue| #[trigger] keq(a, b) && #[trigger] klt(b, c) implies klt(a, c) by { assert(eq(a, b) && lt(b, c)); assert(lt(a, c)); }
        assert forall|a: JsonValue, b: JsonValue, c: JsonValue| #[trigger] klt(a, b) && #[trigger] keq(b, c) implies klt(a, c) by { assert(lt(a, b) && eq(b, c)); assert(lt(a, c)); }
        reveal(key_order_total);
        assert(key_order_total());
    }
}
// ---- the reference: stable insertion sort on a list of rows ----
// does a row with key kx, already in the list, stay BEFORE a newcomer with key kc?  (ties: yes — arrival order)
pub open spec fn stays_before(asc: bool, kx: JsonValue, kc: JsonValue) -> bool { if asc { !klt(kc, kx) } else { !klt(kx, kc) } }
pub open spec fn ins(asc: bool, g: Rc<dyn Get>, l: Seq<Context>, c: Context) -> Seq<Context>
    decreases l.len()
{
    if l.len() == 0 { seq![c] }
    else if stays_before(asc, key_of(g, l.last()), key_of(g, c)) { l.push(c) }
    else { ins(asc, g, l.drop_last(), c).push(l.last()) }
}
pub open spec fn isort(asc: bool, g: Rc<dyn Get>, acc: Seq<Context>, r: Seq<Context>) -> Seq<Context>
    decreases r.len()
{
    if r.len() == 0 { acc }
    else if g.get_spec(&r[0]) is None { isort(asc, g, acc, tail(r)) }     // rows without a key are dropped
    else { isort(asc, g, ins(asc, g, acc, r[0]), tail(r)) }
}
// ---- emission as a concatenation of buckets in emission order ----
pub open spec fn cat(s: Bk) -> Seq<Context>
    decreases s.len()
{
    if s.len() == 0 { Seq::empty() } else { cat(s.drop_last()).add(rev_seq(s.last().1)) }
}
pub open spec fn ord(asc: bool, b: Bk) -> Bk { if asc { b } else { b.reverse() } }
pub proof fn lemma_cat_add(x: Bk, y: Bk)
    ensures cat(x.add(y)) == cat(x).add(cat(y)),
    decreases y.len(),
{
    if y.len() == 0 { assert(x.add(y) =~= x); assert(cat(x).add(cat(y)) =~= cat(x)); }
    else {
        assert(x.add(y).drop_last() =~= x.add(y.drop_last()));
        assert(x.add(y).last() == y.last());
        lemma_cat_add(x, y.drop_last());
        assert(cat(x).add(cat(y.drop_last())).add(rev_seq(y.last().1)) =~= cat(x).add(cat(y.drop_last()).add(rev_seq(y.last().1))));
    }
}
pub proof fn lemma_cat_one(e: (JsonValue, Seq<Context>))
    ensures cat(seq![e]) == rev_seq(e.1),
{
    reveal_with_fuel(cat, 2);
    assert(seq![e].drop_last() =~= Seq::<(JsonValue, Seq<Context>)>::empty());
    assert(seq![e].last() == e);
    assert(cat(seq![e]) =~= rev_seq(e.1));
}
pub proof fn lemma_emit_from_is_cat(asc: bool, b: Bk, i: int)
    requires 0 <= i <= b.len(),
    ensures emit_from(asc, b, i) == cat(ord(asc, b).skip(i)),
    decreases b.len() - i,
{
    let s = ord(asc, b);
    if i >= b.len() { assert(s.skip(i) =~= Seq::<(JsonValue, Seq<Context>)>::empty()); }
    else {
        lemma_emit_from_is_cat(asc, b, i + 1);
        assert(s.skip(i) =~= seq![s[i]].add(s.skip(i + 1)));
        lemma_cat_add(seq![s[i]], s.skip(i + 1));
        lemma_cat_one(s[i]);
        assert(s[i] == b[if asc { i } else { b.len() - 1 - i }]);
    }
}
pub proof fn lemma_emit_is_cat(asc: bool, b: Bk)
    ensures emit(asc, b) == cat(ord(asc, b)),
{
    lemma_emit_from_is_cat(asc, b, 0);
    assert(ord(asc, b).skip(0) =~= ord(asc, b));
}
// rev_seq of a deque with one more row at the front: that row is emitted last
pub proof fn lemma_rev_cons(c: Context, d: Seq<Context>)
    ensures rev_seq(seq![c].add(d)) == rev_seq(d).push(c),
    decreases d.len(),
{
    let x = seq![c].add(d);
    if d.len() == 0 {
        reveal_with_fuel(rev_seq, 2);
        assert(x =~= seq![c]);
        assert(x.drop_last() =~= Seq::<Context>::empty());
        assert(x.last() == c);
        assert(rev_seq(x) =~= seq![c]);
        assert(rev_seq(d).push(c) =~= seq![c]);
    } else {
        assert(x.last() == d.last());
        assert(x.drop_last() =~= seq![c].add(d.drop_last()));
        lemma_rev_cons(c, d.drop_last());
        assert(seq![d.last()].add(rev_seq(d.drop_last()).push(c)) =~= seq![d.last()].add(rev_seq(d.drop_last())).push(c));
    }
}
// every row of an emission comes from one of the buckets
pub proof fn lemma_rev_all(d: Seq<Context>, p: spec_fn(Context) -> bool)
    requires forall|m: int| 0 <= m < d.len() ==> p(#[trigger] d[m]),
    ensures forall|j: int| 0 <= j < rev_seq(d).len() ==> p(#[trigger] rev_seq(d)[j]),
    decreases d.len(),
{
    if d.len() > 0 {
        assert forall|m: int| 0 <= m < d.drop_last().len() implies p(#[trigger] d.drop_last()[m]) by { assert(d.drop_last()[m] == d[m]); }
        lemma_rev_all(d.drop_last(), p);
        assert(p(d[d.len() - 1]));
        let r = rev_seq(d);
        assert(r == seq![d.last()].add(rev_seq(d.drop_last())));
        assert forall|j: int| 0 <= j < r.len() implies p(#[trigger] r[j]) by {
            if j == 0 { assert(r[0] == d.last()); } else { assert(r[j] == rev_seq(d.drop_last())[j - 1]); }
        }
    }
}
pub proof fn lemma_cat_all(s: Bk, p: spec_fn(Context) -> bool)
    requires forall|i: int, m: int| 0 <= i < s.len() && 0 <= m < s[i].1.len() ==> p(#[trigger] s[i].1[m]),
    ensures forall|j: int| 0 <= j < cat(s).len() ==> p(#[trigger] cat(s)[j]),
    decreases s.len(),
{
    if s.len() > 0 {
        assert forall|i: int, m: int| 0 <= i < s.drop_last().len() && 0 <= m < s.drop_last()[i].1.len() implies p(#[trigger] s.drop_last()[i].1[m]) by { assert(s.drop_last()[i] == s[i]); }
        lemma_cat_all(s.drop_last(), p);
        assert forall|m: int| 0 <= m < s.last().1.len() implies p(#[trigger] s.last().1[m]) by { assert(s.last() == s[s.len() - 1]); }
        lemma_rev_all(s.last().1, p);
        let a = cat(s.drop_last()); let r = rev_seq(s.last().1);
        assert(cat(s) == a.add(r));
        assert forall|j: int| 0 <= j < cat(s).len() implies p(#[trigger] cat(s)[j]) by {
            if j < a.len() { assert(cat(s)[j] == a[j]); } else { assert(cat(s)[j] == r[j - a.len()]); }
        }
    }
}
// ---- inserting into A ++ B when every row of A stays before the newcomer and no row of B does ----
pub proof fn lemma_ins_split(asc: bool, g: Rc<dyn Get>, a: Seq<Context>, b: Seq<Context>, c: Context)
    requires
        forall|j: int| 0 <= j < a.len() ==> stays_before(asc, key_of(g, #[trigger] a[j]), key_of(g, c)),
        forall|j: int| 0 <= j < b.len() ==> !stays_before(asc, key_of(g, #[trigger] b[j]), key_of(g, c)),
    ensures ins(asc, g, a.add(b), c) == a.push(c).add(b),
    decreases b.len(),
{
    let l = a.add(b);
    if b.len() == 0 {
        assert(l =~= a);
        assert(a.push(c).add(b) =~= a.push(c));
        if a.len() == 0 { assert(a.push(c) =~= seq![c]); } else { assert(stays_before(asc, key_of(g, a[a.len() - 1]), key_of(g, c))); }
    } else {
        assert(l.last() == b[b.len() - 1]);
        assert(l.drop_last() =~= a.add(b.drop_last()));
        assert forall|j: int| 0 <= j < b.drop_last().len() implies !stays_before(asc, key_of(g, #[trigger] b.drop_last()[j]), key_of(g, c)) by { assert(b.drop_last()[j] == b[j]); }
        lemma_ins_split(asc, g, a, b.drop_last(), c);
        assert(a.push(c).add(b.drop_last()).push(b.last()) =~= a.push(c).add(b));
    }
}
// ---- buckets: the invariant of the machine ----
pub open spec fn bk_inv(g: Rc<dyn Get>, b: Bk) -> bool {
    &&& forall|i: int, j: int| 0 <= i < j < b.len() ==> klt(#[trigger] b[i].0, #[trigger] b[j].0)
    &&& forall|i: int, m: int| 0 <= i < b.len() && 0 <= m < b[i].1.len() ==> g.get_spec(&#[trigger] b[i].1[m]) is Some && keq(b[i].0, key_of(g, b[i].1[m]))
}
// with strictly ascending keys, the rank of k (the number of keys below it) splits the keys: below k before it, not below from it on
pub proof fn lemma_rank_split(keys: Seq<JsonValue>, k: JsonValue)
    requires key_order_total(), forall|i: int, j: int| 0 <= i < j < keys.len() ==> klt(#[trigger] keys[i], #[trigger] keys[j]),
    ensures 0 <= bt_rank(keys, k) <= keys.len(),
        forall|i: int| 0 <= i < bt_rank(keys, k) ==> klt(#[trigger] keys[i], k),
        forall|i: int| bt_rank(keys, k) <= i < keys.len() ==> !klt(#[trigger] keys[i], k),
    decreases keys.len(),
{
    if keys.len() > 0 {
        let dl = keys.drop_last();
        assert forall|i: int, j: int| 0 <= i < j < dl.len() implies klt(#[trigger] dl[i], #[trigger] dl[j]) by { assert(dl[i] == keys[i] && dl[j] == keys[j]); }
        lemma_rank_split(dl, k);
        let r = bt_rank(dl, k);
        if klt(keys.last(), k) {
            // then every key is below k, so the rank of the shorter list is its length
            if r < dl.len() {
                assert(!klt(dl[r], k));
                assert(dl[r] == keys[r]);
                assert(klt(keys[r], keys[keys.len() - 1]));
                lemma_k_lt_trans(keys[r], keys[keys.len() - 1], k);
                assert(klt(keys[r], k));
            }
            assert forall|i: int| 0 <= i < r + 1 implies klt(#[trigger] keys[i], k) by { if i < dl.len() { assert(keys[i] == dl[i]); } }
        } else {
            assert forall|i: int| 0 <= i < r implies klt(#[trigger] keys[i], k) by { assert(keys[i] == dl[i]); }
            assert forall|i: int| r <= i < keys.len() implies !klt(#[trigger] keys[i], k) by { if i < dl.len() { assert(keys[i] == dl[i]); } }
        }
    }
}
// ---- emission after a bucket is replaced / a bucket is inserted ----
pub proof fn lemma_cat_update(s: Bk, q: int, e: (JsonValue, Seq<Context>))
    requires 0 <= q < s.len(),
    ensures cat(s.update(q, e)) == cat(s.take(q)).add(rev_seq(e.1)).add(cat(s.skip(q + 1))),
        cat(s) == cat(s.take(q)).add(rev_seq(s[q].1)).add(cat(s.skip(q + 1))),
{
    let u = s.update(q, e);
    assert(u =~= s.take(q).add(seq![e]).add(s.skip(q + 1)));
    lemma_cat_add(s.take(q).add(seq![e]), s.skip(q + 1));
    lemma_cat_add(s.take(q), seq![e]);
    lemma_cat_one(e);
    assert(s =~= s.take(q).add(seq![s[q]]).add(s.skip(q + 1)));
    lemma_cat_add(s.take(q).add(seq![s[q]]), s.skip(q + 1));
    lemma_cat_add(s.take(q), seq![s[q]]);
    lemma_cat_one(s[q]);
}
pub proof fn lemma_cat_insert(s: Bk, q: int, e: (JsonValue, Seq<Context>))
    requires 0 <= q <= s.len(),
    ensures cat(s.insert(q, e)) == cat(s.take(q)).add(rev_seq(e.1)).add(cat(s.skip(q))),
        cat(s) == cat(s.take(q)).add(cat(s.skip(q))),
{
    assert(s.insert(q, e) =~= s.take(q).add(seq![e]).add(s.skip(q)));
    lemma_cat_add(s.take(q).add(seq![e]), s.skip(q));
    lemma_cat_add(s.take(q), seq![e]);
    lemma_cat_one(e);
    assert(s =~= s.take(q).add(s.skip(q)));
    lemma_cat_add(s.take(q), s.skip(q));
}
pub open spec fn row_stays(asc: bool, g: Rc<dyn Get>, kc: JsonValue) -> spec_fn(Context) -> bool { |x: Context| stays_before(asc, key_of(g, x), kc) }
pub open spec fn row_goes(asc: bool, g: Rc<dyn Get>, kc: JsonValue) -> spec_fn(Context) -> bool { |x: Context| !stays_before(asc, key_of(g, x), kc) }
pub proof fn lemma_cat_take_all(s: Bk, q: int, p: spec_fn(Context) -> bool)
    requires 0 <= q <= s.len(), forall|i: int, m: int| 0 <= i < q && 0 <= m < s[i].1.len() ==> p(#[trigger] s[i].1[m]),
    ensures forall|j: int| 0 <= j < cat(s.take(q)).len() ==> p(#[trigger] cat(s.take(q))[j]),
{
    let t = s.take(q);
    assert forall|i: int, m: int| 0 <= i < t.len() && 0 <= m < t[i].1.len() implies p(#[trigger] t[i].1[m]) by { assert(t[i] == s[i]); }
    lemma_cat_all(t, p);
}
pub proof fn lemma_cat_skip_all(s: Bk, q: int, p: spec_fn(Context) -> bool)
    requires 0 <= q <= s.len(), forall|i: int, m: int| q <= i < s.len() && 0 <= m < s[i].1.len() ==> p(#[trigger] s[i].1[m]),
    ensures forall|j: int| 0 <= j < cat(s.skip(q)).len() ==> p(#[trigger] cat(s.skip(q))[j]),
{
    let t = s.skip(q);
    assert forall|i: int, m: int| 0 <= i < t.len() && 0 <= m < t[i].1.len() implies p(#[trigger] t[i].1[m]) by { assert(t[i] == s[i + q]); }
    lemma_cat_all(t, p);
}
// how a row of bucket i compares with the newcomer's key k, given how the bucket's key compares with k
pub proof fn lemma_row_vs_key(g: Rc<dyn Get>, bk: JsonValue, x: Context, k: JsonValue)
    requires key_order_total(), keq(bk, key_of(g, x)),
    ensures klt(bk, k) ==> klt(key_of(g, x), k) && !klt(k, key_of(g, x)), klt(k, bk) ==> klt(k, key_of(g, x)) && !klt(key_of(g, x), k),
        keq(bk, k) ==> !klt(key_of(g, x), k) && !klt(k, key_of(g, x)),
{
    let kx = key_of(g, x);
    lemma_k_sym(bk, kx);
    if klt(bk, k) { lemma_k_eq_lt(kx, bk, k); lemma_k_lt_excl(kx, k); }
    if klt(k, bk) { lemma_k_lt_eq(k, bk, kx); lemma_k_lt_excl(k, kx); }
    if keq(bk, k) {
        lemma_k_eq_trans(kx, bk, k);
        if klt(kx, k) { lemma_k_lt_excl(kx, k); }
        if klt(k, kx) { lemma_k_lt_excl(k, kx); }
    }
}
// ONE STEP: adding a keyed row to the buckets is inserting it into the emission by stable insertion
pub proof fn lemma_keys_sorted(g: Rc<dyn Get>, b: Bk)
    requires bk_inv(g, b),
    ensures forall|i: int, j: int| 0 <= i < j < bk_keys(b).len() ==> klt(#[trigger] bk_keys(b)[i], #[trigger] bk_keys(b)[j]),
{
    let keys = bk_keys(b);
    assert forall|i: int, j: int| 0 <= i < j < keys.len() implies klt(#[trigger] keys[i], #[trigger] keys[j]) by { assert(keys[i] == b[i].0 && keys[j] == b[j].0); }
}
// the rows emitted before / after position q of the emission order s, relative to a newcomer with key k, when the buckets before q
// have keys on the "stays" side of k and the buckets from q2 on have keys on the other side
pub open spec fn side_before(asc: bool, bk: JsonValue, k: JsonValue) -> bool { if asc { klt(bk, k) } else { klt(k, bk) } }
pub open spec fn side_after(asc: bool, bk: JsonValue, k: JsonValue) -> bool { if asc { klt(k, bk) } else { klt(bk, k) } }
pub proof fn lemma_sides(asc: bool, g: Rc<dyn Get>, s: Bk, q: int, q2: int, k: JsonValue)
    requires key_order_total(), bk_inv(g, if asc { s } else { s.reverse() }), 0 <= q <= q2 <= s.len(),
        forall|i: int| 0 <= i < q ==> side_before(asc, #[trigger] s[i].0, k),
        forall|i: int| q2 <= i < s.len() ==> side_after(asc, #[trigger] s[i].0, k),
    ensures
        forall|j: int| 0 <= j < cat(s.take(q)).len() ==> stays_before(asc, key_of(g, #[trigger] cat(s.take(q))[j]), k),
        forall|j: int| 0 <= j < cat(s.skip(q2)).len() ==> !stays_before(asc, key_of(g, #[trigger] cat(s.skip(q2))[j]), k),
{
    let b = if asc { s } else { s.reverse() };
    let n = s.len() as int;
    let stay = row_stays(asc, g, k);
    let go = row_goes(asc, g, k);
    assert forall|i: int, m: int| 0 <= i < s.len() && 0 <= m < s[i].1.len() implies keq(s[i].0, key_of(g, #[trigger] s[i].1[m])) by {
        let bi = if asc { i } else { n - 1 - i };
        assert(s[i] == b[bi]);
        assert(keq(b[bi].0, key_of(g, b[bi].1[m])));
    }
    assert forall|i: int, m: int| 0 <= i < q && 0 <= m < s[i].1.len() implies stay(#[trigger] s[i].1[m]) by {
        assert(side_before(asc, s[i].0, k));
        lemma_row_vs_key(g, s[i].0, s[i].1[m], k);
    }
    lemma_cat_take_all(s, q, stay);
    assert forall|j: int| 0 <= j < cat(s.take(q)).len() implies stays_before(asc, key_of(g, #[trigger] cat(s.take(q))[j]), k) by { assert(stay(cat(s.take(q))[j])); }
    assert forall|i: int, m: int| q2 <= i < s.len() && 0 <= m < s[i].1.len() implies go(#[trigger] s[i].1[m]) by {
        assert(side_after(asc, s[i].0, k));
        lemma_row_vs_key(g, s[i].0, s[i].1[m], k);
    }
    lemma_cat_skip_all(s, q2, go);
    assert forall|j: int| 0 <= j < cat(s.skip(q2)).len() implies !stays_before(asc, key_of(g, #[trigger] cat(s.skip(q2))[j]), k) by { assert(go(cat(s.skip(q2))[j])); }
}
pub proof fn lemma_bk_add_found(asc: bool, g: Rc<dyn Get>, b: Bk, c: Context)
    requires key_order_total(), bk_inv(g, b), g.get_spec(&c) is Some, bt_found(bk_keys(b), key_of(g, c)),
    ensures bk_inv(g, bk_add(b, key_of(g, c), c)), emit(asc, bk_add(b, key_of(g, c), c)) == ins(asc, g, emit(asc, b), c),
{
    let k = key_of(g, c);
    let keys = bk_keys(b);
    let n = b.len() as int;
    let b2 = bk_add(b, k, c);
    let s = ord(asc, b);
    lemma_emit_is_cat(asc, b);
    lemma_emit_is_cat(asc, b2);
    let p = bt_idx(keys, k);
    assert(keq(keys[p], k) && keys[p] == b[p].0);
    lemma_k_sym(b[p].0, k);
    let d = b[p].1;
    let e = (b[p].0, seq![c].add(d));
    assert(b2 == b.update(p, e));
    // the invariant
    assert forall|i: int, m: int| 0 <= i < b2.len() && 0 <= m < b2[i].1.len() implies g.get_spec(&#[trigger] b2[i].1[m]) is Some && keq(b2[i].0, key_of(g, b2[i].1[m])) by {
        if i == p { if m == 0 { assert(b2[i].1[m] == c); } else { assert(b2[i].1[m] == d[m - 1]); assert(keq(b[p].0, key_of(g, b[p].1[m - 1]))); } }
        else { assert(b2[i] == b[i]); }
    }
    assert forall|i: int, j: int| 0 <= i < j < b2.len() implies klt(#[trigger] b2[i].0, #[trigger] b2[j].0) by { assert(b2[i].0 == b[i].0 && b2[j].0 == b[j].0); }
    // the emission
    let q = if asc { p } else { n - 1 - p };
    lemma_ord_update(asc, b, p, e);
    assert(ord(asc, b2) == s.update(q, e));
    assert(s[q] == b[p]);
    lemma_cat_update(s, q, e);
    lemma_rev_cons(c, d);
    let a1 = cat(s.take(q));
    let a = a1.add(rev_seq(d));
    let bb = cat(s.skip(q + 1));
    assert(cat(s.update(q, e)) =~= a.push(c).add(bb));
    assert(cat(s) =~= a.add(bb));
    assert(b == (if asc { s } else { s.reverse() })) by { if !asc { assert(b.reverse().reverse() =~= b); } }
    assert forall|i: int| 0 <= i < q implies side_before(asc, #[trigger] s[i].0, k) by {
        let bi = if asc { i } else { n - 1 - i };
        assert(s[i] == b[bi]);
        if asc { assert(klt(b[bi].0, b[p].0)); lemma_k_lt_eq(b[bi].0, b[p].0, k); } else { assert(klt(b[p].0, b[bi].0)); lemma_k_eq_lt(k, b[p].0, b[bi].0); }
    }
    assert forall|i: int| q + 1 <= i < s.len() implies side_after(asc, #[trigger] s[i].0, k) by {
        let bi = if asc { i } else { n - 1 - i };
        assert(s[i] == b[bi]);
        if asc { assert(klt(b[p].0, b[bi].0)); lemma_k_eq_lt(k, b[p].0, b[bi].0); } else { assert(klt(b[bi].0, b[p].0)); lemma_k_lt_eq(b[bi].0, b[p].0, k); }
    }
    lemma_sides(asc, g, s, q, q + 1, k);
    let stay = row_stays(asc, g, k);
    assert forall|m: int| 0 <= m < d.len() implies stay(#[trigger] d[m]) by {
        assert(keq(b[p].0, key_of(g, b[p].1[m])));
        lemma_row_vs_key(g, b[p].0, d[m], k);
    }
    lemma_rev_all(d, stay);
    assert forall|j: int| 0 <= j < a.len() implies stays_before(asc, key_of(g, #[trigger] a[j]), k) by {
        if j < a1.len() { assert(a[j] == a1[j]); } else { assert(a[j] == rev_seq(d)[j - a1.len()]); assert(stay(rev_seq(d)[j - a1.len()])); }
    }
    lemma_ins_split(asc, g, a, bb, c);
}
pub proof fn lemma_ord_insert(asc: bool, b: Bk, p: int, e: (JsonValue, Seq<Context>))
    requires 0 <= p <= b.len(),
    ensures ord(asc, b.insert(p, e)) == ord(asc, b).insert(if asc { p } else { b.len() - p }, e),
{
    if !asc {
        let n = b.len() as int;
        let x = b.insert(p, e).reverse();
        let y = b.reverse().insert(n - p, e);
        assert(x.len() == y.len());
        assert forall|i: int| 0 <= i < x.len() implies x[i] == y[i] by {
            let bi = n - i;   // index into b.insert(p, e), which has n + 1 elements
            assert(x[i] == b.insert(p, e)[bi]);
        }
        assert(x =~= y);
    }
}
pub proof fn lemma_ord_update(asc: bool, b: Bk, p: int, e: (JsonValue, Seq<Context>))
    requires 0 <= p < b.len(),
    ensures ord(asc, b.update(p, e)) == ord(asc, b).update(if asc { p } else { b.len() - 1 - p }, e),
{
    if !asc { assert(b.update(p, e).reverse() =~= b.reverse().update(b.len() - 1 - p, e)); }
}
// a new bucket at the rank of its key keeps the buckets strictly ascending
pub proof fn lemma_bk_add_new_inv(g: Rc<dyn Get>, b: Bk, c: Context)
    requires key_order_total(), bk_inv(g, b), g.get_spec(&c) is Some, !bt_found(bk_keys(b), key_of(g, c)),
    ensures bk_inv(g, bk_add(b, key_of(g, c), c)), 0 <= bt_rank(bk_keys(b), key_of(g, c)) <= b.len(),
        bk_add(b, key_of(g, c), c) == b.insert(bt_rank(bk_keys(b), key_of(g, c)), (key_of(g, c), seq![c])),
        forall|i: int| 0 <= i < bt_rank(bk_keys(b), key_of(g, c)) ==> klt(#[trigger] b[i].0, key_of(g, c)),
        forall|i: int| bt_rank(bk_keys(b), key_of(g, c)) <= i < b.len() ==> klt(key_of(g, c), #[trigger] b[i].0),
{
    let k = key_of(g, c);
    let keys = bk_keys(b);
    let n = b.len() as int;
    let b2 = bk_add(b, k, c);
    lemma_keys_sorted(g, b);
    lemma_rank_split(keys, k);
    let p = bt_rank(keys, k);
    let e = (k, seq![c]);
    assert(b2 == b.insert(p, e));
    assert forall|i: int| p <= i < n implies klt(k, #[trigger] b[i].0) by {
        assert(keys[i] == b[i].0);
        assert(!klt(keys[i], k));
        assert(!keq(keys[i], k));
        lemma_k_trich(keys[i], k);
    }
    assert forall|i: int| 0 <= i < p implies klt(#[trigger] b[i].0, k) by { assert(keys[i] == b[i].0); }
    lemma_k_refl(k);
    assert forall|i: int, m: int| 0 <= i < b2.len() && 0 <= m < b2[i].1.len() implies g.get_spec(&#[trigger] b2[i].1[m]) is Some && keq(b2[i].0, key_of(g, b2[i].1[m])) by {
        if i < p { assert(b2[i] == b[i]); } else if i == p { assert(b2[i] == e); assert(b2[i].1[m] == c); } else { assert(b2[i] == b[i - 1]); }
    }
    assert forall|i: int, j: int| 0 <= i < j < b2.len() implies klt(#[trigger] b2[i].0, #[trigger] b2[j].0) by {
        if j < p { assert(b2[i] == b[i] && b2[j] == b[j]); }
        else if j == p { assert(b2[i] == b[i] && b2[j] == e); }
        else if i < p { assert(b2[i] == b[i] && b2[j] == b[j - 1]); }
        else if i == p { assert(b2[i] == e && b2[j] == b[j - 1]); }
        else { assert(b2[i] == b[i - 1] && b2[j] == b[j - 1]); }
    }
}
pub proof fn lemma_bk_add_new(asc: bool, g: Rc<dyn Get>, b: Bk, c: Context)
    requires key_order_total(), bk_inv(g, b), g.get_spec(&c) is Some, !bt_found(bk_keys(b), key_of(g, c)),
    ensures bk_inv(g, bk_add(b, key_of(g, c), c)), emit(asc, bk_add(b, key_of(g, c), c)) == ins(asc, g, emit(asc, b), c),
{
    let k = key_of(g, c);
    let n = b.len() as int;
    let b2 = bk_add(b, k, c);
    let s = ord(asc, b);
    lemma_bk_add_new_inv(g, b, c);
    lemma_emit_is_cat(asc, b);
    lemma_emit_is_cat(asc, b2);
    let p = bt_rank(bk_keys(b), k);
    let e = (k, seq![c]);
    let q = if asc { p } else { n - p };
    lemma_ord_insert(asc, b, p, e);
    assert(ord(asc, b2) == s.insert(q, e));
    lemma_cat_insert(s, q, e);
    assert(rev_seq(seq![c]) =~= seq![c]) by {
        reveal_with_fuel(rev_seq, 2);
        assert(seq![c].drop_last() =~= Seq::<Context>::empty());
        assert(seq![c].last() == c);
    }
    let a = cat(s.take(q));
    let bb = cat(s.skip(q));
    assert(cat(s.insert(q, e)) =~= a.push(c).add(bb));
    assert(b == (if asc { s } else { s.reverse() })) by { if !asc { assert(b.reverse().reverse() =~= b); } }
    assert forall|i: int| 0 <= i < q implies side_before(asc, #[trigger] s[i].0, k) by {
        let bi = if asc { i } else { n - 1 - i };
        assert(s[i] == b[bi]);
    }
    assert forall|i: int| q <= i < s.len() implies side_after(asc, #[trigger] s[i].0, k) by {
        let bi = if asc { i } else { n - 1 - i };
        assert(s[i] == b[bi]);
    }
    lemma_sides(asc, g, s, q, q, k);
    lemma_ins_split(asc, g, a, bb, c);
}
pub proof fn lemma_bk_add_step(asc: bool, g: Rc<dyn Get>, b: Bk, c: Context)
    requires key_order_total(), bk_inv(g, b), g.get_spec(&c) is Some,
    ensures bk_inv(g, bk_add(b, key_of(g, c), c)), emit(asc, bk_add(b, key_of(g, c), c)) == ins(asc, g, emit(asc, b), c),
{
    if bt_found(bk_keys(b), key_of(g, c)) { lemma_bk_add_found(asc, g, b, c); } else { lemma_bk_add_new(asc, g, b, c); }
}
// ---- THE THEOREM (C07): what the sorter emits is the stable insertion sort of the rows that have a key ----
pub proof fn lemma_sort_all_is_isort(asc: bool, g: Rc<dyn Get>, b: Bk, r: Seq<Context>)
    requires key_order_total(), bk_inv(g, b),
    ensures emit(asc, sort_all(g, asc, b, None, r)) == isort(asc, g, emit(asc, b), r), bk_inv(g, sort_all(g, asc, b, None, r)),
    decreases r.len(),
{
    if r.len() > 0 {
        let st = sort_step(g, asc, b, None, r[0]);
        if g.get_spec(&r[0]) is None { lemma_sort_all_is_isort(asc, g, b, tail(r)); }
        else {
            lemma_bk_add_step(asc, g, b, r[0]);
            assert(st.0 == bk_add(b, key_of(g, r[0]), r[0]) && st.1 is None);
            lemma_sort_all_is_isort(asc, g, st.0, tail(r));
        }
    }
}
pub proof fn lemma_sort_spec_is_isort(text: Seq<char>, rows: Seq<Context>)
    requires key_order_total(),
    ensures sort_spec(text, None, rows) == isort(sort_asc_of(text), getter_of(text), Seq::empty(), rows), // @obl THY.C07.bucket_machine_is_stable_insertion_sort : C07 C03
{
    let e = Seq::<(JsonValue, Seq<Context>)>::empty();
    assert(bk_inv(getter_of(text), e));
    lemma_sort_all_is_isort(sort_asc_of(text), getter_of(text), e, rows);
    lemma_emit_is_cat(sort_asc_of(text), e);
    assert(ord(sort_asc_of(text), e) =~= e);
}
// ... and the stable insertion sort is sorted: non-decreasing keys for ASC, non-increasing for DESC
pub open spec fn sorted_rows(asc: bool, g: Rc<dyn Get>, l: Seq<Context>) -> bool {
    forall|i: int, j: int| 0 <= i < j < l.len() ==> stays_before(asc, key_of(g, #[trigger] l[i]), key_of(g, #[trigger] l[j]))
}
pub proof fn lemma_k_le_trans(asc: bool, a: JsonValue, b: JsonValue, c: JsonValue)
    requires key_order_total(), stays_before(asc, a, b), stays_before(asc, b, c),
    ensures stays_before(asc, a, c),
{
    // asc: !(b < a) && !(c < b) ==> !(c < a)
    let (x, y, z) = if asc { (a, b, c) } else { (c, b, a) };
    // asc: !klt(y, x), !klt(z, y) |- !klt(z, x);  desc: x = c, y = b, z = a: !klt(a, b) = !klt(z, y), !klt(b, c) = !klt(y, x)
    if klt(z, x) {
        lemma_k_trich(x, y);
        lemma_k_trich(y, z);
        if klt(x, y) { lemma_k_lt_trans(z, x, y); }
        else if keq(x, y) { lemma_k_lt_eq(z, x, y); }
    }
}
pub proof fn lemma_ins_sorted(asc: bool, g: Rc<dyn Get>, l: Seq<Context>, c: Context)
    requires key_order_total(), sorted_rows(asc, g, l),
    ensures sorted_rows(asc, g, ins(asc, g, l, c)), ins(asc, g, l, c).len() == l.len() + 1,
        forall|j: int| 0 <= j < ins(asc, g, l, c).len() ==> (ins(asc, g, l, c)[j] == c || exists|i: int| 0 <= i < l.len() && #[trigger] ins(asc, g, l, c)[j] == l[i]),
    decreases l.len(),
{
    let kc = key_of(g, c);
    let r = ins(asc, g, l, c);
    if l.len() == 0 { }
    else if stays_before(asc, key_of(g, l.last()), kc) {
        assert forall|i: int, j: int| 0 <= i < j < r.len() implies stays_before(asc, key_of(g, #[trigger] r[i]), key_of(g, #[trigger] r[j])) by {
            if j < l.len() { assert(r[i] == l[i] && r[j] == l[j]); }
            else {
                assert(r[j] == c && r[i] == l[i]);
                if i < l.len() - 1 { assert(stays_before(asc, key_of(g, l[i]), key_of(g, l[l.len() - 1]))); lemma_k_le_trans(asc, key_of(g, l[i]), key_of(g, l.last()), kc); }
            }
        }
        assert forall|j: int| 0 <= j < r.len() implies (r[j] == c || exists|i: int| 0 <= i < l.len() && #[trigger] r[j] == l[i]) by { if j < l.len() { assert(r[j] == l[j]); } }
    } else {
        let dl = l.drop_last();
        assert forall|i: int, j: int| 0 <= i < j < dl.len() implies stays_before(asc, key_of(g, #[trigger] dl[i]), key_of(g, #[trigger] dl[j])) by { assert(dl[i] == l[i] && dl[j] == l[j]); }
        lemma_ins_sorted(asc, g, dl, c);
        let r0 = ins(asc, g, dl, c);
        assert(r == r0.push(l.last()));
        // the newcomer goes before the last row: c < last (asc), so c "stays before" it
        lemma_k_trich(kc, key_of(g, l.last()));
        assert(stays_before(asc, kc, key_of(g, l.last()))) by {
            if asc { assert(klt(kc, key_of(g, l.last()))); lemma_k_lt_excl(kc, key_of(g, l.last())); } else { assert(klt(key_of(g, l.last()), kc)); lemma_k_lt_excl(key_of(g, l.last()), kc); }
        }
        assert forall|i: int, j: int| 0 <= i < j < r.len() implies stays_before(asc, key_of(g, #[trigger] r[i]), key_of(g, #[trigger] r[j])) by {
            if j < r0.len() { assert(r[i] == r0[i] && r[j] == r0[j]); }
            else {
                assert(r[j] == l.last() && r[i] == r0[i]);
                if r0[i] == c { } else {
                    let i0 = choose|i0: int| 0 <= i0 < dl.len() && r0[i] == dl[i0];
                    assert(dl[i0] == l[i0]);
                    assert(stays_before(asc, key_of(g, l[i0]), key_of(g, l[l.len() - 1])));
                }
            }
        }
        assert forall|j: int| 0 <= j < r.len() implies (r[j] == c || exists|i: int| 0 <= i < l.len() && #[trigger] r[j] == l[i]) by {
            if j < r0.len() {
                assert(r[j] == r0[j]);
                if r0[j] != c { let i0 = choose|i0: int| 0 <= i0 < dl.len() && r0[j] == dl[i0]; assert(dl[i0] == l[i0]); }
            } else { assert(r[j] == l[l.len() - 1]); }
        }
    }
}
pub proof fn lemma_isort_sorted(asc: bool, g: Rc<dyn Get>, acc: Seq<Context>, r: Seq<Context>)
    requires key_order_total(), sorted_rows(asc, g, acc),
    ensures sorted_rows(asc, g, isort(asc, g, acc, r)), // @obl THY.C07.insertion_sort_sorted : C07
    decreases r.len(),
{
    if r.len() > 0 {
        if g.get_spec(&r[0]) is None { lemma_isort_sorted(asc, g, acc, tail(r)); }
        else { lemma_ins_sorted(asc, g, acc, r[0]); lemma_isort_sorted(asc, g, ins(asc, g, acc, r[0]), tail(r)); }
    }
}
// ================= C08: the top-N shortcut =================
pub open spec fn bk_ne(b: Bk) -> bool { forall|i: int| 0 <= i < b.len() ==> (#[trigger] b[i]).1.len() > 0 }
pub proof fn lemma_bk_add_ne(b: Bk, k: JsonValue, c: Context)
    requires bk_ne(b), 0 <= bt_rank(bk_keys(b), k) <= b.len(),
    ensures bk_ne(bk_add(b, k, c)),
{
    let keys = bk_keys(b);
    let b2 = bk_add(b, k, c);
    if bt_found(keys, k) {
        let p = bt_idx(keys, k);
        assert forall|i: int| 0 <= i < b2.len() implies (#[trigger] b2[i]).1.len() > 0 by { if i != p { assert(b2[i] == b[i]); } }
    } else {
        let p = bt_rank(keys, k);
        assert forall|i: int| 0 <= i < b2.len() implies (#[trigger] b2[i]).1.len() > 0 by {
            if i < p { assert(b2[i] == b[i]); } else if i > p { assert(b2[i] == b[i - 1]); }
        }
    }
}
pub proof fn lemma_rev_len(d: Seq<Context>)
    ensures rev_seq(d).len() == d.len(),
    decreases d.len(),
{
    if d.len() > 0 { lemma_rev_len(d.drop_last()); }
}
// dropping the row emitted last: the emission loses exactly its last row
pub proof fn lemma_remove_last(asc: bool, g: Rc<dyn Get>, b: Bk)
    requires bk_inv(g, b), bk_ne(b), b.len() > 0,
    ensures bk_inv(g, bk_remove_last(asc, b)), bk_ne(bk_remove_last(asc, b)),
        emit(asc, b).len() > 0, emit(asc, bk_remove_last(asc, b)) == emit(asc, b).drop_last(),
{
    let n = b.len() as int;
    let i = if asc { n - 1 } else { 0 };
    let s = ord(asc, b);
    let b2 = bk_remove_last(asc, b);
    lemma_emit_is_cat(asc, b);
    lemma_emit_is_cat(asc, b2);
    assert(s.last() == b[i]);
    let bucket = b[i].1;
    assert(bucket.len() > 0);
    let d = bucket.subrange(1, bucket.len() as int);
    assert(bucket =~= seq![bucket[0]].add(d));
    lemma_rev_cons(bucket[0], d);
    lemma_rev_len(d);
    assert(rev_seq(bucket) == rev_seq(d).push(bucket[0]));
    assert(cat(s) == cat(s.drop_last()).add(rev_seq(bucket)));
    assert(cat(s).drop_last() =~= cat(s.drop_last()).add(rev_seq(d)));
    if d.len() == 0 {
        assert(b2 == b.remove(i));
        assert(ord(asc, b2) =~= s.drop_last());
        assert(rev_seq(d) =~= Seq::<Context>::empty());
        assert(cat(s.drop_last()).add(rev_seq(d)) =~= cat(s.drop_last()));
        assert forall|x: int, y: int| 0 <= x < y < b2.len() implies klt(#[trigger] b2[x].0, #[trigger] b2[y].0) by {
            let bx = if x < i { x } else { x + 1 }; let by_ = if y < i { y } else { y + 1 };
            assert(b2[x] == b[bx] && b2[y] == b[by_]);
        }
        assert forall|x: int, m: int| 0 <= x < b2.len() && 0 <= m < b2[x].1.len() implies g.get_spec(&#[trigger] b2[x].1[m]) is Some && keq(b2[x].0, key_of(g, b2[x].1[m])) by {
            let bx = if x < i { x } else { x + 1 };
            assert(b2[x] == b[bx]);
        }
        assert forall|x: int| 0 <= x < b2.len() implies (#[trigger] b2[x]).1.len() > 0 by { let bx = if x < i { x } else { x + 1 }; assert(b2[x] == b[bx]); }
    } else {
        let e = (b[i].0, d);
        assert(b2 == b.update(i, e));
        assert(ord(asc, b2) =~= s.drop_last().push(e));
        assert(ord(asc, b2).drop_last() =~= s.drop_last());
        assert(ord(asc, b2).last() == e);
        assert forall|x: int, y: int| 0 <= x < y < b2.len() implies klt(#[trigger] b2[x].0, #[trigger] b2[y].0) by { assert(b2[x].0 == b[x].0 && b2[y].0 == b[y].0); }
        assert forall|x: int, m: int| 0 <= x < b2.len() && 0 <= m < b2[x].1.len() implies g.get_spec(&#[trigger] b2[x].1[m]) is Some && keq(b2[x].0, key_of(g, b2[x].1[m])) by {
            if x == i { assert(b2[x].1[m] == bucket[m + 1]); assert(keq(b[i].0, key_of(g, b[i].1[m + 1]))); } else { assert(b2[x] == b[x]); }
        }
        assert forall|x: int| 0 <= x < b2.len() implies (#[trigger] b2[x]).1.len() > 0 by { if x != i { assert(b2[x] == b[x]); } }
    }
}
// ---- the capped machine on lists ----
pub open spec fn cstep(asc: bool, g: Rc<dyn Get>, l: Seq<Context>, cap: Option<nat>, c: Context) -> (Seq<Context>, Option<nat>) {
    if g.get_spec(&c) is None { (l, cap) } else {
        let l1 = ins(asc, g, l, c);
        match cap { None => (l1, None), Some(n) => if n == 0 { (l1.drop_last(), Some(0nat)) } else { (l1, Some((n - 1) as nat)) } }
    }
}
pub open spec fn cisort(asc: bool, g: Rc<dyn Get>, l: Seq<Context>, cap: Option<nat>, r: Seq<Context>) -> Seq<Context>
    decreases r.len()
{
    if r.len() == 0 { l } else { let s = cstep(asc, g, l, cap, r[0]); cisort(asc, g, s.0, s.1, tail(r)) }
}
pub proof fn lemma_sort_all_capped(asc: bool, g: Rc<dyn Get>, b: Bk, cap: Option<nat>, r: Seq<Context>)
    requires key_order_total(), bk_inv(g, b), bk_ne(b),
    ensures emit(asc, sort_all(g, asc, b, cap, r)) == cisort(asc, g, emit(asc, b), cap, r),
    decreases r.len(),
{
    if r.len() > 0 {
        let c = r[0];
        let st = sort_step(g, asc, b, cap, c);
        if g.get_spec(&c) is None { lemma_sort_all_capped(asc, g, b, cap, tail(r)); }
        else {
            let k = key_of(g, c);
            lemma_bk_add_step(asc, g, b, c);
            lemma_keys_sorted(g, b);
            lemma_rank_split(bk_keys(b), k);
            lemma_bk_add_ne(b, k, c);
            let b1 = bk_add(b, k, c);
            if cap is Some && cap->0 == 0 {
                assert(b1.len() > 0) by { if bt_found(bk_keys(b), k) { assert(b1.len() == b.len()); let p = bt_idx(bk_keys(b), k); } else { assert(b1.len() == b.len() + 1); } }
                lemma_remove_last(asc, g, b1);
            }
            lemma_sort_all_capped(asc, g, st.0, st.1, tail(r));
        }
    }
}
// ---- on lists: keeping only the first N rows after every insertion == inserting everything and taking the first N at the end ----
pub proof fn lemma_ins_len(asc: bool, g: Rc<dyn Get>, l: Seq<Context>, c: Context)
    ensures ins(asc, g, l, c).len() == l.len() + 1,
    decreases l.len(),
{
    if l.len() > 0 && !stays_before(asc, key_of(g, l.last()), key_of(g, c)) { lemma_ins_len(asc, g, l.drop_last(), c); }
}
pub proof fn lemma_ins_take(asc: bool, g: Rc<dyn Get>, l: Seq<Context>, c: Context, n: int)
    requires key_order_total(), sorted_rows(asc, g, l), 0 <= n <= l.len(),
    ensures ins(asc, g, l.take(n), c).drop_last() == ins(asc, g, l, c).take(n),
    decreases l.len(),
{
    let kc = key_of(g, c);
    lemma_ins_len(asc, g, l, c);
    lemma_ins_len(asc, g, l.take(n), c);
    if l.len() == 0 {
        assert(l.take(n) =~= l);
        assert(ins(asc, g, l, c).drop_last() =~= ins(asc, g, l, c).take(0));
    } else if n == l.len() {
        assert(l.take(n) =~= l);
        if stays_before(asc, key_of(g, l.last()), kc) { assert(l.push(c).drop_last() =~= l.push(c).take(n)); }
        else {
            let r0 = ins(asc, g, l.drop_last(), c);
            lemma_ins_len(asc, g, l.drop_last(), c);
            assert(r0.push(l.last()).drop_last() =~= r0);
            assert(r0.push(l.last()).take(n) =~= r0);
        }
    } else {
        let dl = l.drop_last();
        assert(l.take(n) =~= dl.take(n));
        if stays_before(asc, key_of(g, l.last()), kc) {
            // every row of the prefix stays before the newcomer too (the list is sorted): the newcomer is appended, then cut off
            let t = l.take(n);
            assert forall|j: int| 0 <= j < t.len() implies stays_before(asc, key_of(g, #[trigger] t[j]), kc) by {
                assert(t[j] == l[j]);
                assert(stays_before(asc, key_of(g, l[j]), key_of(g, l[l.len() - 1])));
                lemma_k_le_trans(asc, key_of(g, l[j]), key_of(g, l.last()), kc);
            }
            lemma_ins_split(asc, g, t, Seq::empty(), c);
            assert(t.add(Seq::<Context>::empty()) =~= t);
            assert(t.push(c).add(Seq::<Context>::empty()) =~= t.push(c));
            assert(t.push(c).drop_last() =~= t);
            assert(l.push(c).take(n) =~= t);
        } else {
            assert forall|i: int, j: int| 0 <= i < j < dl.len() implies stays_before(asc, key_of(g, #[trigger] dl[i]), key_of(g, #[trigger] dl[j])) by { assert(dl[i] == l[i] && dl[j] == l[j]); }
            lemma_ins_take(asc, g, dl, c, n);
            lemma_ins_len(asc, g, dl, c);
            let r0 = ins(asc, g, dl, c);
            assert(r0.push(l.last()).take(n) =~= r0.take(n));
        }
    }
}
pub open spec fn imin(a: int, b: int) -> int { if a < b { a } else { b } }
// the capped list (lc, cap) tracks the uncapped list lu: it is its first N rows, and cap counts the room that is left
pub open spec fn tracks(lc: Seq<Context>, cap: Option<nat>, lu: Seq<Context>, n: int) -> bool {
    lc == lu.take(imin(n, lu.len() as int)) && cap == Some((n - lc.len()) as nat) && 0 <= n
}
pub proof fn lemma_cisort_is_prefix(asc: bool, g: Rc<dyn Get>, lc: Seq<Context>, cap: Option<nat>, lu: Seq<Context>, n: int, r: Seq<Context>)
    requires key_order_total(), sorted_rows(asc, g, lu), tracks(lc, cap, lu, n),
    ensures ({ let u = isort(asc, g, lu, r); cisort(asc, g, lc, cap, r) == u.take(imin(n, u.len() as int)) }),
    decreases r.len(),
{
    if r.len() > 0 {
        let c = r[0];
        if g.get_spec(&c) is None { lemma_cisort_is_prefix(asc, g, lc, cap, lu, n, tail(r)); }
        else {
            let lu1 = ins(asc, g, lu, c);
            lemma_ins_sorted(asc, g, lu, c);
            lemma_ins_len(asc, g, lu, c);
            lemma_ins_len(asc, g, lc, c);
            let st = cstep(asc, g, lc, cap, c);
            if lu.len() < n {
                assert(lu.take(lu.len() as int) =~= lu);
                assert(lc == lu);
                assert(cap->0 > 0);
                assert(st.0 == lu1);
                assert(lu1.take(lu1.len() as int) =~= lu1);
            } else {
                assert(cap->0 == 0);
                lemma_ins_take(asc, g, lu, c, n);
                assert(st.0 == lu1.take(n));
            }
            lemma_cisort_is_prefix(asc, g, st.0, st.1, lu1, n, tail(r));
        }
    }
}
// THE THEOREM (C08): a sorter that keeps only the first N rows emits exactly the first N rows of the unbounded sorter
pub proof fn lemma_capped_sort_is_prefix(text: Seq<char>, n: nat, rows: Seq<Context>)
    requires key_order_total(),
    ensures ({ let u = sort_spec(text, None, rows); sort_spec(text, Some(n), rows) == u.take(imin(n as int, u.len() as int)) }), // @obl THY.C08.capped_sorter_emits_prefix : C08 C07
{
    let asc = sort_asc_of(text); let g = getter_of(text);
    let e = Seq::<(JsonValue, Seq<Context>)>::empty();
    assert(bk_inv(g, e) && bk_ne(e));
    lemma_emit_is_cat(asc, e);
    assert(ord(asc, e) =~= e);
    let l0 = Seq::<Context>::empty();
    assert(emit(asc, e) == l0);
    lemma_sort_all_capped(asc, g, e, Some(n), rows);
    lemma_sort_spec_is_isort(text, rows);
    assert(l0.take(0) =~= l0);
    lemma_cisort_is_prefix(asc, g, l0, Some(n), l0, n as int, rows);
}
// ... so --skip S --take T behind the capped sorter selects the same rows as behind the unbounded one
pub proof fn lemma_topn_invisible(text: Seq<char>, s: nat, t: nat, rows: Seq<Context>)
    requires key_order_total(),
    ensures window(s, Some(t), sort_spec(text, Some(s + t), rows)) == window(s, Some(t), sort_spec(text, None, rows)), // @obl THY.C08.topn_invisible : C08
{
    let u = sort_spec(text, None, rows);
    lemma_capped_sort_is_prefix(text, s + t, rows);
    if u.len() <= s + t { assert(u.take(u.len() as int) =~= u); }
    else { lemma_window_of_prefix(s, t, u, (s + t) as int); }
}
// ... lifted to repeated --sort-by (only the sorter that feeds the limiter is capped) and to the options as given
pub proof fn lemma_sorters_topn_invisible(texts: Seq<String>, s: nat, t: nat, rows: Seq<Context>)
    requires key_order_total(),
    ensures window(s, Some(t), sorters_spec(texts, Some(s + t), rows)) == window(s, Some(t), sorters_spec(texts, None, rows)),
    decreases texts.len(),
{
    reveal_with_fuel(sorters_spec, 2);
    if texts.len() == 1 {
        assert(texts.drop_last().len() == 0);
        lemma_topn_invisible(texts.last()@, s, t, rows);
    } else if texts.len() > 1 {
        lemma_sorters_topn_invisible(texts.drop_last(), s, t, sort_spec(texts.last()@, None, rows));
    }
}
pub proof fn lemma_options_topn_invisible(sort_by: Seq<String>, skip: u64, take: Option<u64>, rows: Seq<Context>)
    requires key_order_total(), take matches Some(t) ==> skip + t <= u64::MAX,
    ensures window(skip as nat, take_of(take), sorters_spec(sort_by, cap_spec(skip, take), rows))
        == window(skip as nat, take_of(take), sorters_spec(sort_by, None, rows)), // @obl THY.C08.shortcut_invisible_for_every_option_set : C08 C03
{
    if take is Some { lemma_sorters_topn_invisible(sort_by, skip as nat, take->0 as nat, rows); }
}
// ================= C07: stability, stated explicitly =================
// the rows of one tie class (key equal to k), in the order they have in a list
pub open spec fn tie_class(g: Rc<dyn Get>, k: JsonValue, l: Seq<Context>) -> Seq<Context> { l.filter(|x: Context| keq(key_of(g, x), k)) }
pub proof fn lemma_ins_keeps_tie_classes(asc: bool, g: Rc<dyn Get>, l: Seq<Context>, c: Context, k: JsonValue)
    requires key_order_total(),
    ensures tie_class(g, k, ins(asc, g, l, c)) == (if keq(key_of(g, c), k) { tie_class(g, k, l).push(c) } else { tie_class(g, k, l) }),
    decreases l.len(),
{
    let p = |x: Context| keq(key_of(g, x), k);
    let kc = key_of(g, c);
    if l.len() == 0 {
        assert(l.filter(p) =~= Seq::<Context>::empty()) by { reveal(Seq::filter); }
        assert(seq![c].filter(p) =~= (if p(c) { seq![c] } else { Seq::<Context>::empty() })) by {
            reveal(Seq::filter);
            assert(seq![c].drop_last() =~= Seq::<Context>::empty());
        }
        assert(Seq::<Context>::empty().push(c) =~= seq![c]);
    } else if stays_before(asc, key_of(g, l.last()), kc) {
        assert(l.push(c).drop_last() =~= l);
        assert(l.push(c).filter(p) == (if p(c) { l.filter(p).push(c) } else { l.filter(p) })) by { reveal(Seq::filter); }
    } else {
        let dl = l.drop_last();
        lemma_ins_keeps_tie_classes(asc, g, dl, c, k);
        let r0 = ins(asc, g, dl, c);
        assert(r0.push(l.last()).drop_last() =~= r0);
        assert(r0.push(l.last()).filter(p) == (if p(l.last()) { r0.filter(p).push(l.last()) } else { r0.filter(p) })) by { reveal(Seq::filter); }
        assert(l.filter(p) == (if p(l.last()) { dl.filter(p).push(l.last()) } else { dl.filter(p) })) by { reveal(Seq::filter); }
        // the last row goes behind the newcomer, so it is not tied with it: both cannot be in the class of k
        if p(l.last()) && p(c) {
            lemma_k_sym(kc, k);
            lemma_k_eq_trans(key_of(g, l.last()), k, kc);
            if asc { if klt(kc, key_of(g, l.last())) { lemma_k_lt_excl(kc, key_of(g, l.last())); } } else { if klt(key_of(g, l.last()), kc) { lemma_k_lt_excl(key_of(g, l.last()), kc); } }
            assert(false);
        }
    }
}
pub open spec fn keyed(g: Rc<dyn Get>, r: Seq<Context>) -> Seq<Context> { r.filter(|x: Context| g.get_spec(&x) is Some) }
pub proof fn lemma_filter_front<A>(s: Seq<A>, p: spec_fn(A) -> bool)
    requires s.len() > 0,
    ensures s.filter(p) == (if p(s[0]) { seq![s[0]].add(s.subrange(1, s.len() as int).filter(p)) } else { s.subrange(1, s.len() as int).filter(p) }),
{
    assert(s =~= seq![s[0]].add(s.subrange(1, s.len() as int)));
    Seq::<A>::filter_distributes_over_add(seq![s[0]], s.subrange(1, s.len() as int), p);
    assert(seq![s[0]].filter(p) =~= (if p(s[0]) { seq![s[0]] } else { Seq::<A>::empty() })) by { reveal_with_fuel(Seq::filter, 3); assert(seq![s[0]].drop_last() =~= Seq::<A>::empty()); assert(seq![s[0]].last() == s[0]); assert(Seq::<A>::empty().push(s[0]) =~= seq![s[0]]); }
    let t = s.subrange(1, s.len() as int);
    assert((seq![s[0]] + t).filter(p) == seq![s[0]].filter(p) + t.filter(p));
}
// STABILITY: in what the sorter emits, the rows of every tie class stand in their arrival order (acc: what was inserted before)
pub proof fn lemma_isort_stable(asc: bool, g: Rc<dyn Get>, acc: Seq<Context>, r: Seq<Context>, k: JsonValue)
    requires key_order_total(),
    ensures tie_class(g, k, isort(asc, g, acc, r)) == tie_class(g, k, acc).add(tie_class(g, k, keyed(g, r))), // @obl THY.C07.ties_keep_arrival_order : C07
    decreases r.len(),
{
    let p = |x: Context| keq(key_of(g, x), k);
    let hk = |x: Context| g.get_spec(&x) is Some;
    if r.len() == 0 {
        assert(r.filter(hk) =~= Seq::<Context>::empty()) by { reveal(Seq::filter); }
        assert(Seq::<Context>::empty().filter(p) =~= Seq::<Context>::empty()) by { reveal(Seq::filter); }
        assert(tie_class(g, k, acc).add(Seq::<Context>::empty()) =~= tie_class(g, k, acc));
    } else {
        let t = tail(r);
        lemma_filter_front(r, hk);
        if g.get_spec(&r[0]) is None { lemma_isort_stable(asc, g, acc, t, k); }
        else {
            let acc1 = ins(asc, g, acc, r[0]);
            lemma_ins_keeps_tie_classes(asc, g, acc, r[0], k);
            lemma_isort_stable(asc, g, acc1, t, k);
            let kt = keyed(g, t);
            assert(keyed(g, r) == seq![r[0]].add(kt));
            lemma_filter_front(seq![r[0]].add(kt), p);
            assert(seq![r[0]].add(kt).subrange(1, (kt.len() + 1) as int) =~= kt);
            if p(r[0]) { assert(tie_class(g, k, acc).push(r[0]).add(kt.filter(p)) =~= tie_class(g, k, acc).add(seq![r[0]].add(kt.filter(p)))); }
        }
    }
}
// PERMUTATION: what the sorter emits are exactly the rows that have a key, each as often as it arrived
pub proof fn lemma_ins_multiset(asc: bool, g: Rc<dyn Get>, l: Seq<Context>, c: Context)
    ensures ins(asc, g, l, c).to_multiset() == l.to_multiset().insert(c),
    decreases l.len(),
{
    broadcast use vstd::seq_lib::group_to_multiset_ensures;
    if l.len() == 0 { assert(seq![c] =~= l.push(c)); }
    else if stays_before(asc, key_of(g, l.last()), key_of(g, c)) { }
    else {
        let dl = l.drop_last();
        lemma_ins_multiset(asc, g, dl, c);
        assert(l =~= dl.push(l.last()));
        assert(dl.to_multiset().insert(c).insert(l.last()) =~= dl.to_multiset().insert(l.last()).insert(c));
    }
}
pub proof fn lemma_isort_permutation(asc: bool, g: Rc<dyn Get>, acc: Seq<Context>, r: Seq<Context>)
    ensures isort(asc, g, acc, r).to_multiset() == acc.to_multiset().add(keyed(g, r).to_multiset()), // @obl THY.C07.permutation_of_the_keyed_rows : C07
    decreases r.len(),
{
    broadcast use vstd::seq_lib::group_to_multiset_ensures;
    let hk = |x: Context| g.get_spec(&x) is Some;
    if r.len() == 0 {
        assert(r.filter(hk) =~= Seq::<Context>::empty()) by { reveal(Seq::filter); }
        assert(Seq::<Context>::empty().to_multiset() =~= vstd::multiset::Multiset::<Context>::empty());
        assert(acc.to_multiset().add(vstd::multiset::Multiset::<Context>::empty()) =~= acc.to_multiset());
    } else {
        let t = tail(r);
        lemma_filter_front(r, hk);
        if g.get_spec(&r[0]) is None { lemma_isort_permutation(asc, g, acc, t); }
        else {
            lemma_ins_multiset(asc, g, acc, r[0]);
            lemma_isort_permutation(asc, g, ins(asc, g, acc, r[0]), t);
            let kt = keyed(g, t);
            assert(keyed(g, r) == seq![r[0]].add(kt));
            vstd::seq_lib::lemma_multiset_commutative(seq![r[0]], kt);
            assert(seq![r[0]] =~= Seq::<Context>::empty().push(r[0]));
            assert(seq![r[0]].to_multiset() =~= vstd::multiset::Multiset::<Context>::empty().insert(r[0]));
            assert(acc.to_multiset().insert(r[0]).add(kt.to_multiset()) =~= acc.to_multiset().add(seq![r[0]].to_multiset().add(kt.to_multiset())));
        }
    }
}
// ================= C07: repeated --sort-by are lexicographic keys =================
// a subsequence (filter) of a sorted list is sorted
pub proof fn lemma_filter_sorted(asc: bool, g: Rc<dyn Get>, l: Seq<Context>, p: spec_fn(Context) -> bool)
    requires sorted_rows(asc, g, l),
    ensures sorted_rows(asc, g, l.filter(p)),
        forall|j: int| 0 <= j < l.filter(p).len() ==> exists|i: int| 0 <= i < l.len() && l[i] == #[trigger] l.filter(p)[j],
    decreases l.len(),
{
    reveal(Seq::filter);
    if l.len() > 0 {
        let dl = l.drop_last();
        assert forall|i: int, j: int| 0 <= i < j < dl.len() implies stays_before(asc, key_of(g, #[trigger] dl[i]), key_of(g, #[trigger] dl[j])) by { assert(dl[i] == l[i] && dl[j] == l[j]); }
        lemma_filter_sorted(asc, g, dl, p);
        let f0 = dl.filter(p);
        let f = l.filter(p);
        assert(f == (if p(l.last()) { f0.push(l.last()) } else { f0 }));
        assert forall|j: int| 0 <= j < f.len() implies exists|i: int| 0 <= i < l.len() && l[i] == #[trigger] f[j] by {
            if j < f0.len() { let i = choose|i: int| 0 <= i < dl.len() && dl[i] == f0[j]; assert(l[i] == f[j]); } else { assert(l[l.len() - 1] == f[j]); }
        }
        assert forall|i: int, j: int| 0 <= i < j < f.len() implies stays_before(asc, key_of(g, #[trigger] f[i]), key_of(g, #[trigger] f[j])) by {
            if j < f0.len() { assert(f[i] == f0[i] && f[j] == f0[j]); }
            else {
                let i0 = choose|i0: int| 0 <= i0 < dl.len() && dl[i0] == f0[i];
                assert(f[i] == l[i0] && f[j] == l[l.len() - 1]);
            }
        }
    }
}
// two --sort-by options, the first given is the major key: the result is sorted by the major key (lemma_isort_sorted), and inside
// every tie class of the major key the rows stand in the order of the minor sort, hence sorted by the minor key
pub proof fn lemma_two_keys_lexicographic(major: Seq<char>, minor: Seq<char>, rows: Seq<Context>, k: JsonValue)
    requires key_order_total(),
    ensures ({
        let res = sort_spec(major, None, sort_spec(minor, None, rows));
        &&& sorted_rows(sort_asc_of(major), getter_of(major), res)
        &&& sorted_rows(sort_asc_of(minor), getter_of(minor), tie_class(getter_of(major), k, res))
    }), // @obl THY.C07.repeated_sort_by_is_lexicographic : C07 C03
{
    let g1 = getter_of(major); let a1 = sort_asc_of(major);
    let g2 = getter_of(minor); let a2 = sort_asc_of(minor);
    let e = Seq::<Context>::empty();
    let m = sort_spec(minor, None, rows);
    lemma_sort_spec_is_isort(minor, rows);
    lemma_sort_spec_is_isort(major, m);
    assert(sorted_rows(a2, g2, e));
    assert(sorted_rows(a1, g1, e));
    lemma_isort_sorted(a2, g2, e, rows);
    lemma_isort_sorted(a1, g1, e, m);
    lemma_isort_stable(a1, g1, e, m, k);
    let p1 = |x: Context| keq(key_of(g1, x), k);
    let hk = |x: Context| g1.get_spec(&x) is Some;
    assert(tie_class(g1, k, e) =~= e) by { reveal(Seq::filter); }
    assert(e.add(tie_class(g1, k, keyed(g1, m))) =~= tie_class(g1, k, keyed(g1, m)));
    lemma_filter_sorted(a2, g2, m, hk);
    lemma_filter_sorted(a2, g2, keyed(g1, m), p1);
}
// ================= C07: any number of --sort-by options are lexicographic keys =================
pub open spec fn tail_t(t: Seq<String>) -> Seq<String> { t.subrange(1, t.len() as int) }
// the first given key is applied LAST (outermost): the result of sorting by the other keys, sorted stably by it
pub open spec fn msort(texts: Seq<String>, rows: Seq<Context>) -> Seq<Context>
    decreases texts.len()
{
    if texts.len() == 0 { rows } else { isort(sort_asc_of(texts[0]@), getter_of(texts[0]@), Seq::empty(), msort(tail_t(texts), rows)) }
}
// lexicographically sorted: sorted by the first key, and every tie class of the first key lexicographically sorted by the rest
pub open spec fn lex_sorted(texts: Seq<String>, l: Seq<Context>) -> bool
    decreases texts.len()
{
    if texts.len() == 0 { true } else {
        sorted_rows(sort_asc_of(texts[0]@), getter_of(texts[0]@), l)
        && forall|k: JsonValue| lex_sorted(tail_t(texts), #[trigger] tie_class(getter_of(texts[0]@), k, l))
    }
}
pub proof fn lemma_filter_commutes<A>(l: Seq<A>, p: spec_fn(A) -> bool, q: spec_fn(A) -> bool)
    ensures l.filter(p).filter(q) == l.filter(q).filter(p),
    decreases l.len(),
{
    reveal(Seq::filter);
    if l.len() > 0 {
        let dl = l.drop_last();
        lemma_filter_commutes(dl, p, q);
        let x = l.last();
        assert(l.filter(p) == (if p(x) { dl.filter(p).push(x) } else { dl.filter(p) }));
        assert(l.filter(q) == (if q(x) { dl.filter(q).push(x) } else { dl.filter(q) }));
        if p(x) { assert(dl.filter(p).push(x).drop_last() =~= dl.filter(p)); assert(dl.filter(p).push(x).filter(q) == (if q(x) { dl.filter(p).filter(q).push(x) } else { dl.filter(p).filter(q) })); }
        if q(x) { assert(dl.filter(q).push(x).drop_last() =~= dl.filter(q)); assert(dl.filter(q).push(x).filter(p) == (if p(x) { dl.filter(q).filter(p).push(x) } else { dl.filter(q).filter(p) })); }
    } else {
        assert(l.filter(p) =~= Seq::<A>::empty());
        assert(l.filter(q) =~= Seq::<A>::empty());
    }
}
// a subsequence of a lexicographically sorted list is lexicographically sorted
pub proof fn lemma_lex_filter(texts: Seq<String>, l: Seq<Context>, p: spec_fn(Context) -> bool)
    requires lex_sorted(texts, l),
    ensures lex_sorted(texts, l.filter(p)),
    decreases texts.len(),
{
    if texts.len() > 0 {
        let g = getter_of(texts[0]@); let a = sort_asc_of(texts[0]@);
        lemma_filter_sorted(a, g, l, p);
        assert forall|k: JsonValue| lex_sorted(tail_t(texts), #[trigger] tie_class(g, k, l.filter(p))) by {
            let q = |x: Context| keq(key_of(g, x), k);
            lemma_filter_commutes(l, p, q);
            assert(tie_class(g, k, l.filter(p)) == tie_class(g, k, l).filter(p));
            assert(lex_sorted(tail_t(texts), tie_class(g, k, l)));
            lemma_lex_filter(tail_t(texts), tie_class(g, k, l), p);
        }
    }
}
pub proof fn lemma_msort_lex(texts: Seq<String>, rows: Seq<Context>)
    requires key_order_total(),
    ensures lex_sorted(texts, msort(texts, rows)), // @obl THY.C07.any_number_of_keys_lexicographic : C07 C03
    decreases texts.len(),
{
    if texts.len() > 0 {
        let g = getter_of(texts[0]@); let a = sort_asc_of(texts[0]@);
        let e = Seq::<Context>::empty();
        let inner = msort(tail_t(texts), rows);
        lemma_msort_lex(tail_t(texts), rows);
        assert(sorted_rows(a, g, e));
        lemma_isort_sorted(a, g, e, inner);
        let res = isort(a, g, e, inner);
        assert forall|k: JsonValue| lex_sorted(tail_t(texts), #[trigger] tie_class(g, k, res)) by {
            lemma_isort_stable(a, g, e, inner, k);
            assert(tie_class(g, k, e) =~= e) by { reveal(Seq::filter); }
            assert(e.add(tie_class(g, k, keyed(g, inner))) =~= tie_class(g, k, keyed(g, inner)));
            let hk = |x: Context| g.get_spec(&x) is Some;
            let q = |x: Context| keq(key_of(g, x), k);
            lemma_lex_filter(tail_t(texts), inner, hk);
            lemma_lex_filter(tail_t(texts), inner.filter(hk), q);
        }
    }
}
// ... and msort IS what repeated --sort-by compute (the chain go() is verified to build applies the LAST given key first)
pub proof fn lemma_sorters_is_msort(texts: Seq<String>, rows: Seq<Context>)
    requires key_order_total(),
    ensures sorters_spec(texts, None, rows) == msort(texts, rows),
    decreases texts.len(),
{
    if texts.len() == 0 { }
    else if texts.len() == 1 {
        reveal_with_fuel(sorters_spec, 2);
        reveal_with_fuel(msort, 2);
        assert(texts.drop_last().len() == 0);
        assert(tail_t(texts).len() == 0);
        lemma_sort_spec_is_isort(texts[0]@, rows);
        assert(texts.last() == texts[0]);
    } else {
        let dl = texts.drop_last();
        let r1 = sort_spec(texts.last()@, None, rows);
        lemma_sorters_is_msort(dl, r1);
        // msort(dl, sort_last(rows)) == msort(texts, rows): peel the major key on both sides
        lemma_msort_snoc(texts, rows);
    }
}
pub proof fn lemma_msort_snoc(texts: Seq<String>, rows: Seq<Context>)
    requires key_order_total(), texts.len() >= 1,
    ensures msort(texts.drop_last(), sort_spec(texts.last()@, None, rows)) == msort(texts, rows),
    decreases texts.len(),
{
    let dl = texts.drop_last();
    let r1 = sort_spec(texts.last()@, None, rows);
    if texts.len() == 1 {
        reveal_with_fuel(msort, 2);
        assert(dl.len() == 0);
        assert(tail_t(texts).len() == 0);
        lemma_sort_spec_is_isort(texts[0]@, rows);
        assert(texts.last() == texts[0]);
    } else {
        let t1 = tail_t(texts);
        assert(t1.drop_last() =~= tail_t(dl));
        assert(t1.last() == texts.last());
        assert(dl[0] == texts[0]);
        lemma_msort_snoc(t1, rows);
    }
}
pub proof fn lemma_repeated_sort_by_lexicographic(texts: Seq<String>, rows: Seq<Context>)
    requires key_order_total(),
    ensures lex_sorted(texts, sorters_spec(texts, None, rows)), // @obl THY.C07.sorters_spec_is_lexicographic : C07 C03
{
    lemma_sorters_is_msort(texts, rows);
    lemma_msort_lex(texts, rows);
}
