// ---- grouping by a string key, as pure sequence functions (the same definitions as in lemmas/rows.rs, without the row types) ----
pub open spec fn has_group(gs: Seq<(String, Seq<JsonValue>)>, k: String) -> bool { exists|i: int| 0 <= i < gs.len() && gs[i].0 == k }
pub open spec fn group_add(gs: Seq<(String, Seq<JsonValue>)>, k: String, v: JsonValue) -> Seq<(String, Seq<JsonValue>)> {
    if has_group(gs, k) {
        let i = choose|i: int| 0 <= i < gs.len() && gs[i].0 == k;
        gs.update(i, (k, gs[i].1.push(v)))
    } else {
        gs.push((k, seq![v]))
    }
}
pub open spec fn group_members(gs: Seq<(String, Seq<JsonValue>)>) -> Seq<(String, JsonValue)> {
    Seq::new(gs.len(), |i: int| (gs[i].0, json_array(gs[i].1)))
}
pub open spec fn groups_view(e: Seq<(String, Vec<JsonValue>)>) -> Seq<(String, Seq<JsonValue>)> { Seq::new(e.len(), |i: int| (e[i].0, e[i].1@)) }

// IndexMap::entry(k).or_default().push(v) on the stored map is group_add on its view (keys are distinct)
pub proof fn lemma_group_insert(e: Seq<(String, Vec<JsonValue>)>, e2: Seq<(String, Vec<JsonValue>)>, k: String, nv: Vec<JsonValue>, v: JsonValue)
    requires
        im_distinct(e),
        e2 == im_insert(e, k, nv),
        im_has(e, k) ==> nv@ == e[im_idx(e, k)].1@.push(v),
        !im_has(e, k) ==> nv@ == seq![v],
    ensures groups_view(e2) == group_add(groups_view(e), k, v),
{
    let gs = groups_view(e);
    if im_has(e, k) {
        let i = im_idx(e, k);
        assert(gs[i].0 == k);
        assert(has_group(gs, k));
        let j = choose|j: int| 0 <= j < gs.len() && gs[j].0 == k;
        assert(e[j].0 == k);
        assert(i == j);
        assert(groups_view(e2) =~= gs.update(j, (k, gs[j].1.push(v))));
    } else {
        if has_group(gs, k) {
            let j = choose|j: int| 0 <= j < gs.len() && gs[j].0 == k;
            assert(e[j].0 == k);
            assert(false);
        }
        assert(groups_view(e2) =~= gs.push((k, seq![v])));
    }
}
