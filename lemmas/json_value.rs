// ---- value = false / null / true / object / array / number / string (RFC 8259), as a spec PARSER over the pending
// bytes: pv(p) is the value whose text p starts with (after optional white space) and the offset just behind it.
// Written from the RFC; jawk's documented leniencies are the ones of the token specs (numbers: empty digit runs; strings:
// unescaped control bytes). Containers: elements in order; object members by IndexMap::insert (a repeated name keeps its
// first position and takes the last value).
pub open spec fn word_true() -> Seq<u8> { seq![0x74u8, 0x72u8, 0x75u8, 0x65u8] }
pub open spec fn word_false() -> Seq<u8> { seq![0x66u8, 0x61u8, 0x6cu8, 0x73u8, 0x65u8] }
pub open spec fn word_null() -> Seq<u8> { seq![0x6eu8, 0x75u8, 0x6cu8, 0x6cu8] }
// the value of a number token (C19: integers in range stay integers, everything else is the nearest double)
pub open spec fn num_val(p: Seq<Option<u8>>) -> Option<JsonValue> {
    let t = text_of(num_text(p));
    if num_is_double(p) { match parse_of::<f64>(t) { Some(f) => Some(json_of_f64(f)), None => None } }
    else if num_sign(p) == 0 {
        match parse_of::<u64>(t) { Some(u) => Some(JsonValue::Number(NumberValue::Positive(u))),
            None => match parse_of::<f64>(t) { Some(f) => Some(json_of_f64(f)), None => None } }
    } else {
        match parse_of::<i64>(t) { Some(i) => Some(JsonValue::Number(NumberValue::Negative(i))),
            None => match parse_of::<f64>(t) { Some(f) => Some(json_of_f64(f)), None => None } }
    }
}
pub uninterp spec fn str_of(s: Seq<char>) -> String;
pub broadcast axiom fn axiom_str_of(s: Seq<char>) ensures (#[trigger] str_of(s))@ == s;
pub open spec fn str_val(bytes: Seq<u8>) -> JsonValue { JsonValue::String(str_of(text_of(bytes))) }
// a String is determined by its characters, and its bytes are valid UTF-8 (trusted facts about std's String)
pub broadcast axiom fn axiom_str_of_view(s: String) ensures #[trigger] str_of(s@) == s;
pub broadcast axiom fn axiom_str_bytes_valid(s: Seq<char>) ensures valid_utf8(#[trigger] str_bytes(s));
pub broadcast group group_jv { axiom_str_of, axiom_str_of_view, axiom_str_bytes_valid }

pub open spec fn rue() -> Seq<u8> { seq![0x72u8, 0x75u8, 0x65u8] }
pub open spec fn alse() -> Seq<u8> { seq![0x61u8, 0x6cu8, 0x73u8, 0x65u8] }
pub open spec fn ull() -> Seq<u8> { seq![0x75u8, 0x6cu8, 0x6cu8] }
// the value that starts at the first byte of t (no leading white space) and its length
#[verifier::opaque]
pub open spec fn tv(t: Seq<Option<u8>>) -> Option<(JsonValue, int)>
    decreases t.len(), 1int
{
    match at(t, 0) {
        None => None,
        Some(b) =>
            if b == 0x74u8 { if bytes_at(t, 1, rue()) { Some((JsonValue::Boolean(true), 4int)) } else { None } }
            else if b == 0x66u8 { if bytes_at(t, 1, alse()) { Some((JsonValue::Boolean(false), 5int)) } else { None } }
            else if b == 0x6eu8 { if bytes_at(t, 1, ull()) { Some((JsonValue::Null, 4int)) } else { None } }
            else if b == 0x22u8 {
                match str_dec(t, 1, Seq::empty()) {
                    Some((bytes, k)) => if valid_utf8(bytes) { Some((str_val(bytes), k + 1)) } else { None },
                    None => None,
                }
            }
            else if b == 0x2du8 || is_digit(b) { match num_val(t) { Some(v) => Some((v, num_end(t))), None => None } }
            else if b == 0x5bu8 { match arr(t) { Some((vs, e)) => Some((json_array(vs), e)), None => None } }
            else if b == 0x7bu8 { match obj(t) { Some((ms, e)) => Some((json_object(ms), e)), None => None } }
            else { None },
    }
}
// t[0] is `[`: the elements and the length of the array text
#[verifier::opaque]
pub open spec fn arr(t: Seq<Option<u8>>) -> Option<(Seq<JsonValue>, int)>
    decreases t.len(), 0int
{
    if t.len() == 0 { None } else {
        let q = from(t, 1);
        let w2 = ws_run(q) as int;
        if at(q, w2) == Some(0x5du8) { Some((Seq::empty(), 1 + w2 + 1)) }
        else if w2 > q.len() { None }
        else { match items(q, w2, Seq::empty()) { Some((vs, e)) => Some((vs, 1 + e)), None => None } }
    }
}
#[verifier::opaque]
pub open spec fn obj(t: Seq<Option<u8>>) -> Option<(Seq<(String, JsonValue)>, int)>
    decreases t.len(), 0int
{
    if t.len() == 0 { None } else {
        let q = from(t, 1);
        let w2 = ws_run(q) as int;
        if at(q, w2) == Some(0x7du8) { Some((Seq::empty(), 1 + w2 + 1)) }
        else if w2 > q.len() { None }
        else { match members(q, w2, Seq::empty()) { Some((ms, e)) => Some((ms, 1 + e)), None => None } }
    }
}
// value preceded by optional white space: the value and the offset just behind it
#[verifier::opaque]
pub open spec fn pv(p: Seq<Option<u8>>) -> Option<(JsonValue, int)>
    decreases p.len(), 2int
{
    let w = ws_run(p) as int;
    if w < 0 || w >= p.len() { None } else {
        match tv(p.subrange(w, p.len() as int)) { Some((v, n)) => Some((v, w + n)), None => None }
    }
}
// the elements of an array from offset i of q on (q = the text after `[`): value ws (`,` value ws)* `]`
#[verifier::opaque]
pub open spec fn items(q: Seq<Option<u8>>, i: int, acc: Seq<JsonValue>) -> Option<(Seq<JsonValue>, int)>
    decreases q.len() - i, 3int
{
    if i < 0 || i > q.len() { None } else {
        match pv(from(q, i)) {
            None => None,
            Some((v, n)) =>
                if n <= 0 || i + n > q.len() { None } else {
                    let j = i + n;
                    let w = ws_run(from(q, j)) as int;
                    if at(q, j + w) == Some(0x5du8) { Some((acc.push(v), j + w + 1)) }
                    else if at(q, j + w) == Some(0x2cu8) { items(q, j + w + 1, acc.push(v)) }
                    else { None }
                },
        }
    }
}
// the members of an object from offset i of q on: string ws `:` value ws (`,` ...)* `}`
#[verifier::opaque]
pub open spec fn members(q: Seq<Option<u8>>, i: int, acc: Seq<(String, JsonValue)>) -> Option<(Seq<(String, JsonValue)>, int)>
    decreases q.len() - i, 3int
{
    if i < 0 || i > q.len() { None } else {
        match pv(from(q, i)) {
            Some((JsonValue::String(key), n)) =>
                if n <= 0 || i + n > q.len() { None } else {
                    let j = i + n;
                    let w = ws_run(from(q, j)) as int;
                    if at(q, j + w) != Some(0x3au8) { None } else {
                        let c = j + w + 1;
                        match pv(from(q, c)) {
                            None => None,
                            Some((v, n2)) =>
                                if n2 <= 0 || c + n2 > q.len() { None } else {
                                    let j2 = c + n2;
                                    let w3 = ws_run(from(q, j2)) as int;
                                    if at(q, j2 + w3) == Some(0x7du8) { Some((im_insert(acc, key, v), j2 + w3 + 1)) }
                                    else if at(q, j2 + w3) == Some(0x2cu8) { members(q, j2 + w3 + 1, im_insert(acc, key, v)) }
                                    else { None }
                                },
                        }
                    }
                },
            _ => None,
        }
    }
}

// unfolding lemmas for the opaque parser functions (each restates the definition once)
pub proof fn lemma_tv(t: Seq<Option<u8>>)
    ensures tv(t) == ({
    match at(t, 0) {
        None => None,
        Some(b) =>
            if b == 0x74u8 { if bytes_at(t, 1, rue()) { Some((JsonValue::Boolean(true), 4int)) } else { None } }
            else if b == 0x66u8 { if bytes_at(t, 1, alse()) { Some((JsonValue::Boolean(false), 5int)) } else { None } }
            else if b == 0x6eu8 { if bytes_at(t, 1, ull()) { Some((JsonValue::Null, 4int)) } else { None } }
            else if b == 0x22u8 {
                match str_dec(t, 1, Seq::empty()) {
                    Some((bytes, k)) => if valid_utf8(bytes) { Some((str_val(bytes), k + 1)) } else { None },
                    None => None,
                }
            }
            else if b == 0x2du8 || is_digit(b) { match num_val(t) { Some(v) => Some((v, num_end(t))), None => None } }
            else if b == 0x5bu8 { match arr(t) { Some((vs, e)) => Some((json_array(vs), e)), None => None } }
            else if b == 0x7bu8 { match obj(t) { Some((ms, e)) => Some((json_object(ms), e)), None => None } }
            else { None },
    }
}),
{ reveal(tv); reveal(arr); reveal(obj); reveal(pv); reveal(items); reveal(members); }
pub proof fn lemma_arr(t: Seq<Option<u8>>)
    ensures arr(t) == ({
    if t.len() == 0 { None } else {
        let q = from(t, 1);
        let w2 = ws_run(q) as int;
        if at(q, w2) == Some(0x5du8) { Some((Seq::empty(), 1 + w2 + 1)) }
        else if w2 > q.len() { None }
        else { match items(q, w2, Seq::empty()) { Some((vs, e)) => Some((vs, 1 + e)), None => None } }
    }
}),
{ reveal(tv); reveal(arr); reveal(obj); reveal(pv); reveal(items); reveal(members); }
pub proof fn lemma_obj(t: Seq<Option<u8>>)
    ensures obj(t) == ({
    if t.len() == 0 { None } else {
        let q = from(t, 1);
        let w2 = ws_run(q) as int;
        if at(q, w2) == Some(0x7du8) { Some((Seq::empty(), 1 + w2 + 1)) }
        else if w2 > q.len() { None }
        else { match members(q, w2, Seq::empty()) { Some((ms, e)) => Some((ms, 1 + e)), None => None } }
    }
}),
{ reveal(tv); reveal(arr); reveal(obj); reveal(pv); reveal(items); reveal(members); }
pub proof fn lemma_pv(p: Seq<Option<u8>>)
    ensures pv(p) == ({
    let w = ws_run(p) as int;
    if w < 0 || w >= p.len() { None } else {
        match tv(p.subrange(w, p.len() as int)) { Some((v, n)) => Some((v, w + n)), None => None }
    }
}),
{ reveal(tv); reveal(arr); reveal(obj); reveal(pv); reveal(items); reveal(members); }
pub proof fn lemma_items(q: Seq<Option<u8>>, i: int, acc: Seq<JsonValue>)
    ensures items(q, i, acc) == ({
    if i < 0 || i > q.len() { None } else {
        match pv(from(q, i)) {
            None => None,
            Some((v, n)) =>
                if n <= 0 || i + n > q.len() { None } else {
                    let j = i + n;
                    let w = ws_run(from(q, j)) as int;
                    if at(q, j + w) == Some(0x5du8) { Some((acc.push(v), j + w + 1)) }
                    else if at(q, j + w) == Some(0x2cu8) { items(q, j + w + 1, acc.push(v)) }
                    else { None }
                },
        }
    }
}),
{ reveal(tv); reveal(arr); reveal(obj); reveal(pv); reveal(items); reveal(members); }
pub proof fn lemma_members(q: Seq<Option<u8>>, i: int, acc: Seq<(String, JsonValue)>)
    ensures members(q, i, acc) == ({
    if i < 0 || i > q.len() { None } else {
        match pv(from(q, i)) {
            Some((JsonValue::String(key), n)) =>
                if n <= 0 || i + n > q.len() { None } else {
                    let j = i + n;
                    let w = ws_run(from(q, j)) as int;
                    if at(q, j + w) != Some(0x3au8) { None } else {
                        let c = j + w + 1;
                        match pv(from(q, c)) {
                            None => None,
                            Some((v, n2)) =>
                                if n2 <= 0 || c + n2 > q.len() { None } else {
                                    let j2 = c + n2;
                                    let w3 = ws_run(from(q, j2)) as int;
                                    if at(q, j2 + w3) == Some(0x7du8) { Some((im_insert(acc, key, v), j2 + w3 + 1)) }
                                    else if at(q, j2 + w3) == Some(0x2cu8) { members(q, j2 + w3 + 1, im_insert(acc, key, v)) }
                                    else { None }
                                },
                        }
                    }
                },
            _ => None,
        }
    }
}),
{ reveal(tv); reveal(arr); reveal(obj); reveal(pv); reveal(items); reveal(members); }

// ---- completeness: the spellings the parser is PROVED to accept. Everything pv reads, where every number token is an
// integer in range or a finite double (an out-of-range integer falls back to a double in the code; that path is covered by
// the soundness clauses only), and the token text is valid UTF-8 (it is ASCII). ----
pub open spec fn num_simple(p: Seq<Option<u8>>) -> bool {
    let t = text_of(num_text(p));
    valid_utf8(num_text(p)) && digit_run(from(p, num_sign(p))) > 0 && (
        if num_is_double(p) { parse_of::<f64>(t) matches Some(f) && f64_finite(f) }
        else if num_sign(p) == 0 { parse_of::<u64>(t) is Some } else { parse_of::<i64>(t) is Some })
}
#[verifier::opaque]
pub open spec fn tvs(t: Seq<Option<u8>>) -> bool
    decreases t.len(), 1int
{
    match at(t, 0) {
        None => false,
        Some(b) =>
            if b == 0x74u8 { bytes_at(t, 1, rue()) }
            else if b == 0x66u8 { bytes_at(t, 1, alse()) }
            else if b == 0x6eu8 { bytes_at(t, 1, ull()) }
            else if b == 0x22u8 { match str_dec(t, 1, Seq::empty()) { Some((bytes, k)) => valid_utf8(bytes), None => false } }
            else if b == 0x2du8 || is_digit(b) { num_simple(t) }
            else if b == 0x5bu8 { arrs(t) }
            else if b == 0x7bu8 { objs(t) }
            else { false },
    }
}
#[verifier::opaque]
pub open spec fn arrs(t: Seq<Option<u8>>) -> bool
    decreases t.len(), 0int
{
    if t.len() == 0 { false } else {
        let q = from(t, 1);
        let w2 = ws_run(q) as int;
        at(q, w2) == Some(0x5du8) || (w2 <= q.len() && itemss(q, w2))
    }
}
#[verifier::opaque]
pub open spec fn objs(t: Seq<Option<u8>>) -> bool
    decreases t.len(), 0int
{
    if t.len() == 0 { false } else {
        let q = from(t, 1);
        let w2 = ws_run(q) as int;
        at(q, w2) == Some(0x7du8) || (w2 <= q.len() && memberss(q, w2))
    }
}
#[verifier::opaque]
pub open spec fn pvs(p: Seq<Option<u8>>) -> bool
    decreases p.len(), 2int
{
    let w = ws_run(p) as int;
    0 <= w < p.len() && tvs(p.subrange(w, p.len() as int))
}
#[verifier::opaque]
pub open spec fn itemss(q: Seq<Option<u8>>, i: int) -> bool
    decreases q.len() - i, 3int
{
    if i < 0 || i > q.len() { false } else {
        pvs(from(q, i)) && match pv(from(q, i)) {
            None => false,
            Some((v, n)) =>
                n > 0 && i + n <= q.len() && {
                    let j = i + n;
                    let w = ws_run(from(q, j)) as int;
                    at(q, j + w) == Some(0x5du8) || (at(q, j + w) == Some(0x2cu8) && itemss(q, j + w + 1))
                },
        }
    }
}
#[verifier::opaque]
pub open spec fn memberss(q: Seq<Option<u8>>, i: int) -> bool
    decreases q.len() - i, 3int
{
    if i < 0 || i > q.len() { false } else {
        pvs(from(q, i)) && match pv(from(q, i)) {
            Some((JsonValue::String(key), n)) =>
                n > 0 && i + n <= q.len() && {
                    let j = i + n;
                    let w = ws_run(from(q, j)) as int;
                    at(q, j + w) == Some(0x3au8) && {
                        let c = j + w + 1;
                        pvs(from(q, c)) && match pv(from(q, c)) {
                            None => false,
                            Some((v, n2)) =>
                                n2 > 0 && c + n2 <= q.len() && {
                                    let j2 = c + n2;
                                    let w3 = ws_run(from(q, j2)) as int;
                                    at(q, j2 + w3) == Some(0x7du8) || (at(q, j2 + w3) == Some(0x2cu8) && memberss(q, j2 + w3 + 1))
                                },
                        }
                    }
                },
            _ => false,
        }
    }
}

pub proof fn lemma_tvs(t: Seq<Option<u8>>)
    ensures tvs(t) == ({
    match at(t, 0) {
        None => false,
        Some(b) =>
            if b == 0x74u8 { bytes_at(t, 1, rue()) }
            else if b == 0x66u8 { bytes_at(t, 1, alse()) }
            else if b == 0x6eu8 { bytes_at(t, 1, ull()) }
            else if b == 0x22u8 { match str_dec(t, 1, Seq::empty()) { Some((bytes, k)) => valid_utf8(bytes), None => false } }
            else if b == 0x2du8 || is_digit(b) { num_simple(t) }
            else if b == 0x5bu8 { arrs(t) }
            else if b == 0x7bu8 { objs(t) }
            else { false },
    }
}),
{ reveal(tvs); reveal(arrs); reveal(objs); reveal(pvs); reveal(itemss); reveal(memberss); }
pub proof fn lemma_arrs(t: Seq<Option<u8>>)
    ensures arrs(t) == ({
    if t.len() == 0 { false } else {
        let q = from(t, 1);
        let w2 = ws_run(q) as int;
        at(q, w2) == Some(0x5du8) || (w2 <= q.len() && itemss(q, w2))
    }
}),
{ reveal(tvs); reveal(arrs); reveal(objs); reveal(pvs); reveal(itemss); reveal(memberss); }
pub proof fn lemma_objs(t: Seq<Option<u8>>)
    ensures objs(t) == ({
    if t.len() == 0 { false } else {
        let q = from(t, 1);
        let w2 = ws_run(q) as int;
        at(q, w2) == Some(0x7du8) || (w2 <= q.len() && memberss(q, w2))
    }
}),
{ reveal(tvs); reveal(arrs); reveal(objs); reveal(pvs); reveal(itemss); reveal(memberss); }
pub proof fn lemma_pvs(p: Seq<Option<u8>>)
    ensures pvs(p) == ({
    let w = ws_run(p) as int;
    0 <= w < p.len() && tvs(p.subrange(w, p.len() as int))
}),
{ reveal(tvs); reveal(arrs); reveal(objs); reveal(pvs); reveal(itemss); reveal(memberss); }
pub proof fn lemma_itemss(q: Seq<Option<u8>>, i: int)
    ensures itemss(q, i) == ({
    if i < 0 || i > q.len() { false } else {
        pvs(from(q, i)) && match pv(from(q, i)) {
            None => false,
            Some((v, n)) =>
                n > 0 && i + n <= q.len() && {
                    let j = i + n;
                    let w = ws_run(from(q, j)) as int;
                    at(q, j + w) == Some(0x5du8) || (at(q, j + w) == Some(0x2cu8) && itemss(q, j + w + 1))
                },
        }
    }
}),
{ reveal(tvs); reveal(arrs); reveal(objs); reveal(pvs); reveal(itemss); reveal(memberss); }
pub proof fn lemma_memberss(q: Seq<Option<u8>>, i: int)
    ensures memberss(q, i) == ({
    if i < 0 || i > q.len() { false } else {
        pvs(from(q, i)) && match pv(from(q, i)) {
            Some((JsonValue::String(key), n)) =>
                n > 0 && i + n <= q.len() && {
                    let j = i + n;
                    let w = ws_run(from(q, j)) as int;
                    at(q, j + w) == Some(0x3au8) && {
                        let c = j + w + 1;
                        pvs(from(q, c)) && match pv(from(q, c)) {
                            None => false,
                            Some((v, n2)) =>
                                n2 > 0 && c + n2 <= q.len() && {
                                    let j2 = c + n2;
                                    let w3 = ws_run(from(q, j2)) as int;
                                    at(q, j2 + w3) == Some(0x7du8) || (at(q, j2 + w3) == Some(0x2cu8) && memberss(q, j2 + w3 + 1))
                                },
                        }
                    }
                },
            _ => false,
        }
    }
}),
{ reveal(tvs); reveal(arrs); reveal(objs); reveal(pvs); reveal(itemss); reveal(memberss); }
