// spec functions used by the Context contracts (shared by every unit that sees Context)
// what `build` produces from the selected results: an object with one member per present result, in selection order
// (a repeated title overwrites the earlier value in place — IndexMap::insert)
pub open spec fn build_entries(res: Seq<(String, Option<JsonValue>)>) -> Seq<(String, JsonValue)>
    decreases res.len()
{
    if res.len() == 0 { Seq::empty() } else {
        let init = build_entries(res.drop_last());
        match res.last().1 { Some(v) => im_insert(init, res.last().0, v), None => init }
    }
}

pub open spec fn first_selected(res: Seq<(String, Option<JsonValue>)>, name: String) -> Option<JsonValue>
    decreases res.len()
{
    if res.len() == 0 { None } else if res[0].0 == name { res[0].1 } else { first_selected(res.drop_first(), name) }
}


// the selected values of a row, in selection order (absent values included)
pub open spec fn res_values(res: Seq<(String, Option<JsonValue>)>) -> Seq<Option<JsonValue>> { Seq::new(res.len(), |i: int| res[i].1) }
