// ---- property-level lemmas over the documented pipeline Cli::pipeline (pure spec; no code of /repo) ----
// C11: without a stateful option the pipeline is record-local: it distributes over concatenation of the input rows, and the
// rows produced for an input are the concatenation of the rows produced for each value alone.
pub proof fn lemma_tail_add(a: Seq<Context>, b: Seq<Context>)
    requires a.len() > 0,
    ensures tail(a.add(b)) == tail(a).add(b), a.add(b)[0] == a[0],
{
    assert(tail(a.add(b)) =~= tail(a).add(b));
}
pub proof fn lemma_filter_rows_add(f: Rc<dyn Get>, a: Seq<Context>, b: Seq<Context>)
    ensures filter_rows(f, a.add(b)) == filter_rows(f, a).add(filter_rows(f, b)),
    decreases a.len(),
{
    if a.len() == 0 { assert(a.add(b) =~= b); assert(filter_rows(f, a).add(filter_rows(f, b)) =~= filter_rows(f, b)); }
    else {
        lemma_tail_add(a, b);
        lemma_filter_rows_add(f, tail(a), b);
        let x = filter_rows(f, tail(a)); let y = filter_rows(f, b);
        assert(seq![a[0]].add(x.add(y)) =~= seq![a[0]].add(x).add(y));
    }
}
pub proof fn lemma_select_rows_add(g: Rc<dyn Get>, name: String, a: Seq<Context>, b: Seq<Context>)
    ensures select_rows(g, name, a.add(b)) == select_rows(g, name, a).add(select_rows(g, name, b)),
    decreases a.len(),
{
    if a.len() == 0 { assert(a.add(b) =~= b); assert(select_rows(g, name, a).add(select_rows(g, name, b)) =~= select_rows(g, name, b)); }
    else {
        lemma_tail_add(a, b);
        lemma_select_rows_add(g, name, tail(a), b);
        let x = select_rows(g, name, tail(a)); let y = select_rows(g, name, b);
        assert(seq![select_row(g, name, a[0])].add(x.add(y)) =~= seq![select_row(g, name, a[0])].add(x).add(y));
    }
}
pub proof fn lemma_preset_rows_add(v: Map<String, JsonValue>, m: Map<String, Rc<dyn Get>>, a: Seq<Context>, b: Seq<Context>)
    ensures preset_rows(v, m, a.add(b)) == preset_rows(v, m, a).add(preset_rows(v, m, b)),
    decreases a.len(),
{
    if a.len() == 0 { assert(a.add(b) =~= b); assert(preset_rows(v, m, a).add(preset_rows(v, m, b)) =~= preset_rows(v, m, b)); }
    else {
        lemma_tail_add(a, b);
        lemma_preset_rows_add(v, m, tail(a), b);
        let x = preset_rows(v, m, tail(a)); let y = preset_rows(v, m, b);
        assert(seq![preset_row(v, m, a[0])].add(x.add(y)) =~= seq![preset_row(v, m, a[0])].add(x).add(y));
    }
}
pub proof fn lemma_split_rows_add(g: Rc<dyn Get>, a: Seq<Context>, b: Seq<Context>)
    ensures split_rows(g, a.add(b)) == split_rows(g, a).add(split_rows(g, b)),
    decreases a.len(),
{
    if a.len() == 0 { assert(a.add(b) =~= b); assert(split_rows(g, a).add(split_rows(g, b)) =~= split_rows(g, b)); }
    else {
        lemma_tail_add(a, b);
        lemma_split_rows_add(g, tail(a), b);
        let x = split_rows(g, tail(a)); let y = split_rows(g, b);
        assert(split_row(g, a[0]).add(x.add(y)) =~= split_row(g, a[0]).add(x).add(y));
    }
}
pub proof fn lemma_selects_spec_add(texts: Seq<String>, a: Seq<Context>, b: Seq<Context>)
    ensures selects_spec(texts, a.add(b)) == selects_spec(texts, a).add(selects_spec(texts, b)),
    decreases texts.len(),
{
    if texts.len() > 0 {
        let g = getter_of(texts[0]@); let n = select_name_of(texts[0]@);
        lemma_select_rows_add(g, n, a, b);
        lemma_selects_spec_add(tail_s(texts), select_rows(g, n, a), select_rows(g, n, b));
    }
}
// the options that make a run stateless (C11's own list): no --unique, --sort-by, --skip, --take, --group-by / --merge
impl Cli {
    pub closed spec fn stateless(&self) -> bool {
        !self.unique && self.sort_by@.len() == 0 && self.skip == 0 && self.take is None && self.group_by is None
    }
}
pub proof fn lemma_window_all(r: Seq<Context>)
    ensures window(0, None, r) == r,
{
    if r.len() == 0 { assert(window(0, None, r) =~= r); }
}
pub proof fn lemma_pipeline_concat(cli: Cli, none_set: bool, v: Map<String, JsonValue>, m: Map<String, Rc<dyn Get>>, a: Seq<Context>, b: Seq<Context>)
    requires cli.stateless(),
    ensures cli.pipeline(none_set, v, m, a.add(b)) == cli.pipeline(none_set, v, m, a).add(cli.pipeline(none_set, v, m, b)), // @obl THY.C11.concat : C11 C03
{
    let p = |r: Seq<Context>| presets(none_set, v, m, r);
    if !none_set { lemma_preset_rows_add(v, m, a, b); }
    assert(p(a.add(b)) == p(a).add(p(b)));
    let s = |r: Seq<Context>| opt_split(cli.break_by, r);
    if cli.break_by is Some { lemma_split_rows_add(getter_of(cli.break_by->0@), p(a), p(b)); }
    assert(s(p(a).add(p(b))) == s(p(a)).add(s(p(b))));
    let f = |r: Seq<Context>| opt_filter(cli.filter, r);
    if cli.filter is Some { lemma_filter_rows_add(getter_of(cli.filter->0@), s(p(a)), s(p(b))); }
    assert(f(s(p(a)).add(s(p(b)))) == f(s(p(a))).add(f(s(p(b)))));
    lemma_selects_spec_add(cli.choose@, f(s(p(a))), f(s(p(b))));
    let ra = selects_spec(cli.choose@, f(s(p(a)))); let rb = selects_spec(cli.choose@, f(s(p(b))));
    lemma_window_all(ra); lemma_window_all(rb); lemma_window_all(ra.add(rb));
}
// ... so the rows for an input are the rows for its first value followed by the rows for the rest: every value is processed
// on its own (record-local), whatever stands before or after it — permuting or repeating values permutes or repeats their rows
pub proof fn lemma_pipeline_pointwise(cli: Cli, none_set: bool, v: Map<String, JsonValue>, m: Map<String, Rc<dyn Get>>, r: Seq<Context>)
    requires cli.stateless(), r.len() > 0,
    ensures cli.pipeline(none_set, v, m, r) == cli.pipeline(none_set, v, m, seq![r[0]]).add(cli.pipeline(none_set, v, m, tail(r))), // @obl THY.C11.pointwise : C11
{
    assert(r =~= seq![r[0]].add(tail(r)));
    lemma_pipeline_concat(cli, none_set, v, m, seq![r[0]], tail(r));
}

// C08: the window of the first skip+take rows is the window of all rows — so a sorter that keeps only the skip+take rows it
// would emit first (the top-N shortcut) cannot change what --skip/--take select, PROVIDED the capped sorter emits exactly the
// first skip+take rows of the uncapped one (take_prefix below; that step is the bucket-machine lemma, see DESIGN §5 C08)
pub proof fn lemma_window_len(s: nat, t: Option<nat>, r: Seq<Context>)
    ensures window(s, t, r).len() <= r.len(),
    decreases r.len(),
{
    if r.len() > 0 {
        if s > 0 { lemma_window_len((s - 1) as nat, t, tail(r)); }
        else if t is Some && t->0 > 0 { lemma_window_len(0, Some((t->0 - 1) as nat), tail(r)); }
    }
}
pub proof fn lemma_window_of_prefix(s: nat, t: nat, r: Seq<Context>, n: int)
    requires s + t <= n <= r.len(),
    ensures window(s, Some(t), r.take(n)) == window(s, Some(t), r), // @obl THY.C08.window_of_prefix : C08
    decreases r.len(),
{
    if r.len() == 0 { assert(r.take(n) =~= r); }
    else if n == 0 {
        assert(r.take(0).len() == 0);
        assert(s == 0 && t == 0);
    } else {
        assert(tail(r.take(n)) =~= tail(r).take(n - 1));
        assert(r.take(n)[0] == r[0]);
        if s > 0 { lemma_window_of_prefix((s - 1) as nat, t, tail(r), n - 1); }
        else if t > 0 { lemma_window_of_prefix(0, (t - 1) as nat, tail(r), n - 1); }
    }
}
// C10: --unique as a pure function: what uniq_rows keeps are exactly the first occurrences
// (1) a kept row's key was not seen before, (2) no two kept rows have the same key, (3) the kept rows are a subsequence of the
// input in input order, (4) a row that is dropped has a key that was seen before (in `seen` or on an earlier row)
pub open spec fn has_key(r: Seq<Context>, k: ContextKey) -> bool { exists|i: int| 0 <= i < r.len() && ctx_key(#[trigger] r[i]) == k }
pub proof fn lemma_uniq_rows_first_occurrences(seen: Set<ContextKey>, r: Seq<Context>)
    ensures
        forall|i: int| 0 <= i < uniq_rows(seen, r).len() ==> !seen.contains(ctx_key(#[trigger] uniq_rows(seen, r)[i])),
        forall|i: int, j: int| 0 <= i < j < uniq_rows(seen, r).len() ==> ctx_key(#[trigger] uniq_rows(seen, r)[i]) != ctx_key(#[trigger] uniq_rows(seen, r)[j]),
        forall|i: int| 0 <= i < r.len() ==> (seen.contains(ctx_key(#[trigger] r[i])) || has_key(uniq_rows(seen, r), ctx_key(r[i]))),
        forall|i: int| 0 <= i < uniq_rows(seen, r).len() ==> has_key(r, ctx_key(#[trigger] uniq_rows(seen, r)[i])), // @obl THY.C10.first_occurrences : C10
    decreases r.len(),
{
    if r.len() > 0 {
        let k0 = ctx_key(r[0]);
        let t = tail(r);
        if seen.contains(k0) {
            lemma_uniq_rows_first_occurrences(seen, t);
            let u = uniq_rows(seen, t);
            assert forall|i: int| 0 <= i < r.len() implies (seen.contains(ctx_key(#[trigger] r[i])) || has_key(u, ctx_key(r[i]))) by {
                if i > 0 { assert(r[i] == t[i - 1]); }
            }
            assert forall|i: int| 0 <= i < u.len() implies has_key(r, ctx_key(#[trigger] u[i])) by {
                let j = choose|j: int| 0 <= j < t.len() && ctx_key(t[j]) == ctx_key(u[i]);
                assert(r[j + 1] == t[j]);
            }
        } else {
            let s2 = seen.insert(k0);
            lemma_uniq_rows_first_occurrences(s2, t);
            let u = uniq_rows(s2, t);
            let res = seq![r[0]].add(u);
            assert(uniq_rows(seen, r) == res);
            assert forall|i: int| 0 <= i < res.len() implies !seen.contains(ctx_key(#[trigger] res[i])) by {
                if i > 0 { assert(res[i] == u[i - 1]); assert(!s2.contains(ctx_key(u[i - 1]))); }
            }
            assert forall|i: int, j: int| 0 <= i < j < res.len() implies ctx_key(#[trigger] res[i]) != ctx_key(#[trigger] res[j]) by {
                assert(res[j] == u[j - 1]);
                if i == 0 { assert(!s2.contains(ctx_key(u[j - 1]))); } else { assert(res[i] == u[i - 1]); }
            }
            assert forall|i: int| 0 <= i < r.len() implies (seen.contains(ctx_key(#[trigger] r[i])) || has_key(res, ctx_key(r[i]))) by {
                if i == 0 { assert(res[0] == r[0]); }
                else {
                    assert(r[i] == t[i - 1]);
                    if s2.contains(ctx_key(t[i - 1])) {
                        if !seen.contains(ctx_key(t[i - 1])) { assert(ctx_key(t[i - 1]) == k0); assert(res[0] == r[0]); }
                    } else {
                        let j = choose|j: int| 0 <= j < u.len() && ctx_key(u[j]) == ctx_key(t[i - 1]);
                        assert(res[j + 1] == u[j]);
                    }
                }
            }
            assert forall|i: int| 0 <= i < res.len() implies has_key(r, ctx_key(#[trigger] res[i])) by {
                if i == 0 { assert(ctx_key(r[0]) == ctx_key(res[0])); }
                else {
                    assert(res[i] == u[i - 1]);
                    let j = choose|j: int| 0 <= j < t.len() && ctx_key(t[j]) == ctx_key(u[i - 1]);
                    assert(r[j + 1] == t[j]);
                }
            }
        }
    }
}

// C03, end to end: the chain that go() starts and then feeds is the documented pipeline in front of the printer, and the printer has
// been started with the selection names (none behind --group-by / --merge) — Process::start cannot change what the chain computes
pub proof fn lemma_started_chain_is_the_pipeline(q: Box<dyn Process>, p: Box<dyn Process>, s: Box<dyn Process>, cli: Cli, v: Map<String, JsonValue>, m: Map<String, Rc<dyn Get>>, rows: Seq<Context>)
    requires is_pipeline_of(q, p, cli, v, m), started_from(q, s),
    ensures s.fut(rows) == p.sfut(cli.titles(Seq::empty()), cli.pipeline(cli.no_set(), v, m, rows)), // @obl THY.C03.started_chain_is_the_pipeline : C03 C08 C09 C15 C10 C07
{
    assert(s.fut(rows) == q.sfut(Seq::empty(), rows));
}

// ================= C09: --group-by as a pure function =================
pub type Gs = Seq<(String, Seq<JsonValue>)>;
pub open spec fn gs_distinct(gs: Gs) -> bool { forall|i: int, j: int| 0 <= i < j < gs.len() ==> (#[trigger] gs[i]).0 != (#[trigger] gs[j]).0 }
pub open spec fn gs_idx(gs: Gs, k: String) -> int { choose|i: int| 0 <= i < gs.len() && gs[i].0 == k }
// the rows collected under key k (none when there is no such group)
pub open spec fn gs_members(gs: Gs, k: String) -> Seq<JsonValue> { if has_group(gs, k) { gs[gs_idx(gs, k)].1 } else { Seq::empty() } }
pub open spec fn gs_keys(gs: Gs) -> Seq<String> { Seq::new(gs.len(), |i: int| gs[i].0) }
pub proof fn lemma_group_add(gs: Gs, k: String, v: JsonValue, k2: String)
    requires gs_distinct(gs),
    ensures gs_distinct(group_add(gs, k, v)),
        gs_members(group_add(gs, k, v), k2) == (if k2 == k { gs_members(gs, k).push(v) } else { gs_members(gs, k2) }),
        gs_keys(group_add(gs, k, v)) == (if has_group(gs, k) { gs_keys(gs) } else { gs_keys(gs).push(k) }),
{
    let g2 = group_add(gs, k, v);
    if has_group(gs, k) {
        let i = gs_idx(gs, k);
        assert(g2 == gs.update(i, (k, gs[i].1.push(v))));
        assert forall|a: int, b: int| 0 <= a < b < g2.len() implies (#[trigger] g2[a]).0 != (#[trigger] g2[b]).0 by { assert(g2[a].0 == gs[a].0 && g2[b].0 == gs[b].0); }
        assert(gs_keys(g2) =~= gs_keys(gs));
        if k2 == k {
            assert(g2[i].0 == k);
            assert(has_group(g2, k));
            let j = gs_idx(g2, k);
            assert(g2[j].0 == gs[j].0);
            if j != i { if j < i { assert(gs[j].0 != gs[i].0); } else { assert(gs[i].0 != gs[j].0); } }
        } else {
            if has_group(gs, k2) {
                let a = gs_idx(gs, k2);
                assert(g2[a].0 == k2);
                assert(has_group(g2, k2));
                let b = gs_idx(g2, k2);
                assert(g2[b].0 == gs[b].0);
                if a != b { if a < b { assert(gs[a].0 != gs[b].0); } else { assert(gs[b].0 != gs[a].0); } }
                assert(a != i);
            } else {
                if has_group(g2, k2) { let b = gs_idx(g2, k2); assert(g2[b].0 == gs[b].0); assert(gs[b].0 == k2); assert(false); }
            }
        }
    } else {
        assert(g2 == gs.push((k, seq![v])));
        assert forall|a: int, b: int| 0 <= a < b < g2.len() implies (#[trigger] g2[a]).0 != (#[trigger] g2[b]).0 by {
            if b < gs.len() { assert(g2[a] == gs[a] && g2[b] == gs[b]); } else { assert(g2[a] == gs[a]); assert(g2[b].0 == k); if gs[a].0 == k { assert(has_group(gs, k)); } }
        }
        assert(gs_keys(g2) =~= gs_keys(gs).push(k));
        if k2 == k {
            assert(g2[gs.len() as int].0 == k);
            assert(has_group(g2, k));
            let j = gs_idx(g2, k);
            if j < gs.len() { assert(g2[j] == gs[j]); assert(has_group(gs, k)); }
            assert(gs_members(gs, k) =~= Seq::<JsonValue>::empty());
            assert(seq![v] =~= Seq::<JsonValue>::empty().push(v));
        } else {
            if has_group(gs, k2) {
                let a = gs_idx(gs, k2);
                assert(g2[a] == gs[a]);
                assert(has_group(g2, k2));
                let b = gs_idx(g2, k2);
                if b == gs.len() { assert(g2[b].0 == k); } else {
                    assert(g2[b] == gs[b]);
                    if a != b { if a < b { assert(gs[a].0 != gs[b].0); } else { assert(gs[b].0 != gs[a].0); } }
                }
            } else {
                if has_group(g2, k2) { let b = gs_idx(g2, k2); if b < gs.len() { assert(g2[b] == gs[b]); assert(has_group(gs, k2)); } else { assert(g2[b].0 == k); } assert(false); }
            }
        }
    }
}
// the built rows whose group key is k, in arrival order; and the keys in first-seen order
pub open spec fn rows_of_key(g: Rc<dyn Get>, k: String, r: Seq<Context>) -> Seq<JsonValue>
    decreases r.len()
{
    if r.len() == 0 { Seq::empty() } else if group_key(g, r[0]) == Some(k) { seq![ctx_build(r[0])].add(rows_of_key(g, k, tail(r))) } else { rows_of_key(g, k, tail(r)) }
}
pub open spec fn first_seen(g: Rc<dyn Get>, seen: Seq<String>, r: Seq<Context>) -> Seq<String>
    decreases r.len()
{
    if r.len() == 0 { seen } else {
        match group_key(g, r[0]) {
            Some(k) => first_seen(g, if seen.contains(k) { seen } else { seen.push(k) }, tail(r)),
            None => first_seen(g, seen, tail(r)),
        }
    }
}
pub proof fn lemma_keys_contains(gs: Gs, k: String)
    ensures gs_keys(gs).contains(k) == has_group(gs, k),
{
    if gs_keys(gs).contains(k) { let i = choose|i: int| 0 <= i < gs_keys(gs).len() && gs_keys(gs)[i] == k; assert(gs[i].0 == k); }
    if has_group(gs, k) { let i = gs_idx(gs, k); assert(gs_keys(gs)[i] == k); }
}
// THE THEOREM (C09): the object --group-by emits has one member per distinct string key, in first-seen order, and under each key
// exactly the built rows with that key, each once, in arrival order; rows without a string key are dropped
pub proof fn lemma_group_all(g: Rc<dyn Get>, gs: Gs, r: Seq<Context>, k: String)
    requires gs_distinct(gs),
    ensures gs_distinct(group_all(g, gs, r)),
        gs_members(group_all(g, gs, r), k) == gs_members(gs, k).add(rows_of_key(g, k, r)),
        gs_keys(group_all(g, gs, r)) == first_seen(g, gs_keys(gs), r), // @obl THY.C09.groups : C09 C03
    decreases r.len(),
{
    if r.len() == 0 { assert(gs_members(gs, k).add(Seq::<JsonValue>::empty()) =~= gs_members(gs, k)); }
    else {
        match group_key(g, r[0]) {
            Some(k0) => {
                let v = ctx_build(r[0]);
                lemma_group_add(gs, k0, v, k);
                lemma_keys_contains(gs, k0);
                let g2 = group_add(gs, k0, v);
                lemma_group_all(g, g2, tail(r), k);
                if k == k0 { assert(gs_members(gs, k).push(v).add(rows_of_key(g, k, tail(r))) =~= gs_members(gs, k).add(seq![v].add(rows_of_key(g, k, tail(r))))); }
            },
            None => { lemma_group_all(g, gs, tail(r), k); },
        }
    }
}

// C08: the window IS rows S .. S+T-1 (positions counted from 0), cut at the end of the list; without --take everything from S on
pub open spec fn imin2(a: int, b: int) -> int { if a < b { a } else { b } }
pub proof fn lemma_window_is_slice(s: nat, t: Option<nat>, r: Seq<Context>)
    ensures window(s, t, r) == (match t { Some(n) => r.subrange(imin2(s as int, r.len() as int), imin2((s + n) as int, r.len() as int)), None => r.subrange(imin2(s as int, r.len() as int), r.len() as int) }), // @obl THY.C08.window_is_rows_S_to_S_plus_T : C08 C03
    decreases r.len(),
{
    let l = r.len() as int;
    if r.len() == 0 {
        assert(window(s, t, r) =~= r.subrange(0, 0));
    } else if s > 0 {
        lemma_window_is_slice((s - 1) as nat, t, tail(r));
        let tl = tail(r);
        match t {
            Some(n) => { assert(tl.subrange(imin2(s - 1, l - 1), imin2(s - 1 + n, l - 1)) =~= r.subrange(imin2(s as int, l), imin2((s + n) as int, l))); },
            None => { assert(tl.subrange(imin2(s - 1, l - 1), l - 1) =~= r.subrange(imin2(s as int, l), l)); },
        }
    } else {
        match t {
            None => { assert(r.subrange(0, l) =~= r); },
            Some(n) => {
                if n == 0 { assert(window(s, t, r) =~= r.subrange(0, 0)); }
                else {
                    lemma_window_is_slice(0, Some((n - 1) as nat), tail(r));
                    let tl = tail(r);
                    assert(seq![r[0]].add(tl.subrange(0, imin2(n - 1, l - 1))) =~= r.subrange(0, imin2(n as int, l)));
                }
            },
        }
    }
}

// C14: once S+T rows have reached --skip S --take T, whatever input follows cannot change what it selects — which is why the
// limiter may answer Break and the reader may stop (the protocol side of this is (P2) on every stage and LOOP.stop)
pub proof fn lemma_rows_after_the_window_are_irrelevant(s: nat, t: nat, a: Seq<Context>, b: Seq<Context>)
    requires a.len() >= s + t,
    ensures window(s, Some(t), a.add(b)) == window(s, Some(t), a), // @obl THY.C14.rows_after_the_window_are_irrelevant : C14 C08
{
    lemma_window_is_slice(s, Some(t), a.add(b));
    lemma_window_is_slice(s, Some(t), a);
    assert(a.add(b).subrange(s as int, (s + t) as int) =~= a.subrange(s as int, (s + t) as int));
}
