// ---- --sort-by as an abstract bucket machine (DESIGN C07.bucket / C08.topn) ----
// Buckets in ascending key order; inside a bucket the rows are in deque order: newest first (push_front), so a bucket is
// emitted back to front = oldest first = arrival order (stability).
pub open spec fn bkv(s: Seq<(JsonValue, VecDeque<Context>)>) -> Seq<(JsonValue, Seq<Context>)> { Seq::new(s.len(), |i: int| (s[i].0, s[i].1@)) }
pub open spec fn bk_keys(b: Seq<(JsonValue, Seq<Context>)>) -> Seq<JsonValue> { Seq::new(b.len(), |i: int| b[i].0) }
pub open spec fn bk_add(b: Seq<(JsonValue, Seq<Context>)>, k: JsonValue, c: Context) -> Seq<(JsonValue, Seq<Context>)> {
    if bt_found(bk_keys(b), k) { let i = bt_idx(bk_keys(b), k); b.update(i, (b[i].0, seq![c].add(b[i].1))) }
    else { b.insert(bt_rank(bk_keys(b), k), (k, seq![c])) }
}
// drop the row that would be emitted LAST: the newest row of the last bucket in emission order
pub open spec fn bk_remove_last(asc: bool, b: Seq<(JsonValue, Seq<Context>)>) -> Seq<(JsonValue, Seq<Context>)> {
    if b.len() == 0 { b } else {
        let i = if asc { b.len() - 1 } else { 0 };
        let d = if b[i].1.len() > 0 { b[i].1.subrange(1, b[i].1.len() as int) } else { b[i].1 };
        if d.len() == 0 { b.remove(i) } else { b.update(i, (b[i].0, d)) }
    }
}
pub open spec fn sort_step(g: Rc<dyn Get>, asc: bool, b: Seq<(JsonValue, Seq<Context>)>, cap: Option<nat>, c: Context) -> (Seq<(JsonValue, Seq<Context>)>, Option<nat>) {
    match g.get_spec(&c) {
        None => (b, cap),            // rows without a sort key are dropped and do NOT use up capacity
        Some(k) => {
            let b1 = bk_add(b, k, c);
            match cap {
                None => (b1, None),
                Some(n) => if n == 0 { (bk_remove_last(asc, b1), Some(0nat)) } else { (b1, Some((n - 1) as nat)) },
            }
        }
    }
}
pub open spec fn sort_all(g: Rc<dyn Get>, asc: bool, b: Seq<(JsonValue, Seq<Context>)>, cap: Option<nat>, r: Seq<Context>) -> Seq<(JsonValue, Seq<Context>)>
    decreases r.len()
{
    if r.len() == 0 { b } else { let s = sort_step(g, asc, b, cap, r[0]); sort_all(g, asc, s.0, s.1, tail(r)) }
}
pub open spec fn rev_seq(d: Seq<Context>) -> Seq<Context>
    decreases d.len()
{
    if d.len() == 0 { Seq::empty() } else { seq![d.last()].add(rev_seq(d.drop_last())) }
}
// emission order from the i-th bucket on (ascending: bucket i; descending: bucket len-1-i)
pub open spec fn emit_from(asc: bool, b: Seq<(JsonValue, Seq<Context>)>, i: int) -> Seq<Context>
    decreases b.len() - i
{
    if i < 0 || i >= b.len() { Seq::empty() } else { rev_seq(b[if asc { i } else { b.len() - 1 - i }].1).add(emit_from(asc, b, i + 1)) }
}
pub open spec fn emit(asc: bool, b: Seq<(JsonValue, Seq<Context>)>) -> Seq<Context> { emit_from(asc, b, 0) }

pub proof fn lemma_bkv_upsert(s: Seq<(JsonValue, VecDeque<Context>)>, k: JsonValue, nd: VecDeque<Context>, c: Context)
    requires
        bt_found(bt_keys(s), k) ==> nd@ == seq![c].add(s[bt_idx(bt_keys(s), k)].1@),
        !bt_found(bt_keys(s), k) ==> nd@ == seq![c],
    ensures bkv(bt_upsert(s, k, nd)) == bk_add(bkv(s), k, c),
{
    assert(bt_keys(s) =~= bk_keys(bkv(s)));
    if bt_found(bt_keys(s), k) {
        let i = bt_idx(bt_keys(s), k);
        assert(bkv(bt_upsert(s, k, nd)) =~= bkv(s).update(i, (bkv(s)[i].0, seq![c].add(bkv(s)[i].1))));
    } else {
        let p = bt_rank(bt_keys(s), k);
        lemma_rank_bounds(bt_keys(s), k);
        assert(bkv(bt_upsert(s, k, nd)) =~= bkv(s).insert(p, (k, seq![c])));
    }
}
pub proof fn lemma_rank_bounds<K>(keys: Seq<K>, k: K)
    ensures 0 <= bt_rank(keys, k) <= keys.len(),
    decreases keys.len()
{
    if keys.len() > 0 { lemma_rank_bounds(keys.drop_last(), k); }
}
