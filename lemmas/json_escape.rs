// ---- the documented JSON string escaping (RFC 8259 §7 + --utf8-strings), per character ----
pub open spec fn esc(ch: char, utf8: bool) -> Seq<char> {
    if ch == '"' { seq!['\\', '"'] } else if ch == '\\' { seq!['\\', '\\'] } else if ch == '/' { seq!['\\', '/'] }
    else if ch == '\u{08}' { seq!['\\', 'b'] } else if ch == '\u{0c}' { seq!['\\', 'f'] } else if ch == '\n' { seq!['\\', 'n'] }
    else if ch == '\r' { seq!['\\', 'r'] } else if ch == '\t' { seq!['\\', 't'] }
    else if (utf8 && ' ' <= ch) || (' ' <= ch && ch <= '~') { seq![ch] }
    else { seq!['\\', 'u'].add(hex_min4_text(ch as u64)) }
}
pub open spec fn esc_all(s: Seq<char>, utf8: bool) -> Seq<char>
    decreases s.len()
{
    if s.len() == 0 { Seq::empty() } else { esc_all(s.drop_last(), utf8).add(esc(s.last(), utf8)) }
}
