// spec functions of the Reader contracts (shared)
pub open spec fn is_ws(b: u8) -> bool { b == 0x20 || b == 0x0a || b == 0x09 || b == 0x0d }
pub open spec fn is_digit(b: u8) -> bool { 0x30 <= b <= 0x39 }

// length of the maximal prefix of delivered bytes that are white space / decimal digits
pub open spec fn ws_run(s: Seq<Option<u8>>) -> nat
    decreases s.len()
{
    if s.len() > 0 && s[0] is Some && is_ws(s[0].unwrap()) { 1 + ws_run(s.subrange(1, s.len() as int)) } else { 0 }
}
pub open spec fn digit_run(s: Seq<Option<u8>>) -> nat
    decreases s.len()
{
    if s.len() > 0 && s[0] is Some && is_digit(s[0].unwrap()) { 1 + digit_run(s.subrange(1, s.len() as int)) } else { 0 }
}
pub open spec fn unwrap_all(s: Seq<Option<u8>>) -> Seq<u8> { Seq::new(s.len(), |i: int| s[i].unwrap()) }


// ---- consumption seen through pending(): only a prefix of the pending bytes is consumed, and (unless a read failed,
// which is always reported as Err) every consumed byte was a delivered byte
pub open spec fn suffix_of(new_p: Seq<Option<u8>>, old_p: Seq<Option<u8>>) -> bool {
    new_p.len() <= old_p.len() && new_p =~= old_p.subrange(old_p.len() - new_p.len(), old_p.len() as int)
}
pub open spec fn consumed(old_p: Seq<Option<u8>>, new_p: Seq<Option<u8>>) -> Seq<Option<u8>> { old_p.subrange(0, old_p.len() - new_p.len()) }
pub open spec fn no_fault(s: Seq<Option<u8>>) -> bool { forall|i: int| 0 <= i < s.len() ==> (#[trigger] s[i]) is Some }
// some read among these pending stream elements fails (opaque: only the few lemmas about it look inside)
#[verifier::opaque]
pub open spec fn has_fault(s: Seq<Option<u8>>) -> bool { !no_fault(s) }
pub open spec fn advance(old_p: Seq<Option<u8>>, new_p: Seq<Option<u8>>) -> bool { suffix_of(new_p, old_p) && no_fault(consumed(old_p, new_p)) }
