// spec functions of the Reader contracts (shared)
pub open spec fn is_ws(b: u8) -> bool { b == 0x20 || b == 0x0a || b == 0x09 || b == 0x0d }
pub open spec fn is_digit(b: u8) -> bool { 0x30 <= b <= 0x39 }

// length of the maximal prefix of delivered bytes that are white space / decimal digits
pub open spec fn ws_run(s: Seq<Option<u8>>) -> nat
    decreases s.len()
{
    if s.len() > 0 && s[0] is Some && is_ws(s[0].unwrap()) { 1 + ws_run(s.subrange(1, s.len() as int)) } else { 0 }
}
pub open spec fn digit_run(s: Seq<Option<u8>>) -> nat
    decreases s.len()
{
    if s.len() > 0 && s[0] is Some && is_digit(s[0].unwrap()) { 1 + digit_run(s.subrange(1, s.len() as int)) } else { 0 }
}
pub open spec fn unwrap_all(s: Seq<Option<u8>>) -> Seq<u8> { Seq::new(s.len(), |i: int| s[i].unwrap()) }

