// ---- J: the JSON token grammar as spec functions over the pending bytes (written from RFC 8259, not from the code) ----
// at(p, i): the delivered byte at offset i, None at a failed read or past the end
pub open spec fn at(p: Seq<Option<u8>>, i: int) -> Option<u8> { if 0 <= i < p.len() { p[i] } else { None } }
pub open spec fn from(p: Seq<Option<u8>>, i: int) -> Seq<Option<u8>> { if 0 <= i <= p.len() { p.subrange(i, p.len() as int) } else { Seq::empty() } }

// number = [ minus ] int [ frac ] [ exp ]  — maximal munch. (jawk is lenient about empty digit runs; for every RFC-valid
// number followed by a legal separator the lenient munch and the RFC munch coincide.)
pub open spec fn num_sign(p: Seq<Option<u8>>) -> int { if at(p, 0) == Some(0x2du8) { 1 } else { 0 } }
pub open spec fn num_int_end(p: Seq<Option<u8>>) -> int { num_sign(p) + digit_run(from(p, num_sign(p))) }
pub open spec fn num_has_frac(p: Seq<Option<u8>>) -> bool { at(p, num_int_end(p)) == Some(0x2eu8) }
pub open spec fn num_frac_end(p: Seq<Option<u8>>) -> int {
    if num_has_frac(p) { num_int_end(p) + 1 + digit_run(from(p, num_int_end(p) + 1)) } else { num_int_end(p) }
}
// exponent marker: `e` or `E`
pub open spec fn num_has_exp(p: Seq<Option<u8>>) -> bool { at(p, num_frac_end(p)) == Some(0x65u8) || at(p, num_frac_end(p)) == Some(0x45u8) }
pub open spec fn num_exp_digits_at(p: Seq<Option<u8>>) -> int {
    let e = num_frac_end(p);
    if at(p, e + 1) == Some(0x2du8) || at(p, e + 1) == Some(0x2bu8) { e + 2 } else { e + 1 }
}
pub open spec fn num_end(p: Seq<Option<u8>>) -> int {
    if num_has_exp(p) { num_exp_digits_at(p) + digit_run(from(p, num_exp_digits_at(p))) } else { num_frac_end(p) }
}
// a number with a fraction or an exponent is a double, everything else an integer (C19)
pub open spec fn num_is_double(p: Seq<Option<u8>>) -> bool { num_has_frac(p) || num_has_exp(p) }
