// ---- J: the JSON token grammar as spec functions over the pending bytes (written from RFC 8259, not from the code) ----
// at(p, i): the delivered byte at offset i, None at a failed read or past the end
pub open spec fn at(p: Seq<Option<u8>>, i: int) -> Option<u8> { if 0 <= i < p.len() { p[i] } else { None } }
pub open spec fn from(p: Seq<Option<u8>>, i: int) -> Seq<Option<u8>> { if 0 <= i <= p.len() { p.subrange(i, p.len() as int) } else { Seq::empty() } }

// number = [ minus ] int [ frac ] [ exp ]  — maximal munch. (jawk is lenient about empty digit runs; for every RFC-valid
// number followed by a legal separator the lenient munch and the RFC munch coincide.)
pub open spec fn num_sign(p: Seq<Option<u8>>) -> int { if at(p, 0) == Some(0x2du8) { 1 } else { 0 } }
pub open spec fn num_int_end(p: Seq<Option<u8>>) -> int { num_sign(p) + digit_run(from(p, num_sign(p))) }
pub open spec fn num_has_frac(p: Seq<Option<u8>>) -> bool { at(p, num_int_end(p)) == Some(0x2eu8) }
pub open spec fn num_frac_end(p: Seq<Option<u8>>) -> int {
    if num_has_frac(p) { num_int_end(p) + 1 + digit_run(from(p, num_int_end(p) + 1)) } else { num_int_end(p) }
}
// exponent marker: `e` or `E`
pub open spec fn num_has_exp(p: Seq<Option<u8>>) -> bool { at(p, num_frac_end(p)) == Some(0x65u8) || at(p, num_frac_end(p)) == Some(0x45u8) }
pub open spec fn num_exp_digits_at(p: Seq<Option<u8>>) -> int {
    let e = num_frac_end(p);
    if at(p, e + 1) == Some(0x2du8) || at(p, e + 1) == Some(0x2bu8) { e + 2 } else { e + 1 }
}
pub open spec fn num_end(p: Seq<Option<u8>>) -> int {
    if num_has_exp(p) { num_exp_digits_at(p) + digit_run(from(p, num_exp_digits_at(p))) } else { num_frac_end(p) }
}
// a number with a fraction or an exponent is a double, everything else an integer (C19)
pub open spec fn num_is_double(p: Seq<Option<u8>>) -> bool { num_has_frac(p) || num_has_exp(p) }

// value = false / null / true / object / array / number / string : the byte that starts each alternative
pub open spec fn starts_value(b: u8) -> bool {
    b == 0x74u8 || b == 0x66u8 || b == 0x6eu8 || b == 0x22u8 || b == 0x2du8 || is_digit(b) || b == 0x5bu8 || b == 0x7bu8
}
// p[i .. i+w.len()) are exactly the delivered bytes w
pub open spec fn bytes_at(p: Seq<Option<u8>>, i: int, w: Seq<u8>) -> bool {
    i + w.len() <= p.len() && forall|j: int| i <= j < i + w.len() ==> (#[trigger] p[j]) == Some(w[j - i])
}

// the text handed to str::parse: the token with `e` spelled `E` and a `+` exponent sign dropped (both are ignored by
// f64::from_str); digits, `-` and `.` verbatim
pub open spec fn seg(p: Seq<Option<u8>>, a: int, b: int) -> Seq<u8> { if 0 <= a <= b <= p.len() { unwrap_all(p.subrange(a, b)) } else { Seq::empty() } }
pub open spec fn num_text_int(p: Seq<Option<u8>>) -> Seq<u8> {
    (if num_sign(p) == 1 { seq![0x2du8] } else { Seq::<u8>::empty() }).add(seg(p, num_sign(p), num_int_end(p)))
}
pub open spec fn num_text_frac(p: Seq<Option<u8>>) -> Seq<u8> {
    if num_has_frac(p) { num_text_int(p).push(0x2eu8).add(seg(p, num_int_end(p) + 1, num_frac_end(p))) } else { num_text_int(p) }
}
pub open spec fn num_text(p: Seq<Option<u8>>) -> Seq<u8> {
    if num_has_exp(p) {
        let t = num_text_frac(p).push(0x45u8);
        (if at(p, num_frac_end(p) + 1) == Some(0x2du8) { t.push(0x2du8) } else { t }).add(seg(p, num_exp_digits_at(p), num_end(p)))
    } else { num_text_frac(p) }
}

