// ---- the documented stage transformers as pure functions on row sequences (front-recursive) ----
pub open spec fn tail(r: Seq<Context>) -> Seq<Context> { r.subrange(1, r.len() as int) }

// --skip S --take T: rows S .. S+T-1
pub open spec fn window(skip: nat, take: Option<nat>, r: Seq<Context>) -> Seq<Context>
    decreases r.len()
{
    if r.len() == 0 { Seq::empty() }
    else if skip > 0 { window((skip - 1) as nat, take, tail(r)) }
    else { match take {
        None => r,
        Some(t) => if t == 0 { Seq::empty() } else { seq![r[0]].add(window(0, Some((t - 1) as nat), tail(r))) },
    } }
}
// --filter f: rows whose filter value is exactly `true`
pub open spec fn keeps(f: Rc<dyn Get>, c: Context) -> bool { f.get_spec(&c) == Some(JsonValue::Boolean(true)) }
pub open spec fn filter_rows(f: Rc<dyn Get>, r: Seq<Context>) -> Seq<Context>
    decreases r.len()
{
    if r.len() == 0 { Seq::empty() }
    else if keeps(f, r[0]) { seq![r[0]].add(filter_rows(f, tail(r))) }
    else { filter_rows(f, tail(r)) }
}
// --select g=name: every row gets one more result
pub open spec fn select_row(g: Rc<dyn Get>, name: String, c: Context) -> Context { ctx_with_result(c, name, g.get_spec(&c)) }
pub open spec fn select_rows(g: Rc<dyn Get>, name: String, r: Seq<Context>) -> Seq<Context>
    decreases r.len()
{
    if r.len() == 0 { Seq::empty() } else { seq![select_row(g, name, r[0])].add(select_rows(g, name, tail(r))) }
}
// --set: every row gets the preset variables and macros
pub open spec fn preset_row(v: Map<String, JsonValue>, m: Map<String, Rc<dyn Get>>, c: Context) -> Context {
    ctx_with_definitions(ctx_with_variables(c, v), m)
}
pub open spec fn preset_rows(v: Map<String, JsonValue>, m: Map<String, Rc<dyn Get>>, r: Seq<Context>) -> Seq<Context>
    decreases r.len()
{
    if r.len() == 0 { Seq::empty() } else { seq![preset_row(v, m, r[0])].add(preset_rows(v, m, tail(r))) }
}
// --split-by g: one row per element of the array g evaluates to (nothing if it is not an array), each with the element as input
pub open spec fn elems_rows(c: Context, e: Seq<JsonValue>) -> Seq<Context>
    decreases e.len()
{
    if e.len() == 0 { Seq::empty() } else { seq![ctx_with_input(c, e[0])].add(elems_rows(c, e.subrange(1, e.len() as int))) }
}
pub open spec fn split_row(g: Rc<dyn Get>, c: Context) -> Seq<Context> {
    match g.get_spec(&c) { Some(JsonValue::Array(l)) => elems_rows(c, l@), _ => Seq::empty() }
}
pub open spec fn split_rows(g: Rc<dyn Get>, r: Seq<Context>) -> Seq<Context>
    decreases r.len()
{
    if r.len() == 0 { Seq::empty() } else { split_row(g, r[0]).add(split_rows(g, tail(r))) }
}
// --unique: first occurrences by key
pub open spec fn uniq_rows(seen: Set<ContextKey>, r: Seq<Context>) -> Seq<Context>
    decreases r.len()
{
    if r.len() == 0 { Seq::empty() }
    else if seen.contains(ctx_key(r[0])) { uniq_rows(seen, tail(r)) }
    else { seq![r[0]].add(uniq_rows(seen.insert(ctx_key(r[0])), tail(r))) }
}

pub broadcast proof fn lemma_tail_cons(c: Context, r: Seq<Context>)
    ensures #[trigger] tail(seq![c].add(r)) =~= r, seq![c].add(r)[0] == c, seq![c].add(r).len() == r.len() + 1,
{}

pub broadcast proof fn lemma_window_all(r: Seq<Context>)
    ensures #[trigger] window(0, None, r) =~= r,
{}
pub broadcast proof fn lemma_add_assoc(a: Seq<Context>, b: Seq<Context>, c: Seq<Context>)
    ensures #[trigger] a.add(b).add(c) =~= a.add(b.add(c)),
{}
pub broadcast proof fn lemma_add_empty_left(a: Seq<Context>)
    ensures #[trigger] Seq::<Context>::empty().add(a) =~= a,
{}
pub broadcast proof fn lemma_add_empty_right(a: Seq<Context>)
    ensures #[trigger] a.add(Seq::<Context>::empty()) =~= a,
{}
pub broadcast group group_rows { lemma_tail_cons, lemma_window_all, lemma_add_empty_left, lemma_add_empty_right }
