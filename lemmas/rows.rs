// ---- the documented stage transformers as pure functions on row sequences (front-recursive) ----
pub open spec fn tail(r: Seq<Context>) -> Seq<Context> { r.subrange(1, r.len() as int) }

// --skip S --take T: rows S .. S+T-1
pub open spec fn window(skip: nat, take: Option<nat>, r: Seq<Context>) -> Seq<Context>
    decreases r.len()
{
    if r.len() == 0 { Seq::empty() }
    else if skip > 0 { window((skip - 1) as nat, take, tail(r)) }
    else { match take {
        None => r,
        Some(t) => if t == 0 { Seq::empty() } else { seq![r[0]].add(window(0, Some((t - 1) as nat), tail(r))) },
    } }
}
// --filter f: rows whose filter value is exactly `true`
pub open spec fn keeps(f: Rc<dyn Get>, c: Context) -> bool { f.get_spec(&c) == Some(JsonValue::Boolean(true)) }
pub open spec fn filter_rows(f: Rc<dyn Get>, r: Seq<Context>) -> Seq<Context>
    decreases r.len()
{
    if r.len() == 0 { Seq::empty() }
    else if keeps(f, r[0]) { seq![r[0]].add(filter_rows(f, tail(r))) }
    else { filter_rows(f, tail(r)) }
}
// --select g=name: every row gets one more result
pub open spec fn select_row(g: Rc<dyn Get>, name: String, c: Context) -> Context { ctx_with_result(c, name, g.get_spec(&c)) }
pub open spec fn select_rows(g: Rc<dyn Get>, name: String, r: Seq<Context>) -> Seq<Context>
    decreases r.len()
{
    if r.len() == 0 { Seq::empty() } else { seq![select_row(g, name, r[0])].add(select_rows(g, name, tail(r))) }
}
// --set: every row gets the preset variables and macros
pub open spec fn preset_row(v: Map<String, JsonValue>, m: Map<String, Rc<dyn Get>>, c: Context) -> Context {
    ctx_with_definitions(ctx_with_variables(c, v), m)
}
pub open spec fn preset_rows(v: Map<String, JsonValue>, m: Map<String, Rc<dyn Get>>, r: Seq<Context>) -> Seq<Context>
    decreases r.len()
{
    if r.len() == 0 { Seq::empty() } else { seq![preset_row(v, m, r[0])].add(preset_rows(v, m, tail(r))) }
}
// --split-by g: one row per element of the array g evaluates to (nothing if it is not an array), each with the element as input
pub open spec fn elems_rows(c: Context, e: Seq<JsonValue>) -> Seq<Context>
    decreases e.len()
{
    if e.len() == 0 { Seq::empty() } else { seq![ctx_with_input(c, e[0])].add(elems_rows(c, e.subrange(1, e.len() as int))) }
}
pub open spec fn split_row(g: Rc<dyn Get>, c: Context) -> Seq<Context> {
    match g.get_spec(&c) { Some(JsonValue::Array(l)) => elems_rows(c, l@), _ => Seq::empty() }
}
pub open spec fn split_rows(g: Rc<dyn Get>, r: Seq<Context>) -> Seq<Context>
    decreases r.len()
{
    if r.len() == 0 { Seq::empty() } else { split_row(g, r[0]).add(split_rows(g, tail(r))) }
}
// --unique: first occurrences by key
pub open spec fn uniq_rows(seen: Set<ContextKey>, r: Seq<Context>) -> Seq<Context>
    decreases r.len()
{
    if r.len() == 0 { Seq::empty() }
    else if seen.contains(ctx_key(r[0])) { uniq_rows(seen, tail(r)) }
    else { seq![r[0]].add(uniq_rows(seen.insert(ctx_key(r[0])), tail(r))) }
}

// --merge / --group-by collect the BUILT rows
pub open spec fn builds(r: Seq<Context>) -> Seq<JsonValue>
    decreases r.len()
{
    if r.len() == 0 { Seq::empty() } else { seq![ctx_build(r[0])].add(builds(tail(r))) }
}
pub open spec fn merged_row(data: Seq<JsonValue>, r: Seq<Context>) -> Context { ctx_of_value(json_array(data.add(builds(r)))) }

// --group-by g: groups in first-seen key order, each group in arrival order; rows whose key is not a string are dropped
pub open spec fn group_key(g: Rc<dyn Get>, c: Context) -> Option<String> {
    match g.get_spec(&c) { Some(JsonValue::String(s)) => Some(s), _ => None }
}
pub open spec fn has_group(gs: Seq<(String, Seq<JsonValue>)>, k: String) -> bool { exists|i: int| 0 <= i < gs.len() && gs[i].0 == k }
pub open spec fn group_add(gs: Seq<(String, Seq<JsonValue>)>, k: String, v: JsonValue) -> Seq<(String, Seq<JsonValue>)> {
    if has_group(gs, k) {
        let i = choose|i: int| 0 <= i < gs.len() && gs[i].0 == k;
        gs.update(i, (k, gs[i].1.push(v)))
    } else {
        gs.push((k, seq![v]))
    }
}
pub open spec fn group_all(g: Rc<dyn Get>, gs: Seq<(String, Seq<JsonValue>)>, r: Seq<Context>) -> Seq<(String, Seq<JsonValue>)>
    decreases r.len()
{
    if r.len() == 0 { gs } else {
        match group_key(g, r[0]) {
            Some(k) => group_all(g, group_add(gs, k, ctx_build(r[0])), tail(r)),
            None => group_all(g, gs, tail(r)),
        }
    }
}
pub open spec fn group_members(gs: Seq<(String, Seq<JsonValue>)>) -> Seq<(String, JsonValue)> {
    Seq::new(gs.len(), |i: int| (gs[i].0, json_array(gs[i].1)))
}
pub open spec fn grouped_row(g: Rc<dyn Get>, gs: Seq<(String, Seq<JsonValue>)>, r: Seq<Context>) -> Context {
    ctx_of_value(json_object(group_members(group_all(g, gs, r))))
}

pub open spec fn groups_view(e: Seq<(String, Vec<JsonValue>)>) -> Seq<(String, Seq<JsonValue>)> { Seq::new(e.len(), |i: int| (e[i].0, e[i].1@)) }

// IndexMap::entry(k).or_default().push(v) on the stored map is group_add on its view (keys are distinct)
pub proof fn lemma_group_insert(e: Seq<(String, Vec<JsonValue>)>, e2: Seq<(String, Vec<JsonValue>)>, k: String, nv: Vec<JsonValue>, v: JsonValue)
    requires
        im_distinct(e),
        e2 == im_insert(e, k, nv),
        im_has(e, k) ==> nv@ == e[im_idx(e, k)].1@.push(v),
        !im_has(e, k) ==> nv@ == seq![v],
    ensures groups_view(e2) == group_add(groups_view(e), k, v),
{
    let gs = groups_view(e);
    if im_has(e, k) {
        let i = im_idx(e, k);
        assert(gs[i].0 == k);
        assert(has_group(gs, k));
        let j = choose|j: int| 0 <= j < gs.len() && gs[j].0 == k;
        assert(e[j].0 == k);
        assert(i == j);
        assert(groups_view(e2) =~= gs.update(j, (k, gs[j].1.push(v))));
    } else {
        if has_group(gs, k) {
            let j = choose|j: int| 0 <= j < gs.len() && gs[j].0 == k;
            assert(e[j].0 == k);
            assert(false);
        }
        assert(groups_view(e2) =~= gs.push((k, seq![v])));
    }
}

pub broadcast proof fn lemma_tail_cons(c: Context, r: Seq<Context>)
    ensures #[trigger] tail(seq![c].add(r)) =~= r, seq![c].add(r)[0] == c, seq![c].add(r).len() == r.len() + 1,
{}

pub broadcast proof fn lemma_window_all(r: Seq<Context>)
    ensures #[trigger] window(0, None, r) =~= r,
{}
pub broadcast proof fn lemma_add_assoc(a: Seq<Context>, b: Seq<Context>, c: Seq<Context>)
    ensures #[trigger] a.add(b).add(c) =~= a.add(b.add(c)),
{}
pub broadcast proof fn lemma_add_empty_left(a: Seq<Context>)
    ensures #[trigger] Seq::<Context>::empty().add(a) =~= a,
{}
pub broadcast proof fn lemma_add_empty_right(a: Seq<Context>)
    ensures #[trigger] a.add(Seq::<Context>::empty()) =~= a,
{}
pub broadcast group group_rows { lemma_tail_cons, lemma_window_all, lemma_add_empty_left, lemma_add_empty_right }
