// ---- string = quotation-mark *char quotation-mark (RFC 8259 §7), decoded to the UTF-8 bytes of the value ----
// p[q] is the opening quote; str_dec(p, q + 1, []) scans the content: an unescaped byte stands for itself, the two-character
// escapes for one byte, \uXXXX (four hex digits of either case) for the UTF-8 encoding of that Unicode scalar value (a
// surrogate is not a scalar value: no decoding — the property's domain excludes them). Result: the decoded bytes and the
// offset of the closing quote; None when the content is malformed, cut short or a read fails.
pub open spec fn hexv(b: u8) -> Option<u32> {
    if 0x30 <= b <= 0x39 { Some((b - 0x30) as u32) } else if 0x61 <= b <= 0x66 { Some((b - 0x61 + 10) as u32) }
    else if 0x41 <= b <= 0x46 { Some((b - 0x41 + 10) as u32) } else { None }
}
// the number spelled by the k hex digits p[a .. a+k)
pub open spec fn hex_acc(p: Seq<Option<u8>>, a: int, k: int) -> Option<u32>
    decreases k
{
    if k <= 0 { Some(0u32) } else {
        match (hex_acc(p, a, k - 1), at(p, a + k - 1)) {
            (Some(v), Some(b)) => match hexv(b) { Some(d) => Some((v << 4) | d), None => None },
            _ => None,
        }
    }
}
pub open spec fn esc_byte(c: u8) -> Option<u8> {
    if c == 0x22 { Some(0x22u8) } else if c == 0x5c { Some(0x5cu8) } else if c == 0x2f { Some(0x2fu8) } else if c == 0x62 { Some(0x08u8) }
    else if c == 0x66 { Some(0x0cu8) } else if c == 0x6e { Some(0x0au8) } else if c == 0x72 { Some(0x0du8) } else if c == 0x74 { Some(0x09u8) } else { None }
}
pub open spec fn str_dec(p: Seq<Option<u8>>, i: int, acc: Seq<u8>) -> Option<(Seq<u8>, int)>
    decreases p.len() - i
{
    if i < 0 || i >= p.len() { None } else {
        match p[i] {
            None => None,
            Some(b) =>
                if b == 0x22 { Some((acc, i)) }
                else if b == 0x5c {
                    match at(p, i + 1) {
                        None => None,
                        Some(c) =>
                            if c == 0x75 {
                                match hex_acc(p, i + 2, 4) {
                                    Some(n) => match char_of_u32(n) { Some(ch) => str_dec(p, i + 6, acc.add(utf8_of(ch))), None => None },
                                    None => None,
                                }
                            } else { match esc_byte(c) { Some(e) => str_dec(p, i + 2, acc.push(e)), None => None } },
                    }
                }
                else { str_dec(p, i + 1, acc.push(b)) },
        }
    }
}
// proof vocabulary: the unread part `rest` of the reader is p from offset i on
pub open spec fn rest_at(p: Seq<Option<u8>>, rest: Seq<Option<u8>>, i: int) -> bool {
    0 <= i && i + rest.len() == p.len() && forall|j: int| 0 <= j < rest.len() ==> (#[trigger] rest[j]) == p[i + j]
}
// the closing quote lies inside the stream, at or after the scanning position
pub proof fn lemma_str_dec_bounds(p: Seq<Option<u8>>, i: int, acc: Seq<u8>)
    ensures str_dec(p, i, acc) is Some ==> ({ let k = (str_dec(p, i, acc)->0).1; i <= k < p.len() && 0 <= i }),
    decreases p.len() - i,
{
    if 0 <= i < p.len() {
        match p[i] {
            None => {},
            Some(b) =>
                if b == 0x22 {}
                else if b == 0x5c {
                    match at(p, i + 1) {
                        None => {},
                        Some(c) =>
                            if c == 0x75 {
                                match hex_acc(p, i + 2, 4) {
                                    Some(n) => match char_of_u32(n) { Some(ch) => lemma_str_dec_bounds(p, i + 6, acc.add(utf8_of(ch))), None => {} },
                                    None => {},
                                }
                            } else { match esc_byte(c) { Some(e) => lemma_str_dec_bounds(p, i + 2, acc.push(e)), None => {} } },
                    }
                }
                else { lemma_str_dec_bounds(p, i + 1, acc.push(b)) },
        }
    }
}
pub broadcast proof fn lemma_from_from(p: Seq<Option<u8>>, a: int, b: int)
    requires 0 <= a <= p.len(), 0 <= b <= p.len() - a,
    ensures #[trigger] from(from(p, a), b) == from(p, a + b),
{ assert(from(from(p, a), b) =~= from(p, a + b)); }
