#![feature(allocator_api)]
// Unit NAS: number-as-string functions "+" "*" "-" abs "||" and the comparisons go through exact decimals only (C19)
use vstd::prelude::*;
use std::rc::Rc;
use vstd::std_specs::iter::IteratorSpec;

verus! {

pub mod jt {
use vstd::prelude::*;
use std::rc::Rc;
use vstd::std_specs::iter::IteratorSpec;
//@@ include prelude/indexmap.rs
//@@ include prelude/json_types.rs
//@@ include prelude/clone_specs.rs
}
use jt::*;
pub mod cl {
use vstd::prelude::*;
use std::rc::Rc;
use super::jt::*;
//@@ include prelude/clone_axioms.rs
}
//@@ include prelude/fnargs.rs

// ---- the dependency `bigdecimal` (assumed contract): a BigDecimal denotes an exact decimal number `val()`; + - * abs and
// the comparisons are EXACT on that number; normalized() keeps the number and fixes the representation; to_string of a
// normalized value is the canonical text of the number; from_str accepts exactly the decimal spellings and yields their
// number. with_prec / round / with_scale are the LOSSY operations (they appear here so that their use is judged). ----
pub mod bd {
use vstd::prelude::*;
#[verifier::external_body] pub struct Dec { _p: () }
#[verifier::external_body] pub struct BigDecimal { _p: () }
#[verifier::external_body] pub struct ParseBigDecimalError { _p: () }
pub uninterp spec fn dzero() -> Dec;
pub uninterp spec fn done() -> Dec;
pub uninterp spec fn dadd(a: Dec, b: Dec) -> Dec;
pub uninterp spec fn dsub(a: Dec, b: Dec) -> Dec;
pub uninterp spec fn dmul(a: Dec, b: Dec) -> Dec;
pub uninterp spec fn dabs(a: Dec) -> Dec;
pub uninterp spec fn dcmp(a: Dec, b: Dec) -> std::cmp::Ordering;
pub uninterp spec fn dround(a: Dec, how: int, n: int) -> Dec;
pub uninterp spec fn is_dec(s: Seq<char>) -> bool;
pub uninterp spec fn dec_of(s: Seq<char>) -> Dec;
pub uninterp spec fn dec_text(d: Dec) -> Seq<char>;
pub uninterp spec fn bd_of(d: Dec, normalized: bool) -> BigDecimal;
impl BigDecimal {
    pub uninterp spec fn val(&self) -> Dec;
    pub uninterp spec fn is_normalized(&self) -> bool;
    #[verifier::external_body] pub fn from_str(s: &str) -> (r: Result<BigDecimal, ParseBigDecimalError>)
        ensures r is Ok <==> is_dec(s@), r is Ok ==> r->Ok_0.val() == dec_of(s@) { unimplemented!() }
    #[verifier::external_body] pub fn zero() -> (r: BigDecimal) ensures r.val() == dzero() { unimplemented!() }
    #[verifier::external_body] pub fn one() -> (r: BigDecimal) ensures r.val() == done() { unimplemented!() }
    #[verifier::external_body] pub fn abs(&self) -> (r: BigDecimal) ensures r.val() == dabs(self.val()) { unimplemented!() }
    #[verifier::external_body] pub fn normalized(&self) -> (r: BigDecimal) ensures r.val() == self.val(), r.is_normalized() { unimplemented!() }
    #[verifier::external_body] pub fn to_string(&self) -> (r: String) ensures self.is_normalized() ==> r@ == dec_text(self.val()) { unimplemented!() }
    #[verifier::external_body] pub fn with_prec(&self, p: u64) -> (r: BigDecimal) ensures r.val() == dround(self.val(), 0, p as int) { unimplemented!() }
    #[verifier::external_body] pub fn round(&self, n: i64) -> (r: BigDecimal) ensures r.val() == dround(self.val(), 1, n as int) { unimplemented!() }
    #[verifier::external_body] pub fn with_scale(&self, n: i64) -> (r: BigDecimal) ensures r.val() == dround(self.val(), 2, n as int) { unimplemented!() }
}
pub broadcast axiom fn axiom_bd_of(d: Dec, n: bool) ensures (#[trigger] bd_of(d, n)).val() == d, bd_of(d, n).is_normalized() == n;
impl vstd::std_specs::ops::AddAssignSpecImpl<BigDecimal> for BigDecimal {
    open spec fn obeys_add_assign_spec() -> bool { true }
    open spec fn add_assign_req(&self, rhs: BigDecimal) -> bool { true }
    open spec fn add_assign_spec(&self, rhs: BigDecimal) -> &BigDecimal { &bd_of(dadd(self.val(), rhs.val()), false) }
}
impl std::ops::AddAssign<BigDecimal> for BigDecimal { #[verifier::external_body] fn add_assign(&mut self, o: BigDecimal) { unimplemented!() } }
impl vstd::std_specs::ops::MulAssignSpecImpl<BigDecimal> for BigDecimal {
    open spec fn obeys_mul_assign_spec() -> bool { true }
    open spec fn mul_assign_req(&self, rhs: BigDecimal) -> bool { true }
    open spec fn mul_assign_spec(&self, rhs: BigDecimal) -> &BigDecimal { &bd_of(dmul(self.val(), rhs.val()), false) }
}
impl std::ops::MulAssign<BigDecimal> for BigDecimal { #[verifier::external_body] fn mul_assign(&mut self, o: BigDecimal) { unimplemented!() } }
impl vstd::std_specs::ops::SubSpecImpl<BigDecimal> for BigDecimal {
    open spec fn obeys_sub_spec() -> bool { true }
    open spec fn sub_req(self, rhs: BigDecimal) -> bool { true }
    open spec fn sub_spec(self, rhs: BigDecimal) -> BigDecimal { bd_of(dsub(self.val(), rhs.val()), false) }
}
impl std::ops::Sub<BigDecimal> for BigDecimal { type Output = BigDecimal; #[verifier::external_body] fn sub(self, o: BigDecimal) -> BigDecimal { unimplemented!() } }
// division and remainder: the crate's operators (division rounds to the crate's default precision: named, not exact)
pub uninterp spec fn ddiv(a: Dec, b: Dec) -> Dec;
pub uninterp spec fn drem(a: Dec, b: Dec) -> Dec;
impl vstd::std_specs::ops::DivSpecImpl<BigDecimal> for BigDecimal {
    open spec fn obeys_div_spec() -> bool { true }
    open spec fn div_req(self, rhs: BigDecimal) -> bool { dcmp(rhs.val(), dzero()) != std::cmp::Ordering::Equal }
    open spec fn div_spec(self, rhs: BigDecimal) -> BigDecimal { bd_of(ddiv(self.val(), rhs.val()), false) }
}
impl std::ops::Div<BigDecimal> for BigDecimal { type Output = BigDecimal; #[verifier::external_body] fn div(self, o: BigDecimal) -> BigDecimal { unimplemented!() } }
impl vstd::std_specs::ops::RemSpecImpl<BigDecimal> for BigDecimal {
    open spec fn obeys_rem_spec() -> bool { true }
    open spec fn rem_req(self, rhs: BigDecimal) -> bool { dcmp(rhs.val(), dzero()) != std::cmp::Ordering::Equal }
    open spec fn rem_spec(self, rhs: BigDecimal) -> BigDecimal { bd_of(drem(self.val(), rhs.val()), false) }
}
impl std::ops::Rem<BigDecimal> for BigDecimal { type Output = BigDecimal; #[verifier::external_body] fn rem(self, o: BigDecimal) -> BigDecimal { unimplemented!() } }
impl vstd::std_specs::cmp::PartialEqSpecImpl for BigDecimal {
    open spec fn obeys_eq_spec() -> bool { true }
    open spec fn eq_spec(&self, other: &Self) -> bool { dcmp(self.val(), other.val()) == std::cmp::Ordering::Equal }
}
impl PartialEq for BigDecimal { #[verifier::external_body] fn eq(&self, other: &Self) -> bool { unimplemented!() } }
impl vstd::std_specs::cmp::PartialOrdSpecImpl for BigDecimal {
    open spec fn obeys_partial_cmp_spec() -> bool { true }
    open spec fn partial_cmp_spec(&self, other: &Self) -> Option<std::cmp::Ordering> { Some(dcmp(self.val(), other.val())) }
}
impl PartialOrd for BigDecimal { #[verifier::external_body] fn partial_cmp(&self, other: &Self) -> Option<std::cmp::Ordering> { unimplemented!() } }
}
use bd::*;
pub mod st {
use vstd::prelude::*;
pub uninterp spec fn str_of(s: Seq<char>) -> String;
pub broadcast axiom fn axiom_str_of(s: Seq<char>) ensures (#[trigger] str_of(s))@ == s;
}
use st::*;
broadcast use {bd::axiom_bd_of, cl::axiom_string_ext, st::axiom_str_of};
// the JSON value of an exact decimal: the string with its canonical text
pub open spec fn nas_json(d: Dec) -> JsonValue { JsonValue::String(str_of(dec_text(d))) }
// the exact decimal a value denotes: only strings that spell a decimal
pub open spec fn nas_val(o: Option<JsonValue>) -> Option<Dec> {
    match o { Some(JsonValue::String(s)) => if is_dec(s@) { Some(dec_of(s@)) } else { None }, _ => None }
}
impl vstd::std_specs::convert::FromSpecImpl<bool> for JsonValue {
    open spec fn obeys_from_spec() -> bool { true }
    open spec fn from_spec(v: bool) -> Self { JsonValue::Boolean(v) }
}
impl From<bool> for JsonValue {
//@@ fn jv.from_bool = src/json_value.rs :: impl From<bool> for JsonValue :: fn from
//@@ safety C19
//@@ post from "the conversion of a bool is the JSON boolean with that value"
//@@ endfn
}
impl vstd::std_specs::convert::FromSpecImpl<BigDecimal> for JsonValue {
    open spec fn obeys_from_spec() -> bool { true }
    open spec fn from_spec(v: BigDecimal) -> Self { nas_json(v.val()) }
}
//@@ file-consts src/functions/number_as_string/to_big_decimal.rs
impl From<BigDecimal> for JsonValue {
//@@ fn nas.from_bigdecimal = src/functions/number_as_string/to_big_decimal.rs :: impl From<BigDecimal> for JsonValue :: fn from
//@@ safety C19
//@@ post exact "a decimal result becomes the string with the canonical text of EXACTLY that number (normalised, no rounding, no precision cap)"
//@@ endfn
}
pub trait BigDecimalConvert {
    spec fn as_dec(&self) -> Option<Dec>;
//@@ fn bigdecimalconvert.to_big_decimal = src/functions/number_as_string/to_big_decimal.rs :: trait BigDecimalConvert :: fn to_big_decimal
//@@ ret r
//@@ header
        ensures r is Some <==> self.as_dec() is Some, r is Some ==> r->Some_0.val() == self.as_dec()->Some_0, // @tobl exact
//@@ endfn
}
impl BigDecimalConvert for Option<JsonValue> {
    open spec fn as_dec(&self) -> Option<Dec> { nas_val(*self) }
//@@ fn nas.to_big_decimal = src/functions/number_as_string/to_big_decimal.rs :: impl BigDecimalConvert for Option<JsonValue> :: fn to_big_decimal
//@@ safety C19
//@@ endfn
}

// "+" / "*": the exact sum / product of all arguments, nothing as soon as one of them is not a decimal string
pub open spec fn nas_fold(args: Seq<Rc<dyn Get>>, value: &Context, i: int, acc: Dec, mul: bool) -> Option<Dec>
    decreases args.len() - i
{
    if i < 0 || i >= args.len() { Some(acc) } else { match nas_val(args[i].get_spec(value)) {
        Some(d) => nas_fold(args, value, i + 1, if mul { dmul(acc, d) } else { dadd(acc, d) }, mul), None => None } }
}
pub open spec fn opt_json(o: Option<Dec>) -> Option<JsonValue> { match o { Some(d) => Some(nas_json(d)), None => None } }

pub mod n_add {
use super::*;
broadcast use {bd::axiom_bd_of, cl::axiom_string_ext, st::axiom_str_of};
//@@ item src/functions/number_as_string/nas_arithmetic/add.rs :: fn get :: struct Impl
//@@ rewrite pub_tuple pub_struct
//@@ enditem
impl Get for Impl {
    open spec fn get_spec(&self, value: &Context) -> Option<JsonValue> {
        opt_json(nas_fold(self.0@, value, 0, dzero(), false))
    }
//@@ fn nas.add = src/functions/number_as_string/nas_arithmetic/add.rs :: fn get :: impl Get for Impl :: fn get
//@@ safety C19 C04
//@@ post exact "(\"+\" a b ..) is the canonical text of the EXACT sum of the decimal strings; nothing when an argument is not a decimal string"
//@@ loop 1 iter it
                    invariant
                        it.seq().len() == self.0@.len(), 0 <= it.index@ <= self.0@.len(),
                        forall|j: int| 0 <= j < it.seq().len() ==> *(#[trigger] it.seq()[j]) == self.0@[j],
                        nas_fold(self.0@, value, it.index@, sum.val(), false) == nas_fold(self.0@, value, 0, dzero(), false),
//@@ endfn
}
}

pub mod n_times {
use super::*;
broadcast use {bd::axiom_bd_of, cl::axiom_string_ext, st::axiom_str_of};
//@@ item src/functions/number_as_string/nas_arithmetic/times.rs :: fn get :: struct Impl
//@@ rewrite pub_tuple pub_struct
//@@ enditem
impl Get for Impl {
    open spec fn get_spec(&self, value: &Context) -> Option<JsonValue> {
        opt_json(nas_fold(self.0@, value, 0, done(), true))
    }
//@@ fn nas.times = src/functions/number_as_string/nas_arithmetic/times.rs :: fn get :: impl Get for Impl :: fn get
//@@ safety C19 C04
//@@ post exact "(\"*\" a b ..) is the canonical text of the EXACT product of the decimal strings; nothing when an argument is not a decimal string"
//@@ loop 1 iter it
                    invariant
                        it.seq().len() == self.0@.len(), 0 <= it.index@ <= self.0@.len(),
                        forall|j: int| 0 <= j < it.seq().len() ==> *(#[trigger] it.seq()[j]) == self.0@[j],
                        nas_fold(self.0@, value, it.index@, sum.val(), true) == nas_fold(self.0@, value, 0, done(), true),
//@@ endfn
}
}

pub mod n_sub {
use super::*;
broadcast use {bd::axiom_bd_of, cl::axiom_string_ext, st::axiom_str_of};
//@@ item src/functions/number_as_string/nas_arithmetic/take_away.rs :: fn get :: struct Impl
//@@ rewrite pub_tuple pub_struct
//@@ enditem
impl Get for Impl {
    open spec fn get_spec(&self, value: &Context) -> Option<JsonValue> {
        if self.0@.len() == 1 { match nas_val(arg(self.0@, value, 0)) { Some(b) => Some(nas_json(dsub(dzero(), b))), None => None } }
        else { match (nas_val(arg(self.0@, value, 0)), nas_val(arg(self.0@, value, 1))) { (Some(a), Some(b)) => Some(nas_json(dsub(a, b))), _ => None } }
    }
//@@ fn nas.take_away = src/functions/number_as_string/nas_arithmetic/take_away.rs :: fn get :: impl Get for Impl :: fn get
//@@ safety C19 C04
//@@ post exact "(\"-\" a b) is the canonical text of the EXACT difference (of 0 and a for one argument); nothing when an argument is not a decimal string"
//@@ endfn
}
}

pub mod n_abs {
use super::*;
broadcast use {bd::axiom_bd_of, cl::axiom_string_ext, st::axiom_str_of};
//@@ item src/functions/number_as_string/nas_arithmetic/abs.rs :: fn get :: struct Impl
//@@ rewrite pub_tuple pub_struct
//@@ enditem
impl Get for Impl {
    open spec fn get_spec(&self, value: &Context) -> Option<JsonValue> {
        match nas_val(arg(self.0@, value, 0)) { Some(a) => Some(nas_json(dabs(a))), None => None }
    }
//@@ fn nas.abs = src/functions/number_as_string/nas_arithmetic/abs.rs :: fn get :: impl Get for Impl :: fn get
//@@ safety C19 C04
//@@ post exact "(\"abs\" a) is the canonical text of the exact absolute value; nothing when a is not a decimal string"
//@@ insert-after ".map(|number"
 : BigDecimal
//@@ insert-after ".map(|number|"
 -> (o: JsonValue) ensures o == nas_json(dabs(number.val())), {
//@@ insert-after "number.abs().into()"
 }
//@@ endfn
}
}

pub mod n_norm {
use super::*;
broadcast use {bd::axiom_bd_of, cl::axiom_string_ext, st::axiom_str_of};
//@@ item src/functions/number_as_string/nas_arithmetic/normelize.rs :: fn get :: struct Impl
//@@ rewrite pub_tuple pub_struct
//@@ enditem
impl Get for Impl {
    open spec fn get_spec(&self, value: &Context) -> Option<JsonValue> {
        match nas_val(arg(self.0@, value, 0)) { Some(a) => Some(nas_json(a)), None => None }
    }
//@@ fn nas.normalize = src/functions/number_as_string/nas_arithmetic/normelize.rs :: fn get :: impl Get for Impl :: fn get
//@@ safety C19 C04
//@@ post exact "(\"||\" a) is the canonical text of exactly the number a spells, whatever its spelling; nothing when a is not a decimal string"
//@@ insert-after ".map(|number"
 : BigDecimal
//@@ insert-after ".map(|number|"
 -> (o: JsonValue) ensures o == nas_json(number.val()), {
//@@ insert-after "number.into()"
 }
//@@ endfn
}
}

pub mod n_gt {
use super::*;
broadcast use {bd::axiom_bd_of, cl::axiom_string_ext, st::axiom_str_of};
//@@ item src/functions/number_as_string/nas_compare/gt.rs :: fn get :: struct Impl
//@@ rewrite pub_tuple pub_struct
//@@ enditem
impl Get for Impl {
    open spec fn get_spec(&self, value: &Context) -> Option<JsonValue> {
        match (nas_val(arg(self.0@, value, 0)), nas_val(arg(self.0@, value, 1))) { (Some(a), Some(b)) => Some(JsonValue::Boolean(dcmp(a, b) == std::cmp::Ordering::Greater)), _ => None }
    }
//@@ fn nas.gt = src/functions/number_as_string/nas_compare/gt.rs :: fn get :: impl Get for Impl :: fn get
//@@ safety C19 C04
//@@ post exact "the comparison of the two EXACT decimals; nothing when an argument is not a decimal string"
//@@ endfn
}
}

pub mod n_gte {
use super::*;
broadcast use {bd::axiom_bd_of, cl::axiom_string_ext, st::axiom_str_of};
//@@ item src/functions/number_as_string/nas_compare/gte.rs :: fn get :: struct Impl
//@@ rewrite pub_tuple pub_struct
//@@ enditem
impl Get for Impl {
    open spec fn get_spec(&self, value: &Context) -> Option<JsonValue> {
        match (nas_val(arg(self.0@, value, 0)), nas_val(arg(self.0@, value, 1))) { (Some(a), Some(b)) => Some(JsonValue::Boolean(dcmp(a, b) != std::cmp::Ordering::Less)), _ => None }
    }
//@@ fn nas.gte = src/functions/number_as_string/nas_compare/gte.rs :: fn get :: impl Get for Impl :: fn get
//@@ safety C19 C04
//@@ post exact "the comparison of the two EXACT decimals; nothing when an argument is not a decimal string"
//@@ endfn
}
}

pub mod n_lt {
use super::*;
broadcast use {bd::axiom_bd_of, cl::axiom_string_ext, st::axiom_str_of};
//@@ item src/functions/number_as_string/nas_compare/lt.rs :: fn get :: struct Impl
//@@ rewrite pub_tuple pub_struct
//@@ enditem
impl Get for Impl {
    open spec fn get_spec(&self, value: &Context) -> Option<JsonValue> {
        match (nas_val(arg(self.0@, value, 0)), nas_val(arg(self.0@, value, 1))) { (Some(a), Some(b)) => Some(JsonValue::Boolean(dcmp(a, b) == std::cmp::Ordering::Less)), _ => None }
    }
//@@ fn nas.lt = src/functions/number_as_string/nas_compare/lt.rs :: fn get :: impl Get for Impl :: fn get
//@@ safety C19 C04
//@@ post exact "the comparison of the two EXACT decimals; nothing when an argument is not a decimal string"
//@@ endfn
}
}

pub mod n_lte {
use super::*;
broadcast use {bd::axiom_bd_of, cl::axiom_string_ext, st::axiom_str_of};
//@@ item src/functions/number_as_string/nas_compare/lte.rs :: fn get :: struct Impl
//@@ rewrite pub_tuple pub_struct
//@@ enditem
impl Get for Impl {
    open spec fn get_spec(&self, value: &Context) -> Option<JsonValue> {
        match (nas_val(arg(self.0@, value, 0)), nas_val(arg(self.0@, value, 1))) { (Some(a), Some(b)) => Some(JsonValue::Boolean(dcmp(a, b) != std::cmp::Ordering::Greater)), _ => None }
    }
//@@ fn nas.lte = src/functions/number_as_string/nas_compare/lte.rs :: fn get :: impl Get for Impl :: fn get
//@@ safety C19 C04
//@@ post exact "the comparison of the two EXACT decimals; nothing when an argument is not a decimal string"
//@@ endfn
}
}

pub mod n_eq {
use super::*;
broadcast use {bd::axiom_bd_of, cl::axiom_string_ext, st::axiom_str_of};
//@@ item src/functions/number_as_string/nas_compare/eq.rs :: fn get :: struct Impl
//@@ rewrite pub_tuple pub_struct
//@@ enditem
impl Get for Impl {
    open spec fn get_spec(&self, value: &Context) -> Option<JsonValue> {
        match (nas_val(arg(self.0@, value, 0)), nas_val(arg(self.0@, value, 1))) { (Some(a), Some(b)) => Some(JsonValue::Boolean(dcmp(a, b) == std::cmp::Ordering::Equal)), _ => None }
    }
//@@ fn nas.eq = src/functions/number_as_string/nas_compare/eq.rs :: fn get :: impl Get for Impl :: fn get
//@@ safety C19 C04
//@@ post exact "the comparison of the two EXACT decimals; nothing when an argument is not a decimal string"
//@@ endfn
}
}

pub mod n_neq {
use super::*;
broadcast use {bd::axiom_bd_of, cl::axiom_string_ext, st::axiom_str_of};
//@@ item src/functions/number_as_string/nas_compare/neq.rs :: fn get :: struct Impl
//@@ rewrite pub_tuple pub_struct
//@@ enditem
impl Get for Impl {
    open spec fn get_spec(&self, value: &Context) -> Option<JsonValue> {
        match (nas_val(arg(self.0@, value, 0)), nas_val(arg(self.0@, value, 1))) { (Some(a), Some(b)) => Some(JsonValue::Boolean(dcmp(a, b) != std::cmp::Ordering::Equal)), _ => None }
    }
//@@ fn nas.neq = src/functions/number_as_string/nas_compare/neq.rs :: fn get :: impl Get for Impl :: fn get
//@@ safety C19 C04
//@@ post exact "the comparison of the two EXACT decimals; nothing when an argument is not a decimal string"
//@@ endfn
}
}

pub mod n_divide {
use super::*;
broadcast use {bd::axiom_bd_of, cl::axiom_string_ext, st::axiom_str_of};
//@@ item src/functions/number_as_string/nas_arithmetic/divide.rs :: fn get :: struct Impl
//@@ rewrite pub_tuple pub_struct
//@@ enditem
impl Get for Impl {
    open spec fn get_spec(&self, value: &Context) -> Option<JsonValue> {
        match (nas_val(arg(self.0@, value, 0)), nas_val(arg(self.0@, value, 1))) { (Some(a), Some(b)) => if dcmp(b, dzero()) == std::cmp::Ordering::Equal { None } else { Some(nas_json(ddiv(a, b))) }, _ => None }
    }
//@@ fn nas.divide = src/functions/number_as_string/nas_arithmetic/divide.rs :: fn get :: impl Get for Impl :: fn get
//@@ safety C19 C04
//@@ post exact "(\"/\" a b): the crate's quotient of the two decimals, nothing when b is zero (no division by zero is ever attempted) or an argument is not a decimal string"
//@@ endfn
}
}

pub mod n_reminder {
use super::*;
broadcast use {bd::axiom_bd_of, cl::axiom_string_ext, st::axiom_str_of};
//@@ item src/functions/number_as_string/nas_arithmetic/reminder.rs :: fn get :: struct Impl
//@@ rewrite pub_tuple pub_struct
//@@ enditem
impl Get for Impl {
    open spec fn get_spec(&self, value: &Context) -> Option<JsonValue> {
        match (nas_val(arg(self.0@, value, 0)), nas_val(arg(self.0@, value, 1))) { (Some(a), Some(b)) => if dcmp(b, dzero()) == std::cmp::Ordering::Equal { None } else { Some(nas_json(drem(a, b))) }, _ => None }
    }
//@@ fn nas.reminder = src/functions/number_as_string/nas_arithmetic/reminder.rs :: fn get :: impl Get for Impl :: fn get
//@@ safety C19 C04
//@@ post exact "(\"%\" a b): the crate's remainder of the two decimals, nothing when b is zero or an argument is not a decimal string"
//@@ endfn
}
}

pub mod n_round {
use super::*;
broadcast use {bd::axiom_bd_of, cl::axiom_string_ext, st::axiom_str_of};
//@@ item src/functions/number_as_string/nas_arithmetic/round.rs :: fn get :: struct Impl
//@@ rewrite pub_tuple pub_struct
//@@ enditem
impl Get for Impl {
    open spec fn get_spec(&self, value: &Context) -> Option<JsonValue> {
        match nas_val(arg(self.0@, value, 0)) { Some(a) => Some(nas_json(dround(a, 1, 0))), None => None }
    }
//@@ fn nas.round = src/functions/number_as_string/nas_arithmetic/round.rs :: fn get :: impl Get for Impl :: fn get
//@@ safety C19 C04
//@@ post exact "(\"round\" a): the decimal rounded to zero fraction digits (the crate's round(0)); nothing when a is not a decimal string"
//@@ insert-after ".map(|number"
 : BigDecimal
//@@ insert-after ".map(|number|"
 -> (o: JsonValue) ensures o == nas_json(dround(number.val(), 1, 0)), {
//@@ insert-after "number.round(0).into()"
 }
//@@ endfn
}
}

} // verus!
fn main() {}
