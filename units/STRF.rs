#![feature(allocator_api)]
// Unit STRF: string functions that wrap a library call — split, stringify, base64_decode, env (C04, C05): which arguments they read, when they give nothing, what they hand to the library and what they make of its answer (the library functions themselves are uninterpreted)
use vstd::prelude::*;
use std::rc::Rc;
use vstd::std_specs::iter::IteratorSpec;

verus! {

pub mod jt {
use vstd::prelude::*;
use std::rc::Rc;
use vstd::std_specs::iter::IteratorSpec;
//@@ include prelude/indexmap.rs
//@@ include prelude/json_types.rs
//@@ include prelude/clone_specs.rs
}
use jt::*;
pub mod cl {
use vstd::prelude::*;
use std::rc::Rc;
use super::jt::*;
//@@ include prelude/clone_axioms.rs
}
//@@ include prelude/fnargs.rs
//@@ include prelude/vit.rs


pub uninterp spec fn str_of(s: Seq<char>) -> String;
pub broadcast axiom fn axiom_str_of(s: Seq<char>) ensures (#[trigger] str_of(s))@ == s;

// ---- split ----
pub mod vsplit {
use vstd::prelude::*;
use super::jt::*;
pub uninterp spec fn split_spec(text: Seq<char>, sep: Seq<char>) -> Seq<Seq<char>>;
pub open spec fn pieces_json(p: Seq<Seq<char>>) -> Seq<JsonValue> { Seq::new(p.len(), |i: int| JsonValue::String(super::str_of(p[i]))) }
#[verifier::external_body]
pub fn split_to_strings(text: &String, sep: &String) -> (r: Vec<JsonValue>) ensures r@ == pieces_json(split_spec(text@, sep@)) { unimplemented!() }
}
pub mod f_split {
use super::*;
//@@ item src/functions/string/split.rs :: fn get :: struct Impl
//@@ rewrite pub_tuple pub_struct
//@@ enditem
impl Get for Impl {
    open spec fn get_spec(&self, value: &Context) -> Option<JsonValue> {
        match (arg(self.0@, value, 0), arg(self.0@, value, 1)) {
            (Some(JsonValue::String(s)), Some(JsonValue::String(sep))) => Some(json_array(vsplit::pieces_json(vsplit::split_spec(s@, sep@)))),
            _ => None,
        }
    }
//@@ fn f.split = src/functions/string/split.rs :: fn get :: impl Get for Impl :: fn get
//@@ safety C04 C05
//@@ rewrite split_map_collect
//@@ post doc "(split s sep) is the list of the pieces of s between occurrences of sep (str::split), in order, as strings; nothing when s or sep is not a string"
//@@ body-start
        broadcast use group_json_names;
//@@ endfn
}
}

// ---- stringify ----
pub mod vdisp {
use vstd::prelude::*;
use super::jt::*;
pub uninterp spec fn display_json(v: JsonValue) -> Seq<char>;
#[verifier::external_body]
pub fn display_string(v: &JsonValue) -> (r: String) ensures r@ == display_json(*v) { unimplemented!() }
}
pub mod f_stringify {
use super::*;
//@@ item src/functions/string/parse_and_stringify/stringify.rs :: fn get :: struct Impl
//@@ rewrite pub_tuple pub_struct
//@@ enditem
impl Get for Impl {
    open spec fn get_spec(&self, value: &Context) -> Option<JsonValue> {
        match arg(self.0@, value, 0) { Some(v) => Some(JsonValue::String(str_of(vdisp::display_json(v)))), None => None }
    }
//@@ fn f.stringify = src/functions/string/parse_and_stringify/stringify.rs :: fn get :: impl Get for Impl :: fn get
//@@ safety C04 C05
//@@ rewrite format_val
//@@ post doc "(stringify v) is the string holding the JSON text (Display) of the value v, whatever its type; nothing only when v is absent"
//@@ body-start
        broadcast use super::cl::axiom_string_ext, axiom_str_of;
//@@ insert-after ".map(|val"
 : JsonValue
//@@ insert-after ".map(|val|"
 -> (o: JsonValue) ensures o == JsonValue::String(str_of(vdisp::display_json(val))), {
//@@ insert-after ".into()"
 }
//@@ endfn
}
}

// ---- base64_decode ----
pub mod vb64 {
use vstd::prelude::*;
#[verifier::external_body] pub struct DecodeError { _p: () }
pub struct B64;
pub const BASE64_STANDARD: B64 = B64;
pub uninterp spec fn b64_dec(text: Seq<char>) -> Option<Seq<u8>>;
impl B64 {
    #[verifier::external_body]
    pub fn decode(&self, text: String) -> (r: Result<Vec<u8>, DecodeError>)
        ensures r is Ok <==> b64_dec(text@) is Some, r is Ok ==> r->Ok_0@ == b64_dec(text@)->0,
    { unimplemented!() }
}
pub uninterp spec fn valid_utf8(b: Seq<u8>) -> bool;
pub uninterp spec fn text_of(b: Seq<u8>) -> Seq<char>;
#[verifier::external_type_specification]
#[verifier::external_body]
pub struct ExFromUtf8Error(std::string::FromUtf8Error);
pub assume_specification[ String::from_utf8 ](v: Vec<u8>) -> (r: std::result::Result<String, std::string::FromUtf8Error>)
    ensures r is Ok <==> valid_utf8(v@), r is Ok ==> r->Ok_0@ == text_of(v@);
}
use vb64::*;
pub mod f_base64_decode {
use super::*;
//@@ item src/functions/string/base63_decode.rs :: fn get :: struct Impl
//@@ rewrite pub_tuple pub_struct
//@@ enditem
impl Get for Impl {
    open spec fn get_spec(&self, value: &Context) -> Option<JsonValue> {
        match arg(self.0@, value, 0) {
            Some(JsonValue::String(s)) => match b64_dec(s@) {
                Some(bytes) => if valid_utf8(bytes) { Some(JsonValue::String(str_of(text_of(bytes)))) } else { None },
                None => None,
            },
            _ => None,
        }
    }
//@@ fn f.base64_decode = src/functions/string/base63_decode.rs :: fn get :: impl Get for Impl :: fn get
//@@ safety C04 C05
//@@ post doc "(base64_decode s) is the string whose UTF-8 bytes the standard base64 text s encodes; nothing when s is not a string, not base64, or the bytes are not UTF-8"
//@@ body-start
        broadcast use super::cl::axiom_string_ext, axiom_str_of;
//@@ endfn
}
}

// ---- env ----
pub mod venv {
use vstd::prelude::*;
#[verifier::external_body] pub struct VarError { _p: () }
// the process environment: fixed for the run
pub uninterp spec fn env_of(name: Seq<char>) -> Option<Seq<char>>;
#[verifier::external_body]
pub fn var(name: String) -> (r: Result<String, VarError>)
    ensures r is Ok <==> env_of(name@) is Some, r is Ok ==> r->Ok_0@ == env_of(name@)->0,
{ unimplemented!() }
}
use venv::*;
pub mod f_env {
use super::*;
//@@ item src/functions/string/env.rs :: fn get :: struct Impl
//@@ rewrite pub_tuple pub_struct
//@@ enditem
impl Get for Impl {
    open spec fn get_spec(&self, value: &Context) -> Option<JsonValue> {
        match arg(self.0@, value, 0) {
            Some(JsonValue::String(s)) => match env_of(s@) { Some(t) => Some(JsonValue::String(str_of(t))), None => None },
            _ => None,
        }
    }
//@@ fn f.env = src/functions/string/env.rs :: fn get :: impl Get for Impl :: fn get
//@@ safety C04 C05
//@@ post doc "(env name) is the value of the environment variable name as a string (the environment of the run, the same for every record); nothing when name is not a string or the variable is not set / not unicode"
//@@ body-start
        broadcast use super::cl::axiom_string_ext, axiom_str_of;
//@@ endfn
}
}

} // verus!
fn main() {}
