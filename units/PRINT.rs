#![feature(allocator_api)]
// Unit PRINT: src/output_style.rs — printers (C02 strings/numbers/framing, C15 text rows, C16 write failures, printers as eager sinks)
use vstd::prelude::*;
use std::rc::Rc;
use std::collections::HashMap;
use vstd::std_specs::iter::IteratorSpec;
use std::fmt::{Result as FmtResult, Write};

verus! {

pub mod jt {
use vstd::prelude::*;
use std::rc::Rc;
use vstd::std_specs::iter::IteratorSpec;
//@@ include prelude/indexmap.rs
//@@ include prelude/json_types.rs
//@@ include prelude/clone_specs.rs
}
use jt::*;
//@@ include prelude/vfmt.rs
//@@ include lemmas/ctx_spec.rs
//@@ include prelude/ctx_opaque.rs
//@@ include prelude/process.rs
use vfmt::{wlog, is_pre, dec_u64, dec_i64, dec_f64, hex_min4_text};
pub mod rows { use vstd::prelude::*; use super::Context; pub open spec fn tail(r: Seq<Context>) -> Seq<Context> { r.subrange(1, r.len() as int) } }
#[verifier::external_type_specification]
#[verifier::external_body]
pub struct ExIoError(std::io::Error);

pub mod pl {
use vstd::prelude::*;
use super::vfmt::is_pre;
pub broadcast proof fn lemma_pre_refl(a: Seq<char>) ensures #[trigger] is_pre(a, a) {}
pub broadcast proof fn lemma_pre_trans(a: Seq<char>, b: Seq<char>, c: Seq<char>)
    requires #[trigger] is_pre(a, b), #[trigger] is_pre(b, c) ensures is_pre(a, c)
{ assert(c.subrange(0, a.len() as int) =~= b.subrange(0, a.len() as int)); }
pub broadcast proof fn lemma_pre_add(a: Seq<char>, b: Seq<char>) ensures #[trigger] is_pre(a, a.add(b)) { assert(a.add(b).subrange(0, a.len() as int) =~= a); }
pub broadcast group group_pre { lemma_pre_refl, lemma_pre_trans, lemma_pre_add }
}
// trusted: the std order on char is the order of the code points (vstd leaves PartialOrdSpec for char unspecified)
pub mod chs {
use vstd::prelude::*;
use vstd::std_specs::cmp::PartialOrdSpec;
pub broadcast axiom fn axiom_char_obeys() ensures #[trigger] <char as PartialOrdSpec>::obeys_partial_cmp_spec();
pub broadcast axiom fn axiom_char_cmp(a: char, b: char)
    ensures #[trigger] PartialOrdSpec::partial_cmp_spec(&a, &b) == (if a < b { Some(std::cmp::Ordering::Less) } else if a == b { Some(std::cmp::Ordering::Equal) } else { Some(std::cmp::Ordering::Greater) });
}
broadcast use {jt::axiom_im_decreases, vstd::string::group_string_axioms, vfmt::axiom_wlog_string, pl::group_pre, chs::axiom_char_obeys, chs::axiom_char_cmp, chk::axiom_char_key_model, vstd::std_specs::hash::group_hash_axioms};

//@@ include lemmas/json_escape.rs
// RFC 8259 §7: a character outside the Basic Multilingual Plane is escaped as a UTF-16 surrogate pair \\uD8xx\\uDCxx
pub open spec fn rfc_esc(ch: char, utf8: bool) -> Seq<char> {
    let n = ch as u64;
    if utf8 || n <= 0xFFFF || (' ' <= ch && ch <= '~') { esc(ch, utf8) }
    else { seq!['\\', 'u'].add(vfmt::hex4((0xD800 + ((n - 0x10000) / 0x400)) as u64)).add(seq!['\\', 'u']).add(vfmt::hex4((0xDC00 + ((n - 0x10000) % 0x400)) as u64)) }
}
pub open spec fn rfc_esc_all(s: Seq<char>, utf8: bool) -> Seq<char>
    decreases s.len()
{
    if s.len() == 0 { Seq::empty() } else { rfc_esc_all(s.drop_last(), utf8).add(rfc_esc(s.last(), utf8)) }
}
pub open spec fn json_string_text(s: Seq<char>, utf8: bool) -> Seq<char> { seq!['"'].add(esc_all(s, utf8)).add(seq!['"']) }
// RFC 8259 section 7: the characters between the quotes of a string
pub open spec fn is_hex(c: char) -> bool { vfmt::is_hex_char(c) }
pub open spec fn simple_esc(c: char) -> bool { c == '"' || c == '\\' || c == '/' || c == 'b' || c == 'f' || c == 'n' || c == 'r' || c == 't' }
pub open spec fn wf_body(b: Seq<char>) -> bool
    decreases b.len()
{
    if b.len() == 0 { true }
    else if b[0] == '\\' {
        b.len() >= 2 && ((simple_esc(b[1]) && wf_body(b.subrange(2, b.len() as int)))
            || (b[1] == 'u' && b.len() >= 6 && is_hex(b[2]) && is_hex(b[3]) && is_hex(b[4]) && is_hex(b[5]) && wf_body(b.subrange(6, b.len() as int))))
    } else { b[0] != '"' && b[0] >= ' ' && wf_body(b.subrange(1, b.len() as int)) }
}
pub proof fn lemma_wf_concat(a: Seq<char>, b: Seq<char>)
    requires wf_body(a), wf_body(b),
    ensures wf_body(a.add(b)),
    decreases a.len(),
{
    let c = a.add(b);
    if a.len() == 0 { assert(c =~= b); }
    else if a[0] == '\\' {
        if simple_esc(a[1]) && wf_body(a.subrange(2, a.len() as int)) {
            lemma_wf_concat(a.subrange(2, a.len() as int), b);
            assert(c.subrange(2, c.len() as int) =~= a.subrange(2, a.len() as int).add(b));
        } else {
            lemma_wf_concat(a.subrange(6, a.len() as int), b);
            assert(c.subrange(6, c.len() as int) =~= a.subrange(6, a.len() as int).add(b));
        }
    } else {
        lemma_wf_concat(a.subrange(1, a.len() as int), b);
        assert(c.subrange(1, c.len() as int) =~= a.subrange(1, a.len() as int).add(b));
    }
}
pub proof fn lemma_hex_raw(s: Seq<char>)
    requires vfmt::all_hex(s),
    ensures wf_body(s),
    decreases s.len(),
{
    if s.len() > 0 { assert(is_hex(s[0])); lemma_hex_raw(s.subrange(1, s.len() as int)); }
}
pub proof fn lemma_hex_digit_is_hex(d: u64) requires d < 16 ensures is_hex(vfmt::hex_digit(d)) {}
pub proof fn lemma_esc_wf(ch: char, utf8: bool)
    ensures wf_body(esc(ch, utf8)),
{
    broadcast use vfmt::axiom_hex_long;
    reveal_with_fuel(wf_body, 3);
    let e = esc(ch, utf8);
    if ch == '"' || ch == '\\' || ch == '/' || ch == '\u{08}' || ch == '\u{0c}' || ch == '\n' || ch == '\r' || ch == '\t' {
        assert(e.len() == 2); assert(e.subrange(2, 2) =~= Seq::<char>::empty());
    } else if (utf8 && ' ' <= ch) || (' ' <= ch && ch <= '~') {
        assert(e.subrange(1, 1) =~= Seq::<char>::empty());
    } else {
        let n = ch as u64;
        let h = hex_min4_text(n);
        if n <= 0xFFFF {
            lemma_hex_digit_is_hex((n / 0x1000) % 16); lemma_hex_digit_is_hex((n / 0x100) % 16); lemma_hex_digit_is_hex((n / 0x10) % 16); lemma_hex_digit_is_hex(n % 16);
            assert(e.len() == 6); assert(e.subrange(6, 6) =~= Seq::<char>::empty());
        } else {
            assert(vfmt::all_hex(h));
            let rest = e.subrange(6, e.len() as int);
            assert(rest =~= h.subrange(4, h.len() as int));
            assert(vfmt::all_hex(rest)) by { assert forall|i: int| 0 <= i < rest.len() implies is_hex(#[trigger] rest[i]) by { assert(rest[i] == h[i + 4]); } }
            lemma_hex_raw(rest);
            assert(is_hex(h[0]) && is_hex(h[1]) && is_hex(h[2]) && is_hex(h[3]));
        }
    }
}
// C02, property level: whatever the string and whatever --utf8-strings, what is printed between the quotes is a well-formed
// RFC 8259 string body: no raw quote, no raw control character, every backslash starts a legal escape
pub proof fn lemma_esc_all_wf(s: Seq<char>, utf8: bool)
    ensures wf_body(esc_all(s, utf8)), // @obl PRINT.string.wellformed : C02 C15
    decreases s.len(),
{
    if s.len() > 0 { lemma_esc_all_wf(s.drop_last(), utf8); lemma_esc_wf(s.last(), utf8); lemma_wf_concat(esc_all(s.drop_last(), utf8), esc(s.last(), utf8)); }
}


//@@ item src/output_style.rs :: enum JsonStyle
//@@ enditem
//@@ item src/output_style.rs :: struct JsonOutputOptions
//@@ rewrite pub_fields
//@@ enditem

pub open spec fn appended<W: ?Sized>(o: &W, n: &W, t: Seq<char>, r: FmtResult) -> bool {
    (r is Ok ==> wlog(n) == wlog(o).add(t)) && (r is Err ==> is_pre(wlog(o), wlog(n)))
}
pub trait Print<W: Write> {
    // what each printing function appends
    spec fn t_nothing(&self) -> Seq<char>;
    spec fn t_null(&self) -> Seq<char>;
    spec fn t_true(&self) -> Seq<char>;
    spec fn t_false(&self) -> Seq<char>;
    spec fn t_string(&self, s: Seq<char>) -> Seq<char>;
    spec fn t_f64(&self, v: f64) -> Seq<char>;
    spec fn t_i64(&self, v: i64) -> Seq<char>;
    spec fn t_u64(&self, v: u64) -> Seq<char>;
    spec fn t_array(&self, v: Seq<JsonValue>) -> Seq<char>;
    spec fn t_object(&self, e: Seq<(String, JsonValue)>) -> Seq<char>;

//@@ fn print.print = src/output_style.rs :: trait Print :: fn print
//@@ safety C02 C15
//@@ ret r
//@@ header
        ensures appended(old(f), final(f), match *value { None => self.t_nothing(), Some(v) => (match v { JsonValue::Null => self.t_null(), JsonValue::Boolean(b) => if b { self.t_true() } else { self.t_false() }, JsonValue::Number(n) => (match n { NumberValue::Float(v) => self.t_f64(v), NumberValue::Negative(v) => self.t_i64(v), NumberValue::Positive(v) => self.t_u64(v) }), JsonValue::String(s) => self.t_string(s@), JsonValue::Array(a) => self.t_array(a@), JsonValue::Object(m) => self.t_object(m.entries()) }) }, r), // @obl PRINT.print : C02 C15
//@@ endfn
//@@ fn print.print_nothing = src/output_style.rs :: trait Print :: fn print_nothing
//@@ ret r
//@@ header
        ensures appended(old(f), final(f), self.t_nothing(), r),
//@@ endfn
//@@ fn print.print_something = src/output_style.rs :: trait Print :: fn print_something
//@@ safety C02 C15
//@@ ret r
//@@ header
        ensures appended(old(f), final(f), (match *value { JsonValue::Null => self.t_null(), JsonValue::Boolean(b) => if b { self.t_true() } else { self.t_false() }, JsonValue::Number(n) => (match n { NumberValue::Float(v) => self.t_f64(v), NumberValue::Negative(v) => self.t_i64(v), NumberValue::Positive(v) => self.t_u64(v) }), JsonValue::String(s) => self.t_string(s@), JsonValue::Array(a) => self.t_array(a@), JsonValue::Object(m) => self.t_object(m.entries()) }), r), // @obl PRINT.dispatch : C02 C15
//@@ endfn
//@@ fn print.print_number = src/output_style.rs :: trait Print :: fn print_number
//@@ safety C02 C19
//@@ ret r
//@@ header
        // integers are printed by the integer printers: no detour through a double (C19)
        ensures appended(old(f), final(f), (match *value { NumberValue::Float(v) => self.t_f64(v), NumberValue::Negative(v) => self.t_i64(v), NumberValue::Positive(v) => self.t_u64(v) }), r), // @obl PRINT.number_dispatch : C02 C19
//@@ endfn
//@@ fn print.print_null = src/output_style.rs :: trait Print :: fn print_null
//@@ ret r
//@@ header
        ensures appended(old(f), final(f), self.t_null(), r), // @tobl text
//@@ endfn
//@@ fn print.print_true = src/output_style.rs :: trait Print :: fn print_true
//@@ ret r
//@@ header
        ensures appended(old(f), final(f), self.t_true(), r), // @tobl text
//@@ endfn
//@@ fn print.print_false = src/output_style.rs :: trait Print :: fn print_false
//@@ ret r
//@@ header
        ensures appended(old(f), final(f), self.t_false(), r), // @tobl text
//@@ endfn
//@@ fn print.print_string = src/output_style.rs :: trait Print :: fn print_string
//@@ ret r
//@@ header
        ensures appended(old(f), final(f), self.t_string(value@), r), // @tobl text
//@@ endfn
//@@ fn print.print_f64 = src/output_style.rs :: trait Print :: fn print_f64
//@@ ret r
//@@ header
        ensures appended(old(f), final(f), self.t_f64(value), r), // @tobl text
//@@ endfn
//@@ fn print.print_i64 = src/output_style.rs :: trait Print :: fn print_i64
//@@ ret r
//@@ header
        ensures appended(old(f), final(f), self.t_i64(value), r), // @tobl text
//@@ endfn
//@@ fn print.print_u64 = src/output_style.rs :: trait Print :: fn print_u64
//@@ ret r
//@@ header
        ensures appended(old(f), final(f), self.t_u64(value), r), // @tobl text
//@@ endfn
//@@ fn print.print_array = src/output_style.rs :: trait Print :: fn print_array
//@@ ret r
//@@ header
        ensures appended(old(f), final(f), self.t_array(value@), r), // @tobl text
//@@ endfn
//@@ fn print.print_object = src/output_style.rs :: trait Print :: fn print_object
//@@ ret r
//@@ header
        ensures appended(old(f), final(f), self.t_object(value.entries()), r), // @tobl text
//@@ endfn
}

// ---- the structural printers: what an array / object looks like in each style (read off the documentation of --style:
// consise = no white space, one-line = ", " and ": ", pretty = one member per line, two spaces per nesting level) ----
pub open spec fn spaces(n: nat) -> Seq<char> decreases n { if n == 0 { Seq::empty() } else { spaces((n - 1) as nat).add(seq![' ', ' ']) } }
pub open spec fn indent_text(o: JsonOutputOptions, n: nat) -> Seq<char> { match o.style { JsonStyle::Pretty => seq!['\n'].add(spaces(n)), _ => Seq::empty() } }
pub open spec fn comma_text(o: JsonOutputOptions) -> Seq<char> { match o.style { JsonStyle::OneLine => seq![',', ' '], _ => seq![','] } }
pub open spec fn colon_text(o: JsonOutputOptions) -> Seq<char> { match o.style { JsonStyle::Consise => seq![':'], _ => seq![':', ' '] } }
pub open spec fn scalar_text(o: JsonOutputOptions, v: JsonValue) -> Seq<char> {
    match v {
        JsonValue::Null => "null"@, JsonValue::Boolean(b) => if b { "true"@ } else { "false"@ },
        JsonValue::Number(n) => match n { NumberValue::Float(x) => dec_f64(x), NumberValue::Negative(x) => dec_i64(x), NumberValue::Positive(x) => dec_u64(x) },
        JsonValue::String(t) => json_string_text(t@, o.utf8_strings),
        _ => Seq::empty(),
    }
}
#[verifier::opaque]
pub open spec fn val_text(o: JsonOutputOptions, v: JsonValue, ind: nat) -> Seq<char>
    decreases v
{
    match v { JsonValue::Array(a) => arr_text(o, a@, ind), JsonValue::Object(m) => obj_text(o, m.entries(), ind), _ => scalar_text(o, v) }
}
// the first k items, each on its own indented line (pretty), a comma after every item but the last of the whole array
#[verifier::opaque]
pub open spec fn arr_items(o: JsonOutputOptions, s: Seq<JsonValue>, ind: nat, k: nat) -> Seq<char>
    decreases s, 0nat, k
{
    if k == 0 || k > s.len() { Seq::empty() } else {
        arr_items(o, s, ind, (k - 1) as nat).add(indent_text(o, ind)).add(val_text(o, s[k - 1], ind)).add(if k != s.len() { comma_text(o) } else { Seq::empty() })
    }
}
#[verifier::opaque]
pub open spec fn arr_text(o: JsonOutputOptions, s: Seq<JsonValue>, ind: nat) -> Seq<char>
    decreases s, 1nat, 0nat
{
    if s.len() == 0 { seq!['[', ']'] } else { seq!['['].add(arr_items(o, s, ind + 1, s.len())).add(indent_text(o, ind)).add(seq![']']) }
}
#[verifier::opaque]
pub open spec fn obj_items(o: JsonOutputOptions, e: Seq<(String, JsonValue)>, ind: nat, k: nat) -> Seq<char>
    decreases e, 0nat, k
{
    if k == 0 || k > e.len() { Seq::empty() } else {
        obj_items(o, e, ind, (k - 1) as nat).add(indent_text(o, ind)).add(json_string_text(e[k - 1].0@, o.utf8_strings)).add(colon_text(o))
            .add(val_text(o, e[k - 1].1, ind)).add(if k != e.len() { comma_text(o) } else { Seq::empty() })
    }
}
#[verifier::opaque]
pub open spec fn obj_text(o: JsonOutputOptions, e: Seq<(String, JsonValue)>, ind: nat) -> Seq<char>
    decreases e, 1nat, 0nat
{
    if e.len() == 0 { seq!['{', '}'] } else { seq!['{'].add(obj_items(o, e, ind + 1, e.len())).add(indent_text(o, ind)).add(seq!['}']) }
}
// nesting depth (bounds the indentation counter)
pub open spec fn depth(v: JsonValue) -> nat
    decreases v
{
    match v { JsonValue::Array(a) => 1 + depth_seq(a@), JsonValue::Object(m) => 1 + depth_ent(m.entries()), _ => 0 }
}
pub open spec fn depth_seq(s: Seq<JsonValue>) -> nat
    decreases s
{
    if s.len() == 0 { 0 } else { let a = depth(s[0]); let b = depth_seq(s.subrange(1, s.len() as int)); if a > b { a } else { b } }
}
pub open spec fn depth_ent(s: Seq<(String, JsonValue)>) -> nat
    decreases s
{
    if s.len() == 0 { 0 } else { let a = depth(s[0].1); let b = depth_ent(s.subrange(1, s.len() as int)); if a > b { a } else { b } }
}
pub proof fn lemma_depth_seq(s: Seq<JsonValue>, i: int)
    requires 0 <= i < s.len(),
    ensures depth(s[i]) <= depth_seq(s),
    decreases s.len(),
{
    if i > 0 { let t = s.subrange(1, s.len() as int); lemma_depth_seq(t, i - 1); assert(t[i - 1] == s[i]); }
}
pub proof fn lemma_depth_ent(s: Seq<(String, JsonValue)>, i: int)
    requires 0 <= i < s.len(),
    ensures depth(s[i].1) <= depth_ent(s),
    decreases s.len(),
{
    if i > 0 { let t = s.subrange(1, s.len() as int); lemma_depth_ent(t, i - 1); assert(t[i - 1] == s[i]); }
}
// unfolding lemmas for the (opaque) text functions
pub proof fn lemma_val_text(o: JsonOutputOptions, v: JsonValue, ind: nat)
    ensures val_text(o, v, ind) == (match v { JsonValue::Array(a) => arr_text(o, a@, ind), JsonValue::Object(m) => obj_text(o, m.entries(), ind), _ => scalar_text(o, v) }),
{ reveal(val_text); reveal(arr_text); reveal(arr_items); reveal(obj_text); reveal(obj_items); }
pub proof fn lemma_arr_items_step(o: JsonOutputOptions, s: Seq<JsonValue>, ind: nat, k: nat)
    requires k < s.len(),
    ensures arr_items(o, s, ind, k + 1) == arr_items(o, s, ind, k).add(indent_text(o, ind)).add(val_text(o, s[k as int], ind)).add(if k + 1 != s.len() { comma_text(o) } else { Seq::<char>::empty() }),
{ reveal(val_text); reveal(arr_text); reveal(arr_items); reveal(obj_text); reveal(obj_items); reveal_with_fuel(arr_items, 2); }
pub proof fn lemma_arr_items_zero(o: JsonOutputOptions, s: Seq<JsonValue>, ind: nat) ensures arr_items(o, s, ind, 0) == Seq::<char>::empty() { reveal(val_text); reveal(arr_text); reveal(arr_items); reveal(obj_text); reveal(obj_items); }
pub proof fn lemma_arr_text(o: JsonOutputOptions, s: Seq<JsonValue>, ind: nat)
    ensures arr_text(o, s, ind) == (if s.len() == 0 { seq!['[', ']'] } else { seq!['['].add(arr_items(o, s, ind + 1, s.len())).add(indent_text(o, ind)).add(seq![']']) }),
{ reveal(val_text); reveal(arr_text); reveal(arr_items); reveal(obj_text); reveal(obj_items); }
pub proof fn lemma_obj_items_step(o: JsonOutputOptions, e: Seq<(String, JsonValue)>, ind: nat, k: nat)
    requires k < e.len(),
    ensures obj_items(o, e, ind, k + 1) == obj_items(o, e, ind, k).add(indent_text(o, ind)).add(json_string_text(e[k as int].0@, o.utf8_strings)).add(colon_text(o))
            .add(val_text(o, e[k as int].1, ind)).add(if k + 1 != e.len() { comma_text(o) } else { Seq::<char>::empty() }),
{ reveal(val_text); reveal(arr_text); reveal(arr_items); reveal(obj_text); reveal(obj_items); reveal_with_fuel(obj_items, 2); }
pub proof fn lemma_obj_items_zero(o: JsonOutputOptions, e: Seq<(String, JsonValue)>, ind: nat) ensures obj_items(o, e, ind, 0) == Seq::<char>::empty() { reveal(val_text); reveal(arr_text); reveal(arr_items); reveal(obj_text); reveal(obj_items); }
pub proof fn lemma_obj_text(o: JsonOutputOptions, e: Seq<(String, JsonValue)>, ind: nat)
    ensures obj_text(o, e, ind) == (if e.len() == 0 { seq!['{', '}'] } else { seq!['{'].add(obj_items(o, e, ind + 1, e.len())).add(indent_text(o, ind)).add(seq!['}']) }),
{ reveal(val_text); reveal(arr_text); reveal(arr_items); reveal(obj_text); reveal(obj_items); }
pub open spec fn json_array_text(o: JsonOutputOptions, v: Seq<JsonValue>) -> Seq<char> { arr_text(o, v, 0) }
pub open spec fn json_object_text(o: JsonOutputOptions, e: Seq<(String, JsonValue)>) -> Seq<char> { obj_text(o, e, 0) }

impl JsonOutputOptions {
    pub closed spec fn utf8(&self) -> bool { self.utf8_strings }
}
// the provided methods of trait Print (print, print_something, print_number) are verified once, on the trait: an impl must not override them
//@@ impl-methods jsonprint = src/output_style.rs :: impl<W: Write> Print<W> for JsonOutputOptions :: print_nothing print_null print_true print_false print_f64 print_u64 print_i64 print_string print_object print_array
//@@ impl-methods textprint = src/output_style.rs :: impl<W: Write> Print<W> for TextPrinter :: print_nothing print_null print_true print_false print_f64 print_u64 print_i64 print_string print_object print_array
impl<W: Write> Print<W> for JsonOutputOptions {
    open spec fn t_nothing(&self) -> Seq<char> { Seq::empty() }
    open spec fn t_null(&self) -> Seq<char> { "null"@ }
    open spec fn t_true(&self) -> Seq<char> { "true"@ }
    open spec fn t_false(&self) -> Seq<char> { "false"@ }
    open spec fn t_string(&self, s: Seq<char>) -> Seq<char> { json_string_text(s, self.utf8()) }
    open spec fn t_f64(&self, v: f64) -> Seq<char> { dec_f64(v) }
    open spec fn t_i64(&self, v: i64) -> Seq<char> { dec_i64(v) }
    open spec fn t_u64(&self, v: u64) -> Seq<char> { dec_u64(v) }
    open spec fn t_array(&self, v: Seq<JsonValue>) -> Seq<char> { json_array_text(*self, v) }
    open spec fn t_object(&self, e: Seq<(String, JsonValue)>) -> Seq<char> { json_object_text(*self, e) }

//@@ fn jsonprint.print_nothing = src/output_style.rs :: impl<W: Write> Print<W> for JsonOutputOptions :: fn print_nothing
//@@ safety C02
//@@ rewrite underscore_param2
//@@ endfn
//@@ fn jsonprint.print_null = src/output_style.rs :: impl<W: Write> Print<W> for JsonOutputOptions :: fn print_null
//@@ safety C02
//@@ rewrite write_macros
//@@ endfn
//@@ fn jsonprint.print_true = src/output_style.rs :: impl<W: Write> Print<W> for JsonOutputOptions :: fn print_true
//@@ safety C02
//@@ rewrite write_macros
//@@ endfn
//@@ fn jsonprint.print_false = src/output_style.rs :: impl<W: Write> Print<W> for JsonOutputOptions :: fn print_false
//@@ safety C02
//@@ rewrite write_macros
//@@ endfn
//@@ fn jsonprint.print_f64 = src/output_style.rs :: impl<W: Write> Print<W> for JsonOutputOptions :: fn print_f64
//@@ safety C02
//@@ rewrite write_macros
//@@ endfn
//@@ fn jsonprint.print_u64 = src/output_style.rs :: impl<W: Write> Print<W> for JsonOutputOptions :: fn print_u64
//@@ safety C02 C19
//@@ rewrite write_macros
//@@ endfn
//@@ fn jsonprint.print_i64 = src/output_style.rs :: impl<W: Write> Print<W> for JsonOutputOptions :: fn print_i64
//@@ safety C02 C19
//@@ rewrite write_macros
//@@ endfn
//@@ fn jsonprint.print_string = src/output_style.rs :: impl<W: Write> Print<W> for JsonOutputOptions :: fn print_string
//@@ safety C02
//@@ rewrite write_macros
//@@ ret r
//@@ header
        ensures
            // UNRESTRICTED clause (known finding on the pinned tree: a unit test pins `\u1f603`): the escaping is the RFC's
            r is Ok ==> wlog(final(f)) == wlog(old(f)).add(seq!['"']).add(rfc_esc_all(value@, self.utf8())).add(seq!['"']), // @obl PRINT.string.rfc : C02
//@@ body-start
        let ghost w0 = wlog(f);
        proof {
            reveal_strlit("\""); reveal_strlit("\\\""); reveal_strlit("\\\\"); reveal_strlit("\\/"); reveal_strlit("\\b");
            reveal_strlit("\\f"); reveal_strlit("\\n"); reveal_strlit("\\r"); reveal_strlit("\\t");
        }
//@@ loop 1 iter it
            invariant
                w0 == wlog(old(f)), is_pre(w0, wlog(f)), it.seq() == value@, 0 <= it.index@ <= value@.len(),
                wlog(f) == w0.add(seq!['"']).add(esc_all(value@.subrange(0, it.index@), self.utf8())),
//@@ loop-start 1
            proof {
                assert(value@.subrange(0, it.index@ + 1).drop_last() =~= value@.subrange(0, it.index@));
                reveal_strlit("\\\""); reveal_strlit("\\\\"); reveal_strlit("\\/"); reveal_strlit("\\b");
                reveal_strlit("\\f"); reveal_strlit("\\n"); reveal_strlit("\\r"); reveal_strlit("\\t");
            }
//@@ after-loop 1
        proof {
            assert(value@.subrange(0, value@.len() as int) =~= value@);
            reveal_strlit("\"");
            assert("\""@ =~= seq!['"']);
            let e = esc_all(value@, self.utf8());
            assert(w0.add(seq!['"']).add(e).add(seq!['"']) =~= w0.add(json_string_text(value@, self.utf8())));
        }
//@@ endfn
    #[verifier::external_body]
    fn print_object(&self, f: &mut W, value: &IndexMap<String, JsonValue>) -> FmtResult { unimplemented!() }
    #[verifier::external_body]
    fn print_array(&self, f: &mut W, value: &[JsonValue]) -> FmtResult { unimplemented!() }
}

// ---- the structural printers themselves (real bodies). print_array / print_object of the trait impl above are the one-line
// delegations `self.print_*_with_indent(f, value, 0)`: left as trusted declarations, because verifying them in this file closes a
// cycle trait impl -> inherent fn -> trait impl that Verus rejects. ----
impl JsonOutputOptions {
//@@ fn jsonprint.insert_indent = src/output_style.rs :: impl JsonOutputOptions :: fn insert_indent
//@@ safety C02
//@@ rewrite write_macros
//@@ ret r
//@@ header
        ensures appended(old(f), final(f), indent_text(*self, indent as nat), r), // @obl PRINT.indent : C02
//@@ body-start
        let ghost w0 = wlog(f);
        proof { assert(w0.add(Seq::<char>::empty()) =~= w0); }
//@@ after-loop 1
                proof { assert(wlog(f) =~= w0.add(seq!['\n'].add(spaces(indent as nat)))); }
//@@ loop 1 iter it
                    invariant
                        w0 == wlog(old(f)), is_pre(w0, wlog(f)), wlog(f) == w0.add(seq!['\n']).add(spaces(it.index@ as nat)), 0 <= it.index@ <= indent,
                        it.seq().len() == indent,
//@@ loop-start 1
                    proof { reveal_strlit("  "); assert("  "@ =~= seq![' ', ' ']); }
//@@ before "for _ in 1..=indent {"
                proof { reveal_strlit("\n"); assert("\n"@ =~= seq!['\n']); assert(w0.add(seq!['\n']).add(spaces(0)) =~= w0.add(seq!['\n'])); }
//@@ endfn
//@@ fn jsonprint.insert_comma = src/output_style.rs :: impl JsonOutputOptions :: fn insert_comma
//@@ safety C02
//@@ rewrite write_macros
//@@ ret r
//@@ header
        ensures appended(old(f), final(f), comma_text(*self), r), // @obl PRINT.comma : C02
//@@ body-start
        proof { reveal_strlit(", "); reveal_strlit(","); assert(", "@ =~= seq![',', ' ']); assert(","@ =~= seq![',']); }
//@@ endfn
//@@ fn jsonprint.print_object_with_indent = src/output_style.rs :: impl JsonOutputOptions :: fn print_object_with_indent
//@@ safety C02
//@@ attr
#[verifier::spinoff_prover]
#[verifier::rlimit(400)]
//@@ rewrite write_macros enumerate
//@@ ret r
//@@ header
        requires indent + depth_ent(value.entries()) < usize::MAX,
        ensures appended(old(f), final(f), obj_text(*self, value.entries(), indent as nat), r), // @obl PRINT.object : C02
        decreases value.entries(),
//@@ body-start
        let ghost w0 = wlog(f);
        let ghost e = value.entries();
        let ghost o = *self;
        let ghost ind = indent as nat;
        proof {
            reveal_strlit("{}"); reveal_strlit("{"); reveal_strlit("}"); reveal_strlit(":"); reveal_strlit(" ");
            assert("{}"@ =~= seq!['{', '}']); assert("{"@ =~= seq!['{']); assert("}"@ =~= seq!['}']);
            lemma_obj_text(o, e, ind); lemma_obj_items_zero(o, e, ind + 1);
            assert(w0.add(seq!['{']).add(Seq::<char>::empty()) =~= w0.add(seq!['{']));
        }
//@@ loop 1 iter it
            invariant
                w0 == wlog(old(f)), is_pre(w0, wlog(f)), o == *self, ind == indent as nat, size == e.len(), size > 0,
                indent + depth_ent(e) < usize::MAX,
                it.seq().len() == e.len(), 0 <= it.index@ <= e.len(),
                forall|j: int| 0 <= j < it.seq().len() ==> (#[trigger] it.seq()[j]).0 == j && *it.seq()[j].1 == e[j],
                wlog(f) == w0.add(seq!['{']).add(obj_items(o, e, ind + 1, it.index@ as nat)),
//@@ loop-start 1
            let ghost wi = wlog(f);
            let ghost k = it.index@;
            proof {
                lemma_depth_ent(e, k);
                lemma_val_text(o, e[k].1, ind + 1);
                lemma_obj_items_step(o, e, ind + 1, k as nat);
                assert(*element == e[k]);
                assert(decreases_to!(e => e[k]));
                reveal_strlit(":"); reveal_strlit(" ");
                assert(":"@ =~= seq![':']); assert(" "@ =~= seq![' ']);
            }
//@@ before "match value {"
            let ghost wk = wlog(f);
            proof {
                assert(*key == e[k].0 && *value == e[k].1);
                assert(decreases_to!(e[k] => e[k].1));
                assert(wk =~= wi.add(indent_text(o, ind + 1)).add(json_string_text(e[k].0@, o.utf8_strings)).add(colon_text(o)));
            }
//@@ before "if index != size - 1 {"
            let ghost wv = wlog(f);
            proof { assert(wv == wk.add(val_text(o, e[k].1, ind + 1))); }
//@@ loop-end 1
            proof {
                let c = if k + 1 != e.len() { comma_text(o) } else { Seq::<char>::empty() };
                assert(wlog(f) =~= wv.add(c));
                assert(wlog(f) =~= w0.add(seq!['{']).add(obj_items(o, e, ind + 1, (k + 1) as nat)));
            }
//@@ after-loop 1
        proof { assert(wlog(f) == w0.add(seq!['{']).add(obj_items(o, e, ind + 1, e.len()))); }
        let ghost wl = wlog(f);
//@@ before "write!(f, "}}")"
        proof {
            lemma_obj_text(o, e, ind);
            assert(wlog(f) == wl.add(indent_text(o, ind)));
            assert(w0.add(obj_text(o, e, ind)) =~= wl.add(indent_text(o, ind)).add(seq!['}']));
        }
//@@ endfn
//@@ fn jsonprint.print_array_with_indent = src/output_style.rs :: impl JsonOutputOptions :: fn print_array_with_indent
//@@ safety C02
//@@ rewrite write_macros enumerate
//@@ ret r
//@@ header
        // the indentation counter cannot overflow: nesting depth + indent stays below 2^64 (the entry points call with indent 0)
        requires indent + depth_seq(value@) < usize::MAX,
        ensures appended(old(f), final(f), arr_text(*self, value@, indent as nat), r), // @obl PRINT.array : C02
        decreases value@,
//@@ body-start
        let ghost w0 = wlog(f);
        let ghost s = value@;
        let ghost o = *self;
        let ghost ind = indent as nat;
        proof {
            reveal_strlit("[]"); reveal_strlit("["); reveal_strlit("]");
            assert("[]"@ =~= seq!['[', ']']); assert("["@ =~= seq!['[']); assert("]"@ =~= seq![']']);
            lemma_arr_text(o, s, ind); lemma_arr_items_zero(o, s, ind + 1);
            assert(w0.add(seq!['[']).add(Seq::<char>::empty()) =~= w0.add(seq!['[']));
        }
//@@ loop 1 iter it
            invariant
                w0 == wlog(old(f)), is_pre(w0, wlog(f)), o == *self, ind == indent as nat, size == s.len(), size > 0,
                indent + depth_seq(s) < usize::MAX,
                it.seq().len() == s.len(), 0 <= it.index@ <= s.len(),
                forall|j: int| 0 <= j < it.seq().len() ==> (#[trigger] it.seq()[j]).0 == j && *it.seq()[j].1 == s[j],
                wlog(f) == w0.add(seq!['[']).add(arr_items(o, s, ind + 1, it.index@ as nat)),
//@@ loop-start 1
            let ghost wi = wlog(f);
            let ghost k = it.index@;
            proof {
                lemma_depth_seq(s, k);
                assert(*value == s[k]);
                assert(decreases_to!(s => s[k]));
                lemma_val_text(o, s[k], ind + 1);
                lemma_arr_items_step(o, s, ind + 1, k as nat);
            }
//@@ before "if index != size - 1 {"
            let ghost wv = wlog(f);
            proof { assert(wv == wi.add(indent_text(o, ind + 1)).add(val_text(o, s[k], ind + 1))); }
//@@ loop-end 1
            proof {
                let c = if k + 1 != s.len() { comma_text(o) } else { Seq::<char>::empty() };
                assert(wlog(f) =~= wv.add(c));
                assert(wlog(f) =~= w0.add(seq!['[']).add(arr_items(o, s, ind + 1, (k + 1) as nat)));
            }
//@@ after-loop 1
        proof { assert(wlog(f) == w0.add(seq!['[']).add(arr_items(o, s, ind + 1, s.len()))); }
        let ghost wl = wlog(f);
//@@ before "write!(f, "]")"
        proof {
            lemma_arr_text(o, s, ind);
            assert(wlog(f) == wl.add(indent_text(o, ind)));
            assert(w0.add(arr_text(o, s, ind)) =~= wl.add(indent_text(o, ind)).add(seq![']']));
        }
//@@ endfn
}

// the #[from] conversions thiserror derives on ProcessError (trusted declarations)
impl From<std::fmt::Error> for ProcessError { #[verifier::external_body] fn from(e: std::fmt::Error) -> Self { unimplemented!() } }
impl From<std::io::Error> for ProcessError { #[verifier::external_body] fn from(e: std::io::Error) -> Self { unimplemented!() } }

// ------------------------------------------------------------------ JsonProcess: the JSON printer as the terminal stage
//@@ item src/output_style.rs :: struct JsonProcess
//@@ rewrite dyn_write pub_fields pub_struct
//@@ enditem

pub open spec fn json_value_text(o: JsonOutputOptions, v: JsonValue) -> Seq<char> {
    match v {
        JsonValue::Null => Print::<String>::t_null(&o), JsonValue::Boolean(b) => if b { Print::<String>::t_true(&o) } else { Print::<String>::t_false(&o) },
        JsonValue::Number(n) => match n { NumberValue::Float(x) => Print::<String>::t_f64(&o, x), NumberValue::Negative(x) => Print::<String>::t_i64(&o, x), NumberValue::Positive(x) => Print::<String>::t_u64(&o, x) },
        JsonValue::String(t) => Print::<String>::t_string(&o, t@),
        JsonValue::Array(a) => Print::<String>::t_array(&o, a@), JsonValue::Object(m) => Print::<String>::t_object(&o, m.entries()),
    }
}
// one output row: the JSON text of the built value followed by the row separator, nothing else (C02.frame)
pub open spec fn json_row(o: JsonOutputOptions, sep: Seq<char>, c: Context) -> Seq<char> { json_value_text(o, ctx_build(c)).add(sep) }
pub open spec fn json_rows(o: JsonOutputOptions, sep: Seq<char>, r: Seq<Context>) -> Seq<char>
    decreases r.len()
{
    if r.len() == 0 { Seq::empty() } else { json_row(o, sep, r[0]).add(json_rows(o, sep, r.subrange(1, r.len() as int))) }
}

impl Process for JsonProcess {
    closed spec fn inv(&self) -> bool { true }
    closed spec fn log(&self) -> Seq<char> { self.writer.log() }
    closed spec fn fut(&self, rows: Seq<Context>) -> Seq<char> { json_rows(self.printer, self.line_seperator@, rows) }
    closed spec fn must_break(&self) -> bool { false }
    closed spec fn eager(&self) -> bool { true }
    closed spec fn rejects(&self, titles: Seq<String>) -> bool { false }
    closed spec fn header(&self, titles: Seq<String>) -> Seq<char> { Seq::empty() }
    // starting the JSON printer changes nothing
    closed spec fn sfut(&self, titles: Seq<String>, rows: Seq<Context>) -> Seq<char> { json_rows(self.printer, self.line_seperator@, rows) }

//@@ fn jsonprocess.start = src/output_style.rs :: impl Process for JsonProcess :: fn start
//@@ safety C02 C03 C16 C18 C20
//@@ rewrite underscore_param
//@@ endfn
//@@ fn jsonprocess.complete = src/output_style.rs :: impl Process for JsonProcess :: fn complete
//@@ safety C02 C03 C16 C20 C06 C11
//@@ endfn
//@@ fn jsonprocess.process = src/output_style.rs :: impl Process for JsonProcess :: fn process
//@@ safety C02 C03 C16 C20 C06 C11
//@@ rewrite write_macros
//@@ before "Ok(ProcessDesision::Continue)"
        proof {
            let o = self.printer;
            let sep = self.line_seperator@;
            let l0 = old(self).writer.log();
            let row = json_row(o, sep, context);
            assert(str@ == json_value_text(o, value));
            assert(self.writer.log() =~= l0.add(row));
            assert forall|rows: Seq<Context>| #[trigger] json_rows(o, sep, seq![context].add(rows)) == row.add(json_rows(o, sep, rows)) by {
                assert(seq![context].add(rows).subrange(1, seq![context].add(rows).len() as int) =~= rows);
            }
            assert forall|rows: Seq<Context>| l0.add(row).add(#[trigger] json_rows(o, sep, rows)) =~= l0.add(row.add(json_rows(o, sep, rows))) by {}
            assert(json_rows(o, sep, Seq::<Context>::empty()) =~= Seq::<char>::empty());
            assert(row.add(Seq::<char>::empty()) =~= row);
            assert(seq![context].subrange(1, 1) =~= Seq::<Context>::empty());
            assert(json_rows(o, sep, seq![context]) =~= row);
        }
//@@ endfn
}

// ------------------------------------------------------------------ text / csv output
//@@ item src/output_style.rs :: struct TextOutputOptions
//@@ rewrite pub_fields
//@@ enditem
//@@ item src/output_style.rs :: struct TextPrinter
//@@ rewrite pub_fields pub_struct
//@@ enditem
//@@ item src/output_style.rs :: struct TextProcess
//@@ rewrite dyn_write pub_fields pub_struct
//@@ enditem

pub mod chk {
use vstd::prelude::*;
pub broadcast axiom fn axiom_char_key_model() ensures #[trigger] vstd::std_specs::hash::obeys_key_model::<char>();
}

// a string field: prefix, every character either replaced by its configured escape sequence or copied, postfix
pub open spec fn text_esc(m: Map<char, String>, ch: char) -> Seq<char> { if m.contains_key(ch) { m[ch]@ } else { seq![ch] } }
pub open spec fn text_esc_all(m: Map<char, String>, s: Seq<char>) -> Seq<char>
    decreases s.len()
{
    if s.len() == 0 { Seq::empty() } else { text_esc_all(m, s.drop_last()).add(text_esc(m, s.last())) }
}
pub open spec fn consise_utf8() -> JsonOutputOptions { JsonOutputOptions { style: JsonStyle::Consise, utf8_strings: true } }

impl TextPrinter {
    pub closed spec fn esc_map(&self) -> Map<char, String> { self.escape_sequandes@ }
    pub closed spec fn opts(&self) -> TextOutputOptions { self.options }
    pub open spec fn string_field(&self, s: Seq<char>) -> Seq<char> {
        self.opts().string_prefix@.add(text_esc_all(self.esc_map(), s)).add(self.opts().string_postfix@)
    }
}

impl<W: Write> Print<W> for TextPrinter {
    open spec fn t_nothing(&self) -> Seq<char> { match self.opts().missing_value_keyword { Some(k) => k@, None => Seq::empty() } }
    open spec fn t_null(&self) -> Seq<char> { self.opts().null_keyword@ }
    open spec fn t_true(&self) -> Seq<char> { self.opts().true_keyword@ }
    open spec fn t_false(&self) -> Seq<char> { self.opts().false_keyword@ }
    open spec fn t_string(&self, s: Seq<char>) -> Seq<char> { self.string_field(s) }
    open spec fn t_f64(&self, v: f64) -> Seq<char> { dec_f64(v) }
    open spec fn t_i64(&self, v: i64) -> Seq<char> { dec_i64(v) }
    open spec fn t_u64(&self, v: u64) -> Seq<char> { dec_u64(v) }
    // nested values: the concise JSON text of the value, passed through the same string quoting
    open spec fn t_array(&self, v: Seq<JsonValue>) -> Seq<char> { self.string_field(json_array_text(consise_utf8(), v)) }
    open spec fn t_object(&self, e: Seq<(String, JsonValue)>) -> Seq<char> { self.string_field(json_object_text(consise_utf8(), e)) }

//@@ fn textprint.print_nothing = src/output_style.rs :: impl<W: Write> Print<W> for TextPrinter :: fn print_nothing
//@@ safety C15
//@@ rewrite write_macros
//@@ endfn
//@@ fn textprint.print_null = src/output_style.rs :: impl<W: Write> Print<W> for TextPrinter :: fn print_null
//@@ safety C15
//@@ rewrite write_macros
//@@ endfn
//@@ fn textprint.print_true = src/output_style.rs :: impl<W: Write> Print<W> for TextPrinter :: fn print_true
//@@ safety C15
//@@ rewrite write_macros
//@@ endfn
//@@ fn textprint.print_false = src/output_style.rs :: impl<W: Write> Print<W> for TextPrinter :: fn print_false
//@@ safety C15
//@@ rewrite write_macros
//@@ endfn
//@@ fn textprint.print_f64 = src/output_style.rs :: impl<W: Write> Print<W> for TextPrinter :: fn print_f64
//@@ safety C15 C19
//@@ rewrite write_macros
//@@ endfn
//@@ fn textprint.print_u64 = src/output_style.rs :: impl<W: Write> Print<W> for TextPrinter :: fn print_u64
//@@ safety C15 C19
//@@ rewrite write_macros
//@@ endfn
//@@ fn textprint.print_i64 = src/output_style.rs :: impl<W: Write> Print<W> for TextPrinter :: fn print_i64
//@@ safety C15 C19
//@@ rewrite write_macros
//@@ endfn
//@@ fn textprint.print_string = src/output_style.rs :: impl<W: Write> Print<W> for TextPrinter :: fn print_string
//@@ safety C15
//@@ rewrite write_macros
//@@ body-start
        let ghost w0 = wlog(f);
//@@ loop 1 iter it
            invariant
                w0 == wlog(old(f)), is_pre(w0, wlog(f)), it.seq() == value@, 0 <= it.index@ <= value@.len(),
                wlog(f) == w0.add(self.opts().string_prefix@).add(text_esc_all(self.esc_map(), value@.subrange(0, it.index@))),
//@@ loop-start 1
            proof { assert(value@.subrange(0, it.index@ + 1).drop_last() =~= value@.subrange(0, it.index@)); }
//@@ after-loop 1
        proof {
            assert(value@.subrange(0, value@.len() as int) =~= value@);
            let e = text_esc_all(self.esc_map(), value@);
            assert(w0.add(self.opts().string_prefix@).add(e).add(self.opts().string_postfix@) =~= w0.add(self.string_field(value@)));
        }
//@@ endfn
//@@ fn textprint.print_object = src/output_style.rs :: impl<W: Write> Print<W> for TextPrinter :: fn print_object
//@@ safety C15
//@@ endfn
//@@ fn textprint.print_array = src/output_style.rs :: impl<W: Write> Print<W> for TextPrinter :: fn print_array
//@@ safety C15
//@@ endfn
}

// one text/csv row: the fields in selection order, the separator after every field but the last, then the row separator.
// `n` is the number of selections the printer was started with (TextProcess::length).
pub open spec fn opt_text(p: TextPrinter, v: Option<JsonValue>) -> Seq<char> {
    match v { None => Print::<String>::t_nothing(&p), Some(x) => text_value_text(p, x) }
}
pub open spec fn text_value_text(p: TextPrinter, v: JsonValue) -> Seq<char> {
    match v {
        JsonValue::Null => Print::<String>::t_null(&p), JsonValue::Boolean(b) => if b { Print::<String>::t_true(&p) } else { Print::<String>::t_false(&p) },
        JsonValue::Number(n) => match n { NumberValue::Float(x) => Print::<String>::t_f64(&p, x), NumberValue::Negative(x) => Print::<String>::t_i64(&p, x), NumberValue::Positive(x) => Print::<String>::t_u64(&p, x) },
        JsonValue::String(t) => Print::<String>::t_string(&p, t@),
        JsonValue::Array(a) => Print::<String>::t_array(&p, a@), JsonValue::Object(m) => Print::<String>::t_object(&p, m.entries()),
    }
}
pub open spec fn fields_text(p: TextPrinter, n: int, list: Seq<Option<JsonValue>>, upto: int) -> Seq<char>
    decreases upto
{
    if upto <= 0 { Seq::empty() } else {
        fields_text(p, n, list, upto - 1).add(opt_text(p, list[upto - 1])).add(if upto - 1 < n - 1 { p.opts().items_seperator@ } else { Seq::empty() })
    }
}
pub open spec fn list_row(p: TextPrinter, n: int, sep: Seq<char>, list: Seq<Option<JsonValue>>) -> Seq<char> {
    fields_text(p, n, list, list.len() as int).add(sep)
}

impl TextProcess {
//@@ fn textprocess.print_list = src/output_style.rs :: impl TextProcess :: fn print_list
//@@ safety C15 C16 C05 C20 C06 C11
//@@ ret r
//@@ rewrite write_macros enumerate
//@@ header
        requires old(self).length >= 1,
        ensures
            final(self).length == old(self).length && final(self).line_seperator == old(self).line_seperator && final(self).printer == old(self).printer,
            // exactly one field per element of the list, in order, separated, then the row separator (C15: N fields per row)
            r is Ok ==> final(self).writer.log() == old(self).writer.log().add(list_row(old(self).printer, old(self).length as int, old(self).line_seperator@, list@)), // @obl PRINT.text.row : C15 C11
            is_pre(old(self).writer.log(), final(self).writer.log()), // @obl PRINT.text.row_prefix : C16 C20
            r is Ok ==> r->Ok_0 is Continue,
//@@ body-start
        let ghost l0 = self.writer.log();
//@@ loop 1 iter it
            invariant
                l0 == old(self).writer.log(), self.length == old(self).length, self.length >= 1, self.line_seperator == old(self).line_seperator, self.printer == old(self).printer,
                0 <= it.index@ <= list@.len(), it.seq().len() == list@.len(),
                forall|j: int| 0 <= j < it.seq().len() ==> (#[trigger] it.seq()[j]).0 == j && *it.seq()[j].1 == list@[j],
                is_pre(l0, self.writer.log()),
                self.writer.log() == l0.add(fields_text(self.printer, self.length as int, list@, it.index@)),
//@@ endfn
}

pub open spec fn text_row(p: TextPrinter, n: int, sep: Seq<char>, c: Context) -> Seq<char> {
    if n != 0 { list_row(p, n, sep, res_values(c.res())) } else { text_value_text(p, c.inp()).add(sep) }
}
pub open spec fn text_rows(p: TextPrinter, n: int, sep: Seq<char>, r: Seq<Context>) -> Seq<char>
    decreases r.len()
{
    if r.len() == 0 { Seq::empty() } else { text_row(p, n, sep, r[0]).add(text_rows(p, n, sep, r.subrange(1, r.len() as int))) }
}

impl Process for TextProcess {
    closed spec fn inv(&self) -> bool { true }
    closed spec fn log(&self) -> Seq<char> { self.writer.log() }
    closed spec fn fut(&self, rows: Seq<Context>) -> Seq<char> { text_rows(self.printer, self.length as int, self.line_seperator@, rows) }
    closed spec fn must_break(&self) -> bool { false }
    closed spec fn eager(&self) -> bool { true }
    // csv (and text --headers) needs at least one selection name
    closed spec fn rejects(&self, titles: Seq<String>) -> bool { self.printer.opts().headers && titles.len() == 0 }
    closed spec fn header(&self, titles: Seq<String>) -> Seq<char> {
        if self.printer.opts().headers { list_row(self.printer, titles.len() as int, self.line_seperator@, title_values(titles)) } else { Seq::empty() }
    }
    // starting the text printer fixes the number of columns: one per selection name (none: the input value itself is printed)
    closed spec fn sfut(&self, titles: Seq<String>, rows: Seq<Context>) -> Seq<char> { text_rows(self.printer, titles.len() as int, self.line_seperator@, rows) }

//@@ fn textprocess.complete = src/output_style.rs :: impl Process for TextProcess :: fn complete
//@@ safety C15 C03 C16 C20 C06 C11
//@@ endfn
//@@ fn textprocess.start = src/output_style.rs :: impl Process for TextProcess :: fn start
//@@ safety C15 C18 C03 C16 C20
//@@ ret r
//@@ header
        ensures
            // csv (headers) without selections — also after --group-by/--merge, which reset the titles — is rejected, nothing written
            old(self).printer.opts().headers && titles_so_far.names().len() == 0 ==> r is Err && final(self).writer.log() == old(self).writer.log(), // @obl PRINT.text.no_headers : C18 C15
            // the header row lists the selection names in order
            r is Ok && old(self).printer.opts().headers ==> final(self).writer.log() == old(self).writer.log().add(list_row(old(self).printer, titles_so_far.names().len() as int, old(self).line_seperator@, title_values(titles_so_far.names()))), // @obl PRINT.text.header_row : C15
            r is Ok && !old(self).printer.opts().headers ==> final(self).writer.log() == old(self).writer.log(),
            r is Ok ==> final(self).length == titles_so_far.names().len(),
//@@ endfn
//@@ fn textprocess.process = src/output_style.rs :: impl Process for TextProcess :: fn process
//@@ safety C15 C16 C03 C20 C06 C11
//@@ rewrite write_macros
//@@ body-start
        let ghost l0 = self.writer.log();
        proof {
            let p = self.printer; let n = self.length as int; let sep = self.line_seperator@;
            let row = text_row(p, n, sep, context);
            assert forall|rows: Seq<Context>| #[trigger] text_rows(p, n, sep, seq![context].add(rows)) == row.add(text_rows(p, n, sep, rows)) by {
                assert(seq![context].add(rows).subrange(1, seq![context].add(rows).len() as int) =~= rows);
            }
            assert forall|rows: Seq<Context>| l0.add(row).add(#[trigger] text_rows(p, n, sep, rows)) =~= l0.add(row.add(text_rows(p, n, sep, rows))) by {}
            assert(seq![context].subrange(1, 1) =~= Seq::<Context>::empty());
            assert(text_rows(p, n, sep, Seq::<Context>::empty()) =~= Seq::<char>::empty());
            assert(row.add(Seq::<char>::empty()) =~= row);
            assert(text_rows(p, n, sep, seq![context]) =~= row);
        }
//@@ before "Ok(ProcessDesision::Continue)"
            proof {
                assert(str@ == text_value_text(self.printer, context.inp()));
                assert(self.writer.log() =~= l0.add(text_row(self.printer, 0, self.line_seperator@, context)));
            }
//@@ endfn
}

// ------------------------------------------------------------------ OutputOptions::get_processor (C18: option/style consistency)
//@@ item src/output_style.rs :: enum OutputStyle
//@@ keep-derive Clone Copy
//@@ enditem
//@@ item src/output_style.rs :: struct OutputOptions
//@@ rewrite pub_fields
//@@ enditem
//@@ item src/output_style.rs :: enum OutputStyleValidationError
//@@ enditem
// ---- constructors of the text printer
pub mod vstr {
use vstd::prelude::*;
#[verifier::external_body]
pub fn string_of(x: &str) -> (r: String) ensures r@ == x@ { unimplemented!() }
}
pub mod vs2 {
use vstd::prelude::*;
use std::collections::HashMap;
#[verifier::external_body]
pub fn first_char(s: &String) -> (r: Option<char>) ensures r == (if s@.len() > 0 { Some(s@[0]) } else { None::<char> }) { unimplemented!() }
// s[1..].to_string() (rewrite skip_first): byte offset 1 must be a character boundary, i.e. the first character is ASCII
#[verifier::external_body]
pub fn skip_first_byte(s: &String) -> (r: String)
    requires s@.len() > 0, (s@[0] as u32) < 0x80,
    ensures r@ == s@.subrange(1, s@.len() as int),
{ unimplemented!() }
#[verifier::external_body]
pub fn skip_first_char(s: &String, c: char) -> (r: String)
    requires s@.len() > 0, s@[0] == c,
    ensures r@ == s@.subrange(1, s@.len() as int),
{ unimplemented!() }
#[verifier::external_body]
pub fn map_with_capacity_of(v: &Vec<String>) -> (r: HashMap<char, String>) ensures r@ == Map::<char, String>::empty() { unimplemented!() }
}
// the escape table of the text printer: every configured sequence `cREST` maps its first character c to REST (a later entry
// for the same character replaces an earlier one; an empty sequence configures nothing)
pub open spec fn esc_table(seqs: Seq<String>, n: int) -> Map<char, Seq<char>>
    decreases n
{
    if n <= 0 || n > seqs.len() { Map::empty() } else {
        let m = esc_table(seqs, n - 1);
        let v = seqs[n - 1]@;
        if v.len() == 0 { m } else { m.insert(v[0], v.subrange(1, v.len() as int)) }
    }
}
// the map holds exactly the table (compared by the texts of the replacement strings)
pub open spec fn is_table(m: Map<char, String>, t: Map<char, Seq<char>>) -> bool {
    forall|c: char| #![trigger m.contains_key(c)] #![trigger t.contains_key(c)] m.contains_key(c) == t.contains_key(c) && (t.contains_key(c) ==> m[c]@ == t[c])
}
// ---- C15: a csv STRING FIELD is machine-readable. An RFC 4180 reader of a quoted field: two quotes are one quote of the
// content, a single quote ends the field, every other character (commas, line breaks, ...) is content
pub open spec fn csv_dec(t: Seq<char>, i: int, acc: Seq<char>) -> Option<(Seq<char>, int)>
    decreases t.len() - i
{
    if i < 0 || i >= t.len() { None }
    else if t[i] == '"' { if i + 1 < t.len() && t[i + 1] == '"' { csv_dec(t, i + 2, acc.push('"')) } else { Some((acc, i)) } }
    else { csv_dec(t, i + 1, acc.push(t[i])) }
}
// the csv escape table: a quote is written as two quotes, nothing else is touched
pub open spec fn csv_map(m: Map<char, String>) -> bool { forall|c: char| #[trigger] m.contains_key(c) == (c == '"') && m['"']@ == seq!['"', '"'] }
pub proof fn lemma_csv_preset_table(o: TextOutputOptions, m: Map<char, String>)
    requires is_csv_preset(o), is_table(m, esc_table(o.escape_sequance@, o.escape_sequance@.len() as int)),
    ensures csv_map(m), o.string_prefix@ == seq!['"'], o.string_postfix@ == seq!['"'],
{
    reveal_with_fuel(esc_table, 2);
    reveal_strlit("\"\"\""); reveal_strlit("\"");
    let v = o.escape_sequance@[0]@;
    assert(v.len() == 3 && v[0] == '"' && v[1] == '"' && v[2] == '"');
    assert(v.subrange(1, 3) =~= seq!['"', '"']);
    let t = esc_table(o.escape_sequance@, 1);
    assert(t == Map::<char, Seq<char>>::empty().insert('"', v.subrange(1, 3)));
    assert forall|c: char| #[trigger] m.contains_key(c) == (c == '"') by { assert(t.contains_key(c) == (c == '"')); }
    assert(t.contains_key('"'));
    assert(o.string_prefix@ =~= seq!['"']);
    assert(o.string_postfix@ =~= seq!['"']);
}
pub proof fn lemma_text_esc_all_front(m: Map<char, String>, s: Seq<char>)
    requires s.len() > 0,
    ensures text_esc_all(m, s) == text_esc(m, s[0]).add(text_esc_all(m, s.subrange(1, s.len() as int))),
    decreases s.len(),
{
    let t = s.subrange(1, s.len() as int);
    if s.len() == 1 {
        reveal_with_fuel(text_esc_all, 2);
        assert(s.drop_last() =~= Seq::<char>::empty());
        assert(t =~= Seq::<char>::empty());
        assert(text_esc_all(m, s) =~= text_esc(m, s[0]));
        assert(text_esc(m, s[0]).add(text_esc_all(m, t)) =~= text_esc(m, s[0]));
    } else {
        lemma_text_esc_all_front(m, s.drop_last());
        assert(s.drop_last().subrange(1, s.len() - 1) =~= t.drop_last());
        assert(s.drop_last()[0] == s[0]);
        assert(t.last() == s.last());
        assert(text_esc(m, s[0]).add(text_esc_all(m, t.drop_last())).add(text_esc(m, s.last())) =~= text_esc(m, s[0]).add(text_esc_all(m, t.drop_last()).add(text_esc(m, t.last()))));
    }
}
pub proof fn lemma_csv_body(t: Seq<char>, i: int, acc: Seq<char>, m: Map<char, String>, s: Seq<char>)
    requires csv_map(m), 0 <= i, i + text_esc_all(m, s).len() < t.len(),
        forall|j: int| 0 <= j < text_esc_all(m, s).len() ==> t[i + j] == #[trigger] text_esc_all(m, s)[j],
        t[i + text_esc_all(m, s).len()] == '"',
        i + text_esc_all(m, s).len() + 1 >= t.len() || t[i + text_esc_all(m, s).len() + 1] != '"',
    ensures csv_dec(t, i, acc) == Some((acc.add(s), i + text_esc_all(m, s).len())),
    decreases s.len(),
{
    let body = text_esc_all(m, s);
    if s.len() == 0 {
        assert(body =~= Seq::<char>::empty());
        assert(acc.add(s) =~= acc);
    } else {
        let r = s.subrange(1, s.len() as int);
        lemma_text_esc_all_front(m, s);
        let e0 = text_esc(m, s[0]); let br = text_esc_all(m, r);
        assert(body == e0.add(br));
        assert forall|j: int| 0 <= j < br.len() implies t[i + e0.len() + j] == #[trigger] br[j] by { assert(body[e0.len() + j] == br[j]); assert(t[i + (e0.len() + j)] == body[e0.len() + j]); }
        if s[0] == '"' {
            assert(m.contains_key('"'));
            assert(e0 == seq!['"', '"']);
            assert(t[i + 0] == body[0] && t[i + 1] == body[1]);
            assert(body[0] == '"' && body[1] == '"');
            lemma_csv_body(t, i + 2, acc.push('"'), m, r);
            assert(acc.push('"').add(r) =~= acc.add(s));
        } else {
            assert(!m.contains_key(s[0]));
            assert(e0 == seq![s[0]]);
            assert(t[i + 0] == body[0]);
            assert(body[0] == s[0]);
            lemma_csv_body(t, i + 1, acc.push(s[0]), m, r);
            assert(acc.push(s[0]).add(r) =~= acc.add(s));
        }
    }
}
// THE FIELD (C15): the text the csv printer writes for a string — whatever quotes, commas or line breaks it contains — placed in a
// line and followed by anything but a quote (the `, ` before the next field, the row separator, the end), is read back by an
// RFC 4180 reader as exactly the string
pub proof fn lemma_csv_string_field(p: TextPrinter, pre: Seq<char>, post: Seq<char>, s: Seq<char>)
    requires is_csv_preset(p.opts()), is_table(p.esc_map(), esc_table(p.opts().escape_sequance@, p.opts().escape_sequance@.len() as int)),
        post.len() == 0 || post[0] != '"',
    ensures ({
        let t = pre.add(p.string_field(s)).add(post);
        t[pre.len() as int] == '"' && csv_dec(t, pre.len() as int + 1, Seq::empty()) == Some((s, pre.len() as int + 1 + text_esc_all(p.esc_map(), s).len() as int))
    }), // @obl PRINT.csv.string_field_roundtrip : C15
{
    let m = p.esc_map();
    lemma_csv_preset_table(p.opts(), m);
    let body = text_esc_all(m, s);
    let f = p.string_field(s);
    assert(f =~= seq!['"'].add(body).add(seq!['"']));
    let t = pre.add(f).add(post);
    let i = pre.len() as int + 1;
    assert(t[pre.len() as int] == f[0]);
    assert forall|j: int| 0 <= j < body.len() implies t[i + j] == #[trigger] body[j] by { assert(t[i + j] == f[1 + j]); }
    assert(t[i + body.len()] == f[1 + body.len() as int]);
    if post.len() > 0 { assert(t[i + body.len() + 1] == post[0]); }
    lemma_csv_body(t, i, Seq::empty(), m, s);
    assert(Seq::<char>::empty().add(s) =~= s);
}
impl vstd::std_specs::convert::FromSpecImpl<TextOutputOptions> for TextPrinter {
    open spec fn obeys_from_spec() -> bool { false }
    uninterp spec fn from_spec(v: TextOutputOptions) -> Self;
}
impl From<TextOutputOptions> for TextPrinter {
//@@ fn textprint.from_options = src/output_style.rs :: impl From<TextOutputOptions> for TextPrinter :: fn from
//@@ safety C15 C05
//@@ ret r
//@@ rewrite hashmap_with_capacity first_char skip_first skip_first_char
//@@ header
        ensures r.opts() == options, is_table(r.esc_map(), esc_table(options.escape_sequance@, options.escape_sequance@.len() as int)), // @obl PRINT.text.escape_table : C15
//@@ body-start
        broadcast use chk::axiom_char_key_model;
//@@ loop 1 iter it
            invariant
                it.seq().len() == options.escape_sequance@.len(),
                forall|j: int| 0 <= j < it.seq().len() ==> *(#[trigger] it.seq()[j]) == options.escape_sequance@[j],
                is_table(escape_sequandes@, esc_table(options.escape_sequance@, it.index@)),
//@@ loop-start 1
            let ghost k = it.index@;
            let ghost m0 = escape_sequandes@;
            proof { assert(*v == options.escape_sequance@[k]); }
//@@ loop-end 1
            proof {
                let vv = options.escape_sequance@[k]@;
                let t0 = esc_table(options.escape_sequance@, k);
                let t1 = esc_table(options.escape_sequance@, k + 1);
                if vv.len() > 0 {
                    assert(t1 == t0.insert(vv[0], vv.subrange(1, vv.len() as int)));
                    assert forall|c: char| #![trigger escape_sequandes@.contains_key(c)] #![trigger t1.contains_key(c)] escape_sequandes@.contains_key(c) == t1.contains_key(c) && (t1.contains_key(c) ==> escape_sequandes@[c]@ == t1[c]) by {
                        if c != vv[0] { assert(m0.contains_key(c) == t0.contains_key(c)); if t0.contains_key(c) { assert(m0[c]@ == t0[c]); } }
                    }
                } else { assert(t1 == t0); }
            }
//@@ endfn
}
// the csv preset: `, ` between fields, strings in double quotes with an embedded quote doubled, a header row,
// True / False / null, nothing for an absent value
pub open spec fn is_csv_preset(r: TextOutputOptions) -> bool {
    r.headers && r.items_seperator@ == ", "@ && r.string_prefix@ == "\""@ && r.string_postfix@ == "\""@
        && r.escape_sequance@.len() == 1 && r.escape_sequance@[0]@ == "\"\"\""@
        && r.null_keyword@ == "null"@ && r.true_keyword@ == "True"@ && r.false_keyword@ == "False"@ && r.missing_value_keyword is None
}
impl TextOutputOptions {
//@@ fn textopts.csv = src/output_style.rs :: impl TextOutputOptions :: fn csv
//@@ safety C15
//@@ ret r
//@@ rewrite lit_to_string
//@@ header
        ensures
            is_csv_preset(r), // @obl PRINT.text.csv_preset : C15
//@@ endfn
}
// the derived / hand-written Default of the two option structs: some fixed value (which one is not modelled)
pub uninterp spec fn default_text_options() -> TextOutputOptions;
pub uninterp spec fn default_json_options() -> JsonOutputOptions;
impl Default for TextOutputOptions { #[verifier::external_body] fn default() -> (r: Self) ensures r == default_text_options() { unimplemented!() } }
impl Default for JsonOutputOptions { #[verifier::external_body] fn default() -> (r: Self) ensures r == default_json_options() { unimplemented!() } }
pub open spec fn json_opts_of(o: OutputOptions) -> JsonOutputOptions { match o.json_options { Some(j) => j, None => default_json_options() } }
pub open spec fn text_opts_of(o: OutputOptions) -> TextOutputOptions { match o.text_options { Some(t) => t, None => default_text_options() } }
impl Clone for TextOutputOptions { #[verifier::external_body] fn clone(&self) -> (r: Self) ensures r == *self { unimplemented!() } }
impl Clone for JsonOutputOptions { #[verifier::external_body] fn clone(&self) -> (r: Self) ensures r == *self { unimplemented!() } }
impl TextProcess {
//@@ fn textprocess.new = src/output_style.rs :: impl TextProcess :: fn new
//@@ safety C15 C11 C06 C16
//@@ ret r
//@@ rewrite dyn_write into_printer
//@@ header
        ensures r.printer.opts() == options && is_table(r.printer.esc_map(), esc_table(options.escape_sequance@, options.escape_sequance@.len() as int))
            && r.line_seperator == line_seperator && r.length == 0, // @obl PRINT.text.new : C15 C11 C06 C16
//@@ endfn
}

impl OutputOptions {
//@@ fn print.get_processor = src/output_style.rs :: impl OutputOptions :: fn get_processor
//@@ safety C18 C03
//@@ ret r
//@@ rewrite dyn_write
//@@ header
        ensures
            // options that do not belong to the chosen style are rejected (before anything is built, read or written)
            (self.output_style is Csv && (self.json_options is Some || self.text_options is Some)) ==> r is Err, // @obl PRINT.get_processor.csv : C18
            (self.output_style is Text && self.json_options is Some) ==> r is Err, // @obl PRINT.get_processor.text : C18
            (self.output_style is Json && self.text_options is Some) ==> r is Err, // @obl PRINT.get_processor.json : C18
            // every printer is an eager sink (what unit GO assumes about the terminal stage)
            r is Ok ==> r->Ok_0.inv() && r->Ok_0.eager() && !r->Ok_0.must_break(), // @obl PRINT.get_processor.eager : C03 C09
            // WHAT the printer will print once started with the selection names t (the `p.sfut(..)` of THY.C03.started_chain_is_the_pipeline):
            // JSON: one JSON text per row in the configured style, each followed by the row separator
            r is Ok && self.output_style is Json ==> forall|t: Seq<String>, rows: Seq<Context>| #[trigger] r->Ok_0.sfut(t, rows) == json_rows(json_opts_of(*self), self.row_seperator@, rows), // @obl PRINT.get_processor.json_rows : C03 C02
            // text / csv: one line per row with exactly |t| fields (the input value itself when there is no selection), printed by a
            // text printer built from the csv preset / the given or default text options
            r is Ok && !(self.output_style is Json) ==> exists|pr: TextPrinter| (if self.output_style is Csv { is_csv_preset(pr.opts()) } else { pr.opts() == text_opts_of(*self) })
                && forall|t: Seq<String>, rows: Seq<Context>| #[trigger] r->Ok_0.sfut(t, rows) == text_rows(pr, t.len() as int, self.row_seperator@, rows), // @obl PRINT.get_processor.text_rows : C03 C15
//@@ endfn
}

} // verus!
fn main() {}
