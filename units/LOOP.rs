#![feature(allocator_api)]
// Unit LOOP: Master::read_input (src/lib.rs) — the top-level read loop (C01.stream, C03.scalars, C06, C11.fresh, C14.loop, C16, C17)
use vstd::prelude::*;
use std::rc::Rc;
use std::io::Read;
use std::collections::HashMap;
use std::path::PathBuf;
use vstd::std_specs::iter::IteratorSpec;

verus! {

pub mod jt {
use vstd::prelude::*;
use std::rc::Rc;
use vstd::std_specs::iter::IteratorSpec;
//@@ include prelude/indexmap.rs
//@@ include prelude/json_types.rs
//@@ include prelude/clone_specs.rs
}
use jt::*;
//@@ include lemmas/ctx_spec.rs
//@@ include prelude/ctx_opaque.rs
//@@ include prelude/process.rs
//@@ include prelude/vio.rs

pub mod rows {
use vstd::prelude::*;
use std::rc::Rc;
use super::*;
pub open spec fn tail(r: Seq<Context>) -> Seq<Context> { r.subrange(1, r.len() as int) }
}

// Reader: opaque, contracts from unit R; the Location type comes with the Context prelude
pub mod rd {
use vstd::prelude::*;
use std::io::{Read, Result};
pub use super::Location;
#[verifier::external_trait_specification]
pub trait ExRead {
    type ExternalTraitSpecificationFor: std::io::Read;
}
#[verifier::external_type_specification]
#[verifier::external_body]
pub struct ExIoError(std::io::Error);
#[verifier::external_body]
#[verifier::reject_recursive_types(R)]
pub struct Reader<R: Read> { _p: std::marker::PhantomData<R> }
//@@ include lemmas/reader_spec.rs
impl<R: Read> Reader<R> {
    pub uninterp spec fn rest(&self) -> Seq<Option<u8>>;
    pub uninterp spec fn cur(&self) -> Option<u8>;
    pub uninterp spec fn line(&self) -> int;
    pub uninterp spec fn col(&self) -> int;
    pub uninterp spec fn name(&self) -> Option<String>;
    pub uninterp spec fn wf(&self) -> bool;
    pub open spec fn pending(&self) -> Seq<Option<u8>> {
        if self.cur() is Some { seq![self.cur()].add(self.rest()) } else { self.rest() }
    }
    pub open spec fn mu(&self) -> nat { self.pending().len() }
    pub open spec fn room(&self) -> bool { self.line() + self.rest().len() < usize::MAX && self.col() + self.rest().len() < usize::MAX }
//@@ fn lo.where_am_i = src/reader.rs :: impl<R: Read> Reader<R> :: fn where_am_i
//@@ ret r
//@@ assume
//@@ header-from specs/reader/where_am_i.spec
//@@ endfn
}
}
use rd::*;
pub mod jg {
use vstd::prelude::*;
use super::rd::*;
//@@ include lemmas/json_grammar.rs
}
use jg::*;
pub mod ls {
use vstd::prelude::*;
use super::jt::*;
//@@ include prelude/lexstd.rs
}
use ls::*;
pub mod js {
use vstd::prelude::*;
use super::rd::*;
use super::jg::*;
use super::ls::*;
//@@ include lemmas/json_string.rs
}
use js::*;
pub mod jv {
use vstd::prelude::*;
use super::rd::*;
use super::jg::*;
use super::ls::*;
use super::js::*;
use super::jt::*;
//@@ include lemmas/json_value.rs
}
use jv::*;

// JsonParserError: opaque here; `is_io_error` is the IoError variant test (unit LEX proves can_recover against it)
pub mod jp {
use vstd::prelude::*;
use std::io::Read;
use super::*;
#[verifier::external_body]
pub struct JsonParserError { _p: () }
pub type Result<T> = std::result::Result<T, JsonParserError>;
pub uninterp spec fn is_io_error(e: JsonParserError) -> bool;
pub open spec fn is_io<T>(r: Result<T>) -> bool { r is Err && is_io_error(r->Err_0) }
impl JsonParserError {
    #[verifier::external_body]
    pub fn can_recover(&self) -> (r: bool) ensures r == !is_io_error(*self) { unimplemented!() }
}
pub ghost enum Njv { Val(JsonValue), End, Bad }
pub open spec fn njv_abs(r: Result<Option<JsonValue>>) -> Njv { match r { Ok(Some(v)) => Njv::Val(v), Ok(None) => Njv::End, Err(_) => Njv::Bad } }
pub uninterp spec fn njv_fn(p: Seq<Option<u8>>) -> (Njv, Seq<Option<u8>>);
pub ghost struct RView { pub pending: Seq<Option<u8>>, pub cur: Option<u8>, pub ok: bool, pub name: Option<String> }
pub open spec fn rview<R: Read>(r: &Reader<R>) -> RView { RView { pending: r.pending(), cur: r.cur(), ok: r.wf() && r.room(), name: r.name() } }
// the part of next_json_value's contract (unit LEX, trait JsonParser) the read loop relies on — ASSUMED here, same clauses
pub trait JsonParser {
    spec fn rv(&self) -> RView;
    fn next_json_value(&mut self) -> (r: Result<Option<JsonValue>>)
        requires old(self).rv().ok,
        ensures
            final(self).rv().ok && final(self).rv().name == old(self).rv().name,
            is_io(r) || advance(old(self).rv().pending, final(self).rv().pending),
            r is Ok && r->Ok_0 is None ==> final(self).rv().pending.len() == 0,
            !(r is Ok && r->Ok_0 is None) && !is_io(r) ==> final(self).rv().pending.len() < old(self).rv().pending.len(),
            r is Ok && r->Ok_0 is None ==> ws_run(old(self).rv().pending) == old(self).rv().pending.len(),
            // (L3.value, L4.accepts, L4.eof of unit LEX)
            ({ let p = old(self).rv().pending;
               r is Ok && r->Ok_0 is Some ==> (match pv(p) {
                   Some((v, n)) => r->Ok_0->0 == v && 0 < n <= p.len() && final(self).rv().pending =~= from(p, n),
                   None => false }) }),
            !is_io(r) && pvs(old(self).rv().pending) ==> r is Ok && r->Ok_0 is Some,
            !is_io(r) && ws_run(old(self).rv().pending) == old(self).rv().pending.len() ==> r is Ok && r->Ok_0 is None,
            // (L2.resync of unit LEX) a byte that cannot start a value is a recoverable error that consumes the white space before it
            // and exactly that byte
            ({ let p = old(self).rv().pending; let w = ws_run(p) as int;
               !is_io(r) && at(p, w) is Some && !starts_value(at(p, w)->0) ==> r is Err && final(self).rv().pending.len() == p.len() - w - 1 }),
            // the fatal IoError is reported ONLY when a read failed (unit LEX: lex_post)
            is_io(r) ==> has_fault(old(self).rv().pending),
            // the parser is deterministic: value / end / error and what is left pending are a FUNCTION of the pending bytes
            // (assumed; used only by the `parse` function below, whose result must be a function of its argument)
            njv_abs(r) == njv_fn(old(self).rv().pending).0 && final(self).rv().pending == njv_fn(old(self).rv().pending).1;
}
impl<R: Read> JsonParser for Reader<R> {
    open spec fn rv(&self) -> RView { rview(self) }
    #[verifier::external_body]
    fn next_json_value(&mut self) -> (r: Result<Option<JsonValue>>) { unimplemented!() }
}
}
use jp::{JsonParserError, JsonParser, is_io_error, rview, RView};

#[verifier::external_body] pub struct MainError { _p: () }
pub type Result<T> = std::result::Result<T, MainError>;
pub uninterp spec fn main_is_fatal_read(e: MainError) -> bool;
impl From<JsonParserError> for MainError { #[verifier::external_body] fn from(e: JsonParserError) -> Self { unimplemented!() } }
impl From<ProcessError> for MainError { #[verifier::external_body] fn from(e: ProcessError) -> Self { unimplemented!() } }
impl From<std::io::Error> for MainError { #[verifier::external_body] fn from(e: std::io::Error) -> Self { unimplemented!() } }

#[verifier::external_type_specification]
#[verifier::external_body]
pub struct ExPathBuf(std::path::PathBuf);
#[verifier::external_body] pub struct OutputOptions { _p: () }

//@@ item src/lib.rs :: enum OnError
//@@ enditem
//@@ item src/lib.rs :: struct Cli
//@@ enditem
//@@ item src/lib.rs :: struct Master
//@@ rewrite dyn_write stdin_factory
#[verifier::reject_recursive_types(R)]
//@@ enditem

// writeln!(w.borrow_mut(), "error:{e}") (rewrite writeln_error): one `error:` line on w, or an io::Error. C06/C20: the line goes
// to the stream the configured policy names and nowhere else — the trusted primitive REQUIRES that of its caller.
#[verifier::external_body]
pub fn error_line<E>(w: &vio::Out, e: &E, policy: &OnError) -> std::io::Result<()>
    requires
        *policy is Stdout || *policy is Stderr, // @obl LOOP.error_policy : C06 C20
        *policy is Stdout ==> w.fd() == 1, // @obl LOOP.error_stream.stdout : C06 C20
        *policy is Stderr ==> w.fd() == 2, // @obl LOOP.error_stream.stderr : C06 C20
{ unimplemented!() }
impl<S: Read> Master<S> {
    // the handles the run was given: `stdout` is the designated output stream, `stderr` the designated diagnostics stream
    // (established by Master::new from go()'s arguments: unit GO)
    pub closed spec fn wired(&self) -> bool { self.stdout.fd() == 1 && self.stderr.fd() == 2 }
}

// the context built for a value: a function of the value, its position and the counters only (C11.fresh, C17)
pub open spec fn fed_ok(fed: Seq<Context>, i0: u64) -> bool {
    forall|k: int| 0 <= k < fed.len() ==> ((#[trigger] fed[k]).ictx() matches Some(ic) && ic.file_index == k && ic.index == i0 + k)
        && fed[k].parents().len() == 0 && fed[k].res().len() == 0
}
// the pipeline has been fed exactly `fed` (P1 chained): what it has printed plus what it will print for any continuation x
// is what the pipeline at entry would print for fed followed by x
//@@ include prelude/fed.rs

// ---- end to end (C01): on a CLEAN stream — values in accepted spellings separated by white space, nothing else — the
// pipeline is fed exactly the values of the stream, in order
pub open spec fn vals(p: Seq<Option<u8>>) -> Seq<JsonValue>
    decreases p.len()
{
    match pv(p) { Some((v, n)) => if 0 < n <= p.len() { seq![v].add(vals(from(p, n))) } else { Seq::empty() }, None => Seq::empty() }
}
pub open spec fn clean(p: Seq<Option<u8>>) -> bool
    decreases p.len()
{
    ws_run(p) == p.len() || (pvs(p) && match pv(p) { Some((v, n)) => 0 < n <= p.len() && clean(from(p, n)), None => false })
}
// ---- C06: NOISE between the values. A noise byte is a byte that is not white space and cannot start a value (`}` `]` `,` `:`
// and every other stray byte); a noisy stream is a clean stream with such bytes anywhere between its values
pub open spec fn noise_at(p: Seq<Option<u8>>) -> bool { let w = ws_run(p) as int; at(p, w) is Some && !starts_value(at(p, w)->0) }
pub open spec fn noisy(p: Seq<Option<u8>>) -> bool
    decreases p.len()
{
    let w = ws_run(p) as int;
    w == p.len()
    || (noise_at(p) && 0 <= w < p.len() && noisy(from(p, w + 1)))
    || (!noise_at(p) && pvs(p) && match pv(p) { Some((v, n)) => 0 < n <= p.len() && noisy(from(p, n)), None => false })
}
// the values of a noisy stream: the noise bytes are skipped, nothing else changes
pub open spec fn vals_n(p: Seq<Option<u8>>) -> Seq<JsonValue>
    decreases p.len()
{
    let w = ws_run(p) as int;
    if w == p.len() { Seq::empty() }
    else if noise_at(p) { if 0 <= w < p.len() { vals_n(from(p, w + 1)) } else { Seq::empty() } }
    else { match pv(p) { Some((v, n)) => if 0 < n <= p.len() { seq![v].add(vals_n(from(p, n))) } else { Seq::empty() }, None => Seq::empty() } }
}
// a clean stream is a noisy stream without noise, with the same values: the noisy reading generalises the clean one
pub proof fn lemma_clean_is_noisy(p: Seq<Option<u8>>)
    requires clean(p),
    ensures noisy(p), vals_n(p) == vals(p), // @obl LOOP.noise.generalises_clean : C06 C01
    decreases p.len(),
{
    let w = ws_run(p) as int;
    lemma_pv(p);
    if w == p.len() { }
    else {
        // the first byte behind the white space starts a value: pv(p) is Some only then
        let t = p.subrange(w, p.len() as int);
        lemma_tv(t);
        assert(at(t, 0) == at(p, w));
        assert(!noise_at(p));
        let n = (pv(p)->0).1;
        lemma_clean_is_noisy(from(p, n));
    }
}
// C17: the start / end positions of consecutive values are contiguous (the range of a value reaches from where the previous one
// ended, white space included, to where the parser stopped)
pub open spec fn loc_is<R: Read>(l: Location, r: &Reader<R>) -> bool { l.line_number as int == r.line() && l.char_number as int == r.col() && l.input == r.name() }
pub open spec fn fed_contig(fed: Seq<Context>) -> bool {
    forall|k: int| 0 <= k < fed.len() - 1 ==> (#[trigger] fed[k + 1]).ictx()->0.start_location == fed[k].ictx()->0.end_location
}
pub open spec fn inputs(fed: Seq<Context>) -> Seq<JsonValue> { Seq::new(fed.len(), |k: int| fed[k].inp()) }
impl<S: Read> Master<S> {
    pub closed spec fn only_oa(&self) -> bool { self.cli.only_objects_and_arrays }

    // the part of read_input's contract that unit GO (the driver half of go()) assumes: this wrapper is the machine-checked
    // proof that the full contract below implies it (same spec file as GO's assumed header)
    fn read_input_as_assumed_in_go<R: Read>(&self, reader: &mut Reader<R>, index: &mut u64, process: &mut dyn Process) -> (r: Result<ProcessDesision>)
//@@ include specs/loop/read_input_reduced.spec
    {
        self.read_input(reader, index, process)
    }

//@@ fn loop.read_input = src/lib.rs :: impl<S: Read> Master<S> :: fn read_input
//@@ safety C01 C05 C06 C14 C16 C17 C11 C03 C20
//@@ ret r
//@@ rewrite break_value writeln_error
//@@ header
        requires old(reader).wf(), old(reader).room(), old(process).inv(), self.wired(),
            // the two counters count values, and there are fewer values than bytes: "fewer than 2^64 values in a run"
            *old(index) + old(reader).pending().len() <= u64::MAX,
        ensures
            final(process).inv(), // @obl LOOP.inv : C03
            // whatever happens, nothing already written is lost (C16.prefix)
            is_prefix(old(process).log(), final(process).log()), // @obl LOOP.prefix : C16 C20
            // every value is handed to the pipeline exactly once, in order, as a fresh context carrying its position and the
            // two counters; nothing else reaches the pipeline (C01.stream, C11.fresh, C17.idx)
            r is Ok ==> exists|fed: Seq<Context>| #[trigger] fed_ok(fed, *old(index)) && fed_post(old(process), final(process), fed)
                // ... and on a clean stream read to its end, without --only-objects-and-arrays, these are exactly the stream's values
                && (r->Ok_0 is Continue && !self.only_oa() && clean(old(reader).pending()) ==> inputs(fed) == vals(old(reader).pending()))
                // ... and on a NOISY stream (C06: stray bytes between the values, any --on-error policy that lets the run go on) the
                // pipeline is fed exactly the values, in order: the noise changes neither which values are processed nor their order
                && (r->Ok_0 is Continue && !self.only_oa() && noisy(old(reader).pending()) ==> inputs(fed) == vals_n(old(reader).pending()))
                // ... and on a clean stream the position ranges of consecutive values are contiguous (C17)
                && (!self.only_oa() && clean(old(reader).pending()) ==> fed_contig(fed)), // @obl LOOP.stream : C01 C11 C17 C03 C06
            // Continue is returned only at the true end of the input, Break only after the pipeline said Break — and then at once,
            // so the caller can (and does) skip the remaining files
            r is Ok && r->Ok_0 is Continue ==> final(reader).pending().len() == 0, // @obl LOOP.stop : C14 C01
            r is Ok && r->Ok_0 is Break ==> done(final(process)), // @obl LOOP.break_reported : C14
            // a pipeline that was not done at entry is never called again after it became done (C14.loop)
            r is Ok && !old(process).must_break() && final(process).must_break() ==> done(final(process)), // @obl LOOP.break : C14
            r is Ok && r->Ok_0 is Continue && !old(process).must_break() ==> !final(process).must_break(), // @obl LOOP.continue_not_done : C14
            *final(index) >= *old(index), // @obl LOOP.index_monotone : C17
            r is Ok ==> *final(index) + final(reader).pending().len() <= *old(index) + old(reader).pending().len(), // @obl LOOP.index_bound : C17 C05
//@@ body-start
        let ghost mut fed: Seq<Context> = Seq::empty();
        let ghost i0 = *index;
        let ghost n0 = reader.pending().len();
        let ghost p0 = reader.pending();
        proof { assert(inputs(fed).add(vals(p0)) =~= vals(p0)); assert(inputs(fed).add(vals_n(p0)) =~= vals_n(p0)); }
        proof { assert forall|x: Seq<Context>| #[trigger] fed.add(x) =~= x by {} }
//@@ loop 1
            invariant
                reader.wf(), reader.room(), process.inv(), self.wired(),
                is_prefix(old(process).log(), process.log()),
                fed_ok(fed, i0), fed.len() == in_file_index, *index == i0 + in_file_index,
                *index + reader.pending().len() <= i0 + n0, i0 + n0 <= u64::MAX, i0 == *old(index),
                fed_post(old(process), process, fed),
                old(process).must_break() || !process.must_break(),
                p0 == old(reader).pending(), n0 == p0.len(),
                !self.only_oa() && clean(p0) ==> clean(reader.pending()) && inputs(fed).add(vals(reader.pending())) == vals(p0),
                !self.only_oa() && noisy(p0) ==> noisy(reader.pending()) && inputs(fed).add(vals_n(reader.pending())) == vals_n(p0),
                !self.only_oa() && clean(p0) ==> fed_contig(fed) && (fed.len() > 0 ==> loc_is(fed.last().ictx()->0.end_location, reader)),
            decreases reader.pending().len(),
//@@ loop-start 1
            let ghost ph = reader.pending();
//@@ before "match process.process(context)? {"
                    let ghost c0 = context;
                    let ghost prev_fed = fed;
                    proof {
                        fed = fed.push(c0);
                        assert forall|x: Seq<Context>| prev_fed.add(#[trigger] seq![c0].add(x)) =~= fed.add(x) by {}
                    }
//@@ before "break Ok(ProcessDesision::Break);"
                            proof {
                                assert(reader.pending().len() <= ph.len());
                                assert(fed_ok(fed, i0));
                                assert(fed_post(old(process), process, fed));
                            }
//@@ before "return Ok(ProcessDesision::Continue);"
                    proof {
                        assert(reader.pending().len() <= ph.len());
                        lemma_pv(ph);
                        assert(vals(ph) =~= Seq::<JsonValue>::empty());
                        assert(inputs(fed).add(Seq::<JsonValue>::empty()) =~= inputs(fed));
                        assert(fed_ok(fed, i0));
                        assert(fed_post(old(process), process, fed));
                        assert(!self.only_oa() && clean(p0) ==> inputs(fed) == vals(p0));
                        assert(vals_n(ph) =~= Seq::<JsonValue>::empty());
                        assert(!self.only_oa() && noisy(p0) ==> inputs(fed) == vals_n(p0));
                    }
//@@ before "in_file_index += 1;"
                            proof {
                                assert(fed_ok(fed, i0));
                                assert(fed_post(old(process), process, fed));
                            }
//@@ endfn
}

// ---- the `parse` function (src/functions/string/parse_and_stringify/parse.rs): the text must hold exactly one JSON value ----
//@@ include prelude/fnargs_apply.rs
pub mod vps {
use vstd::prelude::*;
use super::*;
pub open spec fn text_pending(t: Seq<char>) -> Seq<Option<u8>> { Seq::new(str_bytes(t).len(), |i: int| Some(str_bytes(t)[i])) }
// src/reader.rs: from_string (verified in unit EXPR: EXPR.from_string) — a reader over the bytes of the text, nothing read yet
#[verifier::external_body]
pub fn from_string<'a>(source: &'a String) -> (r: Reader<&'a [u8]>)
    ensures r.wf(), r.room(), r.cur() is None, r.pending() =~= text_pending(source@),
{ unimplemented!() }
// one value, then nothing but white space
pub open spec fn parse_text(t: Seq<char>) -> Option<JsonValue> {
    let a = jp::njv_fn(text_pending(t));
    match a.0 { jp::Njv::Val(v) => match jp::njv_fn(a.1).0 { jp::Njv::End => Some(v), _ => None }, _ => None }
}
}
use vps::*;
pub mod f_parse {
use super::*;
//@@ item src/functions/string/parse_and_stringify/parse.rs :: fn get :: struct Impl
//@@ rewrite pub_tuple pub_struct
//@@ enditem
impl Get for Impl {
    open spec fn get_spec(&self, value: &Context) -> Option<JsonValue> {
        match arg(self.0@, value, 0) { Some(JsonValue::String(s)) => parse_text(s@), _ => None }
    }
//@@ fn f.parse = src/functions/string/parse_and_stringify/parse.rs :: fn get :: impl Get for Impl :: fn get
//@@ safety C04 C05 C02
//@@ ret r
//@@ post doc "(parse s) is the value the JSON parser reads from the text s, provided the text holds exactly one value followed by nothing but white space; nothing otherwise (not a string, no value, a malformed value, or anything after the value)"
//@@ header
        ensures
            // ... and that value is the one the RFC 8259 spec parser pv assigns to the text (contract of next_json_value, unit LEX)
            r is Some ==> (match arg(self.0@, value, 0) { Some(JsonValue::String(s)) => (match pv(text_pending(s@)) {
                Some((v, n)) => r == Some(v) && ws_run(from(text_pending(s@), n)) == from(text_pending(s@), n).len(),
                None => false }), _ => false }), // @obl LOOP.parse.value : C04 C02
            // ... and a text that holds one value in an accepted spelling followed by nothing but white space is never refused
            // (a string has no failing reads, so the parser cannot answer with an I/O error)
            (match arg(self.0@, value, 0) { Some(JsonValue::String(s)) => (pvs(text_pending(s@)) && (match pv(text_pending(s@)) {
                Some((v, n)) => ws_run(from(text_pending(s@), n)) == from(text_pending(s@), n).len(), None => false })), _ => false }) ==> r is Some, // @obl LOOP.parse.accepts : C04 C02
//@@ after "let mut reader = from_string(&str);"
                        proof {
                            reveal(has_fault);
                            let p = text_pending(str@);
                            assert(reader.pending() =~= p);
                            assert(no_fault(p));
                            lemma_pv(p);
                        }
//@@ endfn
}
}

} // verus!
fn main() {}
