#![feature(allocator_api)]
// Unit GO: the assembly slice of Master::go (src/lib.rs) — C03.order, C07.major, C08.cap1, C18 (prefix)
use vstd::prelude::*;
use std::rc::Rc;
use vstd::std_specs::iter::IteratorSpec;
use std::str::FromStr;
use std::path::PathBuf;
use std::io::Read;
use std::collections::HashMap;

verus! {

global size_of usize == 8;

pub mod jt {
use vstd::prelude::*;
use std::rc::Rc;
use vstd::std_specs::iter::IteratorSpec;
//@@ include prelude/indexmap.rs
//@@ include prelude/json_types.rs
//@@ include prelude/clone_specs.rs
}
use jt::*;
pub mod bt {
use vstd::prelude::*;
use vstd::std_specs::iter::IteratorSpec;
use super::jt::default_of;
//@@ include prelude/btreemap.rs
}
use bt::*;
//@@ include lemmas/ctx_spec.rs
//@@ include prelude/ctx_opaque.rs
//@@ include prelude/process.rs
//@@ include prelude/vio.rs

#[verifier::external_body]
pub struct ContextKey { _p: () }
pub uninterp spec fn ctx_key(c: Context) -> ContextKey;

pub mod rows {
use vstd::prelude::*;
use std::rc::Rc;
use super::*;
//@@ include lemmas/rows.rs
}
use rows::*;
pub mod sortspec {
use vstd::prelude::*;
use std::rc::Rc;
use std::collections::VecDeque;
use super::*;
//@@ include lemmas/sort.rs
}
use sortspec::*;
broadcast use {rows::group_rows, prefix_lemmas::group_prefix};

pub open spec fn cap_of(c: Option<usize>) -> Option<nat> { match c { Some(n) => Some(n as nat), None => None } }

// ---- error types: opaque; `?` converts with the #[from] impls thiserror derives on MainError (trusted declarations)
#[verifier::external_body] pub struct OutputStyleValidationError { _p: () }
#[verifier::external_body] pub struct SelectionParseError { _p: () }
#[verifier::external_body] pub struct SorterParserError { _p: () }
#[verifier::external_body] pub struct MainError { _p: () }
pub type Result<T> = std::result::Result<T, MainError>;
impl From<OutputStyleValidationError> for MainError { #[verifier::external_body] fn from(e: OutputStyleValidationError) -> Self { unimplemented!() } }
impl From<SelectionParseError> for MainError { #[verifier::external_body] fn from(e: SelectionParseError) -> Self { unimplemented!() } }
impl From<SorterParserError> for MainError { #[verifier::external_body] fn from(e: SorterParserError) -> Self { unimplemented!() } }
impl From<ProcessError> for MainError { #[verifier::external_body] fn from(e: ProcessError) -> Self { unimplemented!() } }
impl From<std::io::Error> for MainError { #[verifier::external_body] fn from(e: std::io::Error) -> Self { unimplemented!() } }
impl From<PreSetParserError> for MainError { #[verifier::external_body] fn from(e: PreSetParserError) -> Self { unimplemented!() } }

#[verifier::external_trait_specification]
pub trait ExFromStr: Sized {
    type ExternalTraitSpecificationFor: std::str::FromStr;
    type Err;
    fn from_str(s: &str) -> std::result::Result<Self, Self::Err>;
}
#[verifier::external_type_specification]
#[verifier::external_body]
pub struct ExPathBuf(std::path::PathBuf);
#[verifier::external_type_specification]
#[verifier::external_body]
pub struct ExIoError(std::io::Error);
#[verifier::external_trait_specification]
pub trait ExRead {
    type ExternalTraitSpecificationFor: std::io::Read;
}

// ---- the driver half of go(): the reader is opaque here (unit R proves its contracts), the read loop is unit LOOP's
pub mod rd {
use vstd::prelude::*;
use std::io::Read;
#[verifier::external_body]
#[verifier::reject_recursive_types(R)]
pub struct Reader<R: Read> { _p: std::marker::PhantomData<R> }
pub uninterp spec fn source<R>(r: R) -> Seq<Option<u8>>;
impl<R: Read> Reader<R> {
    pub uninterp spec fn rest(&self) -> Seq<Option<u8>>;
    pub uninterp spec fn cur(&self) -> Option<u8>;
    pub uninterp spec fn line(&self) -> int;
    pub uninterp spec fn col(&self) -> int;
    pub uninterp spec fn name(&self) -> Option<String>;
    pub uninterp spec fn wf(&self) -> bool;
    pub open spec fn pending(&self) -> Seq<Option<u8>> {
        if self.cur() is Some { seq![self.cur()].add(self.rest()) } else { self.rest() }
    }
    pub open spec fn room(&self) -> bool { self.line() + self.rest().len() < usize::MAX && self.col() + self.rest().len() < usize::MAX }
}
// src/reader.rs: from_std_in — ASSUMED here, proved in unit R (R.from_std_in.lazy): nothing read yet, position 1:1
#[verifier::external_body]
pub fn from_std_in<R: Read>(stdin: R) -> (r: Reader<R>)
    ensures r.wf(), r.cur() is None, r.rest() == source(stdin), r.line() == 1, r.col() == 1, r.name() == None::<String>,
{ unimplemented!() }
// src/reader.rs: from_file — ASSUMED here, proved in unit R (R.from_file.lazy): nothing read yet, position 1:1, the file's bytes
#[verifier::external_body]
pub fn from_file(file_name: &std::path::PathBuf) -> (r: std::io::Result<Reader<std::io::BufReader<std::fs::File>>>)
    ensures r is Ok ==> r->Ok_0.wf() && r->Ok_0.cur() is None && r->Ok_0.rest() == super::vfs::file_source(*file_name) && r->Ok_0.line() == 1 && r->Ok_0.col() == 1,
{ unimplemented!() }
}
use rd::*;
// ---- the file system as far as read_file touches it (trusted declarations)
pub mod vfs {
use vstd::prelude::*;
use std::path::PathBuf;
use vstd::std_specs::iter::IteratorSpec;
pub uninterp spec fn file_source(p: PathBuf) -> Seq<Option<u8>>;
// the number of bytes below a path: the length of a file, at least the sum over the entries of a directory
pub uninterp spec fn path_bytes(p: PathBuf) -> nat;
// PathBuf::clone is a copy
pub broadcast axiom fn axiom_cloned_pathbuf(a: PathBuf, b: PathBuf)
    requires #[trigger] cloned(a, b),
    ensures a == b;
pub broadcast axiom fn axiom_file_bytes(p: PathBuf) ensures (#[trigger] file_source(p)).len() <= path_bytes(p);
pub open spec fn paths_bytes(s: Seq<PathBuf>, k: int) -> nat
    decreases s.len() - k
{ if k < 0 || k >= s.len() { 0 } else { path_bytes(s[k]) + paths_bytes(s, k + 1) } }
#[verifier::external_type_specification]
#[verifier::external_body]
pub struct ExFile(std::fs::File);
#[verifier::external_type_specification]
#[verifier::external_body]
#[verifier::reject_recursive_types(R)]
pub struct ExBufReader<R: ?Sized>(std::io::BufReader<R>);
// assert!(file.exists(), ..) (rewrite assert_exists): a file operand that does not exist ends the run with a panic message
// (exit status 101) — before anything of it is read
#[verifier::external_body]
pub fn require_exists(file: &PathBuf) { unimplemented!() }
#[verifier::external_body]
pub fn is_dir(file: &PathBuf) -> (r: bool) { unimplemented!() }
#[verifier::external_body] pub struct VDirEntry { _p: () }
impl VDirEntry {
    pub uninterp spec fn path_spec(&self) -> PathBuf;
    #[verifier::external_body]
    pub fn path(&self) -> (r: PathBuf) ensures r == self.path_spec() { unimplemented!() }
}
// std::fs::read_dir: the entries of the directory in the order the OS lists them (each one may fail to be read)
#[verifier::external_body] pub struct VReadDir { _p: () }
impl Iterator for VReadDir {
    type Item = std::io::Result<VDirEntry>;
    #[verifier::external_body]
    fn next(&mut self) -> Option<std::io::Result<VDirEntry>> { unimplemented!() }
}
impl vstd::std_specs::iter::IteratorSpecImpl for VReadDir {
    open spec fn obeys_prophetic_iter_laws(&self) -> bool { true }
    #[verifier::prophetic]
    uninterp spec fn remaining(&self) -> Seq<std::io::Result<VDirEntry>>;
    #[verifier::prophetic]
    open spec fn will_return_none(&self) -> bool { true }
    uninterp spec fn decrease(&self) -> Option<nat>;
    uninterp spec fn peek(&self, i: int) -> Option<std::io::Result<VDirEntry>>;
}
pub open spec fn entry_paths(s: Seq<std::io::Result<VDirEntry>>) -> Seq<PathBuf> {
    Seq::new(s.len(), |i: int| match s[i] { Ok(e) => e.path_spec(), Err(_) => arbitrary() })
}
#[verifier::external_body]
pub fn read_dir(file: &PathBuf) -> (r: std::io::Result<VReadDir>)
    ensures r is Ok ==> r->Ok_0.decrease() is Some && paths_bytes(entry_paths(r->Ok_0.remaining()), 0) <= path_bytes(*file),
{ unimplemented!() }
}
use vfs::*;
//@@ include prelude/fed.rs

// what an option text parses to (the expression parser is C13/C18's subject; here it only has to be a FUNCTION of the text)
pub uninterp spec fn getter_of(text: Seq<char>) -> Rc<dyn Get>;
pub uninterp spec fn select_name_of(text: Seq<char>) -> String;
pub uninterp spec fn sort_asc_of(text: Seq<char>) -> bool;

// ---- the stage configurations, opaque here; their constructors carry the contracts unit STAGE proves (same spec files)
#[verifier::external_body] pub struct Grouper { _p: () }
#[verifier::external_body] pub struct Sorter { _p: () }
#[verifier::external_body] pub struct Selection { _p: () }
#[verifier::external_body] pub struct Filter { _p: () }
#[verifier::external_body] pub struct Splitter { _p: () }
pub struct Merger { _p: () }
pub struct Limiter { _p: () }
pub struct Uniquness { _p: () }

impl Grouper {
    pub uninterp spec fn g(&self) -> Rc<dyn Get>;
//@@ fn go.grouper.create_process = src/grouper.rs :: impl Grouper :: fn create_process
//@@ ret r
//@@ assume
//@@ header-from specs/stage/grouper.create_process.spec
//@@ endfn
}
impl FromStr for Grouper {
    type Err = SelectionParseError;
    #[verifier::external_body]
    fn from_str(s: &str) -> (r: std::result::Result<Self, SelectionParseError>) ensures r is Ok ==> r->Ok_0.g() == getter_of(s@) { unimplemented!() }
}
impl Sorter {
    pub uninterp spec fn g(&self) -> Rc<dyn Get>;
    pub uninterp spec fn asc(&self) -> bool;
//@@ fn go.sorter.create_processor = src/sorters.rs :: impl Sorter :: fn create_processor
//@@ ret r
//@@ assume
//@@ header-from specs/stage/sorter.create_processor.spec
//@@ endfn
}
impl FromStr for Sorter {
    type Err = SorterParserError;
    #[verifier::external_body]
    fn from_str(s: &str) -> (r: std::result::Result<Self, SorterParserError>) ensures r is Ok ==> r->Ok_0.g() == getter_of(s@) && r->Ok_0.asc() == sort_asc_of(s@) { unimplemented!() }
}
impl Selection {
    pub uninterp spec fn g(&self) -> Rc<dyn Get>;
    pub uninterp spec fn title(&self) -> String;
//@@ fn go.selection.create_process = src/selection.rs :: impl Selection :: fn create_process
//@@ ret r
//@@ assume
//@@ header-from specs/stage/selection.create_process.spec
//@@ endfn
}
impl FromStr for Selection {
    type Err = SelectionParseError;
    #[verifier::external_body]
    fn from_str(s: &str) -> (r: std::result::Result<Self, SelectionParseError>) ensures r is Ok ==> r->Ok_0.g() == getter_of(s@) && r->Ok_0.title() == select_name_of(s@) { unimplemented!() }
}
impl Filter {
    pub uninterp spec fn g(&self) -> Rc<dyn Get>;
//@@ fn go.filter.create_process = src/filter.rs :: impl Filter :: fn create_process
//@@ ret r
//@@ assume
//@@ header-from specs/stage/filter.create_process.spec
//@@ endfn
}
impl FromStr for Filter {
    type Err = SelectionParseError;
    #[verifier::external_body]
    fn from_str(s: &str) -> (r: std::result::Result<Self, SelectionParseError>) ensures r is Ok ==> r->Ok_0.g() == getter_of(s@) { unimplemented!() }
}
impl Splitter {
    pub uninterp spec fn g(&self) -> Rc<dyn Get>;
//@@ fn go.splitter.create_process = src/splitter.rs :: impl Splitter :: fn create_process
//@@ ret r
//@@ assume
//@@ header-from specs/stage/splitter.create_process.spec
//@@ endfn
}
impl FromStr for Splitter {
    type Err = SelectionParseError;
    #[verifier::external_body]
    fn from_str(s: &str) -> (r: std::result::Result<Self, SelectionParseError>) ensures r is Ok ==> r->Ok_0.g() == getter_of(s@) { unimplemented!() }
}
impl Merger {
//@@ fn go.merger.create_process = src/merger.rs :: impl Merger :: fn create_process
//@@ ret r
//@@ assume
//@@ header-from specs/stage/merger.create_process.spec
//@@ endfn
}
impl Limiter {
//@@ fn go.limiter.create_process = src/limits.rs :: impl Limiter :: fn create_process
//@@ ret r
//@@ assume
//@@ header-from specs/stage/limiter.create_process.spec
//@@ endfn
}
impl Uniquness {
//@@ fn go.uniq.create_process = src/duplication_remover.rs :: impl Uniquness :: fn create_process
//@@ ret r
//@@ assume
//@@ header-from specs/stage/uniq.create_process.spec
//@@ endfn
}

// --set: ASSUMED here, proved in unit STAGE (same contract text: prelude/preset_trait.rs)
pub mod ps {
use super::*;
use std::result::Result;
//@@ include prelude/preset_trait.rs
}
use ps::*;
impl PreSetCollection for Vec<String> {
    open spec fn texts(&self) -> Seq<String> { self@ }
    #[verifier::external_body]
    fn create_process(&self, next: Box<dyn Process>) -> (r: std::result::Result<Box<dyn Process>, PreSetParserError>) { unimplemented!() }
}

// --output-style: ASSUMED here, proved in unit PRINT: the printer is an eager sink
#[verifier::external_body] pub struct OutputOptions { _p: () }
impl OutputOptions {
    #[verifier::external_body]
    pub fn get_processor(&self, writer: vio::Out) -> (r: std::result::Result<Box<dyn Process>, OutputStyleValidationError>)
        // C20 / C06: rows are written to the designated output stream only — the printer (the only stage that writes: unit PRINT)
        // must be created on it. A precondition of the callee, i.e. an obligation of go()'s call site.
        requires writer.fd() == 1, // @obl GO.rows_to_stdout : C20 C06
        ensures r is Ok ==> r->Ok_0.inv() && r->Ok_0.eager() && !r->Ok_0.must_break(),
    { unimplemented!() }
}
#[verifier::external_body] pub struct RegexCacheX { _p: () }

//@@ item src/lib.rs :: enum OnError
//@@ enditem
//@@ item src/lib.rs :: struct Cli
//@@ enditem
//@@ item src/lib.rs :: struct Master
//@@ rewrite dyn_write stdin_factory
#[verifier::reject_recursive_types(R)]
//@@ enditem

// ---- the documented pipeline as a pure function of the options (DESIGN §4.3 / C03): applied to the rows that reach it
pub open spec fn sort_spec(text: Seq<char>, cap: Option<nat>, rows: Seq<Context>) -> Seq<Context> {
    emit(sort_asc_of(text), sort_all(getter_of(text), sort_asc_of(text), Seq::empty(), cap, rows))
}
// repeated --sort-by: the LAST given runs first (minor key), the FIRST given runs last (major key);
// only the first given (the one feeding the limiter) may use the top-N capacity
pub open spec fn sorters_spec(texts: Seq<String>, cap: Option<nat>, rows: Seq<Context>) -> Seq<Context>
    decreases texts.len()
{
    if texts.len() == 0 { rows } else {
        sorters_spec(texts.drop_last(), cap, sort_spec(texts.last()@, if texts.len() == 1 { cap } else { None }, rows))
    }
}
// repeated --select: applied in the order given
pub open spec fn selects_spec(texts: Seq<String>, rows: Seq<Context>) -> Seq<Context>
    decreases texts.len()
{
    if texts.len() == 0 { rows } else { selects_spec(tail_s(texts), select_rows(getter_of(texts[0]@), select_name_of(texts[0]@), rows)) }
}
pub open spec fn tail_s(t: Seq<String>) -> Seq<String> { t.subrange(1, t.len() as int) }
pub open spec fn opt_filter(t: Option<String>, rows: Seq<Context>) -> Seq<Context> { match t { Some(s) => filter_rows(getter_of(s@), rows), None => rows } }
pub open spec fn opt_split(t: Option<String>, rows: Seq<Context>) -> Seq<Context> { match t { Some(s) => split_rows(getter_of(s@), rows), None => rows } }
pub open spec fn opt_unique(u: bool, rows: Seq<Context>) -> Seq<Context> { if u { uniq_rows(Set::empty(), rows) } else { rows } }
pub open spec fn opt_group(g: Option<Option<String>>, rows: Seq<Context>) -> Seq<Context> {
    match g { Some(Some(s)) => seq![grouped_row(getter_of(s@), Seq::empty(), rows)], Some(None) => seq![merged_row(Seq::empty(), rows)], None => rows }
}
// the selection names in the order given: what reaches the printer as titles (behind whatever came before them)
pub open spec fn names_of(texts: Seq<String>) -> Seq<String> { Seq::new(texts.len(), |i: int| select_name_of(texts[i]@)) }
pub open spec fn take_of(t: Option<u64>) -> Option<nat> { match t { Some(l) => Some(l as nat), None => None } }
pub open spec fn cap_spec(skip: u64, take: Option<u64>) -> Option<nat> { match take { Some(t) => Some((skip + t) as nat), None => None } }

// r is the documented composition in front of the eager printer p
pub open spec fn is_pipeline_of(r: Box<dyn Process>, p: Box<dyn Process>, cli: Cli, v: Map<String, JsonValue>, m: Map<String, Rc<dyn Get>>) -> bool {
    &&& p.eager() && p.log() == r.log() && forall|rows: Seq<Context>| #[trigger] r.fut(rows) == p.fut(cli.pipeline(cli.no_set(), v, m, rows))
    // ... and it stays that composition when it is started: the printer is started with the selection names (none behind --group-by / --merge)
    &&& forall|t: Seq<String>, rows: Seq<Context>| #[trigger] r.sfut(t, rows) == p.sfut(cli.titles(t), cli.pipeline(cli.no_set(), v, m, rows))
}
impl<S: Read> Master<S> {
    pub closed spec fn cli_spec(&self) -> &Cli { &self.cli }
    // the handles the run was given: `stdout` is the designated output stream, `stderr` the designated diagnostics stream
    pub closed spec fn wired(&self) -> bool { self.stdout.fd() == 1 && self.stderr.fd() == 2 }
    pub closed spec fn out_h(&self) -> vio::Out { self.stdout }
    pub closed spec fn files_spec(&self) -> Seq<PathBuf> { self.cli.files@ }
    pub closed spec fn err_h(&self) -> vio::Out { self.stderr }
}
impl RegexCache {
    #[verifier::external_body]
    pub fn new(size: usize) -> (r: Self) { unimplemented!() }
}
impl Cli {
    // split -> filter -> select -> unique -> sort -> skip/take -> group|merge, after --set
    pub closed spec fn pipeline(&self, none_set: bool, v: Map<String, JsonValue>, m: Map<String, Rc<dyn Get>>, rows: Seq<Context>) -> Seq<Context> {
        opt_group(self.group_by,
            window(self.skip as nat, take_of(self.take),
                sorters_spec(self.sort_by@, cap_spec(self.skip, self.take),
                    opt_unique(self.unique,
                        selects_spec(self.choose@,
                            opt_filter(self.filter,
                                opt_split(self.break_by,
                                    presets(none_set, v, m, rows))))))))
    }
    pub closed spec fn no_set(&self) -> bool { self.set@.len() == 0 }
    pub closed spec fn titles(&self, t: Seq<String>) -> Seq<String> { if self.group_by is Some { Seq::empty() } else { t.add(names_of(self.choose@)) } }
    pub closed spec fn no_overflow(&self) -> bool { self.take matches Some(t) ==> self.skip + t <= u64::MAX }
}

//@@ include lemmas/pipeline_theory.rs
//@@ include lemmas/sort_theory.rs

// what Process::start guarantees about the started chain `s` of an assembled chain `q`
pub open spec fn started_from(q: Box<dyn Process>, s: Box<dyn Process>) -> bool {
    s.inv() && is_prefix(q.log(), s.log()) && (q.eager() ==> s.eager()) && s.must_break() == q.must_break()
    // the started chain computes what the assembled chain promised for an empty list of titles (Process::start, clause start.fut)
    && forall|rows: Seq<Context>| #[trigger] s.fut(rows) == q.sfut(Seq::empty(), rows)
}
impl<S: Read> Master<S> {
//@@ slice go.assemble = src/lib.rs :: impl<S: Read> Master<S> :: fn go
//@@ safety C03 C07 C08 C09 C18 C14
//@@ from "let mut process = self.cli.output_options.get_processor(self.stdout.clone())?;"
//@@ to "process.start(Titles::default())?;"
//@@ must-precede "let mut index = 0;"
//@@ must-contain "process = self.cli.set.create_process(process)?;"
//@@ must-contain "let selection = Selection::from_str(selection)?;"
//@@ must-contain "let sorter = Sorter::from_str(sorter)?;"
//@@ must-contain "let group_by = Grouper::from_str(group_by)?;"
//@@ must-contain "let filter = Filter::from_str(filter)?;"
//@@ must-contain "let splitter = Splitter::from_str(splitter)?;"
//@@ prologue
    pub fn go_assemble(&self) -> (r: Result<Box<dyn Process>>)
        requires self.cli_spec().no_overflow(), self.wired(),
        ensures
            r is Ok ==> r->Ok_0.inv(), // @obl GO.inv : C03
            // the chain handed to the read loop is the STARTED documented composition, whatever the order of options: the slice
            // can only end well by assembling every stage and then calling start on exactly that chain (C18: no way past start)
            r is Ok ==> exists|q: Box<dyn Process>, p: Box<dyn Process>, v: Map<String, JsonValue>, m: Map<String, Rc<dyn Get>>|
                #[trigger] is_pipeline_of(q, p, *self.cli_spec(), v, m) && started_from(q, r->Ok_0), // @obl GO.order : C03 C07 C08 C09 C18
    {
//@@ epilogue
        proof { assert(is_pipeline_of(assembled, p0, *self.cli_spec(), gv, gm) && started_from(assembled, process)); }
        let r: Result<Box<dyn Process>> = Ok(process);
        proof { assert(r->Ok_0 == process); }
        r
    }
//@@ insert-after "self.cli.take.map(|take"
 : u64
//@@ insert-after "self.cli.take.map(|take|"
 -> (r: usize)
                requires self.cli.skip + take <= u64::MAX,
                ensures r == (self.cli.skip + take) as usize,
            {
//@@ insert-after "(self.cli.skip + take) as usize"
            }
//@@ after "let mut process = self.cli.output_options.get_processor(self.stdout.clone())?;"
        let ghost p0 = process;
        let ghost cli = self.cli;
//@@ before "process = Limiter::create_process(self.cli.skip, self.cli.take, process);"
        let ghost grp = process;
        proof {
            assert forall|rows: Seq<Context>| #[trigger] grp.fut(rows) == p0.fut(opt_group(cli.group_by, rows)) by {}
            assert forall|t: Seq<String>, rows: Seq<Context>| #[trigger] grp.sfut(t, rows) == p0.sfut(if cli.group_by is Some { Seq::empty() } else { t }, opt_group(cli.group_by, rows)) by {}
        }
//@@ after "process = Limiter::create_process(self.cli.skip, self.cli.take, process);"
        let ghost lim = process;
        proof {
            assert forall|rows: Seq<Context>| #[trigger] lim.fut(rows) == p0.fut(opt_group(cli.group_by, window(cli.skip as nat, take_of(cli.take), rows))) by {}
            assert forall|t: Seq<String>, rows: Seq<Context>| #[trigger] lim.sfut(t, rows) == grp.sfut(t, window(cli.skip as nat, take_of(cli.take), rows)) by {}
        }
//@@ loop 1 iter it
            invariant
                process.inv(), process.log() == p0.log(), self.cli == cli, cli.no_overflow(),
                // only the first --sort-by (the sorter that feeds the limiter) gets the top-N capacity
                cap_of(max_size) == (if it.index@ == 0 { cap_spec(cli.skip, cli.take) } else { None }),
                0 <= it.index@ <= cli.sort_by@.len(), it.seq().len() == cli.sort_by@.len(),
                forall|j: int| 0 <= j < it.seq().len() ==> *(#[trigger] it.seq()[j]) == cli.sort_by@[j],
                forall|rows: Seq<Context>| #[trigger] process.fut(rows) == lim.fut(sorters_spec(cli.sort_by@.subrange(0, it.index@), cap_spec(cli.skip, cli.take), rows)),
                forall|t: Seq<String>, rows: Seq<Context>| #[trigger] process.sfut(t, rows) == lim.sfut(t, sorters_spec(cli.sort_by@.subrange(0, it.index@), cap_spec(cli.skip, cli.take), rows)),
//@@ before "let sorter = Sorter::from_str(sorter)?;"
            let ghost prev = process;
            proof {
                let t = cli.sort_by@.subrange(0, it.index@ + 1);
                assert(t.drop_last() =~= cli.sort_by@.subrange(0, it.index@));
                assert(t.last() == cli.sort_by@[it.index@]);
            }
//@@ after-loop 1
        let ghost srt = process;
        proof { assert(cli.sort_by@.subrange(0, cli.sort_by@.len() as int) =~= cli.sort_by@); }
//@@ before "for selection in self.cli.choose.iter().rev() {"
        let ghost unq = process;
        proof {
            assert forall|rows: Seq<Context>| #[trigger] unq.fut(rows) == srt.fut(opt_unique(cli.unique, rows)) by {}
            assert forall|t: Seq<String>, rows: Seq<Context>| #[trigger] unq.sfut(t, rows) == srt.sfut(t, opt_unique(cli.unique, rows)) by {}
        }
//@@ loop 2 iter it
            invariant
                process.inv(), process.log() == p0.log(), self.cli == cli,
                0 <= it.index@ <= cli.choose@.len(), it.seq().len() == cli.choose@.len(),
                forall|j: int| 0 <= j < it.seq().len() ==> *(#[trigger] it.seq()[j]) == cli.choose@[cli.choose@.len() - 1 - j],
                // selections n-i .. n-1 are in place (built back to front)
                forall|rows: Seq<Context>| #[trigger] process.fut(rows) == unq.fut(selects_spec(cli.choose@.subrange(cli.choose@.len() - it.index@, cli.choose@.len() as int), rows)),
                forall|t: Seq<String>, rows: Seq<Context>| #[trigger] process.sfut(t, rows) == unq.sfut(t.add(names_of(cli.choose@.subrange(cli.choose@.len() - it.index@, cli.choose@.len() as int))), selects_spec(cli.choose@.subrange(cli.choose@.len() - it.index@, cli.choose@.len() as int), rows)),
//@@ before "let selection = Selection::from_str(selection)?;"
            proof {
                let n = cli.choose@.len() as int;
                let t = cli.choose@.subrange(n - it.index@ - 1, n);
                assert(tail_s(t) =~= cli.choose@.subrange(n - it.index@, n));
                assert(t[0] == cli.choose@[n - 1 - it.index@]);
                assert forall|tt: Seq<String>| tt.push(select_name_of(t[0]@)).add(names_of(tail_s(t))) =~= #[trigger] tt.add(names_of(t)) by {}
            }
//@@ after-loop 2
        let ghost sel = process;
        proof { assert(cli.choose@.subrange(0, cli.choose@.len() as int) =~= cli.choose@); }
//@@ before "process = self.cli.set.create_process(process)?;"
        let ghost spl = process;
        proof {
            assert forall|rows: Seq<Context>| #[trigger] spl.fut(rows) == sel.fut(opt_filter(cli.filter, opt_split(cli.break_by, rows))) by {}
            assert forall|t: Seq<String>, rows: Seq<Context>| #[trigger] spl.sfut(t, rows) == sel.sfut(t, opt_filter(cli.filter, opt_split(cli.break_by, rows))) by {}
        }
//@@ after "process = self.cli.set.create_process(process)?;"
        proof {
            let none = cli.set@.len() == 0;
            let v = vars_upto(cli.set@, cli.set@.len() as int); let m = macros_upto(cli.set@, cli.set@.len() as int);
            assert(is_preset_of(process, spl, none, v, m));
            assert forall|rows: Seq<Context>| #[trigger] process.fut(rows) == p0.fut(cli.pipeline(cli.no_set(), v, m, rows)) by {
                let r1 = presets(none, v, m, rows);
                assert(process.fut(rows) == spl.fut(r1));
            }
            assert forall|t: Seq<String>, rows: Seq<Context>| #[trigger] process.sfut(t, rows) == p0.sfut(cli.titles(t), cli.pipeline(cli.no_set(), v, m, rows)) by {
                let r1 = presets(none, v, m, rows);
                assert(process.sfut(t, rows) == spl.sfut(t, r1));
            }
            assert(is_pipeline_of(process, p0, cli, v, m));
        }
        let ghost assembled = process;
        let ghost gv = vars_upto(cli.set@, cli.set@.len() as int);
        let ghost gm = macros_upto(cli.set@, cli.set@.len() as int);
//@@ endslice

//@@ fn go.read_input = src/lib.rs :: impl<S: Read> Master<S> :: fn read_input
//@@ ret r
//@@ assume
//@@ header-from specs/loop/read_input_reduced.spec
//@@ endfn
//@@ fn go.read_file = src/lib.rs :: impl<S: Read> Master<S> :: fn read_file
//@@ safety C03 C14 C16 C17 C20 C05
//@@ ret r
//@@ rewrite assert_exists path_is_dir fs_read_dir
//@@ attr
    #[verifier::exec_allows_no_decreases_clause]
//@@ header
        requires old(process).inv(), self.wired(),
            // "the input files hold fewer than 2^64 bytes" (positions and value counters are machine integers)
            *old(index) + path_bytes(*file) + 2 <= usize::MAX,
        ensures
            final(process).inv(), // @obl GO.read_file.inv : C03
            is_prefix(old(process).log(), final(process).log()), // @obl GO.read_file.prefix : C16 C20
            // a file, or every file below a directory, is read through read_input: the pipeline is fed rows in order and nothing
            // else happens to it; a failure of any of them is this call's failure
            r is Ok ==> exists|fed: Seq<Context>| #[trigger] fed_post(old(process), final(process), fed), // @obl GO.read_file.fed : C03 C17 C16 C20
            // Break is passed on — from every depth of a directory tree — and only then
            r is Ok && r->Ok_0 is Break ==> done(final(process)), // @obl GO.read_file.break : C14
            r is Ok && r->Ok_0 is Continue && !old(process).must_break() ==> !final(process).must_break(), // @obl GO.read_file.continue : C14
            r is Ok ==> *final(index) <= *old(index) + path_bytes(*file),
//@@ body-start
        let ghost p0: &dyn Process = &*process;
        let ghost i0 = *index;
        broadcast use vfs::axiom_file_bytes;
//@@ before-loop 1
            proof {
                assert forall|x: Seq<Context>| Seq::<Context>::empty().add(x) =~= x by {}
                assert(fed_post(old(process), process, Seq::empty()));
            }
//@@ loop 1 iter it
                invariant
                    process.inv(), self.wired(), is_prefix(old(process).log(), process.log()), i0 == *old(index),
                    exists|fed: Seq<Context>| #[trigger] fed_post(old(process), process, fed),
                    *index + paths_bytes(entry_paths(it.seq()), it.index@) <= i0 + path_bytes(*file),
                    i0 + path_bytes(*file) + 2 <= usize::MAX,
                    old(process).must_break() || !process.must_break(),
//@@ loop-start 1
                let ghost pre: &dyn Process = &*process;
                let ghost fed1 = choose|fed: Seq<Context>| fed_post(old(process), pre, fed);
                let ghost k = it.index@;
                proof { assert(paths_bytes(entry_paths(it.seq()), k) == path_bytes(entry_paths(it.seq())[k]) + paths_bytes(entry_paths(it.seq()), k + 1)); }
//@@ after "let path = entry?.path();"
                proof { assert(entry_paths(it.seq())[k] == path); }
//@@ before "return Ok(ProcessDesision::Break);"
                    proof {
                        let f2 = choose|f2: Seq<Context>| fed_post(pre, &*process, f2);
                        lemma_fed_trans(old(process), pre, &*process, fed1, f2);
                    }
//@@ loop-end 1
                proof {
                    let f2 = choose|f2: Seq<Context>| fed_post(pre, &*process, f2);
                    lemma_fed_trans(old(process), pre, &*process, fed1, f2);
                }
//@@ endfn

// ---- the DRIVER half of go(): read everything (stdin, or the files in order, stopping at Break), then complete().
// The synthetic tail returns the chain, so `return Ok(())` inside the slice does not type-check: the slice can only end well
// through complete(), and then the output is what the started chain prints for exactly the rows that were fed.
//@@ slice go.drive = src/lib.rs :: impl<S: Read> Master<S> :: fn go
//@@ safety C03 C08 C09 C14 C16 C01 C20
//@@ rewrite box_as_mut stdin_call
//@@ from-after "process.start(Titles::default())?;"
//@@ to "process.complete()?;"
//@@ prologue
    pub fn go_drive(&self, started: Box<dyn Process>) -> (r: Result<Box<dyn Process>>)
        requires started.inv(), self.wired(),
            // "the input files hold fewer than 2^64 bytes"
            paths_bytes(self.files_spec(), 0) + 2 <= usize::MAX,
            // "the standard input is shorter than 2^64 bytes" (line / column / value counters are machine integers)
            forall|s: S| #[trigger] source(s).len() + 1 < usize::MAX,
        ensures
            // end of input is always delivered: the final output is the started chain's output for the rows fed, complete() included
            r is Ok ==> exists|fed: Seq<Context>| r->Ok_0.log() == started.log().add(#[trigger] started.fut(fed)), // @obl GO.drive.completes : C03 C08 C09 C01
            r is Ok ==> r->Ok_0.inv(), // @obl GO.drive.inv : C03
    {
        let mut process = started;
        broadcast use vfs::axiom_cloned_pathbuf;
        let ghost mut fed: Seq<Context> = Seq::empty();
        proof { assert forall|x: Seq<Context>| #[trigger] fed.add(x) =~= x by {} }
//@@ epilogue
        proof { assert(fed.add(Seq::<Context>::empty()) =~= fed); }
        let r: Result<Box<dyn Process>> = Ok(process);
        proof { assert(r->Ok_0.log() == started.log().add(started.fut(fed))); }
        r
    }
//@@ before "self.read_input(&mut reader"
            let ghost pre = process;
//@@ after "self.read_input(&mut reader"
            proof {
                let f2 = choose|f2: Seq<Context>| fed_post(&*pre, &*process, f2);
                lemma_fed_trans(&*started, &*pre, &*process, fed, f2);
                fed = fed.add(f2);
            }
//@@ loop 1 iter it
                invariant process.inv(), fed_box(started, process, fed), self.wired(),
                    it.seq() =~= self.cli.files@, index + paths_bytes(it.seq(), it.index@) + 2 <= usize::MAX,
//@@ loop-start 1
                let ghost pre = process;
                proof { assert(paths_bytes(it.seq(), it.index@) == path_bytes(it.seq()[it.index@]) + paths_bytes(it.seq(), it.index@ + 1)); }
//@@ before "break;"
                    proof {
                        let f2 = choose|f2: Seq<Context>| fed_post(&*pre, &*process, f2);
                        lemma_fed_trans(&*started, &*pre, &*process, fed, f2);
                        fed = fed.add(f2);
                    }
//@@ loop-end 1
                proof {
                    let f2 = choose|f2: Seq<Context>| fed_post(&*pre, &*process, f2);
                    lemma_fed_trans(&*started, &*pre, &*process, fed, f2);
                    fed = fed.add(f2);
                }
//@@ before "process.complete()?;"
        let ghost last = process;
        proof { assert(fed_box(started, last, fed)); }
//@@ endslice
}


// ---- the entry point jawk::go and Master::new: the handles go() is given become the fields the slices above use
impl<S: Read> Master<S> {
//@@ fn go.master_new = src/lib.rs :: impl<S: Read> Master<S> :: fn new
//@@ safety C20 C06
//@@ ret r
//@@ rewrite dyn_write stdin_factory
//@@ header
        ensures r.out_h() == stdout && r.err_h() == stderr && *r.cli_spec() == cli, // @obl GO.new.fields : C20 C06
//@@ endfn
    // Master::go as a whole: the two verified slices above + the help branch; here only its precondition matters
    #[verifier::external_body]
    pub fn go(&self) -> (r: Result<()>)
        requires self.wired(), // @obl GO.entry.wired : C20 C06
    { unimplemented!() }
}
//@@ fn go.entry = src/lib.rs :: fn go
//@@ safety C20 C06
//@@ ret r
//@@ rewrite dyn_write stdin_factory
//@@ header
    // what the executable establishes at its call site (unit MAIN): stdout is the output stream, stderr the diagnostics stream
    requires stdout.fd() == 1, stderr.fd() == 2,
//@@ endfn

} // verus!
fn main() {}
