#![feature(allocator_api)]
// Unit TIME: the time functions (src/functions/time): which arguments they read, when they give nothing, and which chrono /
// IEEE operation they apply to which operands (shape of the computation: chrono and the float casts are uninterpreted
// functions of their operands). C04 (documented value), C05 (an invalid format gives nothing, no panic), C11 (the value
// depends on the arguments of THIS call only).
use vstd::prelude::*;
use std::rc::Rc;
use vstd::std_specs::iter::IteratorSpec;
use vstd::std_specs::ops::*;
use vstd::std_specs::cmp::*;

verus! {

pub mod jt {
use vstd::prelude::*;
use std::rc::Rc;
use vstd::std_specs::iter::IteratorSpec;
//@@ include prelude/indexmap.rs
//@@ include prelude/json_types.rs
//@@ include prelude/clone_specs.rs
}
use jt::*;
pub mod cl {
use vstd::prelude::*;
use std::rc::Rc;
use super::jt::*;
//@@ include prelude/clone_axioms.rs
}
//@@ include prelude/fnargs.rs

pub mod fl {
use vstd::prelude::*;
use vstd::std_specs::ops::*;
pub broadcast axiom fn ax_sub(a: f64, b: f64) ensures #[trigger] a.sub_req(b);
pub broadcast axiom fn ax_mul(a: f64, b: f64) ensures #[trigger] a.mul_req(b);
pub broadcast axiom fn ax_div(a: f64, b: f64) ensures #[trigger] a.div_req(b);
pub broadcast group group_f64 { ax_sub, ax_mul, ax_div }
pub axiom fn ax_f64_functions() ensures
    <f64 as SubSpec<f64>>::obeys_sub_spec(), <f64 as MulSpec<f64>>::obeys_mul_spec(), <f64 as DivSpec<f64>>::obeys_div_spec();
}
use fl::*;

// the double a JSON number denotes (From<NumberValue> for f64: assumed, as in unit NUM)
pub uninterp spec fn f_of(n: NumberValue) -> f64;
impl vstd::std_specs::convert::FromSpecImpl<NumberValue> for f64 {
    open spec fn obeys_from_spec() -> bool { true }
    open spec fn from_spec(v: NumberValue) -> Self { f_of(v) }
}
impl From<NumberValue> for f64 { #[verifier::external_body] fn from(v: NumberValue) -> Self { unimplemented!() } }
// ---- chrono and the float casts: stand-ins with assumed contracts (deterministic functions of their operands) ----
pub mod vtm {
use vstd::prelude::*;
// `x as i64`, `x as u32` on a double and `n as f64` on an integer: the verifier leaves the result of a float cast unspecified,
// so they are named functions here (rewrite float_casts)
pub uninterp spec fn f2i(x: f64) -> i64;
pub uninterp spec fn f2u(x: f64) -> u32;
pub uninterp spec fn i2f(n: i64) -> f64;
#[verifier::external_body] pub fn f64_as_i64(x: f64) -> (r: i64) ensures r == f2i(x) { unimplemented!() }
#[verifier::external_body] pub fn f64_as_u32(x: f64) -> (r: u32) ensures r == f2u(x) { unimplemented!() }
#[verifier::external_body] pub fn i64_as_f64(n: i64) -> (r: f64) ensures r == i2f(n) { unimplemented!() }
#[verifier::external_body] pub struct DateTime { _p: () }
#[verifier::external_body] pub struct LocalResult { _p: () }
pub struct Utc;
// chrono: Utc.timestamp_opt(secs, nsecs).single() is the instant, or nothing when out of range
pub uninterp spec fn ts_of(secs: i64, nsecs: u32) -> Option<DateTime>;
impl LocalResult {
    pub uninterp spec fn one(&self) -> Option<DateTime>;
    #[verifier::external_body] pub fn single(self) -> (r: Option<DateTime>) ensures r == self.one() { unimplemented!() }
}
impl Utc {
    #[verifier::external_body] pub fn timestamp_opt(&self, secs: i64, nsecs: u32) -> (r: LocalResult) ensures r.one() == ts_of(secs, nsecs) { unimplemented!() }
}
// chrono: the text of an instant in a strftime format; nothing for a format string chrono does not accept (writing the
// DelayedFormat then fails — it must not be unwrapped: C05)
pub uninterp spec fn fmt_text(dt: DateTime, format: Seq<char>) -> Option<Seq<char>>;
#[verifier::external_body]
pub fn write_formatted(text: &mut String, dt: &DateTime, format: &String) -> (ok: bool)
    requires old(text)@.len() == 0,
    ensures ok <==> fmt_text(*dt, format@) is Some, ok ==> final(text)@ == fmt_text(*dt, format@)->0,
{ unimplemented!() }
// chrono: parsing a text with a strftime format (naive: no zone; zoned: with an offset), and the signed distance of two
// instants in whole microseconds (nothing when it does not fit 64 bits)
#[verifier::external_body] pub struct NaiveDateTime { _p: () }
#[verifier::external_body] pub struct ParseError { _p: () }
#[verifier::external_body] pub struct TimeDelta { _p: () }
pub uninterp spec fn naive_parse(s: Seq<char>, f: Seq<char>) -> Option<NaiveDateTime>;
pub uninterp spec fn zoned_parse(s: Seq<char>, f: Seq<char>) -> Option<DateTime>;
pub uninterp spec fn naive_epoch() -> NaiveDateTime;
pub uninterp spec fn zoned_epoch() -> DateTime;
pub uninterp spec fn naive_micros(a: NaiveDateTime, b: NaiveDateTime) -> Option<i64>;
pub uninterp spec fn zoned_micros(a: DateTime, b: DateTime) -> Option<i64>;
impl TimeDelta {
    pub uninterp spec fn micros(&self) -> Option<i64>;
    #[verifier::external_body] pub fn num_microseconds(&self) -> (r: Option<i64>) ensures r == self.micros() { unimplemented!() }
}
impl NaiveDateTime {
    #[verifier::external_body] pub fn parse_from_str(s: &String, f: &String) -> (r: Result<NaiveDateTime, ParseError>)
        ensures r is Ok <==> naive_parse(s@, f@) is Some, r is Ok ==> Some(r->Ok_0) == naive_parse(s@, f@) { unimplemented!() }
    #[verifier::external_body] pub fn unix_epoch() -> (r: NaiveDateTime) ensures r == naive_epoch() { unimplemented!() }
    #[verifier::external_body] pub fn signed_duration_since(self, o: NaiveDateTime) -> (r: TimeDelta) ensures r.micros() == naive_micros(self, o) { unimplemented!() }
}
impl DateTime {
    #[verifier::external_body] pub fn parse_from_str(s: &String, f: &String) -> (r: Result<DateTime, ParseError>)
        ensures r is Ok <==> zoned_parse(s@, f@) is Some, r is Ok ==> Some(r->Ok_0) == zoned_parse(s@, f@) { unimplemented!() }
    #[verifier::external_body] pub fn unix_epoch() -> (r: DateTime) ensures r == zoned_epoch() { unimplemented!() }
    #[verifier::external_body] pub fn signed_duration_since(self, o: DateTime) -> (r: TimeDelta) ensures r.micros() == zoned_micros(self, o) { unimplemented!() }
}
}
use vtm::*;
// the JSON value of a double result: From<f64> for JsonValue (Kani v1_*: integral values become integers)
pub uninterp spec fn jv_of_f(x: f64) -> JsonValue;
impl vstd::std_specs::convert::FromSpecImpl<f64> for JsonValue {
    open spec fn obeys_from_spec() -> bool { true }
    open spec fn from_spec(v: f64) -> Self { jv_of_f(v) }
}
impl From<f64> for JsonValue { #[verifier::external_body] fn from(v: f64) -> Self { unimplemented!() } }
pub open spec fn secs_of_micros(ms: i64) -> JsonValue { jv_of_f(i2f(ms).div_spec(1_000_000.0f64)) }
pub uninterp spec fn str_of(s: Seq<char>) -> String;
pub broadcast axiom fn axiom_str_of(s: Seq<char>) ensures (#[trigger] str_of(s))@ == s;

pub mod f_format_time {
use super::*;
broadcast use {fl::group_f64, cl::axiom_string_ext, axiom_str_of};
//@@ item src/functions/time/format_time.rs :: fn get :: struct Impl
//@@ rewrite pub_tuple pub_struct
//@@ enditem
pub open spec fn whole(t: f64) -> i64 { f2i(t) }
pub open spec fn nanos(t: f64) -> u32 { f2u(t.sub_spec(i2f(f2i(t))).mul_spec(1e9f64)) }
impl Get for Impl {
    open spec fn get_spec(&self, value: &Context) -> Option<JsonValue> {
        match arg(self.0@, value, 0) {
            Some(JsonValue::Number(n)) => match ts_of(whole(f_of(n)), nanos(f_of(n))) {
                Some(dt) => match arg(self.0@, value, 1) {
                    Some(JsonValue::String(format)) => match fmt_text(dt, format@) { Some(t) => Some(JsonValue::String(str_of(t))), None => None },
                    _ => None,
                },
                None => None,
            },
            _ => None,
        }
    }
//@@ fn f.format_time = src/functions/time/format_time.rs :: fn get :: impl Get for Impl :: fn get
//@@ safety C04 C05 C11
//@@ rewrite float_cast_i64 float_cast_u32 int_cast_f64 time_write_format
//@@ post doc "(format_time t f) is the text of the instant t (seconds since the epoch: whole seconds and the fraction as nanoseconds) in the strftime format f — a function of THIS call's two arguments only; nothing when t is not a number or out of range, f is not a string, or f is not a valid format"
//@@ body-start
                proof { ax_f64_functions(); }
//@@ endfn
}
}

pub mod f_parse_time {
use super::*;
broadcast use {fl::group_f64, cl::axiom_string_ext};
//@@ item src/functions/time/parse_time.rs :: fn get :: struct Impl
//@@ rewrite pub_tuple pub_struct
//@@ enditem
impl Get for Impl {
    open spec fn get_spec(&self, value: &Context) -> Option<JsonValue> {
        match (arg(self.0@, value, 0), arg(self.0@, value, 1)) {
            (Some(JsonValue::String(s)), Some(JsonValue::String(format))) => match naive_parse(s@, format@) {
                Some(t) => match naive_micros(t, naive_epoch()) { Some(ms) => Some(secs_of_micros(ms)), None => None },
                None => None,
            },
            _ => None,
        }
    }
//@@ fn f.parse_time = src/functions/time/parse_time.rs :: fn get :: impl Get for Impl :: fn get
//@@ safety C04 C05 C11
//@@ rewrite unix_epoch_const int_cast_f64
//@@ post doc "(parse_time s f) is the number of seconds (microseconds / 1e6) from the epoch to the instant that the text s denotes in the strftime format f; nothing when an argument is not a string, s does not parse, or the distance does not fit"
//@@ body-start
                proof { ax_f64_functions(); }
//@@ insert-after "|ms|"
 -> (o: JsonValue) ensures o == secs_of_micros(ms), {
//@@ insert-after ".into()"
 }
//@@ endfn
}
}

pub mod f_parse_time_with_zone {
use super::*;
broadcast use {fl::group_f64, cl::axiom_string_ext};
//@@ item src/functions/time/parse_time_with_zone.rs :: fn get :: struct Impl
//@@ rewrite pub_tuple pub_struct
//@@ enditem
impl Get for Impl {
    open spec fn get_spec(&self, value: &Context) -> Option<JsonValue> {
        match (arg(self.0@, value, 0), arg(self.0@, value, 1)) {
            (Some(JsonValue::String(s)), Some(JsonValue::String(format))) => match zoned_parse(s@, format@) {
                Some(t) => match zoned_micros(t, zoned_epoch()) { Some(ms) => Some(secs_of_micros(ms)), None => None },
                None => None,
            },
            _ => None,
        }
    }
//@@ fn f.parse_time_with_zone = src/functions/time/parse_time_with_zone.rs :: fn get :: impl Get for Impl :: fn get
//@@ safety C04 C05 C11
//@@ rewrite unix_epoch_const int_cast_f64
//@@ post doc "(parse_time_with_zone s f): as parse_time, for a text that carries its zone offset"
//@@ body-start
                proof { ax_f64_functions(); }
//@@ insert-after "|ms|"
 -> (o: JsonValue) ensures o == secs_of_micros(ms), {
//@@ insert-after ".into()"
 }
//@@ endfn
}
}

} // verus!
fn main() {}
