#![feature(allocator_api)]
// Unit RT: print / parse ROUND TRIP for strings (C02): what the JSON printer writes for a string, read by the RFC 8259 string
// decoder str_dec that the parser is verified against (unit LEX), is the string. Pure spec and proof: no code of /repo.
use vstd::prelude::*;
use std::rc::Rc;
use vstd::std_specs::iter::IteratorSpec;

verus! {

pub mod jt {
use vstd::prelude::*;
use std::rc::Rc;
use vstd::std_specs::iter::IteratorSpec;
//@@ include prelude/indexmap.rs
//@@ include prelude/json_types.rs
//@@ include prelude/clone_specs.rs
}
use jt::*;
#[verifier::external_type_specification]
#[verifier::external_body]
pub struct ExIoError(std::io::Error);
//@@ include prelude/vfmt.rs
use vfmt::{hex_min4_text, hex4, hex_digit};
pub mod rd {
use vstd::prelude::*;
//@@ include lemmas/reader_spec.rs
}
use rd::*;
pub mod jg {
use vstd::prelude::*;
use super::rd::*;
//@@ include lemmas/json_grammar.rs
}
use jg::*;
pub mod ls {
use vstd::prelude::*;
use super::jt::*;
//@@ include prelude/lexstd.rs
}
use ls::*;
pub mod js {
use vstd::prelude::*;
use super::rd::*;
use super::jg::*;
use super::ls::*;
//@@ include lemmas/json_string.rs
}
use js::*;
//@@ include lemmas/json_escape.rs

// ---- UTF-8 (trusted facts about the encoding that str_bytes / utf8_of name) ----
pub broadcast axiom fn ax_bytes_add(a: Seq<char>, b: Seq<char>) ensures #[trigger] str_bytes(a.add(b)) == str_bytes(a).add(str_bytes(b));
pub broadcast axiom fn ax_bytes_one(c: char) ensures #[trigger] str_bytes(seq![c]) == utf8_of(c);
pub broadcast axiom fn ax_bytes_empty() ensures #[trigger] str_bytes(Seq::<char>::empty()) == Seq::<u8>::empty();
// an ASCII character is its own byte; every byte of a longer encoding has the high bit set
pub broadcast axiom fn ax_utf8(c: char) ensures
    (c as u32) < 0x80 ==> #[trigger] utf8_of(c) == seq![c as u8],
    (c as u32) >= 0x80 ==> 2 <= utf8_of(c).len() <= 4 && forall|i: int| 0 <= i < utf8_of(c).len() ==> (#[trigger] utf8_of(c)[i]) >= 0x80u8;

// a byte string as a stream without read failures
pub open spec fn ob(b: Seq<u8>) -> Seq<Option<u8>> { Seq::new(b.len(), |i: int| Some(b[i])) }

// str_dec walks over a run of bytes that are neither a quote nor a backslash, copying them
pub proof fn lemma_dec_raw(p: Seq<Option<u8>>, i: int, acc: Seq<u8>, run: Seq<u8>)
    requires 0 <= i, i + run.len() <= p.len(),
        forall|j: int| 0 <= j < run.len() ==> p[i + j] == Some(#[trigger] run[j]) && run[j] != 0x22u8 && run[j] != 0x5cu8,
    ensures str_dec(p, i, acc) == str_dec(p, i + run.len(), acc.add(run)),
    decreases run.len(),
{
    if run.len() == 0 { assert(acc.add(run) =~= acc); }
    else {
        assert(p[i + 0] == Some(run[0]));
        let r1 = run.subrange(1, run.len() as int);
        assert forall|j: int| 0 <= j < r1.len() implies p[i + 1 + j] == Some(#[trigger] r1[j]) && r1[j] != 0x22u8 && r1[j] != 0x5cu8 by { assert(r1[j] == run[j + 1]); assert(p[i + (j + 1)] == Some(run[j + 1])); }
        lemma_dec_raw(p, i + 1, acc.push(run[0]), r1);
        assert(acc.push(run[0]).add(r1) =~= acc.add(run));
    }
}

// the bytes of a short text of ASCII characters
pub proof fn lemma_bytes2(a: char, b: char)
    requires (a as u32) < 0x80, (b as u32) < 0x80,
    ensures str_bytes(seq![a, b]) == seq![a as u8, b as u8],
{
    broadcast use ax_bytes_add, ax_bytes_one, ax_utf8;
    assert(seq![a, b] =~= seq![a].add(seq![b]));
    assert(seq![a as u8].add(seq![b as u8]) =~= seq![a as u8, b as u8]);
}
pub open spec fn hexb(d: u64) -> u8 { if d < 10 { (0x30 + d) as u8 } else { (0x61 + d - 10) as u8 } }
pub proof fn lemma_hex_digit_byte(d: u64)
    requires d < 16,
    ensures (hex_digit(d) as u32) < 0x80, hex_digit(d) as u8 == hexb(d), hexv(hexb(d)) == Some(d as u32),
{ }
pub proof fn lemma_bytes_u(n: u64)
    requires n <= 0xFFFF,
    ensures str_bytes(seq!['\\', 'u'].add(hex4(n))) == seq![0x5cu8, 0x75u8, hexb((n / 0x1000) % 16), hexb((n / 0x100) % 16), hexb((n / 0x10) % 16), hexb(n % 16)],
{
    broadcast use ax_bytes_add, ax_bytes_one, ax_utf8;
    let d3 = (n / 0x1000) % 16; let d2 = (n / 0x100) % 16; let d1 = (n / 0x10) % 16; let d0 = n % 16;
    lemma_hex_digit_byte(d3); lemma_hex_digit_byte(d2); lemma_hex_digit_byte(d1); lemma_hex_digit_byte(d0);
    let t = seq!['\\', 'u'].add(hex4(n));
    assert(t =~= seq!['\\'].add(seq!['u']).add(seq![hex_digit(d3)]).add(seq![hex_digit(d2)]).add(seq![hex_digit(d1)]).add(seq![hex_digit(d0)]));
    assert(seq![0x5cu8].add(seq![0x75u8]).add(seq![hexb(d3)]).add(seq![hexb(d2)]).add(seq![hexb(d1)]).add(seq![hexb(d0)]) =~= seq![0x5cu8, 0x75u8, hexb(d3), hexb(d2), hexb(d1), hexb(d0)]);
}
pub proof fn lemma_nibbles(n: u32)
    requires n <= 0xFFFF,
    ensures ((((((0u32 << 4) | ((n / 0x1000) % 16)) << 4) | ((n / 0x100) % 16)) << 4 | ((n / 0x10) % 16)) << 4) | (n % 16) == n,
{
    assert(((((((0u32 << 4) | ((n / 0x1000) % 16)) << 4) | ((n / 0x100) % 16)) << 4 | ((n / 0x10) % 16)) << 4) | (n % 16) == n) by (bit_vector)
        requires n <= 0xFFFF;
}

// the printed form of ONE character, as bytes
pub open spec fn eb(ch: char, utf8: bool) -> Seq<u8> { str_bytes(esc(ch, utf8)) }
pub open spec fn here(p: Seq<Option<u8>>, i: int, b: Seq<u8>) -> bool { 0 <= i && i + b.len() <= p.len() && forall|j: int| 0 <= j < b.len() ==> p[i + j] == Some(#[trigger] b[j]) }
pub open spec fn printable(ch: char, utf8: bool) -> bool { utf8 || (ch as u32) <= 0xFFFF }
// ONE CHARACTER: decoding its printed form appends exactly its UTF-8 bytes
pub proof fn lemma_dec_esc(p: Seq<Option<u8>>, i: int, acc: Seq<u8>, ch: char, utf8: bool)
    requires here(p, i, eb(ch, utf8)), printable(ch, utf8),
    ensures str_dec(p, i, acc) == str_dec(p, i + eb(ch, utf8).len(), acc.add(utf8_of(ch))),
{
    broadcast use ax_bytes_add, ax_bytes_one, ax_utf8;
    let b = eb(ch, utf8);
    if ch == '"' || ch == '\\' || ch == '/' || ch == '\u{08}' || ch == '\u{0c}' || ch == '\n' || ch == '\r' || ch == '\t' {
        let x = if ch == '"' { '"' } else if ch == '\\' { '\\' } else if ch == '/' { '/' } else if ch == '\u{08}' { 'b' } else if ch == '\u{0c}' { 'f' } else if ch == '\n' { 'n' } else if ch == '\r' { 'r' } else { 't' };
        assert(esc(ch, utf8) =~= seq!['\\', x]);
        lemma_bytes2('\\', x);
        assert(b == seq![0x5cu8, x as u8]);
        assert(p[i + 0] == Some(b[0]) && p[i + 1] == Some(b[1]));
        assert(at(p, i + 1) == Some(x as u8));
        assert(utf8_of(ch) == seq![ch as u8]);
        assert(esc_byte(x as u8) == Some(ch as u8));
        assert(acc.push(ch as u8) =~= acc.add(utf8_of(ch)));
    } else if (utf8 && ' ' <= ch) || (' ' <= ch && ch <= '~') {
        assert(esc(ch, utf8) =~= seq![ch]);
        assert(b == utf8_of(ch));
        assert forall|j: int| 0 <= j < b.len() implies p[i + j] == Some(#[trigger] b[j]) && b[j] != 0x22u8 && b[j] != 0x5cu8 by {
            if (ch as u32) < 0x80 { assert(b == seq![ch as u8]); } else { assert(b[j] >= 0x80u8); }
        }
        lemma_dec_raw(p, i, acc, b);
    } else {
        let n = ch as u64;
        // not printable as itself: a control character, or (without --utf8-strings) a character beyond `~` — in the BMP here
        assert(n <= 0xFFFF) by { if utf8 { assert(ch < ' '); } };
        assert(esc(ch, utf8) =~= seq!['\\', 'u'].add(hex4(n)));
        lemma_bytes_u(n);
        let d3 = (n / 0x1000) % 16; let d2 = (n / 0x100) % 16; let d1 = (n / 0x10) % 16; let d0 = n % 16;
        lemma_hex_digit_byte(d3); lemma_hex_digit_byte(d2); lemma_hex_digit_byte(d1); lemma_hex_digit_byte(d0);
        assert(b.len() == 6);
        assert(p[i + 0] == Some(b[0]) && p[i + 1] == Some(b[1]) && p[i + 2] == Some(b[2]) && p[i + 3] == Some(b[3]) && p[i + 4] == Some(b[4]) && p[i + 5] == Some(b[5]));
        assert(at(p, i + 1) == Some(0x75u8));
        reveal_with_fuel(hex_acc, 5);
        lemma_nibbles(n as u32);
        assert(at(p, i + 2) == Some(hexb(d3)) && at(p, i + 3) == Some(hexb(d2)) && at(p, i + 4) == Some(hexb(d1)) && at(p, i + 5) == Some(hexb(d0)));
        assert(hex_acc(p, i + 2, 4) == Some(n as u32)) by {
            assert((d3 as u32) == ((n as u32) / 0x1000) % 16 && (d2 as u32) == ((n as u32) / 0x100) % 16 && (d1 as u32) == ((n as u32) / 0x10) % 16 && (d0 as u32) == (n as u32) % 16);
        }
        lemma_char_of(ch);
    }
}
// char::from_u32 of a character's own code is that character (chars are determined by their code)
pub proof fn lemma_char_of(ch: char)
    ensures char_of_u32(ch as u32) == Some(ch),
{
    ax_char_of(ch as u32);
    let n = ch as u32;
    assert(n < 0xD800 || (0xE000 <= n <= 0x10FFFF));
    assert(char_of_u32(n) is Some);
    assert(char_of_u32(n)->0 as u32 == n);
}
// (the contract of char::from_u32 in prelude/lexstd.rs, as a fact about its spec function)
pub axiom fn ax_char_of(n: u32) ensures char_of_u32(n) is Some ==> char_of_u32(n)->0 as u32 == n, char_of_u32(n) is Some <==> (n < 0xD800 || (0xE000 <= n <= 0x10FFFF));

// esc_all, unfolded at the front
pub proof fn lemma_esc_all_front(s: Seq<char>, utf8: bool)
    requires s.len() > 0,
    ensures esc_all(s, utf8) == esc(s[0], utf8).add(esc_all(s.subrange(1, s.len() as int), utf8)),
    decreases s.len(),
{
    let t = s.subrange(1, s.len() as int);
    if s.len() == 1 {
        reveal_with_fuel(esc_all, 2);
        assert(s.drop_last() =~= Seq::<char>::empty());
        assert(t =~= Seq::<char>::empty());
        assert(esc_all(s, utf8) =~= esc(s[0], utf8));
        assert(esc(s[0], utf8).add(esc_all(t, utf8)) =~= esc(s[0], utf8));
    } else {
        lemma_esc_all_front(s.drop_last(), utf8);
        assert(s.drop_last().subrange(1, s.len() - 1) =~= t.drop_last());
        assert(s.drop_last()[0] == s[0]);
        assert(t.last() == s.last());
        assert(esc(s[0], utf8).add(esc_all(t.drop_last(), utf8)).add(esc(s.last(), utf8)) =~= esc(s[0], utf8).add(esc_all(t.drop_last(), utf8).add(esc(t.last(), utf8))));
    }
}
pub open spec fn all_printable(s: Seq<char>, utf8: bool) -> bool { forall|j: int| 0 <= j < s.len() ==> printable(#[trigger] s[j], utf8) }
// THE STRING BODY: wherever the printed body of s stands in a stream, followed by a quote, the decoder reads exactly the UTF-8
// bytes of s and stops at that quote
pub proof fn lemma_dec_body(p: Seq<Option<u8>>, i: int, acc: Seq<u8>, s: Seq<char>, utf8: bool)
    requires all_printable(s, utf8), here(p, i, str_bytes(esc_all(s, utf8))), at(p, i + str_bytes(esc_all(s, utf8)).len()) == Some(0x22u8),
    ensures str_dec(p, i, acc) == Some((acc.add(str_bytes(s)), i + str_bytes(esc_all(s, utf8)).len())),
    decreases s.len(),
{
    broadcast use ax_bytes_add, ax_bytes_one, ax_bytes_empty;
    if s.len() == 0 {
        assert(esc_all(s, utf8) =~= Seq::<char>::empty());
        assert(s =~= Seq::<char>::empty());
        assert(acc.add(str_bytes(s)) =~= acc);
        assert(p[i] == Some(0x22u8));
    } else {
        let t = s.subrange(1, s.len() as int);
        lemma_esc_all_front(s, utf8);
        let e0 = esc(s[0], utf8);
        let b0 = str_bytes(e0); let bt = str_bytes(esc_all(t, utf8));
        assert(str_bytes(esc_all(s, utf8)) == b0.add(bt));
        assert(here(p, i, b0)) by { assert forall|j: int| 0 <= j < b0.len() implies p[i + j] == Some(#[trigger] b0[j]) by { assert(b0.add(bt)[j] == b0[j]); } }
        assert(printable(s[0], utf8));
        lemma_dec_esc(p, i, acc, s[0], utf8);
        assert(here(p, i + b0.len(), bt)) by { assert forall|j: int| 0 <= j < bt.len() implies p[i + b0.len() + j] == Some(#[trigger] bt[j]) by { assert(b0.add(bt)[b0.len() + j] == bt[j]); assert(p[i + (b0.len() + j)] == Some(b0.add(bt)[b0.len() + j])); } }
        assert forall|j: int| 0 <= j < t.len() implies printable(#[trigger] t[j], utf8) by { assert(t[j] == s[j + 1]); }
        lemma_dec_body(p, i + b0.len(), acc.add(utf8_of(s[0])), t, utf8);
        assert(s =~= seq![s[0]].add(t));
        assert(str_bytes(s) == utf8_of(s[0]).add(str_bytes(t)));
        assert(acc.add(utf8_of(s[0])).add(str_bytes(t)) =~= acc.add(str_bytes(s)));
    }
}
// THE ROUND TRIP (C02): the text the JSON printer writes for a string — quote, escaped body, quote — placed anywhere in a stream, is
// read by the RFC 8259 string decoder as exactly the string (its UTF-8 bytes), ending at the closing quote; for every string when
// --utf8-strings is given, and for every string of the Basic Multilingual Plane otherwise (beyond it: known finding PRINT.string.rfc)
pub proof fn lemma_string_roundtrip(pre: Seq<Option<u8>>, post: Seq<Option<u8>>, s: Seq<char>, utf8: bool)
    requires all_printable(s, utf8),
    ensures ({
        let text = seq!['"'].add(esc_all(s, utf8)).add(seq!['"']);
        let p = pre.add(ob(str_bytes(text))).add(post);
        str_dec(p, pre.len() as int + 1, Seq::empty()) == Some((str_bytes(s), pre.len() as int + 1 + str_bytes(esc_all(s, utf8)).len() as int))
    }), // @obl RT.string_roundtrip : C02 C01
{
    broadcast use ax_bytes_add, ax_bytes_one, ax_utf8;
    let body = esc_all(s, utf8);
    let text = seq!['"'].add(body).add(seq!['"']);
    let bb = str_bytes(body);
    assert(str_bytes(text) == seq![0x22u8].add(bb).add(seq![0x22u8]));
    let p = pre.add(ob(str_bytes(text))).add(post);
    let i = pre.len() as int + 1;
    assert forall|j: int| 0 <= j < bb.len() implies p[i + j] == Some(#[trigger] bb[j]) by {
        assert(p[i + j] == ob(str_bytes(text))[1 + j]);
        assert(str_bytes(text)[1 + j] == bb[j]);
    }
    assert(here(p, i, bb));
    assert(at(p, i + bb.len()) == Some(0x22u8)) by { assert(p[i + bb.len()] == ob(str_bytes(text))[1 + bb.len() as int]); assert(str_bytes(text)[1 + bb.len() as int] == 0x22u8); }
    lemma_dec_body(p, i, Seq::empty(), s, utf8);
    assert(Seq::<u8>::empty().add(str_bytes(s)) =~= str_bytes(s));
}

} // verus!
fn main() {}
