#![feature(allocator_api)]
// Unit FUN: functions that evaluate an argument on derived contexts — fold (C04, C12)
use vstd::prelude::*;
use std::rc::Rc;
use vstd::std_specs::iter::IteratorSpec;
use std::collections::HashMap;

verus! {

pub mod jt {
use vstd::prelude::*;
use std::rc::Rc;
use vstd::std_specs::iter::IteratorSpec;
//@@ include prelude/indexmap.rs
//@@ include prelude/json_types.rs
//@@ include prelude/clone_specs.rs
}
use jt::*;
pub mod cl {
use vstd::prelude::*;
use std::rc::Rc;
use super::jt::*;
//@@ include prelude/clone_axioms.rs
}
//@@ include lemmas/ctx_spec.rs
//@@ include prelude/ctx_opaque.rs
//@@ include prelude/get_trait.rs
//@@ include prelude/fnargs_apply.rs
//@@ include prelude/vit.rs

// ---- conversions used to build the fold input (real bodies) ----
impl vstd::std_specs::convert::FromSpecImpl<usize> for NumberValue {
    open spec fn obeys_from_spec() -> bool { true }
    open spec fn from_spec(v: usize) -> Self { NumberValue::Positive(v as u64) }
}
impl From<usize> for NumberValue {
//@@ fn nv.from_usize = src/json_value.rs :: impl From<usize> for NumberValue :: fn from
//@@ safety C04
//@@ post from "a usize converts to the non-negative integer with that value"
//@@ endfn
}
impl vstd::std_specs::convert::FromSpecImpl<usize> for JsonValue {
    open spec fn obeys_from_spec() -> bool { true }
    open spec fn from_spec(v: usize) -> Self { JsonValue::Number(NumberValue::Positive(v as u64)) }
}
impl From<usize> for JsonValue {
//@@ fn jv.from_usize = src/json_value.rs :: impl From<usize> for JsonValue :: fn from
//@@ safety C04
//@@ post from "a usize converts to the JSON number with that value"
//@@ endfn
}

// ---- fold, as documented: the function sees {"so_far": accumulated (absent at first without an initial value), "value": item, "index": position}
// as its input, with the caller's input as parent; its result is the next accumulated value ----
pub uninterp spec fn str_of(s: Seq<char>) -> String;
pub broadcast axiom fn axiom_str_of(s: Seq<char>) ensures (#[trigger] str_of(s))@ == s;
pub open spec fn fold_input(cur: Option<JsonValue>, v: JsonValue, i: int) -> JsonValue {
    let tail = seq![(str_of("value"@), v), (str_of("index"@), JsonValue::Number(NumberValue::Positive(i as u64)))];
    json_object(match cur { Some(c) => seq![(str_of("so_far"@), c)].add(tail), None => tail })
}
pub open spec fn fold_from(func: Rc<dyn Get>, ctx: Context, list: Seq<JsonValue>, i: int, cur: Option<JsonValue>) -> Option<JsonValue>
    decreases list.len() - i
{
    if i >= list.len() || i < 0 { cur } else {
        fold_from(func, ctx, list, i + 1, func.get_spec(&ctx_with_input(ctx, fold_input(cur, list[i], i))))
    }
}
pub mod f_fold {
use super::*;
//@@ item src/functions/list/functional/fold.rs :: fn get :: struct Impl
//@@ rewrite pub_tuple pub_struct
//@@ enditem
impl Get for Impl {
    open spec fn get_spec(&self, context: &Context) -> Option<JsonValue> {
        match arg(self.0@, context, 0) {
            Some(JsonValue::Array(list)) => {
                let has_init = self.0@.len() > 2;
                let f = if has_init { 2int } else { 1int };
                if f < self.0@.len() { fold_from(self.0@[f], *context, list@, 0, if has_init { arg(self.0@, context, 1) } else { None }) } else { None }
            },
            _ => None,
        }
    }
//@@ fn f.fold = src/functions/list/functional/fold.rs :: fn get :: impl Get for Impl :: fn get
//@@ safety C04 C05 C12
//@@ rewrite enumerate
//@@ post doc "(fold l init f) / (fold l f): f is applied to every item in list order on the input {so_far, value, index} (so_far absent for the first item when there is no init) with the caller's input as parent; each result, also 'nothing', becomes the next so_far; the last result is the value; nothing when l is not a list"
//@@ body-start
        broadcast use group_json_names, super::cl::group_clone_is_copy, super::cl::axiom_string_ext, axiom_str_of;
//@@ before-loop 1
                        let ghost cur0 = current;
//@@ loop 1 iter it
                            invariant
                                it.seq().len() == list@.len(), 0 <= it.index@ <= list@.len(),
                                forall|j: int| 0 <= j < it.seq().len() ==> (#[trigger] it.seq()[j]).0 == j && *it.seq()[j].1 == list@[j],
                                fold_from(*func, *context, list@, it.index@, current) == fold_from(*func, *context, list@, 0, cur0),
//@@ loop-start 1
                            broadcast use group_json_names, super::cl::group_clone_is_copy, super::cl::axiom_string_ext, axiom_str_of;
                            let ghost prev = current;
                            proof {
                                reveal_strlit("so_far"); reveal_strlit("value"); reveal_strlit("index");
                                assert("so_far"@.len() == 6 && "value"@.len() == 5 && "index"@.len() == 5);
                                assert("value"@[0] == 'v' && "index"@[0] == 'i');
                            }
//@@ before "let input = context.with_inupt(mp.into());"
                            proof {
                                let kv = (str_of("value"@), *value);
                                let ki = (str_of("index"@), JsonValue::Number(NumberValue::Positive(index as u64)));
                                match prev {
                                    Some(c) => {
                                        let e1 = seq![(str_of("so_far"@), c)];
                                        assert(!im_has(e1, str_of("value"@))) by { if im_has(e1, str_of("value"@)) { let j = im_idx(e1, str_of("value"@)); assert(e1[j].0@.len() == 6); } }
                                        let e2 = e1.push(kv);
                                        assert(!im_has(e2, str_of("index"@))) by { if im_has(e2, str_of("index"@)) { let j = im_idx(e2, str_of("index"@)); assert(e2[j].0@.len() == 6 || e2[j].0@[0] == 'v'); } }
                                        assert(mp.entries() =~= e1.add(seq![kv, ki]));
                                    },
                                    None => {
                                        let e1 = seq![kv];
                                        assert(!im_has(Seq::<(String, JsonValue)>::empty(), str_of("value"@)));
                                        assert(!im_has(e1, str_of("index"@))) by { if im_has(e1, str_of("index"@)) { let j = im_idx(e1, str_of("index"@)); assert(e1[j].0@[0] == 'v'); } }
                                        assert(mp.entries() =~= seq![kv, ki]);
                                    },
                                }
                            }
//@@ after "current = func.get(&input);"
                            proof { assert(input == ctx_with_input(*context, fold_input(prev, list@[it.index@], it.index@))); }
//@@ endfn
}
}

} // verus!
fn main() {}
