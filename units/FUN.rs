#![feature(allocator_api)]
// Unit FUN: functions that evaluate an argument on derived contexts — fold (C04, C12)
use vstd::prelude::*;
use std::rc::Rc;
use vstd::std_specs::iter::IteratorSpec;
use std::collections::HashMap;

verus! {

pub mod jt {
use vstd::prelude::*;
use std::rc::Rc;
use vstd::std_specs::iter::IteratorSpec;
//@@ include prelude/indexmap.rs
//@@ include prelude/json_types.rs
//@@ include prelude/clone_specs.rs
}
use jt::*;
pub mod cl {
use vstd::prelude::*;
use std::rc::Rc;
use super::jt::*;
//@@ include prelude/clone_axioms.rs
}
//@@ include lemmas/ctx_spec.rs
//@@ include prelude/ctx_opaque.rs
//@@ include prelude/get_trait.rs
//@@ include prelude/fnargs_apply.rs
//@@ include prelude/vit.rs

// ---- conversions used to build the fold input (real bodies) ----
impl vstd::std_specs::convert::FromSpecImpl<usize> for NumberValue {
    open spec fn obeys_from_spec() -> bool { true }
    open spec fn from_spec(v: usize) -> Self { NumberValue::Positive(v as u64) }
}
impl From<usize> for NumberValue {
//@@ fn nv.from_usize = src/json_value.rs :: impl From<usize> for NumberValue :: fn from
//@@ safety C04
//@@ post from "a usize converts to the non-negative integer with that value"
//@@ endfn
}
impl vstd::std_specs::convert::FromSpecImpl<usize> for JsonValue {
    open spec fn obeys_from_spec() -> bool { true }
    open spec fn from_spec(v: usize) -> Self { JsonValue::Number(NumberValue::Positive(v as u64)) }
}
impl From<usize> for JsonValue {
//@@ fn jv.from_usize = src/json_value.rs :: impl From<usize> for JsonValue :: fn from
//@@ safety C04
//@@ post from "a usize converts to the JSON number with that value"
//@@ endfn
}

// ---- fold, as documented: the function sees {"so_far": accumulated (absent at first without an initial value), "value": item, "index": position}
// as its input, with the caller's input as parent; its result is the next accumulated value ----
pub uninterp spec fn str_of(s: Seq<char>) -> String;
pub broadcast axiom fn axiom_str_of(s: Seq<char>) ensures (#[trigger] str_of(s))@ == s;
pub open spec fn fold_input(cur: Option<JsonValue>, v: JsonValue, i: int) -> JsonValue {
    let tail = seq![(str_of("value"@), v), (str_of("index"@), JsonValue::Number(NumberValue::Positive(i as u64)))];
    json_object(match cur { Some(c) => seq![(str_of("so_far"@), c)].add(tail), None => tail })
}
pub open spec fn fold_from(func: Rc<dyn Get>, ctx: Context, list: Seq<JsonValue>, i: int, cur: Option<JsonValue>) -> Option<JsonValue>
    decreases list.len() - i
{
    if i >= list.len() || i < 0 { cur } else {
        fold_from(func, ctx, list, i + 1, func.get_spec(&ctx_with_input(ctx, fold_input(cur, list[i], i))))
    }
}
pub mod f_fold {
use super::*;
//@@ item src/functions/list/functional/fold.rs :: fn get :: struct Impl
//@@ rewrite pub_tuple pub_struct
//@@ enditem
impl Get for Impl {
    open spec fn get_spec(&self, context: &Context) -> Option<JsonValue> {
        match arg(self.0@, context, 0) {
            Some(JsonValue::Array(list)) => {
                let has_init = self.0@.len() > 2;
                let f = if has_init { 2int } else { 1int };
                if f < self.0@.len() { fold_from(self.0@[f], *context, list@, 0, if has_init { arg(self.0@, context, 1) } else { None }) } else { None }
            },
            _ => None,
        }
    }
//@@ fn f.fold = src/functions/list/functional/fold.rs :: fn get :: impl Get for Impl :: fn get
//@@ safety C04 C05 C12
//@@ rewrite enumerate
//@@ post doc "(fold l init f) / (fold l f): f is applied to every item in list order on the input {so_far, value, index} (so_far absent for the first item when there is no init) with the caller's input as parent; each result, also 'nothing', becomes the next so_far; the last result is the value; nothing when l is not a list"
//@@ body-start
        broadcast use group_json_names, super::cl::group_clone_is_copy, super::cl::axiom_string_ext, axiom_str_of;
//@@ before-loop 1
                        let ghost cur0 = current;
//@@ loop 1 iter it
                            invariant
                                it.seq().len() == list@.len(), 0 <= it.index@ <= list@.len(),
                                forall|j: int| 0 <= j < it.seq().len() ==> (#[trigger] it.seq()[j]).0 == j && *it.seq()[j].1 == list@[j],
                                fold_from(*func, *context, list@, it.index@, current) == fold_from(*func, *context, list@, 0, cur0),
//@@ loop-start 1
                            broadcast use group_json_names, super::cl::group_clone_is_copy, super::cl::axiom_string_ext, axiom_str_of;
                            let ghost prev = current;
                            proof {
                                reveal_strlit("so_far"); reveal_strlit("value"); reveal_strlit("index");
                                assert("so_far"@.len() == 6 && "value"@.len() == 5 && "index"@.len() == 5);
                                assert("value"@[0] == 'v' && "index"@[0] == 'i');
                            }
//@@ before "let input = context.with_inupt(mp.into());"
                            proof {
                                let kv = (str_of("value"@), *value);
                                let ki = (str_of("index"@), JsonValue::Number(NumberValue::Positive(index as u64)));
                                match prev {
                                    Some(c) => {
                                        let e1 = seq![(str_of("so_far"@), c)];
                                        assert(!im_has(e1, str_of("value"@))) by { if im_has(e1, str_of("value"@)) { let j = im_idx(e1, str_of("value"@)); assert(e1[j].0@.len() == 6); } }
                                        let e2 = e1.push(kv);
                                        assert(!im_has(e2, str_of("index"@))) by { if im_has(e2, str_of("index"@)) { let j = im_idx(e2, str_of("index"@)); assert(e2[j].0@.len() == 6 || e2[j].0@[0] == 'v'); } }
                                        assert(mp.entries() =~= e1.add(seq![kv, ki]));
                                    },
                                    None => {
                                        let e1 = seq![kv];
                                        assert(!im_has(Seq::<(String, JsonValue)>::empty(), str_of("value"@)));
                                        assert(!im_has(e1, str_of("index"@))) by { if im_has(e1, str_of("index"@)) { let j = im_idx(e1, str_of("index"@)); assert(e1[j].0@[0] == 'v'); } }
                                        assert(mp.entries() =~= seq![kv, ki]);
                                    },
                                }
                            }
//@@ after "current = func.get(&input);"
                            proof { assert(input == ctx_with_input(*context, fold_input(prev, list@[it.index@], it.index@))); }
//@@ endfn
}
}

// ---- bindings (C12): (set n v e) / (define n m e) evaluate e on the SAME context with one more binding ----
pub mod f_set {
use super::*;
//@@ item src/functions/variables/set.rs :: fn get :: struct Impl
//@@ rewrite pub_tuple pub_struct
//@@ enditem
impl Get for Impl {
    open spec fn get_spec(&self, context: &Context) -> Option<JsonValue> {
        match (arg(self.0@, context, 0), arg(self.0@, context, 1)) {
            (Some(JsonValue::String(name)), Some(v)) => arg(self.0@, &ctx_with_variable(*context, name, v), 2),
            _ => None,
        }
    }
//@@ fn f.set = src/functions/variables/set.rs :: fn get :: impl Get for Impl :: fn get
//@@ safety C12 C04
//@@ post binds "(set n v e) is e evaluated on the caller's context extended by the variable n = v (name and value evaluated on the caller's context) and nothing else changed; nothing when n is not a string or v is absent"
//@@ endfn
}
}
pub mod f_define {
use super::*;
//@@ item src/functions/variables/define.rs :: fn get :: struct Impl
//@@ rewrite pub_tuple pub_struct
//@@ enditem
impl Get for Impl {
    open spec fn get_spec(&self, context: &Context) -> Option<JsonValue> {
        match arg(self.0@, context, 0) {
            Some(JsonValue::String(name)) => if self.0@.len() > 1 { arg(self.0@, &ctx_with_definition(*context, name, self.0@[1]), 2) } else { None },
            _ => None,
        }
    }
//@@ fn f.define = src/functions/variables/define.rs :: fn get :: impl Get for Impl :: fn get
//@@ safety C12 C04
//@@ post binds "(define n m e) is e evaluated on the caller's context extended by the macro n = the UNEVALUATED second argument and nothing else changed; nothing when n is not a string"
//@@ endfn
}
}
// ---- (| a b ...): each stage sees the previous stage's value as input and the previous input as its parent ----
pub open spec fn pipe_from(args: Seq<Rc<dyn Get>>, ctx: Context, i: int) -> Option<JsonValue>
    decreases args.len() - i
{
    if i < 0 || i >= args.len() { Some(ctx.inp()) } else {
        match args[i].get_spec(&ctx) { Some(v) => pipe_from(args, ctx_with_input(ctx, v), i + 1), None => None }
    }
}
pub mod f_pipe {
use super::*;
use std::ops::Deref;
//@@ item src/functions/basic/flow/pipe.rs :: fn get :: struct Impl
//@@ rewrite pub_tuple pub_struct
//@@ enditem
impl Get for Impl {
    open spec fn get_spec(&self, context: &Context) -> Option<JsonValue> {
        pipe_from(self.0@, ctx_with_input(*context, context.inp()), 0)
    }
//@@ fn f.pipe = src/functions/basic/flow/pipe.rs :: fn get :: impl Get for Impl :: fn get
//@@ safety C12 C04
//@@ rewrite shadow_param
//@@ post chain "(| a b ..): a is evaluated on the caller's input, every later stage on the previous stage's value with the previous input as parent (bindings unchanged); nothing as soon as a stage gives nothing; the value of the last stage is the result"
//@@ body-start
        broadcast use super::cl::group_clone_is_copy;
//@@ before-loop 1
                let ghost c0 = context;
//@@ loop 1 iter it
                    invariant
                        it.seq().len() == self.0@.len(), 0 <= it.index@ <= self.0@.len(),
                        forall|j: int| 0 <= j < it.seq().len() ==> *(#[trigger] it.seq()[j]) == self.0@[j],
                        pipe_from(self.0@, context, it.index@) == pipe_from(self.0@, c0, 0), c0 == ctx_with_input(*context_in, context_in.inp()),
//@@ loop-start 1
                    broadcast use super::cl::group_clone_is_copy;
                    let ghost cprev = context;
                    proof { assert(*e == self.0@[it.index@]); }
//@@ before "return None;"
                        proof { assert(self.0@[it.index@].get_spec(&cprev) is None); assert(pipe_from(self.0@, cprev, it.index@) is None); }
//@@ after "context = context.with_inupt(val);"
                        proof { assert(pipe_from(self.0@, cprev, it.index@) == pipe_from(self.0@, context, it.index@ + 1)); }
//@@ endfn
}
}

// ---- :name and @name (C12): the value bound to the name / the macro bound to the name evaluated on the CURRENT context ----
pub mod f_get_variable {
use super::*;
//@@ item src/functions/variables/get_variable.rs :: fn get :: struct Impl
//@@ rewrite pub_tuple pub_struct
//@@ enditem
impl Get for Impl {
    open spec fn get_spec(&self, context: &Context) -> Option<JsonValue> {
        match arg(self.0@, context, 0) {
            Some(JsonValue::String(name)) => if context.vars().contains_key(name) { Some(context.vars()[name]) } else { None },
            _ => None,
        }
    }
//@@ fn f.get_variable = src/functions/variables/get_variable.rs :: fn get :: impl Get for Impl :: fn get
//@@ safety C12 C04
//@@ post lookup "(: n) is the value bound to the variable named n in the current context, nothing when unbound or n is not a string"
//@@ body-start
        broadcast use super::cl::group_clone_is_copy;
//@@ endfn
}
}
pub mod f_at {
use super::*;
//@@ item src/functions/variables/at.rs :: fn get :: struct Impl
//@@ rewrite pub_tuple pub_struct
//@@ enditem
impl Get for Impl {
    open spec fn get_spec(&self, context: &Context) -> Option<JsonValue> {
        match arg(self.0@, context, 0) {
            Some(JsonValue::String(name)) => if context.defs().contains_key(name) { context.defs()[name].get_spec(context) } else { None },
            _ => None,
        }
    }
//@@ fn f.at = src/functions/variables/at.rs :: fn get :: impl Get for Impl :: fn get
//@@ safety C12 C04
//@@ post lookup "(@ n) is the macro bound to n evaluated on the CURRENT context (same input and parents), nothing when unbound or n is not a string"
//@@ insert-after ".and_then(|g"
 : &Rc<dyn Get>
//@@ insert-after ".and_then(|g|"
 -> (o: Option<JsonValue>) ensures o == g.get_spec(context), {
//@@ insert-after "g.get(context)"
 }
//@@ endfn
}
}

// ---- map / filter: the function is evaluated with each element as input and the caller's input as parent (C12), in list order ----
pub mod f_map {
use super::*;
//@@ item src/functions/list/functional/map.rs :: fn get :: struct Impl
//@@ rewrite pub_tuple pub_struct
//@@ enditem
impl Get for Impl {
    open spec fn get_spec(&self, value: &Context) -> Option<JsonValue> {
        match arg(self.0@, value, 0) {
            Some(JsonValue::Array(l)) => Some(json_array(vitc::filter_map_spec(l@, |v: JsonValue| arg(self.0@, &ctx_with_input(*value, v), 1)))),
            _ => None,
        }
    }
//@@ fn f.map = src/functions/list/functional/map.rs :: fn get :: impl Get for Impl :: fn get
//@@ safety C04 C12
//@@ rewrite filter_map_collect
//@@ post doc "(map l f) is the list of the values of f on each element of l (element as input, the caller's input as parent), in list order, elements for which f gives nothing left out; nothing for a non-list"
//@@ body-start
        broadcast use group_json_names;
//@@ insert-after ".filter_map(|v"
 : JsonValue
//@@ insert-after ".filter_map(|v|"
 -> (o: Option<JsonValue>)
                                ensures o == arg(self.0@, &ctx_with_input(*value, v), 1),
//@@ endfn
}
}
pub mod f_flat_map {
use super::*;
//@@ item src/functions/list/functional/flat_map.rs :: fn get :: struct Impl
//@@ rewrite pub_tuple pub_struct
//@@ enditem
pub open spec fn list_value(o: Option<JsonValue>) -> Option<Vec<JsonValue>> { match o { Some(JsonValue::Array(l)) => Some(l), _ => None } }
impl Get for Impl {
    open spec fn get_spec(&self, value: &Context) -> Option<JsonValue> {
        match arg(self.0@, value, 0) {
            Some(JsonValue::Array(l)) => Some(json_array(vitc::flat_spec(vitc::filter_map_spec(l@, |v: JsonValue| list_value(arg(self.0@, &ctx_with_input(*value, v), 1)))))),
            _ => None,
        }
    }
//@@ fn f.flat_map = src/functions/list/functional/flat_map.rs :: fn get :: impl Get for Impl :: fn get
//@@ safety C04 C12 C05
//@@ rewrite filter_map_collect
//@@ post doc "(flat_map l f) is the concatenation, in list order, of the lists f gives on each element of l (element as input, the caller's input as parent); elements on which f gives nothing or a non-list are left out; nothing for a non-list"
//@@ body-start
        broadcast use group_json_names;
//@@ insert-after ".filter_map(|v"
 : JsonValue
//@@ insert-after ".filter_map(|v|"
 -> (o: Option<Vec<JsonValue>>)
                                ensures o == list_value(arg(self.0@, &ctx_with_input(*value, v), 1)),
//@@ endfn
}
}
pub mod f_filter {
use super::*;
//@@ item src/functions/list/functional/filter.rs :: fn get :: struct Impl
//@@ rewrite pub_tuple pub_struct
//@@ enditem
impl Get for Impl {
    open spec fn get_spec(&self, value: &Context) -> Option<JsonValue> {
        match arg(self.0@, value, 0) {
            Some(JsonValue::Array(l)) => Some(json_array(l@.filter(|v: JsonValue| arg(self.0@, &ctx_with_input(*value, v), 1) == Some(JsonValue::Boolean(true))))),
            _ => None,
        }
    }
//@@ fn f.filter = src/functions/list/functional/filter.rs :: fn get :: impl Get for Impl :: fn get
//@@ safety C04 C12
//@@ rewrite filter_collect
//@@ post doc "(filter l f) is the list of the elements of l, in list order, on which f (element as input, the caller's input as parent) gives exactly true; nothing for a non-list"
//@@ body-start
        broadcast use group_json_names, super::cl::group_clone_is_copy, group_json_eq;
//@@ insert-after ".filter(|v"
 : &JsonValue
//@@ insert-after ".filter(|v|"
 -> (o: bool)
                                ensures o == (arg(self.0@, &ctx_with_input(*value, *v), 1) == Some(JsonValue::Boolean(true))),
//@@ endfn
}
}

// ---- group_by (src/functions/list/functional/group_by.rs): the elements grouped by a string key, groups in first-seen order ----
//@@ include lemmas/groups.rs
pub mod vgrp {
use vstd::prelude::*;
use super::jt::*;
use super::group_members;
use super::groups_view;
#[verifier::external_body]
pub fn groups_to_map(g: &IndexMap<String, Vec<JsonValue>>) -> (r: IndexMap<String, JsonValue>)
    ensures r.entries() == group_members(groups_view(g.entries())),
{ unimplemented!() }
}
impl<'a, K, T> Entry<'a, K, Vec<T>> {
    #[verifier::external_body]
    pub fn or_insert_with_vec_new(self) -> (r: &'a mut Vec<T>)
        ensures
            im_has(self.before(), self.key()) ==> *r == self.before()[im_idx(self.before(), self.key())].1,
            !im_has(self.before(), self.key()) ==> r@ == Seq::<T>::empty(),
            self.fin() == im_insert(self.before(), self.key(), *final(r)),
    { unimplemented!() }
}
pub open spec fn gb_from(args: Seq<Rc<dyn Get>>, ctx: Context, l: Seq<JsonValue>, i: int, gs: Seq<(String, Seq<JsonValue>)>) -> Option<Seq<(String, Seq<JsonValue>)>>
    decreases l.len() - i
{
    if i >= l.len() || i < 0 { Some(gs) } else {
        match arg(args, &ctx_with_input(ctx, l[i]), 1) {
            Some(JsonValue::String(k)) => gb_from(args, ctx, l, i + 1, group_add(gs, k, l[i])),
            _ => None,
        }
    }
}
pub mod f_group_by {
use super::*;
//@@ item src/functions/list/functional/group_by.rs :: fn get :: struct Impl
//@@ rewrite pub_tuple pub_struct
//@@ enditem
impl Get for Impl {
    open spec fn get_spec(&self, value: &Context) -> Option<JsonValue> {
        match arg(self.0@, value, 0) {
            Some(JsonValue::Array(l)) => match gb_from(self.0@, *value, l@, 0, Seq::empty()) {
                Some(gs) => Some(json_object(group_members(gs))),
                None => None,
            },
            _ => None,
        }
    }
//@@ fn f.group_by = src/functions/list/functional/group_by.rs :: fn get :: impl Get for Impl :: fn get
//@@ safety C04 C12 C05
//@@ rewrite or_insert_with_vec_new groups_to_map
//@@ post doc "(group_by l f) is the object whose keys are the values of f on the elements of l (element as input, the caller's input as parent) in first-seen order, each holding the list of the elements with that key in list order; nothing when l is not a list or f gives something that is not a string on some element"
//@@ body-start
        broadcast use group_json_names, super::cl::group_clone_is_copy, axiom_default_vec;
        let ghost ctx = *value;
//@@ loop 1 iter it
                            invariant
                                ctx == *value, it.seq() == list@, 0 <= it.index@ <= list@.len(),
                                arg(self.0@, value, 0) == Some(JsonValue::Array(list)),
                                gb_from(self.0@, ctx, list@, it.index@, groups_view(groups.entries())) == gb_from(self.0@, ctx, list@, 0, Seq::empty()),
//@@ before-loop 1
                        proof { assert(groups_view(groups.entries()) =~= Seq::<(String, Seq<JsonValue>)>::empty()); }
//@@ loop-start 1
                            broadcast use group_json_names, super::cl::group_clone_is_copy, axiom_default_vec, axiom_im_distinct;
                            let ghost e0 = groups.entries();
                            proof { assert(groups.distinct()); assert(list@[it.index@] == item); }
//@@ before "return None;"
                                proof { assert(gb_from(self.0@, ctx, list@, it.index@, groups_view(e0)) is None); }
//@@ before "let values = groups.entry(key)"
                            let ghost k0 = key;
//@@ after "values.push(item);"
                            proof {
                                let e2 = groups.entries();
                                let nv = if im_has(e0, k0) { e2[im_idx(e0, k0)].1 } else { e2.last().1 };
                                lemma_group_insert(e0, e2, k0, nv, item);
                            }
//@@ after-loop 1
                        proof { assert(groups_view(groups.entries()) =~= gb_from(self.0@, ctx, list@, 0, Seq::empty())->0); }
//@@ endfn
}
}

// ---- the object functional four: map_values, map_keys, filter_values, filter_keys (src/functions/object/functional) ----
impl vstd::std_specs::convert::FromSpecImpl<bool> for JsonValue {
    open spec fn obeys_from_spec() -> bool { true }
    open spec fn from_spec(v: bool) -> Self { JsonValue::Boolean(v) }
}
impl From<bool> for JsonValue {
//@@ fn jv.from_bool = src/json_value.rs :: impl From<bool> for JsonValue :: fn from
//@@ safety C04
//@@ post from "the conversion of a bool is the JSON boolean with that value"
//@@ endfn
}
impl vstd::std_specs::convert::FromSpecImpl<&String> for JsonValue {
    open spec fn obeys_from_spec() -> bool { true }
    open spec fn from_spec(v: &String) -> Self { JsonValue::String(*v) }
}
impl From<&String> for JsonValue {
//@@ fn jv.from_string_ref = src/json_value.rs :: impl From<&String> for JsonValue :: fn from
//@@ safety C04
//@@ post from "a &String converts to the JSON string with that text"
//@@ body-start
        broadcast use cl::group_clone_is_copy;
//@@ endfn
}
pub mod f_map_values {
use super::*;
//@@ item src/functions/object/functional/map_values.rs :: fn get :: struct Impl
//@@ rewrite pub_tuple pub_struct
//@@ enditem
pub open spec fn with_value(k: String, o: Option<JsonValue>) -> Option<(String, JsonValue)> { match o { Some(v) => Some((k, v)), None => None } }
impl Get for Impl {
    open spec fn get_spec(&self, value: &Context) -> Option<JsonValue> {
        match arg(self.0@, value, 0) {
            Some(JsonValue::Object(m)) => Some(json_object(vitm::im_from(vitc::filter_map_spec(m.entries(), |kv: (String, JsonValue)| with_value(kv.0, arg(self.0@, &ctx_with_input(*value, kv.1), 1)))))),
            _ => None,
        }
    }
//@@ fn f.map_values = src/functions/object/functional/map_values.rs :: fn get :: impl Get for Impl :: fn get
//@@ safety C04 C12 C05
//@@ rewrite entries_filter_map tuple_param_owned collect_indexmap option_map_pair
//@@ post doc "(map_values o f) is the object whose members are, in member order, k: f(v) for every member k: v of o (value as input, the caller's input as parent), members on which f gives nothing left out; nothing for a non-object"
//@@ body-start
        broadcast use group_json_names;
//@@ insert-after ".filter_map(|(k, v)|"
 -> (o: Option<(String, JsonValue)>)
                                ensures o == with_value(kv__.0, arg(self.0@, &ctx_with_input(*value, kv__.1), 1)),
//@@ insert-after ".filter_map(|(k, v)| {"
 let (k, v) = kv__;
//@@ endfn
}
}
pub mod f_map_keys {
use super::*;
//@@ item src/functions/object/functional/map_keys.rs :: fn get :: struct Impl
//@@ rewrite pub_tuple pub_struct
//@@ enditem
pub open spec fn with_key(o: Option<JsonValue>, v: JsonValue) -> Option<(String, JsonValue)> { match o { Some(JsonValue::String(k)) => Some((k, v)), _ => None } }
impl Get for Impl {
    open spec fn get_spec(&self, value: &Context) -> Option<JsonValue> {
        match arg(self.0@, value, 0) {
            Some(JsonValue::Object(m)) => Some(json_object(vitm::im_from(vitc::filter_map_spec(m.entries(), |kv: (String, JsonValue)| with_key(arg(self.0@, &ctx_with_input(*value, JsonValue::String(kv.0)), 1), kv.1))))),
            _ => None,
        }
    }
//@@ fn f.map_keys = src/functions/object/functional/map_keys.rs :: fn get :: impl Get for Impl :: fn get
//@@ safety C04 C12 C05
//@@ rewrite entries_filter_map tuple_param_owned collect_indexmap
//@@ post doc "(map_keys o f) is the object built by inserting, in member order, f(k): v for every member k: v of o (the key as a string as input, the caller's input as parent); members on which f gives nothing or a non-string are left out, and a key produced twice keeps its first position and takes the last value; nothing for a non-object"
//@@ body-start
        broadcast use group_json_names;
//@@ insert-after ".filter_map(|(k, v)|"
 -> (o: Option<(String, JsonValue)>)
                                ensures o == with_key(arg(self.0@, &ctx_with_input(*value, JsonValue::String(kv__.0)), 1), kv__.1),
//@@ insert-after ".filter_map(|(k, v)| {"
 let (k, v) = kv__;
//@@ endfn
}
}
pub mod f_filter_values {
use super::*;
//@@ item src/functions/object/functional/filter_values.rs :: fn get :: struct Impl
//@@ rewrite pub_tuple pub_struct
//@@ enditem
impl Get for Impl {
    open spec fn get_spec(&self, value: &Context) -> Option<JsonValue> {
        match arg(self.0@, value, 0) {
            Some(JsonValue::Object(m)) => Some(json_object(vitm::im_from(m.entries().filter(|kv: (String, JsonValue)| arg(self.0@, &ctx_with_input(*value, kv.1), 1) == Some(JsonValue::Boolean(true)))))),
            _ => None,
        }
    }
//@@ fn f.filter_values = src/functions/object/functional/filter_values.rs :: fn get :: impl Get for Impl :: fn get
//@@ safety C04 C12 C05
//@@ rewrite entries_filter tuple_param_ref collect_indexmap
//@@ post doc "(filter_values o f) is the object with the members of o, in member order, on whose value f (value as input, the caller's input as parent) gives exactly true; nothing for a non-object"
//@@ body-start
        broadcast use group_json_names, super::cl::group_clone_is_copy, group_json_eq;
//@@ insert-after ".filter(|(_, v)|"
 -> (o: bool)
                                ensures o == (arg(self.0@, &ctx_with_input(*value, kv__.1), 1) == Some(JsonValue::Boolean(true))),
//@@ insert-after ".filter(|(_, v)| {"
 let v = &kv__.1;
//@@ endfn
}
}
pub mod f_filter_keys {
use super::*;
//@@ item src/functions/object/functional/filter_keys.rs :: fn get :: struct Impl
//@@ rewrite pub_tuple pub_struct
//@@ enditem
impl Get for Impl {
    open spec fn get_spec(&self, value: &Context) -> Option<JsonValue> {
        match arg(self.0@, value, 0) {
            Some(JsonValue::Object(m)) => Some(json_object(vitm::im_from(m.entries().filter(|kv: (String, JsonValue)| arg(self.0@, &ctx_with_input(*value, JsonValue::String(kv.0)), 1) == Some(JsonValue::Boolean(true)))))),
            _ => None,
        }
    }
//@@ fn f.filter_keys = src/functions/object/functional/filter_keys.rs :: fn get :: impl Get for Impl :: fn get
//@@ safety C04 C12 C05
//@@ rewrite entries_filter tuple_param_ref collect_indexmap
//@@ post doc "(filter_keys o f) is the object with the members of o, in member order, on whose key (as a string) f (key as input, the caller's input as parent) gives exactly true; nothing for a non-object"
//@@ body-start
        broadcast use group_json_names, super::cl::group_clone_is_copy, group_json_eq;
//@@ insert-after ".filter(|(k, _)|"
 -> (o: bool)
                                ensures o == (arg(self.0@, &ctx_with_input(*value, JsonValue::String(kv__.0)), 1) == Some(JsonValue::Boolean(true))),
//@@ insert-after ".filter(|(k, _)| {"
 let k = &kv__.0;
//@@ endfn
}
}

// ---- extractors  .key  #index  ^ (src/extractor.rs): the path applied to the input, or to the n-th enclosing input ----
//@@ item src/extractor.rs :: enum SingleExtract
//@@ rewrite pub_struct
//@@ enditem
//@@ item src/extractor.rs :: enum ExtractFromInput
//@@ rewrite pub_struct
//@@ enditem
//@@ item src/extractor.rs :: struct Extract
//@@ rewrite pub_struct pub_fields
//@@ enditem
pub open spec fn step_spec(e: SingleExtract, v: JsonValue) -> Option<JsonValue> {
    match (v, e) {
        (JsonValue::Array(l), SingleExtract::ByIndex(i)) => if i < l@.len() { Some(l@[i as int]) } else { None },
        (JsonValue::Object(m), SingleExtract::ByKey(k)) => if m.has(k) { Some(m.entries()[im_idx(m.entries(), k)].1) } else { None },
        _ => None,
    }
}
pub open spec fn path_from(es: Seq<SingleExtract>, i: int, v: Option<JsonValue>) -> Option<JsonValue>
    decreases es.len() - i
{
    if i < 0 || i >= es.len() { v } else { match v { None => None, Some(x) => path_from(es, i + 1, step_spec(es[i], x)) } }
}
pub open spec fn extract_spec(e: ExtractFromInput, input: JsonValue) -> Option<JsonValue> {
    match e { ExtractFromInput::Root => Some(input), ExtractFromInput::Element(es) => path_from(es@, 0, Some(input)) }
}
// ^^..: the n-th enclosing input; beyond the outermost one it is the current input (src/processor.rs: parent_input)
pub open spec fn nth_input(c: &Context, n: usize) -> JsonValue {
    if n == 0 || n > c.parents().len() { c.inp() } else { c.parents()[n - 1] }
}
impl SingleExtract {
//@@ fn extract.step = src/extractor.rs :: impl SingleExtract :: fn extract
//@@ safety C04 C05
//@@ ret r
//@@ header
        ensures r == step_spec(*self, *value), // @obl FUN.extract.step : C04
//@@ body-start
        broadcast use cl::group_clone_is_copy;
//@@ endfn
}
impl ExtractFromInput {
//@@ fn extract.path = src/extractor.rs :: impl ExtractFromInput :: fn extract
//@@ safety C04 C05
//@@ ret r
//@@ header
        ensures r == extract_spec(*self, *input), // @obl FUN.extract.path : C04 C12
//@@ body-start
        broadcast use cl::group_clone_is_copy;
//@@ loop 1 iter it
                    invariant_except_break
                        path_from(es@, it.index@, val) == path_from(es@, 0, Some(*input)),
                    invariant
                        it.seq().len() == es@.len(), 0 <= it.index@ <= es@.len(),
                        forall|j: int| 0 <= j < it.seq().len() ==> *(#[trigger] it.seq()[j]) == es@[j],
                    ensures val == path_from(es@, 0, Some(*input)),
//@@ endfn
}
impl Get for Extract {
    open spec fn get_spec(&self, value: &Context) -> Option<JsonValue> { extract_spec(self.extract_from_input, nth_input(value, self.number_of_parents)) }
//@@ fn extract.get = src/extractor.rs :: impl Get for Extract :: fn get
//@@ safety C04 C12 C05
//@@ post doc ".a#1 / ^.a: the key / index path applied to the current input, or for n carets to the n-th enclosing input (the current input when there are fewer); nothing when a step does not apply"
//@@ endfn
}

// ---- :name / @name as written in an expression (src/variables_extractor.rs) ----
pub mod varx {
use super::*;
//@@ item src/variables_extractor.rs :: enum Type
//@@ rewrite pub_struct
//@@ enditem
//@@ item src/variables_extractor.rs :: struct VariableExtructor
//@@ rewrite pub_struct pub_fields
//@@ enditem
impl Get for VariableExtructor {
    open spec fn get_spec(&self, value: &Context) -> Option<JsonValue> {
        match self.variable_type {
            Type::Variable => if value.vars().contains_key(self.name) { Some(value.vars()[self.name]) } else { None },
            Type::Macro => if value.defs().contains_key(self.name) { value.defs()[self.name].get_spec(value) } else { None },
        }
    }
//@@ fn varx.get = src/variables_extractor.rs :: impl Get for VariableExtructor :: fn get
//@@ safety C12 C04 C13
//@@ post lookup ":n is the value bound to n, @n the macro bound to n evaluated on the CURRENT context (same input, parents and bindings); nothing when unbound"
//@@ body-start
        broadcast use cl::group_clone_is_copy;
//@@ insert-after ".and_then(|f"
 : &Rc<dyn Get>
//@@ insert-after ".and_then(|f|"
 -> (o: Option<JsonValue>) ensures o == f.get_spec(value), {
//@@ insert-after "f.get(value)"
 }
//@@ endfn
}
}

// ---- the input-context selectors &index &index-in-file &file-name &started-at-.. &ended-at-.. (C17) ----
pub mod icx {
use super::*;
//@@ item src/input_context_extractor.rs :: enum Type
//@@ rewrite pub_struct
//@@ enditem
//@@ item src/input_context_extractor.rs :: struct InputContextExtractor
//@@ rewrite pub_struct pub_fields
//@@ enditem
pub open spec fn jn(n: int) -> JsonValue { JsonValue::Number(NumberValue::Positive(n as u64)) }
impl Get for InputContextExtractor {
    open spec fn get_spec(&self, value: &Context) -> Option<JsonValue> {
        match value.ictx() {
            None => None,
            Some(c) => match self.extration {
                Type::Index => Some(jn(c.index as int)),
                Type::IndexInFile => Some(jn(c.file_index as int)),
                Type::StartedAtLineNumber => Some(jn(c.start_location.line_number as int)),
                Type::EndsAtLineNumber => Some(jn(c.end_location.line_number as int)),
                Type::StartedAtCharNumber => Some(jn(c.start_location.char_number as int)),
                Type::EndAtCharNumber => Some(jn(c.end_location.char_number as int)),
                Type::FileName => match c.start_location.input { Some(name) => Some(JsonValue::String(name)), None => None },
            },
        }
    }
//@@ fn icx.get = src/input_context_extractor.rs :: impl Get for InputContextExtractor :: fn get
//@@ safety C17 C04
//@@ post exact "each &-selector returns exactly the corresponding field of the value's input context (index, index in file, start/end line and column, file name); nothing when the value has no input context or no file name"
//@@ body-start
        broadcast use cl::group_clone_is_copy;
//@@ insert-after ".map(|str"
 : &String
//@@ insert-after ".map(|str|"
 -> (o: JsonValue) ensures o == JsonValue::String(*str), {
//@@ insert-after "str.clone().into()"
 }
//@@ endfn
}
}

} // verus!
fn main() {}
