#![feature(allocator_api)]
// Unit STAGE: every `impl Process` of the pipeline against the protocol contract (P1)-(P4) of DESIGN §4.3
use vstd::prelude::*;
use std::rc::Rc;
use std::collections::HashMap;
use std::collections::HashSet;

verus! {

pub mod jt {
use vstd::prelude::*;
use std::rc::Rc;
//@@ include prelude/indexmap.rs
//@@ include prelude/json_types.rs
//@@ include prelude/clone_specs.rs
}
use jt::*;
//@@ include lemmas/ctx_spec.rs
//@@ include prelude/ctx_opaque.rs
//@@ include prelude/process.rs

// src/processor.rs: enum ContextKey / Context::key — opaque here; Hash/Eq coherence is C10.coh (Kani V3 + known findings)
#[verifier::external_body]
pub struct ContextKey { _p: () }
// trusted stand-ins for #[derive(PartialEq, Eq, Hash)] on ContextKey; that they AGREE (a == b ==> same hash) is C10.coh:
// proved for numbers by Kani V3, assumed for strings/arrays, false for permuted objects and -0 (known findings)
impl PartialEq for ContextKey { #[verifier::external_body] fn eq(&self, other: &Self) -> bool { unimplemented!() } }
impl Eq for ContextKey {}
impl std::hash::Hash for ContextKey { #[verifier::external_body] fn hash<H: std::hash::Hasher>(&self, state: &mut H) { unimplemented!() } }
pub mod keymodel {
use vstd::prelude::*;
use super::ContextKey;
pub broadcast axiom fn axiom_context_key_model()
    ensures #[trigger] vstd::std_specs::hash::obeys_key_model::<ContextKey>();
}
pub uninterp spec fn ctx_key(c: Context) -> ContextKey;
impl Context {
//@@ fn ctxo.key = src/processor.rs :: impl Context :: fn key
//@@ ret r
//@@ assume
//@@ header
        ensures r == ctx_key(*self),
//@@ endfn
}

pub mod rows {
use vstd::prelude::*;
use std::rc::Rc;
use super::*;
//@@ include lemmas/rows.rs
}
use rows::*;
broadcast use {rows::group_rows, prefix_lemmas::group_prefix, jt::group_json_eq, vstd::std_specs::hash::group_hash_axioms, keymodel::axiom_context_key_model};

// ------------------------------------------------------------------ src/limits.rs
//@@ item src/limits.rs :: struct Limiter
//@@ enditem

impl Limiter {
    pub closed spec fn skip_left(&self) -> nat { (self.skip - self.skipped) as nat }
    pub closed spec fn take_left(&self) -> Option<nat> { match self.limit { Some(l) => Some((l - self.passed) as nat), None => None } }
    pub closed spec fn next_of(&self) -> &Box<dyn Process> { &self.next }

//@@ fn limiter.create_process = src/limits.rs :: impl Limiter :: fn create_process
//@@ safety C08 C03
//@@ ret r
//@@ header
    requires next.inv(),
    ensures r.inv(), r.log() == next.log(),
        // --skip S --take T is the window S..S+T-1 of whatever reaches it
        forall|rows: Seq<Context>| #[trigger] r.fut(rows) == next.fut(window(skip as nat, match limit { Some(l) => Some(l as nat), None => None }, rows)), // @obl STAGE.limiter.ctor.window : C08 C03
        limit != Some(0u64) && !next.must_break() ==> !r.must_break(), // @obl STAGE.limiter.ctor.fresh : C14
//@@ endfn
}

impl Process for Limiter {
    closed spec fn inv(&self) -> bool { self.skipped <= self.skip && self.next.inv() && (self.limit matches Some(l) ==> self.passed <= l) }
    closed spec fn log(&self) -> Seq<u8> { self.next.log() }
    closed spec fn fut(&self, rows: Seq<Context>) -> Seq<u8> { self.next.fut(window(self.skip_left(), self.take_left(), rows)) }
    closed spec fn must_break(&self) -> bool { match self.limit { Some(l) => self.passed >= l, None => self.next.must_break() } }
    closed spec fn eager(&self) -> bool { false }

//@@ fn limiter.complete = src/limits.rs :: impl Process for Limiter :: fn complete
//@@ safety C08 C09 C03
//@@ endfn
//@@ fn limiter.process = src/limits.rs :: impl Process for Limiter :: fn process
//@@ safety C08 C14 C03 C05
//@@ endfn
//@@ fn limiter.start = src/limits.rs :: impl Process for Limiter :: fn start
//@@ safety C03
//@@ endfn
}

// ------------------------------------------------------------------ src/filter.rs
//@@ item src/filter.rs :: struct ActiveFilter
//@@ enditem
//@@ item src/filter.rs :: struct Filter
//@@ enditem

impl Filter {
    pub closed spec fn g(&self) -> Rc<dyn Get> { self.filter }
//@@ fn filter.create_process = src/filter.rs :: impl Filter :: fn create_process
//@@ safety C03
//@@ ret r
//@@ header
    requires next.inv(),
    ensures r.inv(), r.log() == next.log(), r.must_break() == next.must_break(),
        forall|rows: Seq<Context>| #[trigger] r.fut(rows) == next.fut(filter_rows(self.g(), rows)), // @obl STAGE.filter.ctor : C03 C11
//@@ endfn
}

impl Process for ActiveFilter {
    closed spec fn inv(&self) -> bool { self.next.inv() }
    closed spec fn log(&self) -> Seq<u8> { self.next.log() }
    closed spec fn fut(&self, rows: Seq<Context>) -> Seq<u8> { self.next.fut(filter_rows(self.filter, rows)) }
    closed spec fn must_break(&self) -> bool { self.next.must_break() }
    closed spec fn eager(&self) -> bool { false }

//@@ fn filter.complete = src/filter.rs :: impl Process for ActiveFilter :: fn complete
//@@ safety C03 C16
//@@ endfn
//@@ fn filter.start = src/filter.rs :: impl Process for ActiveFilter :: fn start
//@@ safety C03
//@@ rewrite crate_paths
//@@ endfn
//@@ fn filter.process = src/filter.rs :: impl Process for ActiveFilter :: fn process
//@@ safety C03 C14 C16 C11
//@@ rewrite crate_paths
//@@ endfn
}

// ------------------------------------------------------------------ src/selection.rs
//@@ item src/selection.rs :: struct SelectionProcess
//@@ enditem
//@@ item src/selection.rs :: struct Selection
//@@ enditem

impl Selection {
    pub closed spec fn g(&self) -> Rc<dyn Get> { self.getter }
    pub closed spec fn title(&self) -> String { *self.name }
//@@ fn selection.create_process = src/selection.rs :: impl Selection :: fn create_process
//@@ safety C03
//@@ ret r
//@@ header
    requires next.inv(),
    ensures r.inv(), r.log() == next.log(), r.must_break() == next.must_break(),
        forall|rows: Seq<Context>| #[trigger] r.fut(rows) == next.fut(select_rows(self.g(), self.title(), rows)), // @obl STAGE.selection.ctor : C03 C11
//@@ endfn
}

impl Process for SelectionProcess {
    closed spec fn inv(&self) -> bool { self.next.inv() }
    closed spec fn log(&self) -> Seq<u8> { self.next.log() }
    closed spec fn fut(&self, rows: Seq<Context>) -> Seq<u8> { self.next.fut(select_rows(self.getter, *self.name, rows)) }
    closed spec fn must_break(&self) -> bool { self.next.must_break() }
    closed spec fn eager(&self) -> bool { false }

//@@ fn selection.start = src/selection.rs :: impl Process for SelectionProcess :: fn start
//@@ safety C03
//@@ endfn
//@@ fn selection.complete = src/selection.rs :: impl Process for SelectionProcess :: fn complete
//@@ safety C03 C16
//@@ endfn
//@@ fn selection.process = src/selection.rs :: impl Process for SelectionProcess :: fn process
//@@ safety C03 C14 C16 C11 C12
//@@ endfn
}

// ------------------------------------------------------------------ src/pre_sets.rs
//@@ item src/pre_sets.rs :: struct PreSetProcessor
//@@ enditem

impl Process for PreSetProcessor {
    closed spec fn inv(&self) -> bool { self.next.inv() }
    closed spec fn log(&self) -> Seq<u8> { self.next.log() }
    closed spec fn fut(&self, rows: Seq<Context>) -> Seq<u8> { self.next.fut(preset_rows(self.variables@, self.macros@, rows)) }
    closed spec fn must_break(&self) -> bool { self.next.must_break() }
    closed spec fn eager(&self) -> bool { false }

//@@ fn preset.complete = src/pre_sets.rs :: impl Process for PreSetProcessor :: fn complete
//@@ safety C03 C16
//@@ endfn
//@@ fn preset.process = src/pre_sets.rs :: impl Process for PreSetProcessor :: fn process
//@@ safety C03 C14 C16 C11 C12
//@@ endfn
//@@ fn preset.start = src/pre_sets.rs :: impl Process for PreSetProcessor :: fn start
//@@ safety C03
//@@ endfn
}

// ------------------------------------------------------------------ src/splitter.rs
//@@ item src/splitter.rs :: struct SplitterProcess
//@@ enditem
//@@ item src/splitter.rs :: struct Splitter
//@@ enditem

impl Splitter {
    pub closed spec fn g(&self) -> Rc<dyn Get> { self.split_by }
//@@ fn splitter.create_process = src/splitter.rs :: impl Splitter :: fn create_process
//@@ safety C03
//@@ ret r
//@@ header
    requires next.inv(),
    ensures r.inv(), r.log() == next.log(), r.must_break() == next.must_break(),
        forall|rows: Seq<Context>| #[trigger] r.fut(rows) == next.fut(split_rows(self.g(), rows)), // @obl STAGE.splitter.ctor : C03 C11
//@@ endfn
}

impl Process for SplitterProcess {
    closed spec fn inv(&self) -> bool { self.next.inv() }
    closed spec fn log(&self) -> Seq<u8> { self.next.log() }
    closed spec fn fut(&self, rows: Seq<Context>) -> Seq<u8> { self.next.fut(split_rows(self.split_by, rows)) }
    closed spec fn must_break(&self) -> bool { self.next.must_break() }
    closed spec fn eager(&self) -> bool { false }

//@@ fn splitter.complete = src/splitter.rs :: impl Process for SplitterProcess :: fn complete
//@@ safety C03 C16
//@@ endfn
//@@ fn splitter.process = src/splitter.rs :: impl Process for SplitterProcess :: fn process
//@@ safety C03 C14 C16 C11 C12 C05
//@@ loop 1 iter it
                invariant
                    self.next.inv(), self.split_by == old(self).split_by,
                    0 <= it.index@ <= it.seq().len(), it.seq() == lst@,
                    old(self).split_by.get_spec(&context) == Some(JsonValue::Array(lst)),
                    is_prefix(old(self).next.log(), self.next.log()),
                    // the successor has been handed exactly the rows of the first it.index elements: what it will still
                    // print for the remaining elements followed by x is what the old successor would print for all of them
                    forall|x: Seq<Context>| self.next.log().add(#[trigger] self.next.fut(elems_rows(context, lst@.subrange(it.index@, lst@.len() as int)).add(x)))
                        == old(self).next.log().add(old(self).next.fut(elems_rows(context, lst@).add(x))),
                    old(self).next.must_break() || !self.next.must_break(),
//@@ after-loop 1
            proof {
                let e = elems_rows(context, lst@.subrange(lst@.len() as int, lst@.len() as int));
                assert(e =~= Seq::<Context>::empty());
                assert forall|x: Seq<Context>| self.next.log().add(#[trigger] self.next.fut(x)) == old(self).next.log().add(old(self).next.fut(elems_rows(context, lst@).add(x))) by {
                    assert(e.add(x) =~= x);
                }
            }
//@@ before "for val in lst {"
            proof { assert(lst@.subrange(0, lst@.len() as int) =~= lst@); }
//@@ before "return Ok(ProcessDesision::Break);"
                    proof {
                        // the successor said Break: whatever follows cannot change its output any more (P2.done),
                        // so dropping the remaining elements and all later rows is invisible
                        let e1 = elems_rows(c0, lst@.subrange(it.index@ + 1, lst@.len() as int));
                        assert forall|x: Seq<Context>| self.next.log().add(#[trigger] self.next.fut(x)) == old(self).next.log().add(old(self).next.fut(elems_rows(c0, lst@).add(x))) by {
                            assert(self.next.fut(e1.add(x)) == self.next.fut(Seq::empty()));
                            assert(self.next.fut(x) == self.next.fut(Seq::empty()));
                        }
                    }
//@@ before "let context = context.with_inupt(val);"
                let ghost c0 = context;
                proof {
                    let rest = lst@.subrange(it.index@, lst@.len() as int);
                    let rest1 = lst@.subrange(it.index@ + 1, lst@.len() as int);
                    assert(rest.subrange(1, rest.len() as int) =~= rest1);
                    assert(rest[0] == val);
                    assert(elems_rows(context, rest) == seq![ctx_with_input(context, val)].add(elems_rows(context, rest1)));
                    assert forall|x: Seq<Context>| seq![ctx_with_input(context, val)].add(#[trigger] elems_rows(context, rest1).add(x)) == elems_rows(context, rest).add(x) by {
                        assert(seq![ctx_with_input(context, val)].add(elems_rows(context, rest1).add(x)) =~= seq![ctx_with_input(context, val)].add(elems_rows(context, rest1)).add(x));
                    }
                }
//@@ endfn
//@@ fn splitter.start = src/splitter.rs :: impl Process for SplitterProcess :: fn start
//@@ safety C03
//@@ endfn
}

// ------------------------------------------------------------------ src/duplication_remover.rs
pub mod duplication_remover {
use vstd::prelude::*;
use super::*;
pub type Result<T> = ProcessResult<T>;
broadcast use {super::rows::group_rows, super::prefix_lemmas::group_prefix, vstd::std_specs::hash::group_hash_axioms, super::keymodel::axiom_context_key_model};
//@@ item src/duplication_remover.rs :: struct Uniquness
//@@ enditem

impl Uniquness {
//@@ fn uniq.create_process = src/duplication_remover.rs :: impl Uniquness :: fn create_process
//@@ safety C03 C10
//@@ ret r
//@@ header
    requires next.inv(),
    ensures r.inv(), r.log() == next.log(), r.must_break() == next.must_break(),
        forall|rows: Seq<Context>| #[trigger] r.fut(rows) == next.fut(uniq_rows(Set::empty(), rows)), // @obl STAGE.uniq.ctor : C03 C10
//@@ endfn
}

impl Process for Uniquness {
    closed spec fn inv(&self) -> bool { self.next.inv() }
    closed spec fn log(&self) -> Seq<u8> { self.next.log() }
    closed spec fn fut(&self, rows: Seq<Context>) -> Seq<u8> { self.next.fut(uniq_rows(self.knwon_lines@, rows)) }
    closed spec fn must_break(&self) -> bool { self.next.must_break() }
    closed spec fn eager(&self) -> bool { false }

//@@ fn uniq.complete = src/duplication_remover.rs :: impl Process for Uniquness :: fn complete
//@@ safety C03 C16 C10
//@@ endfn
//@@ fn uniq.start = src/duplication_remover.rs :: impl Process for Uniquness :: fn start
//@@ safety C03
//@@ endfn
//@@ fn uniq.process = src/duplication_remover.rs :: impl Process for Uniquness :: fn process
//@@ safety C03 C10 C14 C16
//@@ before "Ok(ProcessDesision::Continue)"
            proof { assert(old(self).knwon_lines@.insert(ctx_key(context)) =~= old(self).knwon_lines@); }
//@@ endfn
}
}

} // verus!
fn main() {}
