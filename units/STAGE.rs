#![feature(allocator_api)]
// Unit STAGE: every `impl Process` of the pipeline against the protocol contract (P1)-(P4) of DESIGN §4.3
use vstd::prelude::*;
use std::rc::Rc;
use std::collections::HashMap;
use std::collections::HashSet;

verus! {

pub mod jt {
use vstd::prelude::*;
use std::rc::Rc;
//@@ include prelude/indexmap.rs
//@@ include prelude/json_types.rs
//@@ include prelude/clone_specs.rs
}
use jt::*;
//@@ include lemmas/ctx_spec.rs
//@@ include prelude/ctx_opaque.rs
//@@ include prelude/process.rs

// src/processor.rs: enum ContextKey / Context::key — opaque here; Hash/Eq coherence is C10.coh (Kani V3 + known findings)
#[verifier::external_body]
pub struct ContextKey { _p: () }
pub uninterp spec fn ctx_key(c: Context) -> ContextKey;
impl Context {
//@@ fn ctxo.key = src/processor.rs :: impl Context :: fn key
//@@ ret r
//@@ assume
//@@ header
        ensures r == ctx_key(*self),
//@@ endfn
}

pub mod rows {
use vstd::prelude::*;
use std::rc::Rc;
use super::*;
//@@ include lemmas/rows.rs
}
use rows::*;
broadcast use rows::group_rows;

// ------------------------------------------------------------------ src/limits.rs
//@@ item src/limits.rs :: struct Limiter
//@@ enditem

impl Limiter {
    pub closed spec fn skip_left(&self) -> nat { (self.skip - self.skipped) as nat }
    pub closed spec fn take_left(&self) -> Option<nat> { match self.limit { Some(l) => Some((l - self.passed) as nat), None => None } }
    pub closed spec fn next_of(&self) -> &Box<dyn Process> { &self.next }

//@@ fn limiter.create_process = src/limits.rs :: impl Limiter :: fn create_process
//@@ safety C08 C03
//@@ ret r
//@@ header
    requires next.inv(),
    ensures r.inv(), r.log() == next.log(),
        // --skip S --take T is the window S..S+T-1 of whatever reaches it
        forall|rows: Seq<Context>| #[trigger] r.fut(rows) == next.fut(window(skip as nat, match limit { Some(l) => Some(l as nat), None => None }, rows)), // @obl STAGE.limiter.ctor.window : C08 C03
        limit != Some(0u64) && !next.must_break() ==> !r.must_break(), // @obl STAGE.limiter.ctor.fresh : C14
//@@ endfn
}

impl Process for Limiter {
    closed spec fn inv(&self) -> bool { self.skipped <= self.skip && self.next.inv() && (self.limit matches Some(l) ==> self.passed <= l) }
    closed spec fn log(&self) -> Seq<u8> { self.next.log() }
    closed spec fn fut(&self, rows: Seq<Context>) -> Seq<u8> { self.next.fut(window(self.skip_left(), self.take_left(), rows)) }
    closed spec fn must_break(&self) -> bool { match self.limit { Some(l) => self.passed >= l, None => self.next.must_break() } }
    closed spec fn eager(&self) -> bool { false }

//@@ fn limiter.complete = src/limits.rs :: impl Process for Limiter :: fn complete
//@@ safety C08 C09 C03
//@@ endfn
//@@ fn limiter.process = src/limits.rs :: impl Process for Limiter :: fn process
//@@ safety C08 C14 C03 C05
//@@ endfn
//@@ fn limiter.start = src/limits.rs :: impl Process for Limiter :: fn start
//@@ safety C03
//@@ endfn
}

} // verus!
fn main() {}
