#![feature(allocator_api)]
// Unit STAGE: every `impl Process` of the pipeline against the protocol contract (P1)-(P4) of DESIGN §4.3
use vstd::prelude::*;
use std::rc::Rc;
use vstd::std_specs::iter::IteratorSpec;
use std::collections::HashMap;
use std::collections::HashSet;

verus! {

pub mod jt {
use vstd::prelude::*;
use std::rc::Rc;
use vstd::std_specs::iter::IteratorSpec;
//@@ include prelude/indexmap.rs
//@@ include prelude/json_types.rs
//@@ include prelude/clone_specs.rs
}
use jt::*;
pub mod bt {
use vstd::prelude::*;
use vstd::std_specs::iter::IteratorSpec;
use super::jt::default_of;
//@@ include prelude/btreemap.rs
}
use bt::*;
pub mod cl {
use vstd::prelude::*;
use std::rc::Rc;
use super::jt::*;
//@@ include prelude/clone_axioms.rs
}
//@@ include lemmas/ctx_spec.rs
//@@ include prelude/ctx_opaque.rs
//@@ include prelude/process.rs

// src/processor.rs: enum ContextKey / Context::key — opaque here; Hash/Eq coherence is C10.coh (Kani V3 + known findings)
#[verifier::external_body]
pub struct ContextKey { _p: () }
// trusted stand-ins for #[derive(PartialEq, Eq, Hash)] on ContextKey; that they AGREE (a == b ==> same hash) is C10.coh:
// proved for numbers by Kani V3, assumed for strings/arrays, false for permuted objects and -0 (known findings)
impl PartialEq for ContextKey { #[verifier::external_body] fn eq(&self, other: &Self) -> bool { unimplemented!() } }
impl Eq for ContextKey {}
impl std::hash::Hash for ContextKey { #[verifier::external_body] fn hash<H: std::hash::Hasher>(&self, state: &mut H) { unimplemented!() } }
pub mod keymodel {
use vstd::prelude::*;
use super::ContextKey;
pub broadcast axiom fn axiom_context_key_model()
    ensures #[trigger] vstd::std_specs::hash::obeys_key_model::<ContextKey>();
}
pub uninterp spec fn ctx_key(c: Context) -> ContextKey;
impl Context {
//@@ fn ctxo.key = src/processor.rs :: impl Context :: fn key
//@@ ret r
//@@ assume
//@@ header
        ensures r == ctx_key(*self),
//@@ endfn
}

pub mod rows {
use vstd::prelude::*;
use std::rc::Rc;
use vstd::std_specs::iter::IteratorSpec;
use super::*;
//@@ include lemmas/rows.rs
}
use rows::*;
pub mod sortspec {
use vstd::prelude::*;
use std::rc::Rc;
use std::collections::VecDeque;
use super::*;
//@@ include lemmas/sort.rs
}
use sortspec::*;
broadcast use {rows::group_rows, prefix_lemmas::group_prefix, jt::group_json_eq, jt::group_json_names, cl::group_clone_is_copy, jt::axiom_default_vec, jt::axiom_im_distinct, bt::axiom_default_vecdeque, bt::axiom_bt_occupied_resolved, vstd::std_specs::hash::group_hash_axioms, keymodel::axiom_context_key_model};

// ------------------------------------------------------------------ src/limits.rs
//@@ item src/limits.rs :: struct Limiter
//@@ enditem

impl Limiter {
    pub closed spec fn skip_left(&self) -> nat { (self.skip - self.skipped) as nat }
    pub closed spec fn take_left(&self) -> Option<nat> { match self.limit { Some(l) => Some((l - self.passed) as nat), None => None } }
    pub closed spec fn next_of(&self) -> &Box<dyn Process> { &self.next }

//@@ fn limiter.create_process = src/limits.rs :: impl Limiter :: fn create_process
//@@ safety C08 C03 C14
//@@ ret r
//@@ header-from specs/stage/limiter.create_process.spec
//@@ endfn
}

impl Process for Limiter {
    closed spec fn inv(&self) -> bool { self.skipped <= self.skip && self.next.inv() && (self.limit matches Some(l) ==> self.passed <= l) }
    closed spec fn log(&self) -> Seq<char> { self.next.log() }
    closed spec fn fut(&self, rows: Seq<Context>) -> Seq<char> { self.next.fut(window(self.skip_left(), self.take_left(), rows)) }
    closed spec fn must_break(&self) -> bool { match self.limit { Some(l) => self.passed >= l, None => self.next.must_break() } }
    closed spec fn eager(&self) -> bool { false }
    closed spec fn rejects(&self, titles: Seq<String>) -> bool { self.next.rejects(titles) }
    closed spec fn header(&self, titles: Seq<String>) -> Seq<char> { self.next.header(titles) }
    closed spec fn sfut(&self, titles: Seq<String>, rows: Seq<Context>) -> Seq<char> { self.next.sfut(titles, window(self.skip_left(), self.take_left(), rows)) }

//@@ fn limiter.complete = src/limits.rs :: impl Process for Limiter :: fn complete
//@@ safety C08 C09 C03 C16 C20
//@@ endfn
//@@ fn limiter.process = src/limits.rs :: impl Process for Limiter :: fn process
//@@ safety C08 C14 C03 C05 C16 C20
//@@ endfn
//@@ fn limiter.start = src/limits.rs :: impl Process for Limiter :: fn start
//@@ safety C03 C18 C15
//@@ endfn
}

// ------------------------------------------------------------------ src/filter.rs
//@@ item src/filter.rs :: struct ActiveFilter
//@@ enditem
//@@ item src/filter.rs :: struct Filter
//@@ enditem

impl Filter {
    pub closed spec fn g(&self) -> Rc<dyn Get> { self.filter }
//@@ fn filter.create_process = src/filter.rs :: impl Filter :: fn create_process
//@@ safety C03
//@@ ret r
//@@ header-from specs/stage/filter.create_process.spec
//@@ endfn
}

impl Process for ActiveFilter {
    closed spec fn inv(&self) -> bool { self.next.inv() }
    closed spec fn log(&self) -> Seq<char> { self.next.log() }
    closed spec fn fut(&self, rows: Seq<Context>) -> Seq<char> { self.next.fut(filter_rows(self.filter, rows)) }
    closed spec fn must_break(&self) -> bool { self.next.must_break() }
    closed spec fn eager(&self) -> bool { false }
    closed spec fn rejects(&self, titles: Seq<String>) -> bool { self.next.rejects(titles) }
    closed spec fn header(&self, titles: Seq<String>) -> Seq<char> { self.next.header(titles) }
    closed spec fn sfut(&self, titles: Seq<String>, rows: Seq<Context>) -> Seq<char> { self.next.sfut(titles, filter_rows(self.filter, rows)) }

//@@ fn filter.complete = src/filter.rs :: impl Process for ActiveFilter :: fn complete
//@@ safety C03 C16 C20
//@@ endfn
//@@ fn filter.start = src/filter.rs :: impl Process for ActiveFilter :: fn start
//@@ safety C03 C18 C15
//@@ rewrite crate_paths
//@@ endfn
//@@ fn filter.process = src/filter.rs :: impl Process for ActiveFilter :: fn process
//@@ safety C03 C14 C16 C11 C20
//@@ rewrite crate_paths
//@@ endfn
}

// ------------------------------------------------------------------ src/selection.rs
//@@ item src/selection.rs :: struct SelectionProcess
//@@ enditem
//@@ item src/selection.rs :: struct Selection
//@@ enditem

impl Selection {
    pub closed spec fn g(&self) -> Rc<dyn Get> { self.getter }
    pub closed spec fn title(&self) -> String { *self.name }
//@@ fn selection.create_process = src/selection.rs :: impl Selection :: fn create_process
//@@ safety C03
//@@ ret r
//@@ header-from specs/stage/selection.create_process.spec
//@@ endfn
}

impl Process for SelectionProcess {
    closed spec fn inv(&self) -> bool { self.next.inv() }
    closed spec fn log(&self) -> Seq<char> { self.next.log() }
    closed spec fn fut(&self, rows: Seq<Context>) -> Seq<char> { self.next.fut(select_rows(self.getter, *self.name, rows)) }
    closed spec fn must_break(&self) -> bool { self.next.must_break() }
    closed spec fn eager(&self) -> bool { false }
    closed spec fn rejects(&self, titles: Seq<String>) -> bool { self.next.rejects(titles.push(*self.name)) }
    closed spec fn header(&self, titles: Seq<String>) -> Seq<char> { self.next.header(titles.push(*self.name)) }
    closed spec fn sfut(&self, titles: Seq<String>, rows: Seq<Context>) -> Seq<char> { self.next.sfut(titles.push(*self.name), select_rows(self.getter, *self.name, rows)) }

//@@ fn selection.start = src/selection.rs :: impl Process for SelectionProcess :: fn start
//@@ safety C03 C18 C15
//@@ endfn
//@@ fn selection.complete = src/selection.rs :: impl Process for SelectionProcess :: fn complete
//@@ safety C03 C16 C20
//@@ endfn
//@@ fn selection.process = src/selection.rs :: impl Process for SelectionProcess :: fn process
//@@ safety C03 C14 C16 C11 C12 C20
//@@ endfn
}

// ------------------------------------------------------------------ src/pre_sets.rs
//@@ item src/pre_sets.rs :: struct PreSetProcessor
//@@ enditem

impl Process for PreSetProcessor {
    closed spec fn inv(&self) -> bool { self.next.inv() }
    closed spec fn log(&self) -> Seq<char> { self.next.log() }
    closed spec fn fut(&self, rows: Seq<Context>) -> Seq<char> { self.next.fut(preset_rows(self.variables@, self.macros@, rows)) }
    closed spec fn must_break(&self) -> bool { self.next.must_break() }
    closed spec fn eager(&self) -> bool { false }
    closed spec fn rejects(&self, titles: Seq<String>) -> bool { self.next.rejects(titles) }
    closed spec fn header(&self, titles: Seq<String>) -> Seq<char> { self.next.header(titles) }
    closed spec fn sfut(&self, titles: Seq<String>, rows: Seq<Context>) -> Seq<char> { self.next.sfut(titles, preset_rows(self.variables@, self.macros@, rows)) }

//@@ fn preset.complete = src/pre_sets.rs :: impl Process for PreSetProcessor :: fn complete
//@@ safety C03 C16 C20
//@@ endfn
//@@ fn preset.process = src/pre_sets.rs :: impl Process for PreSetProcessor :: fn process
//@@ safety C03 C14 C16 C11 C12 C20
//@@ endfn
//@@ fn preset.start = src/pre_sets.rs :: impl Process for PreSetProcessor :: fn start
//@@ safety C03 C18 C15
//@@ endfn
}

// --set: the real constructor (C18: malformed / duplicate --set; C03: the stage carries exactly the parsed bindings)
pub mod ps {
use super::*;
use std::result::Result;
//@@ include prelude/preset_trait.rs
}
use ps::*;
impl PreSetCollection for Vec<String> {
    open spec fn texts(&self) -> Seq<String> { self@ }
//@@ fn preset.create_process = src/pre_sets.rs :: impl PreSetCollection for Vec<String> :: fn create_process
//@@ safety C03 C18
//@@ body-start
        broadcast use cl::group_clone_is_copy;
//@@ loop 1 iter it
            invariant
                it.seq().len() == self@.len(), 0 <= it.index@ <= self@.len(),
                forall|j: int| 0 <= j < it.seq().len() ==> *(#[trigger] it.seq()[j]) == self@[j],
                // every text so far parsed, no name bound twice, and the two maps hold exactly the bindings parsed so far
                forall|j: int| 0 <= j < it.index@ ==> preset_key(#[trigger] self@[j]@) is Some,
                forall|i: int, j: int| 0 <= i < j < it.index@ ==> preset_key(#[trigger] self@[i]@) != preset_key(#[trigger] self@[j]@),
                forall|k: String| #[trigger] variables@.contains_key(k) <==> exists|j: int| 0 <= j < it.index@ && preset_key(#[trigger] self@[j]@) == Some((k, true)),
                forall|k: String| #[trigger] macros@.contains_key(k) <==> exists|j: int| 0 <= j < it.index@ && preset_key(#[trigger] self@[j]@) == Some((k, false)),
                variables@ =~= vars_upto(self@, it.index@ as int),
                macros@ =~= macros_upto(self@, it.index@ as int),
//@@ loop-start 1
            broadcast use cl::group_clone_is_copy;
//@@ before "return Ok(next);"
            proof { assert(self@.len() == 0 ==> is_preset_of(next, next, true, Map::empty(), Map::empty())); }
//@@ endfn
}

// ------------------------------------------------------------------ src/splitter.rs
//@@ item src/splitter.rs :: struct SplitterProcess
//@@ enditem
//@@ item src/splitter.rs :: struct Splitter
//@@ enditem

impl Splitter {
    pub closed spec fn g(&self) -> Rc<dyn Get> { self.split_by }
//@@ fn splitter.create_process = src/splitter.rs :: impl Splitter :: fn create_process
//@@ safety C03
//@@ ret r
//@@ header-from specs/stage/splitter.create_process.spec
//@@ endfn
}

impl Process for SplitterProcess {
    closed spec fn inv(&self) -> bool { self.next.inv() }
    closed spec fn log(&self) -> Seq<char> { self.next.log() }
    closed spec fn fut(&self, rows: Seq<Context>) -> Seq<char> { self.next.fut(split_rows(self.split_by, rows)) }
    closed spec fn must_break(&self) -> bool { self.next.must_break() }
    closed spec fn eager(&self) -> bool { false }
    closed spec fn rejects(&self, titles: Seq<String>) -> bool { self.next.rejects(titles) }
    closed spec fn header(&self, titles: Seq<String>) -> Seq<char> { self.next.header(titles) }
    closed spec fn sfut(&self, titles: Seq<String>, rows: Seq<Context>) -> Seq<char> { self.next.sfut(titles, split_rows(self.split_by, rows)) }

//@@ fn splitter.complete = src/splitter.rs :: impl Process for SplitterProcess :: fn complete
//@@ safety C03 C16 C20
//@@ endfn
//@@ fn splitter.process = src/splitter.rs :: impl Process for SplitterProcess :: fn process
//@@ safety C03 C14 C16 C11 C12 C05 C20
//@@ loop 1 iter it
                invariant
                    self.next.inv(), self.split_by == old(self).split_by,
                    0 <= it.index@ <= it.seq().len(), it.seq() == lst@,
                    old(self).split_by.get_spec(&context) == Some(JsonValue::Array(lst)),
                    is_prefix(old(self).next.log(), self.next.log()),
                    // the successor has been handed exactly the rows of the first it.index elements: what it will still
                    // print for the remaining elements followed by x is what the old successor would print for all of them
                    forall|x: Seq<Context>| self.next.log().add(#[trigger] self.next.fut(elems_rows(context, lst@.subrange(it.index@, lst@.len() as int)).add(x)))
                        == old(self).next.log().add(old(self).next.fut(elems_rows(context, lst@).add(x))),
                    old(self).next.must_break() || !self.next.must_break(),
//@@ after-loop 1
            proof {
                let e = elems_rows(context, lst@.subrange(lst@.len() as int, lst@.len() as int));
                assert(e =~= Seq::<Context>::empty());
                assert forall|x: Seq<Context>| self.next.log().add(#[trigger] self.next.fut(x)) == old(self).next.log().add(old(self).next.fut(elems_rows(context, lst@).add(x))) by {
                    assert(e.add(x) =~= x);
                }
            }
//@@ before "for val in lst {"
            proof { assert(lst@.subrange(0, lst@.len() as int) =~= lst@); }
//@@ before "return Ok(ProcessDesision::Break);"
                    proof {
                        // the successor said Break: whatever follows cannot change its output any more (P2.done),
                        // so dropping the remaining elements and all later rows is invisible
                        let e1 = elems_rows(c0, lst@.subrange(it.index@ + 1, lst@.len() as int));
                        assert forall|x: Seq<Context>| self.next.log().add(#[trigger] self.next.fut(x)) == old(self).next.log().add(old(self).next.fut(elems_rows(c0, lst@).add(x))) by {
                            assert(self.next.fut(e1.add(x)) == self.next.fut(Seq::empty()));
                            assert(self.next.fut(x) == self.next.fut(Seq::empty()));
                        }
                    }
//@@ before "let context = context.with_inupt(val);"
                let ghost c0 = context;
                proof {
                    let rest = lst@.subrange(it.index@, lst@.len() as int);
                    let rest1 = lst@.subrange(it.index@ + 1, lst@.len() as int);
                    assert(rest.subrange(1, rest.len() as int) =~= rest1);
                    assert(rest[0] == val);
                    assert(elems_rows(context, rest) == seq![ctx_with_input(context, val)].add(elems_rows(context, rest1)));
                    assert forall|x: Seq<Context>| seq![ctx_with_input(context, val)].add(#[trigger] elems_rows(context, rest1).add(x)) == elems_rows(context, rest).add(x) by {
                        assert(seq![ctx_with_input(context, val)].add(elems_rows(context, rest1).add(x)) =~= seq![ctx_with_input(context, val)].add(elems_rows(context, rest1)).add(x));
                    }
                }
//@@ endfn
//@@ fn splitter.start = src/splitter.rs :: impl Process for SplitterProcess :: fn start
//@@ safety C03 C18 C15
//@@ endfn
}

// ------------------------------------------------------------------ src/duplication_remover.rs
pub mod duplication_remover {
use vstd::prelude::*;
use super::*;
pub type Result<T> = ProcessResult<T>;
broadcast use {super::rows::group_rows, super::prefix_lemmas::group_prefix, vstd::std_specs::hash::group_hash_axioms, super::keymodel::axiom_context_key_model};
//@@ item src/duplication_remover.rs :: struct Uniquness
//@@ enditem

impl Uniquness {
//@@ fn uniq.create_process = src/duplication_remover.rs :: impl Uniquness :: fn create_process
//@@ safety C03 C10
//@@ ret r
//@@ header-from specs/stage/uniq.create_process.spec
//@@ endfn
}

impl Process for Uniquness {
    closed spec fn inv(&self) -> bool { self.next.inv() }
    closed spec fn log(&self) -> Seq<char> { self.next.log() }
    closed spec fn fut(&self, rows: Seq<Context>) -> Seq<char> { self.next.fut(uniq_rows(self.knwon_lines@, rows)) }
    closed spec fn must_break(&self) -> bool { self.next.must_break() }
    closed spec fn eager(&self) -> bool { false }
    closed spec fn rejects(&self, titles: Seq<String>) -> bool { self.next.rejects(titles) }
    closed spec fn header(&self, titles: Seq<String>) -> Seq<char> { self.next.header(titles) }
    closed spec fn sfut(&self, titles: Seq<String>, rows: Seq<Context>) -> Seq<char> { self.next.sfut(titles, uniq_rows(self.knwon_lines@, rows)) }

//@@ fn uniq.complete = src/duplication_remover.rs :: impl Process for Uniquness :: fn complete
//@@ safety C03 C16 C10 C20
//@@ endfn
//@@ fn uniq.start = src/duplication_remover.rs :: impl Process for Uniquness :: fn start
//@@ safety C03 C18 C15
//@@ endfn
//@@ fn uniq.process = src/duplication_remover.rs :: impl Process for Uniquness :: fn process
//@@ safety C03 C10 C14 C16 C20 C19
//@@ before "Ok(ProcessDesision::Continue)"
            proof { assert(old(self).knwon_lines@.insert(ctx_key(context)) =~= old(self).knwon_lines@); }
//@@ endfn
}
}

// ------------------------------------------------------------------ src/merger.rs
pub mod merger {
use vstd::prelude::*;
use super::*;
pub type Result<T> = ProcessResult<T>;
broadcast use {super::rows::group_rows, super::prefix_lemmas::group_prefix, super::jt::group_json_names, super::cl::group_clone_is_copy};
//@@ item src/merger.rs :: struct Merger
//@@ enditem

impl Merger {
//@@ fn merger.create_process = src/merger.rs :: impl Merger :: fn create_process
//@@ safety C03 C09
//@@ ret r
//@@ header-from specs/stage/merger.create_process.spec
//@@ endfn
}

impl Process for Merger {
    closed spec fn inv(&self) -> bool { self.next.inv() && self.next.eager() }
    closed spec fn log(&self) -> Seq<char> { self.next.log() }
    closed spec fn fut(&self, rows: Seq<Context>) -> Seq<char> { self.next.fut(seq![merged_row(self.data@, rows)]) }
    closed spec fn must_break(&self) -> bool { false }
    closed spec fn eager(&self) -> bool { false }
    // --group-by / --merge reset the titles: the printer is started with none
    closed spec fn rejects(&self, titles: Seq<String>) -> bool { self.next.rejects(Seq::empty()) }
    closed spec fn header(&self, titles: Seq<String>) -> Seq<char> { self.next.header(Seq::empty()) }
    closed spec fn sfut(&self, titles: Seq<String>, rows: Seq<Context>) -> Seq<char> { self.next.sfut(Seq::empty(), seq![merged_row(self.data@, rows)]) }

//@@ fn merger.complete = src/merger.rs :: impl Process for Merger :: fn complete
//@@ safety C09 C03 C16 C20
//@@ loop 1 iter it
            invariant
                data@ =~= self.data@.subrange(0, it.index@), 0 <= it.index@ <= self.data@.len(),
                it.seq().len() == self.data@.len(),
                forall|j: int| 0 <= j < it.seq().len() ==> *(#[trigger] it.seq()[j]) == self.data@[j],
//@@ before "let value = data.into();"
        proof {
            assert(data@ =~= self.data@);
            assert(self.data@.add(builds(Seq::empty())) =~= self.data@);
        }
//@@ endfn
//@@ fn merger.process = src/merger.rs :: impl Process for Merger :: fn process
//@@ safety C09 C03
//@@ before "Ok(ProcessDesision::Continue)"
        proof {
            assert forall|rows: Seq<Context>| merged_row(self.data@, rows) == merged_row(old(self).data@, seq![context].add(rows)) by {
                assert(self.data@.add(builds(rows)) =~= old(self).data@.add(builds(seq![context].add(rows))));
            }
        }
//@@ endfn
//@@ fn merger.start = src/merger.rs :: impl Process for Merger :: fn start
//@@ safety C09 C03 C18 C15
//@@ endfn
}
}

// ------------------------------------------------------------------ src/grouper.rs
//@@ item src/grouper.rs :: struct GrouperProcess
//@@ enditem
//@@ item src/grouper.rs :: struct Grouper
//@@ enditem


impl Grouper {
    pub closed spec fn g(&self) -> Rc<dyn Get> { self.group_by }
//@@ fn grouper.create_process = src/grouper.rs :: impl Grouper :: fn create_process
//@@ safety C03 C09
//@@ ret r
//@@ header-from specs/stage/grouper.create_process.spec
//@@ body-start
        proof { assert forall|e: Seq<(String, Vec<JsonValue>)>| e.len() == 0 implies #[trigger] groups_view(e) =~= Seq::<(String, Seq<JsonValue>)>::empty() by {} }
//@@ endfn
}

impl GrouperProcess {
    pub closed spec fn groups(&self) -> Seq<(String, Seq<JsonValue>)> { groups_view(self.data.entries()) }
//@@ fn grouper.name = src/grouper.rs :: impl GrouperProcess :: fn name
//@@ safety C09
//@@ ret r
//@@ header
        ensures r == group_key(self.group_by, *context), // @obl STAGE.grouper.name : C09
//@@ endfn
}

impl Process for GrouperProcess {
    closed spec fn inv(&self) -> bool { self.next.inv() && self.next.eager() }
    closed spec fn log(&self) -> Seq<char> { self.next.log() }
    closed spec fn fut(&self, rows: Seq<Context>) -> Seq<char> { self.next.fut(seq![grouped_row(self.group_by, self.groups(), rows)]) }
    closed spec fn must_break(&self) -> bool { false }
    closed spec fn eager(&self) -> bool { false }
    // --group-by / --merge reset the titles: the printer is started with none
    closed spec fn rejects(&self, titles: Seq<String>) -> bool { self.next.rejects(Seq::empty()) }
    closed spec fn header(&self, titles: Seq<String>) -> Seq<char> { self.next.header(Seq::empty()) }
    closed spec fn sfut(&self, titles: Seq<String>, rows: Seq<Context>) -> Seq<char> { self.next.sfut(Seq::empty(), seq![grouped_row(self.group_by, self.groups(), rows)]) }

//@@ fn grouper.complete = src/grouper.rs :: impl Process for GrouperProcess :: fn complete
//@@ safety C09 C03 C16 C20
//@@ loop 1 iter it
            invariant
                0 <= it.index@ <= self.data.entries().len(), it.seq().len() == self.data.entries().len(),
                forall|j: int| 0 <= j < it.seq().len() ==> *(#[trigger] it.seq()[j]) == self.data.entries()[j],
                data.entries() =~= group_members(self.groups()).subrange(0, it.index@),
//@@ before "let value = value.clone().into();"
            proof {
                let e = self.data.entries();
                assert(self.data.distinct());
                // the key of the current entry differs from every key copied so far
                assert(!im_has(data.entries(), *key)) by {
                    if im_has(data.entries(), *key) {
                        let j = im_idx(data.entries(), *key);
                        assert(data.entries()[j].0 == e[j].0);
                        assert(e[j].0 != e[it.index@].0);
                    }
                }
            }
//@@ before "let value = data.into();"
        proof {
            assert(data.entries() =~= group_members(self.groups()));
            assert(group_all(self.group_by, self.groups(), Seq::empty()) == self.groups());
        }
//@@ endfn
//@@ fn grouper.process = src/grouper.rs :: impl Process for GrouperProcess :: fn process
//@@ safety C09 C03
//@@ before "let value = context.build();"
            let ghost k0 = key;
            let ghost e0 = self.data.entries();
            proof { assert(self.data.distinct()); }
//@@ after "self.data.entry(key).or_default().push(value);"
            proof {
                let e2 = self.data.entries();
                let nv = if im_has(e0, k0) { e2[im_idx(e0, k0)].1 } else { e2.last().1 };
                lemma_group_insert(e0, e2, k0, nv, value);
            }
//@@ endfn
//@@ fn grouper.start = src/grouper.rs :: impl Process for GrouperProcess :: fn start
//@@ safety C09 C03 C18 C15
//@@ rewrite underscore_param
//@@ endfn
}

// ------------------------------------------------------------------ src/sorters.rs
use std::collections::VecDeque;
//@@ item src/sorters.rs :: enum Direction
//@@ keep-derive Clone Copy
//@@ enditem
//@@ item src/sorters.rs :: struct Sorter
//@@ enditem
//@@ item src/sorters.rs :: type OrderedData
//@@ enditem
//@@ item src/sorters.rs :: struct SortProcess
//@@ enditem

pub open spec fn cap_of(c: Option<usize>) -> Option<nat> { match c { Some(n) => Some(n as nat), None => None } }

impl Sorter {
    pub closed spec fn g(&self) -> Rc<dyn Get> { self.sort_by }
    pub closed spec fn asc(&self) -> bool { self.direction is Asc }
//@@ fn sorter.create_processor = src/sorters.rs :: impl Sorter :: fn create_processor
//@@ safety C03 C07 C08
//@@ ret r
//@@ header-from specs/stage/sorter.create_processor.spec
//@@ body-start
        proof { assert forall|e: Seq<(JsonValue, VecDeque<Context>)>| e.len() == 0 implies #[trigger] bkv(e) =~= Seq::<(JsonValue, Seq<Context>)>::empty() by {} }
//@@ endfn
}

impl SortProcess {
    pub closed spec fn bk(&self) -> Seq<(JsonValue, Seq<Context>)> { bkv(self.data.view()) }
    pub closed spec fn is_asc(&self) -> bool { self.direction is Asc }
    pub closed spec fn same_but_data(&self, o: &SortProcess) -> bool {
        self.next == o.next && self.sort_by == o.sort_by && self.direction == o.direction && self.space_left == o.space_left
    }
//@@ fn sorter.remove_last_item = src/sorters.rs :: impl SortProcess :: fn remove_last_item
//@@ safety C08 C07 C05
//@@ header
        ensures
            final(self).same_but_data(old(self)),
            // the top-N shortcut drops exactly the row that would have been emitted last (for ties: the newest)
            final(self).bk() == bk_remove_last(old(self).is_asc(), old(self).bk()), // @obl STAGE.sorter.remove_last : C08 C07 C03
//@@ endfn
}

impl Process for SortProcess {
    closed spec fn inv(&self) -> bool { self.next.inv() }
    closed spec fn log(&self) -> Seq<char> { self.next.log() }
    closed spec fn fut(&self, rows: Seq<Context>) -> Seq<char> {
        self.next.fut(emit(self.is_asc(), sort_all(self.sort_by, self.is_asc(), self.bk(), cap_of(self.space_left), rows)))
    }
    closed spec fn must_break(&self) -> bool { false }
    closed spec fn eager(&self) -> bool { false }
    closed spec fn rejects(&self, titles: Seq<String>) -> bool { self.next.rejects(titles) }
    closed spec fn header(&self, titles: Seq<String>) -> Seq<char> { self.next.header(titles) }
    closed spec fn sfut(&self, titles: Seq<String>, rows: Seq<Context>) -> Seq<char> {
        self.next.sfut(titles, emit(self.is_asc(), sort_all(self.sort_by, self.is_asc(), self.bk(), cap_of(self.space_left), rows)))
    }

//@@ fn sorter.start = src/sorters.rs :: impl Process for SortProcess :: fn start
//@@ safety C03 C18 C15
//@@ endfn
//@@ fn sorter.complete = src/sorters.rs :: impl Process for SortProcess :: fn complete
//@@ safety C07 C08 C03 C16 C20 C09
//@@ body-start
        let ghost b0 = self.bk();
        proof {
            assert(sort_all(self.sort_by, self.is_asc(), b0, cap_of(self.space_left), Seq::empty()) == b0);
        }
//@@ loop 1 iter it
                    invariant
                        self.next.inv(), self.sort_by == old(self).sort_by, self.direction == old(self).direction, self.space_left == old(self).space_left,
                        0 <= it.index@ <= b0.len(), it.seq().len() == b0.len(),
                        forall|j: int| 0 <= j < it.seq().len() ==> (*(#[trigger] it.seq()[j]))@ == b0[j].1,
                        is_prefix(old(self).next.log(), self.next.log()),
                        // what the successor has still to receive (buckets it.index.. in emission order) followed by x
                        forall|x: Seq<Context>| self.next.log().add(#[trigger] self.next.fut(emit_from(true, b0, it.index@).add(x)))
                            == old(self).next.log().add(old(self).next.fut(emit(true, b0).add(x))),
//@@ after-loop 1
                proof {
                    assert(emit_from(true, b0, b0.len() as int) =~= Seq::<Context>::empty());
                    assert forall|x: Seq<Context>| self.next.log().add(#[trigger] self.next.fut(x)) == old(self).next.log().add(old(self).next.fut(emit(true, b0).add(x))) by {
                        assert(emit_from(true, b0, b0.len() as int).add(x) =~= x);
                    }
                }
//@@ before-loop 2
                    let ghost mut gd = items@;
                    proof {
                        let e1 = emit_from(true, b0, it.index@ + 1);
                        assert(emit_from(true, b0, it.index@) == rev_seq(b0[it.index@].1).add(e1));
                        assert(items@ == b0[it.index@].1);
                    }
//@@ loop 2
                        invariant
                            self.next.inv(), self.sort_by == old(self).sort_by, self.direction == old(self).direction, self.space_left == old(self).space_left,
                            0 <= it.index@ < b0.len(), gd == items@,
                            is_prefix(old(self).next.log(), self.next.log()),
                            forall|x: Seq<Context>| self.next.log().add(#[trigger] self.next.fut(rev_seq(items@).add(emit_from(true, b0, it.index@ + 1)).add(x)))
                                == old(self).next.log().add(old(self).next.fut(emit(true, b0).add(x))),
                        ensures
                            items@.len() == 0,
                            self.next.inv(), self.sort_by == old(self).sort_by, self.direction == old(self).direction, self.space_left == old(self).space_left,
                            is_prefix(old(self).next.log(), self.next.log()),
                            forall|x: Seq<Context>| self.next.log().add(#[trigger] self.next.fut(rev_seq(items@).add(emit_from(true, b0, it.index@ + 1)).add(x)))
                                == old(self).next.log().add(old(self).next.fut(emit(true, b0).add(x))),
                        decreases items@.len(),
//@@ loop-start 2
                        proof {
                            let d = items@;
                            let e1 = emit_from(true, b0, it.index@ + 1);
                            assert(gd =~= d.push(value));
                            assert(d.push(value).drop_last() =~= d);
                            assert(rev_seq(gd) == seq![value].add(rev_seq(d)));
                            assert forall|x: Seq<Context>| seq![value].add(#[trigger] rev_seq(d).add(e1).add(x)) == rev_seq(gd).add(e1).add(x) by {
                                assert(seq![value].add(rev_seq(d).add(e1).add(x)) =~= seq![value].add(rev_seq(d)).add(e1).add(x));
                            }
                            gd = d;
                        }
//@@ after-loop 2
                    proof {
                        let e1 = emit_from(true, b0, it.index@ + 1);
                        assert(rev_seq(items@) =~= Seq::<Context>::empty());
                        assert forall|x: Seq<Context>| self.next.log().add(#[trigger] self.next.fut(e1.add(x))) == old(self).next.log().add(old(self).next.fut(emit(true, b0).add(x))) by {
                            assert(rev_seq(items@).add(e1).add(x) =~= e1.add(x));
                        }
                    }
//@@ loop 3 iter it
                    invariant
                        self.next.inv(), self.sort_by == old(self).sort_by, self.direction == old(self).direction, self.space_left == old(self).space_left,
                        0 <= it.index@ <= b0.len(), it.seq().len() == b0.len(),
                        forall|j: int| 0 <= j < it.seq().len() ==> (*(#[trigger] it.seq()[j]))@ == b0[b0.len() - 1 - j].1,
                        is_prefix(old(self).next.log(), self.next.log()),
                        // what the successor has still to receive (buckets it.index.. in emission order) followed by x
                        forall|x: Seq<Context>| self.next.log().add(#[trigger] self.next.fut(emit_from(false, b0, it.index@).add(x)))
                            == old(self).next.log().add(old(self).next.fut(emit(false, b0).add(x))),
//@@ after-loop 3
                proof {
                    assert(emit_from(false, b0, b0.len() as int) =~= Seq::<Context>::empty());
                    assert forall|x: Seq<Context>| self.next.log().add(#[trigger] self.next.fut(x)) == old(self).next.log().add(old(self).next.fut(emit(false, b0).add(x))) by {
                        assert(emit_from(false, b0, b0.len() as int).add(x) =~= x);
                    }
                }
//@@ before-loop 4
                    let ghost mut gd = items@;
                    proof {
                        let e1 = emit_from(false, b0, it.index@ + 1);
                        assert(emit_from(false, b0, it.index@) == rev_seq(b0[b0.len() - 1 - it.index@].1).add(e1));
                        assert(items@ == b0[b0.len() - 1 - it.index@].1);
                    }
//@@ loop 4
                        invariant
                            self.next.inv(), self.sort_by == old(self).sort_by, self.direction == old(self).direction, self.space_left == old(self).space_left,
                            0 <= it.index@ < b0.len(), gd == items@,
                            is_prefix(old(self).next.log(), self.next.log()),
                            forall|x: Seq<Context>| self.next.log().add(#[trigger] self.next.fut(rev_seq(items@).add(emit_from(false, b0, it.index@ + 1)).add(x)))
                                == old(self).next.log().add(old(self).next.fut(emit(false, b0).add(x))),
                        ensures
                            items@.len() == 0,
                            self.next.inv(), self.sort_by == old(self).sort_by, self.direction == old(self).direction, self.space_left == old(self).space_left,
                            is_prefix(old(self).next.log(), self.next.log()),
                            forall|x: Seq<Context>| self.next.log().add(#[trigger] self.next.fut(rev_seq(items@).add(emit_from(false, b0, it.index@ + 1)).add(x)))
                                == old(self).next.log().add(old(self).next.fut(emit(false, b0).add(x))),
                        decreases items@.len(),
//@@ loop-start 4
                        proof {
                            let d = items@;
                            let e1 = emit_from(false, b0, it.index@ + 1);
                            assert(gd =~= d.push(value));
                            assert(d.push(value).drop_last() =~= d);
                            assert(rev_seq(gd) == seq![value].add(rev_seq(d)));
                            assert forall|x: Seq<Context>| seq![value].add(#[trigger] rev_seq(d).add(e1).add(x)) == rev_seq(gd).add(e1).add(x) by {
                                assert(seq![value].add(rev_seq(d).add(e1).add(x)) =~= seq![value].add(rev_seq(d)).add(e1).add(x));
                            }
                            gd = d;
                        }
//@@ after-loop 4
                    proof {
                        let e1 = emit_from(false, b0, it.index@ + 1);
                        assert(rev_seq(items@) =~= Seq::<Context>::empty());
                        assert forall|x: Seq<Context>| self.next.log().add(#[trigger] self.next.fut(e1.add(x))) == old(self).next.log().add(old(self).next.fut(emit(false, b0).add(x))) by {
                            assert(rev_seq(items@).add(e1).add(x) =~= e1.add(x));
                        }
                    }
//@@ before "self.data.clear();"
        proof { assert(emit(self.is_asc(), b0).add(Seq::empty()) =~= emit(self.is_asc(), b0)); }
//@@ endfn
//@@ fn sorter.process = src/sorters.rs :: impl Process for SortProcess :: fn process
//@@ safety C07 C08 C03 C05 C09
//@@ before "self.data.entry(key).or_default().push_front(context);"
            let ghost k0 = key;
            let ghost v0 = self.data.view();
//@@ after "self.data.entry(key).or_default().push_front(context);"
            proof {
                let v1 = self.data.view();
                lemma_rank_bounds(bt_keys(v0), k0);
                let nd = if bt_found(bt_keys(v0), k0) { v1[bt_idx(bt_keys(v0), k0)].1 } else { v1[bt_rank(bt_keys(v0), k0)].1 };
                lemma_bkv_upsert(v0, k0, nd, context);
                assert(self.bk() == bk_add(old(self).bk(), k0, context));
            }
//@@ endfn
}

} // verus!
fn main() {}
