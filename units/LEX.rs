#![feature(allocator_api)]
// Unit LEX: src/json_parser.rs — the one-byte-look-ahead recursive-descent parser (C01, C05, C06, C16, C19)
use vstd::prelude::*;
use std::rc::Rc;
use std::io::Read;
use vstd::std_specs::iter::IteratorSpec;
use std::num::{IntErrorKind, ParseFloatError, ParseIntError};
use std::string::FromUtf8Error;

verus! {

pub mod jt {
use vstd::prelude::*;
use std::rc::Rc;
use vstd::std_specs::iter::IteratorSpec;
//@@ include prelude/indexmap.rs
//@@ include prelude/json_types.rs
//@@ include prelude/clone_specs.rs
}
use jt::*;
pub mod rd {
use vstd::prelude::*;
use std::io::{Read, Result};
//@@ include prelude/reader_opaque.rs
}
use rd::*;
pub mod rdl {
use vstd::prelude::*;
use super::rd::*;
pub broadcast proof fn lemma_advance_refl(a: Seq<Option<u8>>) ensures #[trigger] advance(a, a) {}
pub broadcast proof fn lemma_advance_trans(a: Seq<Option<u8>>, b: Seq<Option<u8>>, c: Seq<Option<u8>>)
    requires #[trigger] advance(a, b), #[trigger] advance(b, c),
    ensures advance(a, c),
{
    assert forall|i: int| 0 <= i < consumed(a, c).len() implies (#[trigger] consumed(a, c)[i]) is Some by {
        if i < consumed(a, b).len() { assert(consumed(a, b)[i] is Some); } else { assert(consumed(b, c)[i - consumed(a, b).len()] is Some); }
    }
}
// a read failure that is still pending after some delivered bytes were consumed was pending before
pub broadcast proof fn lemma_fault_carries(a: Seq<Option<u8>>, b: Seq<Option<u8>>)
    requires #[trigger] advance(a, b), #[trigger] has_fault(b),
    ensures has_fault(a),
{
    reveal(has_fault);
    let i = choose|i: int| 0 <= i < b.len() && !(#[trigger] b[i] is Some);
    assert(a[a.len() - b.len() + i] == b[i]);
}
pub broadcast group group_advance { lemma_advance_refl, lemma_advance_trans, lemma_fault_carries }
}
pub mod jg {
use vstd::prelude::*;
use super::rd::*;
//@@ include lemmas/json_grammar.rs
}
use jg::*;
broadcast use {rdl::group_advance, ls::axiom_json_of_f64_is_number, ls::axiom_text_of, jt::group_json_names};
pub mod u8s {
use vstd::prelude::*;
//@@ include prelude/u8std.rs
}
pub mod ls {
use vstd::prelude::*;
use super::jt::*;
//@@ include prelude/lexstd.rs
}
use ls::*;
pub mod js {
use vstd::prelude::*;
use super::rd::*;
use super::jg::*;
use super::ls::*;
//@@ include lemmas/json_string.rs
}
use js::*;
pub mod jv {
use vstd::prelude::*;
use super::rd::*;
use super::jg::*;
use super::ls::*;
use super::js::*;
use super::jt::*;
//@@ include lemmas/json_value.rs
}
use jv::*;

use std::io::ErrorKind;
//@@ file-consts src/json_parser.rs
pub type IoError = std::io::Error;
pub type Result<T> = std::result::Result<T, JsonParserError>;

//@@ item src/json_parser.rs :: enum JsonParserError
//@@ enditem
// trusted stand-in for thiserror's #[from]: `?` on an io::Error yields the IoError variant
impl vstd::std_specs::convert::FromSpecImpl<IoError> for JsonParserError {
    open spec fn obeys_from_spec() -> bool { true }
    open spec fn from_spec(e: IoError) -> Self { JsonParserError::IoError(e) }
}
impl From<IoError> for JsonParserError {
    #[verifier::external_body]
    fn from(e: IoError) -> (r: Self) ensures r == JsonParserError::IoError(e) { unimplemented!() }
}

impl JsonParserError {
//@@ fn lex.can_recover = src/json_parser.rs :: impl JsonParserError :: fn can_recover
//@@ safety C06 C16 C20
//@@ ret r
//@@ rewrite matches_not
//@@ header
        ensures r == !(self is IoError), // @obl LEX.can_recover : C06 C16 C05 C20
//@@ endfn
}

// error-message construction (format!/collect/join over an IntoIterator): opaque, only its variant matters
#[verifier::external_body]
fn create_unexpected_character<R: Read, T: IntoIterator<Item = char>>(reader: &Reader<R>, ch: u8, expected: T) -> (r: JsonParserError)
    ensures r is UnexpectedCharacter
{ unimplemented!() }

//@@ include prelude/json_parser_trait.rs

pub trait JsonParserUtils {
    spec fn rv2(&self) -> RView;
//@@ fn jsonparserutils.read_reserved_word = src/json_parser.rs :: trait JsonParserUtils :: fn read_reserved_word
//@@ ret r
//@@ header
        requires old(self).rv2().ok, old(self).rv2().cur is Some,
        ensures lex_post(old(self).rv2(), final(self).rv2(), r), progress(old(self).rv2(), final(self).rv2(), r),
            // Ok exactly consumes the first byte and the N expected bytes, which are the bytes that were there
            r is Ok ==> final(self).rv2().pending.len() + N + 1 == old(self).rv2().pending.len() && bytes_at(old(self).rv2().pending, 1, chars@), // @tobl L2.word
            !is_io(r) && bytes_at(old(self).rv2().pending, 1, chars@) ==> r is Ok, // @tobl L4.accepts
//@@ endfn
//@@ fn jsonparserutils.read_true = src/json_parser.rs :: trait JsonParserUtils :: fn read_true
//@@ ret r
//@@ header
        requires old(self).rv2().ok, old(self).rv2().cur is Some,
        ensures lex_post(old(self).rv2(), final(self).rv2(), r), progress(old(self).rv2(), final(self).rv2(), r),
            r is Ok ==> bytes_at(old(self).rv2().pending, 1, rue()), // @tobl L3.word
            !is_io(r) && bytes_at(old(self).rv2().pending, 1, rue()) ==> r is Ok, // @tobl L4.accepts
            r is Ok ==> final(self).rv2().pending.len() + 4 == old(self).rv2().pending.len(), // @tobl L2.word_len
            r is Ok ==> r->Ok_0 == JsonValue::Boolean(true), // @tobl L2.value
//@@ endfn
//@@ fn jsonparserutils.read_false = src/json_parser.rs :: trait JsonParserUtils :: fn read_false
//@@ ret r
//@@ header
        requires old(self).rv2().ok, old(self).rv2().cur is Some,
        ensures lex_post(old(self).rv2(), final(self).rv2(), r), progress(old(self).rv2(), final(self).rv2(), r),
            r is Ok ==> bytes_at(old(self).rv2().pending, 1, alse()), // @tobl L3.word
            !is_io(r) && bytes_at(old(self).rv2().pending, 1, alse()) ==> r is Ok, // @tobl L4.accepts
            r is Ok ==> final(self).rv2().pending.len() + 5 == old(self).rv2().pending.len(), // @tobl L2.word_len
            r is Ok ==> r->Ok_0 == JsonValue::Boolean(false), // @tobl L2.value
//@@ endfn
//@@ fn jsonparserutils.read_null = src/json_parser.rs :: trait JsonParserUtils :: fn read_null
//@@ ret r
//@@ header
        requires old(self).rv2().ok, old(self).rv2().cur is Some,
        ensures lex_post(old(self).rv2(), final(self).rv2(), r), progress(old(self).rv2(), final(self).rv2(), r),
            r is Ok ==> bytes_at(old(self).rv2().pending, 1, ull()), // @tobl L3.word
            !is_io(r) && bytes_at(old(self).rv2().pending, 1, ull()) ==> r is Ok, // @tobl L4.accepts
            r is Ok ==> final(self).rv2().pending.len() + 4 == old(self).rv2().pending.len(), // @tobl L2.word_len
            r is Ok ==> r->Ok_0 == JsonValue::Null, // @tobl L2.value
//@@ endfn
//@@ fn jsonparserutils.read_array = src/json_parser.rs :: trait JsonParserUtils :: fn read_array
//@@ ret r
//@@ header
        requires old(self).rv2().ok, old(self).rv2().cur is Some,
        ensures lex_post(old(self).rv2(), final(self).rv2(), r), progress(old(self).rv2(), final(self).rv2(), r),
            r is Ok ==> r->Ok_0 is Array, // @tobl L2.kind
            // "[" ws "]" is the empty array (RFC 8259: white space is allowed after begin-array)
            ({ let p = old(self).rv2().pending; let w = ws_run(from(p, 1)) as int;
               !is_io(r) && at(p, 1 + w) == Some(0x5du8) ==> r is Ok && r->Ok_0 == json_array(Seq::empty()) && final(self).rv2().pending.len() == p.len() - (w + 2) }), // @tobl L2.empty_array
            // the elements are the values of the element texts, in order; the array text ends at its `]`
            ({ let p = old(self).rv2().pending;
               r is Ok ==> (match arr(p) { Some((vs, e)) => r->Ok_0 == json_array(vs) && 0 < e <= p.len() && final(self).rv2().pending =~= from(p, e), None => false }) }), // @tobl L3.elements
            !is_io(r) && arrs(old(self).rv2().pending) ==> r is Ok, // @tobl L4.accepts
        decreases old(self).rv2().pending.len(), 1int,
//@@ endfn
//@@ fn jsonparserutils.read_object = src/json_parser.rs :: trait JsonParserUtils :: fn read_object
//@@ ret r
//@@ header
        requires old(self).rv2().ok, old(self).rv2().cur is Some,
        ensures lex_post(old(self).rv2(), final(self).rv2(), r), progress(old(self).rv2(), final(self).rv2(), r),
            r is Ok ==> r->Ok_0 is Object, // @tobl L2.kind
            ({ let p = old(self).rv2().pending; let w = ws_run(from(p, 1)) as int;
               !is_io(r) && at(p, 1 + w) == Some(0x7du8) ==> r is Ok && r->Ok_0 == json_object(Seq::empty()) && final(self).rv2().pending.len() == p.len() - (w + 2) }), // @tobl L2.empty_object
            // the members are name : value pairs in order, inserted as IndexMap::insert does; the object text ends at its `}`
            ({ let p = old(self).rv2().pending;
               r is Ok ==> (match obj(p) { Some((ms, e)) => r->Ok_0 == json_object(ms) && 0 < e <= p.len() && final(self).rv2().pending =~= from(p, e), None => false }) }), // @tobl L3.members
            !is_io(r) && objs(old(self).rv2().pending) ==> r is Ok, // @tobl L4.accepts
        decreases old(self).rv2().pending.len(), 1int,
//@@ endfn
//@@ fn jsonparserutils.read_number = src/json_parser.rs :: trait JsonParserUtils :: fn read_number
//@@ ret r
//@@ header
        requires old(self).rv2().ok, old(self).rv2().cur matches Some(b) && (b == 0x2du8 || is_digit(b)),
        ensures lex_post(old(self).rv2(), final(self).rv2(), r), progress(old(self).rv2(), final(self).rv2(), r),
            r is Ok ==> r->Ok_0 is Number, // @tobl L2.kind
            // the token consumed is exactly the maximal number token (upper-case exponents included): C01.look
            !is_io(r) ==> final(self).rv2().pending.len() + num_end(old(self).rv2().pending) == old(self).rv2().pending.len(), // @tobl L2.token
            // C19: a token without fraction and exponent is parsed as an integer (u64 / i64) whenever it is in range — no
            // detour through a double; everything else is the nearest double, normalised by From<f64>
            ({ let p = old(self).rv2().pending; let t = text_of(num_text(p));
               r is Ok ==> {
                   &&& (num_is_double(p) ==> parse_of::<f64>(t) is Some && r->Ok_0 == json_of_f64(parse_of::<f64>(t)->0))
                   &&& (!num_is_double(p) && num_sign(p) == 0 && parse_of::<u64>(t) is Some ==> r->Ok_0 == JsonValue::Number(NumberValue::Positive(parse_of::<u64>(t)->0)))
                   &&& (!num_is_double(p) && num_sign(p) == 1 && parse_of::<i64>(t) is Some ==> r->Ok_0 == JsonValue::Number(NumberValue::Negative(parse_of::<i64>(t)->0)))
                   &&& (!num_is_double(p) && num_sign(p) == 0 && parse_of::<u64>(t) is None ==> parse_of::<f64>(t) is Some && r->Ok_0 == json_of_f64(parse_of::<f64>(t)->0))
                   &&& (!num_is_double(p) && num_sign(p) == 1 && parse_of::<i64>(t) is None ==> parse_of::<f64>(t) is Some && r->Ok_0 == json_of_f64(parse_of::<f64>(t)->0))
               } }), // @tobl L2.number_value
            !is_io(r) && num_simple(old(self).rv2().pending) ==> r is Ok, // @tobl L4.accepts
//@@ endfn
//@@ fn jsonparserutils.read_string = src/json_parser.rs :: trait JsonParserUtils :: fn read_string
//@@ ret r
//@@ header
        requires old(self).rv2().ok, old(self).rv2().cur is Some,
        ensures lex_post(old(self).rv2(), final(self).rv2(), r), progress(old(self).rv2(), final(self).rv2(), r),
            r is Ok ==> r->Ok_0 is String, // @tobl L2.kind
            // the value is the RFC 8259 decoding of the token (escape table, \uXXXX, everything else verbatim), the token ends at
            // its closing quote and the byte after it is the current byte
            ({ let p = old(self).rv2().pending;
               r is Ok ==> (match (r->Ok_0, str_dec(p, 1, Seq::empty())) {
                   (JsonValue::String(s), Some((bytes, k))) => str_bytes(s@) == bytes && final(self).rv2().pending =~= from(p, k + 1),
                   _ => false }) }), // @tobl L3.decode
            !is_io(r) && (match str_dec(old(self).rv2().pending, 1, Seq::empty()) { Some((bytes, k)) => valid_utf8(bytes), None => false }) ==> r is Ok, // @tobl L4.accepts
//@@ endfn
//@@ fn jsonparserutils.parse_to_double = src/json_parser.rs :: trait JsonParserUtils :: fn parse_to_double
//@@ ret r
//@@ header
        ensures !is_io(r), r is Ok ==> r->Ok_0 is Number,
            r is Ok ==> parse_of::<f64>(str@) is Some && r->Ok_0 == json_of_f64(parse_of::<f64>(str@)->0), // @tobl L2.double
            (parse_of::<f64>(str@) matches Some(f) && f64_finite(f)) ==> r is Ok, // @tobl L4.accepts
//@@ endfn
}

impl<R: Read> JsonParserUtils for Reader<R> {
    open spec fn rv2(&self) -> RView { rview(self) }
//@@ fn lex.read_reserved_word = src/json_parser.rs :: impl<R: Read> JsonParserUtils for Reader<R> :: fn read_reserved_word
//@@ safety C01 C05 C06 C16 C20
//@@ rewrite try_io
//@@ loop 1 iter it
            invariant
            rview(self).ok, self.name() == old(self).name(),
            advance(old(self).pending(), self.pending()),
                self.cur() is Some,
                self.pending().len() + it.index@ == old(self).pending().len(),
                it.seq().len() == N, forall|j: int| 0 <= j < N ==> *(#[trigger] it.seq()[j]) == chars@[j],
                forall|j: int| 1 <= j <= it.index@ ==> (#[trigger] old(self).pending()[j]) == Some(chars@[j - 1]),
//@@ before "if ch != *expected {"
                    proof {
                        assert(self.pending() =~= old(self).pending().subrange(it.index@ + 1, old(self).pending().len() as int));
                        assert(self.pending()[0] == Some(ch));
                    }
//@@ endfn
//@@ fn lex.read_true = src/json_parser.rs :: impl<R: Read> JsonParserUtils for Reader<R> :: fn read_true
//@@ safety C01 C05 C16 C20
//@@ rewrite byte_literals
//@@ endfn
//@@ fn lex.read_false = src/json_parser.rs :: impl<R: Read> JsonParserUtils for Reader<R> :: fn read_false
//@@ safety C01 C05 C16 C20
//@@ rewrite byte_literals
//@@ endfn
//@@ fn lex.read_null = src/json_parser.rs :: impl<R: Read> JsonParserUtils for Reader<R> :: fn read_null
//@@ safety C01 C05 C16 C20
//@@ rewrite byte_literals
//@@ endfn
//@@ fn lex.read_array = src/json_parser.rs :: impl<R: Read> JsonParserUtils for Reader<R> :: fn read_array
//@@ safety C01 C05 C06 C16 C20 C02 C11
//@@ rewrite try_io
//@@ attr
#[verifier::spinoff_prover]
#[verifier::rlimit(400)]
//@@ header
        decreases old(self).rv2().pending.len(), 1int,
//@@ rewrite vec_macro_empty
//@@ body-start
        let ghost pp = self.pending();
        let ghost q = from(pp, 1);
        let ghost w2 = ws_run(q) as int;
        broadcast use js::lemma_from_from, jv::group_jv, jt::group_json_names;
        proof { lemma_arr(pp); lemma_arrs(pp); }
//@@ loop 1
            invariant
            rview(self).ok, self.name() == old(self).name(),
            advance(old(self).pending(), self.pending()),
                self.pending().len() < old(self).pending().len(),
                at(old(self).pending(), 1 + ws_run(from(old(self).pending(), 1)) as int) != Some(0x5du8),
                pp == old(self).pending(), q == from(pp, 1), w2 == ws_run(q) as int, pp.len() > 0, 0 <= w2 <= q.len(),
                0 <= q.len() - self.pending().len() <= q.len(),
                self.pending() =~= from(q, q.len() - self.pending().len()),
                items(q, q.len() - self.pending().len(), array@) == items(q, w2, Seq::empty()),
                arrs(pp) ==> itemss(q, q.len() - self.pending().len()),
            decreases self.pending().len(),
//@@ after#1 "self.eat_whitespace()?;"
        proof {
            let p = old(self).pending();
            let p1 = from(p, 1);
            let w = ws_run(p1) as int;
            assert(self.pending() =~= from(p, 1 + w));
            assert(self.pending().len() > 0 ==> self.pending()[0] == p[1 + w]);
            assert(from(p, 1 + w) =~= from(q, w));
        }
//@@ before#1 "return Ok(JsonValue::Array(vec![]));"
            proof { assert(self.pending() =~= from(pp, 1 + w2 + 1)); }
//@@ loop-start 1
            let ghost i: int = q.len() - self.pending().len();
            let ghost acc0 = array@;
            broadcast use js::lemma_from_from, jv::group_jv, jt::group_json_names;
            proof { lemma_items(q, i, acc0); lemma_itemss(q, i); }
//@@ after "array.push(value);"
            let ghost n: int = (pv(from(q, i))->0).1;
            proof {
                assert(pv(from(q, i)) == Some((value, n)));
                assert(self.pending() =~= from(q, i + n));
            }
//@@ after#2 "self.eat_whitespace()?;"
            let ghost w: int = ws_run(from(q, i + n)) as int;
            proof {
                assert(self.pending() =~= from(q, i + n + w));
                assert(self.pending().len() > 0 ==> self.pending()[0] == q[i + n + w]);
                assert(self.pending().len() == 0 ==> i + n + w == q.len());
            }
//@@ before "return Ok(JsonValue::Array(array));"
                    proof {
                        assert(at(q, i + n + w) == Some(0x5du8));
                        assert(self.pending() =~= from(q, i + n + w + 1));
                        assert(items(q, i, acc0) == Some((array@, i + n + w + 1)));
                        lemma_arr(pp);
                        assert(at(q, w2) == at(pp, 1 + w2));
                        assert(from(q, i + n + w + 1) =~= from(pp, 1 + (i + n + w + 1)));
                    }
//@@ loop-end 1
            proof {
                assert(at(q, i + n + w) == Some(0x2cu8));
                assert(self.pending() =~= from(q, i + n + w + 1));
                assert(items(q, i, acc0) == items(q, i + n + w + 1, array@));
            }
//@@ endfn
//@@ fn lex.read_object = src/json_parser.rs :: impl<R: Read> JsonParserUtils for Reader<R> :: fn read_object
//@@ safety C01 C05 C06 C16 C20 C02 C11
//@@ rewrite try_io
//@@ attr
#[verifier::spinoff_prover]
#[verifier::rlimit(600)]
//@@ header
        decreases old(self).rv2().pending.len(), 1int,
//@@ body-start
        let ghost pp = self.pending();
        let ghost q = from(pp, 1);
        let ghost w2 = ws_run(q) as int;
        broadcast use js::lemma_from_from, jv::group_jv, jt::group_json_names;
        proof { lemma_obj(pp); lemma_objs(pp); }
//@@ loop 1
            invariant
            rview(self).ok, self.name() == old(self).name(),
            advance(old(self).pending(), self.pending()),
                self.pending().len() < old(self).pending().len(),
                at(old(self).pending(), 1 + ws_run(from(old(self).pending(), 1)) as int) != Some(0x7du8),
                pp == old(self).pending(), q == from(pp, 1), w2 == ws_run(q) as int, pp.len() > 0, 0 <= w2 <= q.len(),
                0 <= q.len() - self.pending().len() <= q.len(),
                self.pending() =~= from(q, q.len() - self.pending().len()),
                members(q, q.len() - self.pending().len(), map.entries()) == members(q, w2, Seq::empty()),
                objs(pp) ==> memberss(q, q.len() - self.pending().len()),
            decreases self.pending().len(),
//@@ after#1 "self.eat_whitespace()?;"
        proof {
            let p = old(self).pending();
            let p1 = from(p, 1);
            let w = ws_run(p1) as int;
            assert(self.pending() =~= from(p, 1 + w));
            assert(self.pending().len() > 0 ==> self.pending()[0] == p[1 + w]);
            assert(from(p, 1 + w) =~= from(q, w));
        }
//@@ after "let mut map = IndexMap::new();"
        proof { assert(map.entries() =~= Seq::<(String, JsonValue)>::empty()); }
//@@ before#1 "return Ok(JsonValue::Object(map));"
            proof {
                assert(map.entries() =~= Seq::<(String, JsonValue)>::empty());
                assert(JsonValue::Object(map) == json_object(map.entries()));
                assert(self.pending() =~= from(pp, 1 + w2 + 1));
            }
//@@ loop-start 1
            let ghost i: int = q.len() - self.pending().len();
            let ghost acc0 = map.entries();
            broadcast use js::lemma_from_from, jv::group_jv, jt::group_json_names;
            let ghost n: int = (pv(from(q, i))->0).1;
            let ghost w: int = ws_run(from(q, i + n)) as int;
            let ghost c: int = i + n + w + 1;
            let ghost n2: int = (pv(from(q, c))->0).1;
            let ghost w3: int = ws_run(from(q, c + n2)) as int;
            proof { lemma_members(q, i, acc0); lemma_memberss(q, i); }
//@@ before#2 "self.eat_whitespace()?;"
                        proof {
                            assert(pv(from(q, i)) == Some((JsonValue::String(key), n)));
                            assert(self.pending() =~= from(q, i + n));
                        }
//@@ after#2 "self.eat_whitespace()?;"
                        proof {
                            assert(self.pending() =~= from(q, i + n + w));
                            assert(self.pending().len() > 0 ==> self.pending()[0] == q[i + n + w]);
                        }
//@@ after#3 "self.next()?;"
                        proof {
                            assert(at(q, i + n + w) == Some(0x3au8));
                            assert(self.pending() =~= from(q, c));
                        }
//@@ after "map.insert(key, value);"
                            proof {
                                assert(pv(from(q, c)) == Some((value, n2)));
                                assert(self.pending() =~= from(q, c + n2));
                                assert(map.entries() == im_insert(acc0, key, value));
                            }
//@@ after#3 "self.eat_whitespace()?;"
            proof {
                assert(self.pending() =~= from(q, c + n2 + w3));
                assert(self.pending().len() > 0 ==> self.pending()[0] == q[c + n2 + w3]);
                assert(self.pending().len() == 0 ==> c + n2 + w3 == q.len());
            }
//@@ before#2 "return Ok(JsonValue::Object(map));"
                    proof {
                        assert(at(q, c + n2 + w3) == Some(0x7du8));
                        assert(self.pending() =~= from(q, c + n2 + w3 + 1));
                        assert(members(q, i, acc0) == Some((map.entries(), c + n2 + w3 + 1)));
                        lemma_obj(pp);
                        assert(at(q, w2) == at(pp, 1 + w2));
                        assert(from(q, c + n2 + w3 + 1) =~= from(pp, 1 + (c + n2 + w3 + 1)));
                    }
//@@ loop-end 1
            proof {
                assert(at(q, c + n2 + w3) == Some(0x2cu8));
                assert(self.pending() =~= from(q, c + n2 + w3 + 1));
                assert(members(q, i, acc0) == members(q, c + n2 + w3 + 1, map.entries()));
            }
//@@ endfn
//@@ fn lex.read_number = src/json_parser.rs :: impl<R: Read> JsonParserUtils for Reader<R> :: fn read_number
//@@ safety C01 C05 C06 C16 C19 C20 C02
//@@ rewrite try_io
//@@ attr
#[verifier::spinoff_prover]
#[verifier::rlimit(400)]
//@@ body-start
        let ghost p0 = self.pending();
        proof {
            assert(p0[0] == self.cur());
            // a token that starts with a digit has a non-empty digit run: read_digits consumes at least that digit
            assert(self.cur() != Some(0x2du8) ==> digit_run(p0) >= 1);
        }
//@@ before#1 "self.read_digits(&mut chars)?;"
        proof {
            assert(advance(p0, self.pending()));
            assert(self.pending().len() == p0.len() - num_sign(p0));
            assert(negative == (num_sign(p0) == 1));
            assert(chars@ =~= (if num_sign(p0) == 1 { seq![0x2du8] } else { Seq::<u8>::empty() }));
        }
//@@ after "let mut double = false;"
        let ghost p2 = self.pending();
        proof {
            assert(advance(p0, p2));
            assert(p2.len() == p0.len() - num_int_end(p0));
            assert(p2.len() > 0 ==> p2[0] == p0[num_int_end(p0)]);
            let p1 = from(p0, num_sign(p0));
            assert(p1.subrange(0, digit_run(p1) as int) =~= p0.subrange(num_sign(p0), num_int_end(p0)));
            assert(chars@ =~= num_text_int(p0));
        }
//@@ after#1 "double = true;"
            proof {
                assert(self.pending() == p2);
                assert(p2[0] == self.cur());
                assert(num_has_frac(p0));
            }
//@@ before#2 "self.read_digits(&mut chars)?;"
            proof {
                assert(advance(p0, self.pending()));
                assert(self.pending().len() == p0.len() - (num_int_end(p0) + 1));
                assert(chars@ =~= num_text_int(p0).push(0x2eu8));
            }
//@@ before "Some(b'e' | b'E')"
        let ghost pf = self.pending();
        proof {
            assert(!num_has_frac(p0) ==> pf == p2);
            assert(advance(p0, pf));
            assert(pf.len() == p0.len() - num_frac_end(p0));
            assert(pf.len() > 0 ==> pf[0] == p0[num_frac_end(p0)]);
            if num_has_frac(p0) {
                let p3 = from(p0, num_int_end(p0) + 1);
                assert(p3.subrange(0, digit_run(p3) as int) =~= p0.subrange(num_int_end(p0) + 1, num_frac_end(p0)));
            }
            assert(chars@ =~= num_text_frac(p0));
            assert(double == num_has_frac(p0));
        }
//@@ after#2 "double = true;"
            proof {
                assert(self.pending() == pf);
                assert(pf[0] == self.cur());
                assert(num_has_exp(p0));
            }
//@@ before "match self.peek()? {"
            let ghost p5 = self.pending();
            proof {
                assert(advance(p0, p5));
                assert(p5.len() == p0.len() - (num_frac_end(p0) + 1));
                assert(p5.len() > 0 ==> p5[0] == p0[num_frac_end(p0) + 1]);
            }
//@@ before#3 "self.read_digits(&mut chars)?;"
            proof {
                assert(advance(p0, self.pending()));
                assert(self.pending().len() == p0.len() - num_exp_digits_at(p0));
                let t = num_text_frac(p0).push(0x45u8);
                assert(chars@ =~= (if at(p0, num_frac_end(p0) + 1) == Some(0x2du8) { t.push(0x2du8) } else { t }));
            }
//@@ before "let str = match String::from_utf8(chars) {"
        proof {
            assert(!num_has_exp(p0) ==> self.pending() == pf);
            assert(advance(p0, self.pending()));
            assert(self.pending().len() == p0.len() - num_end(p0));
            if num_has_exp(p0) {
                let p4 = from(p0, num_exp_digits_at(p0));
                assert(p4.subrange(0, digit_run(p4) as int) =~= p0.subrange(num_exp_digits_at(p0), num_end(p0)));
            }
            assert(chars@ =~= num_text(p0));
            assert(double == num_is_double(p0));
        }
//@@ endfn
//@@ fn lex.read_string = src/json_parser.rs :: impl<R: Read> JsonParserUtils for Reader<R> :: fn read_string
//@@ safety C01 C05 C06 C16 C20 C02
//@@ rewrite try_io
//@@ body-start
        let ghost pp = self.pending();
        proof { assert(rest_at(pp, self.rest(), 1)); }
//@@ loop 1
            invariant
            rview(self).ok, self.name() == old(self).name(),
            advance(old(self).pending(), self.pending()),
                self.cur() is Some, pp == old(self).pending(),
                rest_at(pp, self.rest(), pp.len() - self.rest().len()), self.cur() == pp[pp.len() - self.rest().len() - 1],
                str_dec(pp, pp.len() - self.rest().len(), chars@) == str_dec(pp, 1, Seq::empty()),
            decreases self.pending().len(),
//@@ loop-start 1
            let ghost l0 = self.pending().len();
            let ghost idx: int = pp.len() - self.rest().len() - 1;
            let ghost c0 = chars@;
            broadcast use ls::axiom_spec_bytes;
//@@ before "self.next()?;"
                    proof {
                        assert(pp[idx + 1] == Some(0x22u8));
                        assert(str_dec(pp, idx + 1, c0) == Some((c0, idx + 1)));
                    }
//@@ before "match String::from_utf8(chars) {"
                    proof {
                        assert(self.pending() =~= from(pp, idx + 2));
                    }
//@@ before "chr = (chr << 4) | d;"
                                    proof {
                                        let k = it4.index@ as int;
                                        assert(at(pp, idx + 3 + k) == Some(c));
                                        assert(hexv(c) == Some(d));
                                        assert(hex_acc(pp, idx + 3, k + 1) == Some((chr << 4) | d));
                                    }
//@@ before#1 "return Err(JsonParserError::UnexpectedEof(self.where_am_i()));"
                    proof { assert(str_dec(pp, idx + 1, c0) is None); }
//@@ before#2 "return Err(JsonParserError::UnexpectedEof(self.where_am_i()));"
                        proof { assert(pp[idx + 1] == Some(0x5cu8)); assert(at(pp, idx + 2) is None); assert(str_dec(pp, idx + 1, c0) is None); }
//@@ before#3 "return Err(JsonParserError::UnexpectedEof(self.where_am_i()));"
                                    proof {
                                        let k = it4.index@ as int;
                                        assert(at(pp, idx + 3 + k) is None);
                                        reveal_with_fuel(hex_acc, 5);
                                        assert(hex_acc(pp, idx + 3, 4) is None);
                                        assert(pp[idx + 1] == Some(0x5cu8) && at(pp, idx + 2) == Some(0x75u8));
                                        assert(str_dec(pp, idx + 1, c0) is None);
                                    }
//@@ before#1 "return Err(create_unexpected_character("
                                            proof {
                                                let k = it4.index@ as int;
                                                assert(at(pp, idx + 3 + k) == Some(c));
                                                assert(hexv(c) is None);
                                                reveal_with_fuel(hex_acc, 5);
                                                assert(hex_acc(pp, idx + 3, 4) is None);
                                                assert(pp[idx + 1] == Some(0x5cu8) && at(pp, idx + 2) == Some(0x75u8));
                                                assert(str_dec(pp, idx + 1, c0) is None);
                                            }
//@@ before "return Err(JsonParserError::InvalidChacterHex("
                                proof {
                                    assert(pp[idx + 1] == Some(0x5cu8) && at(pp, idx + 2) == Some(0x75u8));
                                    assert(str_dec(pp, idx + 1, c0) is None);
                                }
//@@ before#2 "return Err(create_unexpected_character("
                        proof {
                            assert(pp[idx + 1] == Some(0x5cu8));
                            assert(at(pp, idx + 2) == Some(ch));
                            assert(esc_byte(ch) is None && ch != 0x75u8);
                            assert(str_dec(pp, idx + 1, c0) is None);
                        }
//@@ loop-end 1
            proof {
                let x = pp[idx + 1]->Some_0;
                if x == 0x5cu8 {
                    let y = pp[idx + 2]->Some_0;
                    assert(at(pp, idx + 2) == Some(y));
                    if y != 0x75u8 {
                        assert(str_dec(pp, idx + 1, c0) == str_dec(pp, idx + 3, chars@));
                    }
                } else {
                    assert(str_dec(pp, idx + 1, c0) == str_dec(pp, idx + 2, chars@));
                }
            }
//@@ loop 2 iter it4
                            invariant
                                self.pending().len() < l0,
            rview(self).ok, self.name() == old(self).name(),
            advance(old(self).pending(), self.pending()),
                                self.cur() is Some, self.pending().len() < old(self).pending().len(),
                                pp == old(self).pending(), chars@ == c0, idx == pp.len() - l0, 0 <= it4.index@ <= 4,
                                rest_at(pp, self.rest(), idx + 3 + it4.index@), self.cur() == pp[idx + 2 + it4.index@],
                                hex_acc(pp, idx + 3, it4.index@ as int) == Some(chr),
                                0 <= idx, idx + 2 < pp.len(), pp[idx + 1] == Some(0x5cu8), at(pp, idx + 2) == Some(0x75u8),
                                str_dec(pp, idx + 1, c0) == str_dec(pp, 1, Seq::empty()),
//@@ loop 3 iter itb
                                    invariant
                                        self.pending().len() < l0,
            rview(self).ok, self.name() == old(self).name(),
            advance(old(self).pending(), self.pending()),
                                        self.cur() is Some, self.pending().len() < old(self).pending().len(),
                                        pp == old(self).pending(), idx == pp.len() - l0,
                                        rest_at(pp, self.rest(), idx + 7), self.cur() == pp[idx + 6],
                                        itb.seq().len() == utf8_of(ch).len(), 0 <= itb.index@ <= itb.seq().len(),
                                        forall|j: int| 0 <= j < itb.seq().len() ==> *(#[trigger] itb.seq()[j]) == utf8_of(ch)[j],
                                        chars@ == c0.add(utf8_of(ch).subrange(0, itb.index@)),
//@@ after-loop 3
                                proof {
                                    assert(utf8_of(ch).subrange(0, utf8_of(ch).len() as int) =~= utf8_of(ch));
                                    assert(pp[idx + 1] == Some(0x5cu8) && at(pp, idx + 2) == Some(0x75u8));
                                    assert(str_dec(pp, idx + 1, c0) == str_dec(pp, idx + 7, chars@));
                                }
//@@ endfn
//@@ fn lex.parse_to_double = src/json_parser.rs :: impl<R: Read> JsonParserUtils for Reader<R> :: fn parse_to_double
//@@ safety C01 C05 C19
//@@ endfn
}

impl<R: Read> JsonParser for Reader<R> {
    open spec fn rv(&self) -> RView { rview(self) }
//@@ fn lex.next_json_value = src/json_parser.rs :: impl<R: Read> JsonParser for Reader<R> :: fn next_json_value
//@@ safety C01 C05 C06 C16 C20 C02 C11
//@@ rewrite try_io
//@@ header
        decreases old(self).rv().pending.len(), 2int,
//@@ after "self.eat_whitespace()?;"
        proof {
            let p = old(self).pending();
            let w = ws_run(p) as int;
            assert(self.pending() =~= from(p, w));
            assert(self.pending().len() > 0 ==> self.pending()[0] == p[w]);
            assert(self.pending().len() == 0 ==> w == p.len());
        }
        broadcast use js::lemma_from_from, jv::group_jv;
        proof {
            let p = old(self).pending();
            let w = ws_run(p) as int;
            lemma_str_dec_bounds(from(p, w), 1, Seq::empty());
            lemma_pv(p);
            lemma_tv(from(p, w));
            lemma_pvs(p);
            lemma_tvs(from(p, w));
            assert(w < p.len() ==> p.subrange(w, p.len() as int) == from(p, w));
        }
//@@ endfn
}

} // verus!
fn main() {}
