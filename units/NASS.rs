#![feature(allocator_api)]
// Unit NASS: the number-as-string sort_by (src/functions/number_as_string/nas_compare/sort_by.rs): C19 C07 C04
use vstd::prelude::*;
use std::rc::Rc;
use vstd::std_specs::iter::IteratorSpec;
use std::collections::HashMap;
use std::cmp::Ordering;

verus! {

pub mod jt {
use vstd::prelude::*;
use std::rc::Rc;
use vstd::std_specs::iter::IteratorSpec;
//@@ include prelude/indexmap.rs
//@@ include prelude/json_types.rs
//@@ include prelude/clone_specs.rs
}
use jt::*;
pub mod cl {
use vstd::prelude::*;
use std::rc::Rc;
use super::jt::*;
//@@ include prelude/clone_axioms.rs
}
//@@ include lemmas/ctx_spec.rs
//@@ include prelude/ctx_opaque.rs
//@@ include prelude/get_trait.rs
//@@ include prelude/fnargs_apply.rs
//@@ include prelude/vit.rs


// ---- the bigdecimal crate: exact decimals (stand-in as in unit NAS) ----
pub mod bd {
use vstd::prelude::*;
#[verifier::external_body] pub struct Dec { _p: () }
#[verifier::external_body] pub struct BigDecimal { _p: () }
pub uninterp spec fn dcmp(a: Dec, b: Dec) -> std::cmp::Ordering;
pub uninterp spec fn is_dec(s: Seq<char>) -> bool;
pub uninterp spec fn dec_of(s: Seq<char>) -> Dec;
impl BigDecimal { pub uninterp spec fn val(&self) -> Dec; }
}
use bd::*;
// the exact decimal a value denotes: only strings that spell a decimal (unit NAS proves to_big_decimal against this)
pub open spec fn nas_val(o: Option<JsonValue>) -> Option<Dec> {
    match o { Some(JsonValue::String(s)) => if is_dec(s@) { Some(dec_of(s@)) } else { None }, _ => None }
}
pub trait BigDecimalConvert {
    spec fn as_dec(&self) -> Option<Dec>;
    fn to_big_decimal(&self) -> (r: Option<BigDecimal>)
        ensures r is Some <==> self.as_dec() is Some, r is Some ==> r->Some_0.val() == self.as_dec()->Some_0;
}
impl BigDecimalConvert for Option<JsonValue> {
    open spec fn as_dec(&self) -> Option<Dec> { nas_val(*self) }
    // verified in unit NAS (nas.to_big_decimal.exact); assumed here
    #[verifier::external_body]
    fn to_big_decimal(&self) -> (r: Option<BigDecimal>) { unimplemented!() }
}
// std: Ord for Option<T> puts None first and compares Some by T's Ord; bigdecimal's Ord is the exact numeric order (dcmp)
pub open spec fn odec_cmp(a: Option<Dec>, b: Option<Dec>) -> Ordering {
    match (a, b) { (None, None) => Ordering::Equal, (None, Some(_)) => Ordering::Less, (Some(_), None) => Ordering::Greater, (Some(x), Some(y)) => dcmp(x, y) }
}
pub open spec fn oval(o: Option<BigDecimal>) -> Option<Dec> { match o { Some(b) => Some(b.val()), None => None } }
pub trait VCmp { fn vcmp(&self, other: &Self) -> (r: Ordering); spec fn cmp_spec(&self, other: &Self) -> Ordering; }
impl VCmp for Option<BigDecimal> {
    open spec fn cmp_spec(&self, other: &Self) -> Ordering { odec_cmp(oval(*self), oval(*other)) }
    #[verifier::external_body]
    fn vcmp(&self, other: &Self) -> (r: Ordering) ensures r == self.cmp_spec(other) { unimplemented!() }
}
pub uninterp spec fn stable_sorted_by<T>(s: Seq<T>, c: spec_fn(T, T) -> Ordering) -> Seq<T>;
pub assume_specification<T, F: FnMut(&T, &T) -> Ordering>[ <[T]>::sort_by ](s: &mut [T], f: F)
    requires forall|a: &T, b: &T| #[trigger] f.requires((a, b)),
    ensures forall|c: spec_fn(T, T) -> Ordering| (forall|a: &T, b: &T, o: Ordering| #[trigger] f.ensures((a, b), o) ==> o == c(*a, *b))
        ==> final(s)@ == #[trigger] stable_sorted_by(old(s)@, c);
// the exact decimal key of an element: the key expression evaluated with the element as input and the caller's input as parent
pub open spec fn nas_key(args: Seq<Rc<dyn Get>>, ctx: Context, v: JsonValue) -> Option<Dec> { nas_val(arg(args, &ctx_with_input(ctx, v), 1)) }
pub mod f_nas_sort_by {
use super::*;
//@@ item src/functions/number_as_string/nas_compare/sort_by.rs :: fn get :: struct Impl
//@@ rewrite pub_tuple pub_struct
//@@ enditem
impl Get for Impl {
    open spec fn get_spec(&self, value: &Context) -> Option<JsonValue> {
        match arg(self.0@, value, 0) {
            Some(JsonValue::Array(l)) => Some(json_array(stable_sorted_by(l@, |a: JsonValue, b: JsonValue| odec_cmp(nas_key(self.0@, *value, a), nas_key(self.0@, *value, b))))),
            _ => None,
        }
    }
//@@ fn nas.sort_by = src/functions/number_as_string/nas_compare/sort_by.rs :: fn get :: impl Get for Impl :: fn get
//@@ safety C19 C07 C04 C12
//@@ rewrite cmp_dispatch
//@@ post sorted "(the number-as-string sort_by l k) is the STABLE sort of the list by the EXACT decimal value of the key k evaluated on each element (parent = the caller's input); elements whose key is not a decimal string come first, in their order; nothing for a non-list"
//@@ body-start
        broadcast use group_json_names, super::cl::group_clone_is_copy;
//@@ insert-after "list.sort_by(|v1"
 : &JsonValue
//@@ insert-after "list.sort_by(|v1, v2"
 : &JsonValue
//@@ insert-after "list.sort_by(|v1, v2|"
 -> (o: Ordering)
                            ensures o == odec_cmp(nas_key(self.0@, *value, *v1), nas_key(self.0@, *value, *v2)),
//@@ endfn
}
}

} // verus!
fn main() {}
