#![feature(allocator_api)]
// Unit LIST: list producers and manipulators — reverse, indexed, zip, cross, flat_map, group_by and the object functional four (C04, C05, C12)
use vstd::prelude::*;
use std::rc::Rc;
use vstd::std_specs::iter::IteratorSpec;

verus! {

pub mod jt {
use vstd::prelude::*;
use std::rc::Rc;
use vstd::std_specs::iter::IteratorSpec;
//@@ include prelude/indexmap.rs
//@@ include prelude/json_types.rs
//@@ include prelude/clone_specs.rs
}
use jt::*;
pub mod cl {
use vstd::prelude::*;
use std::rc::Rc;
use super::jt::*;
//@@ include prelude/clone_axioms.rs
}
//@@ include prelude/fnargs.rs
//@@ include prelude/vit.rs

// ---- with_capacity (rewrite with_capacity): no allocation larger than a collection that already exists ----
pub mod vcap {
use vstd::prelude::*;
use super::jt::*;
pub uninterp spec fn cap_limit() -> nat;
pub broadcast axiom fn axiom_vec_len_allocated(v: Vec<JsonValue>) ensures #[trigger] v@.len() <= cap_limit();
pub broadcast axiom fn axiom_map_len_allocated(m: IndexMap<String, JsonValue>) ensures #[trigger] m.entries().len() <= cap_limit();
#[allow(non_snake_case)]
pub fn Vec_with_capacity<T>(n: usize) -> (r: Vec<T>) requires n <= cap_limit(), ensures r@.len() == 0 { Vec::with_capacity(n) }
#[allow(non_snake_case)]
pub fn IndexMap_with_capacity<K, V>(n: usize) -> (r: IndexMap<K, V>) requires n <= cap_limit(), ensures r.entries().len() == 0, r.distinct() { IndexMap::with_capacity(n) }
pub broadcast group group_cap { axiom_vec_len_allocated, axiom_map_len_allocated }
}


pub mod f_reverse {
use super::*;
//@@ item src/functions/list/list_manipulations/reverese.rs :: fn get :: struct Impl
//@@ rewrite pub_tuple pub_struct
//@@ enditem
impl Get for Impl {
    open spec fn get_spec(&self, value: &Context) -> Option<JsonValue> {
        match arg(self.0@, value, 0) { Some(JsonValue::Array(l)) => Some(json_array(l@.reverse())), _ => None }
    }
//@@ fn f.reverse = src/functions/list/list_manipulations/reverese.rs :: fn get :: impl Get for Impl :: fn get
//@@ safety C04 C05
//@@ rewrite with_capacity iter_rev
//@@ post doc "(reverse l): the elements of the list in reverse order; nothing when l is not a list"
//@@ body-start
        broadcast use group_json_names, super::cl::group_clone_is_copy, vcap::group_cap;
//@@ loop 1 iter it
                            invariant new_list@.len() == it.index@, it.seq().len() == lst@.len(),
                                forall|j: int| 0 <= j < it.seq().len() ==> *(#[trigger] it.seq()[j]) == lst@[lst@.len() - 1 - j],
                                forall|j: int| 0 <= j < new_list@.len() ==> (#[trigger] new_list@[j]) == lst@[lst@.len() - 1 - j],
//@@ after-loop 1
                        proof { assert(new_list@ =~= lst@.reverse()); }
//@@ endfn
}
}

// ---- zip / cross: the member names `.0`, `.1`, .. (format!(".{i}")): an injective function of the position ----
pub mod vdot {
use vstd::prelude::*;
pub uninterp spec fn dot_name(i: int) -> Seq<char>;
pub broadcast axiom fn axiom_dot_name_injective(i: int, j: int) ensures #[trigger] dot_name(i) == #[trigger] dot_name(j) ==> i == j;
#[verifier::external_body]
pub fn dot_key(i: usize) -> (r: String) ensures r@ == dot_name(i as int) { unimplemented!() }
}
pub uninterp spec fn str_of(s: Seq<char>) -> String;
pub broadcast axiom fn axiom_str_of(s: Seq<char>) ensures (#[trigger] str_of(s))@ == s;
pub broadcast axiom fn axiom_args_len_allocated(v: Vec<Rc<dyn Get>>) ensures #[trigger] v@.len() <= vcap::cap_limit();
// every argument must be a list
pub open spec fn is_list(o: Option<JsonValue>) -> bool { o matches Some(JsonValue::Array(_)) }
pub open spec fn list_of(o: Option<JsonValue>) -> Vec<JsonValue> { o->0->Array_0 }
pub open spec fn args_are_lists(args: Seq<Rc<dyn Get>>, value: &Context, n: int) -> bool { forall|i: int| 0 <= i < n ==> is_list(#[trigger] args[i].get_spec(value)) }
pub open spec fn lists_of(args: Seq<Rc<dyn Get>>, value: &Context) -> Seq<Vec<JsonValue>> { Seq::new(args.len(), |i: int| list_of(args[i].get_spec(value))) }
pub open spec fn max_len(ls: Seq<Vec<JsonValue>>, n: int) -> int
    decreases n
{
    if n <= 0 { 0 } else { let m = max_len(ls, n - 1); if ls[n - 1]@.len() > m { ls[n - 1]@.len() as int } else { m } }
}
// row idx of the zip: for every list that is long enough, in argument order, the member `.i` = its idx-th element
pub open spec fn zip_row(ls: Seq<Vec<JsonValue>>, idx: int, n: int) -> Seq<(String, JsonValue)>
    decreases n
{
    if n <= 0 { Seq::empty() } else {
        let r = zip_row(ls, idx, n - 1);
        if idx < ls[n - 1]@.len() { r.push((str_of(vdot::dot_name(n - 1)), ls[n - 1]@[idx])) } else { r }
    }
}
pub proof fn lemma_zip_row_keys(ls: Seq<Vec<JsonValue>>, idx: int, n: int)
    requires 0 <= n <= ls.len(), 0 <= idx,
    ensures forall|j: int| 0 <= j < zip_row(ls, idx, n).len() ==> exists|i: int| 0 <= i < n && (#[trigger] zip_row(ls, idx, n)[j]).0@ == vdot::dot_name(i),
    decreases n,
{
    if n > 0 {
        lemma_zip_row_keys(ls, idx, n - 1);
        let r = zip_row(ls, idx, n - 1);
        broadcast use axiom_str_of;
        assert forall|j: int| 0 <= j < zip_row(ls, idx, n).len() implies exists|i: int| 0 <= i < n && (#[trigger] zip_row(ls, idx, n)[j]).0@ == vdot::dot_name(i) by {
            if j < r.len() {
                let i = choose|i: int| 0 <= i < n - 1 && r[j].0@ == vdot::dot_name(i);
                assert(0 <= i < n && zip_row(ls, idx, n)[j].0@ == vdot::dot_name(i));
            } else {
                assert(zip_row(ls, idx, n)[j].0@ == vdot::dot_name(n - 1));
            }
        }
    }
}
pub mod f_zip {
use super::*;
//@@ item src/functions/list/list_producers/zip.rs :: fn get :: struct Impl
//@@ rewrite pub_tuple pub_struct
//@@ enditem
impl Get for Impl {
    open spec fn get_spec(&self, value: &Context) -> Option<JsonValue> {
        if args_are_lists(self.0@, value, self.0@.len() as int) {
            let ls = lists_of(self.0@, value);
            Some(json_array(Seq::new(max_len(ls, ls.len() as int) as nat, |idx: int| json_object(zip_row(ls, idx, ls.len() as int)))))
        } else { None }
    }
//@@ fn f.zip = src/functions/list/list_producers/zip.rs :: fn get :: impl Get for Impl :: fn get
//@@ safety C04 C05
//@@ rewrite with_capacity vec_macro_empty enumerate format_dot_index
//@@ post doc "(zip l0 l1 ..): a list as long as the longest argument whose idx-th item is the object with, for every argument i that has an idx-th element, the member .i holding it, in argument order; nothing when an argument is not a list"
//@@ body-start
        broadcast use group_json_names, super::cl::group_clone_is_copy, super::cl::axiom_string_ext, vcap::group_cap, axiom_args_len_allocated, axiom_str_of, vdot::axiom_dot_name_injective;
        let ghost ls = lists_of(self.0@, value);
//@@ loop 1 iter it
                    invariant
                        it.seq().len() == self.0@.len(), 0 <= it.index@ <= self.0@.len(),
                        forall|j: int| 0 <= j < it.seq().len() ==> *(#[trigger] it.seq()[j]) == self.0@[j],
                        ls == lists_of(self.0@, value),
                        args_are_lists(self.0@, value, it.index@),
                        all_lists@.len() == it.index@,
                        forall|j: int| 0 <= j < it.index@ ==> (#[trigger] all_lists@[j]) == ls[j],
                        max_size == max_len(ls, it.index@),
//@@ after-loop 1
                proof {
                    assert(args_are_lists(self.0@, value, self.0@.len() as int));
                    assert(all_lists@ =~= ls);
                }
//@@ loop 2 iter it2
                    invariant
                        all_lists@ == ls, ls.len() == self.0@.len(), max_size == max_len(ls, ls.len() as int),
                        zipped_list@.len() == it2.index@,
                        forall|j: int| 0 <= j < zipped_list@.len() ==> (#[trigger] zipped_list@[j]) == json_object(zip_row(ls, j, ls.len() as int)),
//@@ loop 3 iter it3
                        invariant
                            all_lists@ == ls, it3.seq().len() == ls.len(), 0 <= it3.index@ <= ls.len(),
                            forall|j: int| 0 <= j < it3.seq().len() ==> (#[trigger] it3.seq()[j]).0 == j && *it3.seq()[j].1 == ls[j],
                            datum.entries() == zip_row(ls, index as int, it3.index@),
//@@ loop-start 1
                    broadcast use group_json_names, super::cl::group_clone_is_copy, super::cl::axiom_string_ext, vcap::group_cap, axiom_args_len_allocated, axiom_str_of, vdot::axiom_dot_name_injective;
//@@ loop-start 2
                    broadcast use group_json_names, super::cl::group_clone_is_copy, super::cl::axiom_string_ext, vcap::group_cap, axiom_args_len_allocated, axiom_str_of, vdot::axiom_dot_name_injective;
//@@ loop-start 3
                        broadcast use group_json_names, super::cl::group_clone_is_copy, super::cl::axiom_string_ext, vcap::group_cap, axiom_args_len_allocated, axiom_str_of, vdot::axiom_dot_name_injective;
                        let ghost e0 = datum.entries();
                        proof { lemma_zip_row_keys(ls, index as int, it3.index@); }
//@@ after "datum.insert(format!"
                            proof {
                                let k = str_of(vdot::dot_name(i as int));
                                assert(!im_has(e0, k)) by {
                                    if im_has(e0, k) {
                                        let j = im_idx(e0, k);
                                        let i2 = choose|i2: int| 0 <= i2 < it3.index@ && e0[j].0@ == vdot::dot_name(i2);
                                        assert(vdot::dot_name(i2) == vdot::dot_name(i as int));
                                    }
                                }
                                assert(datum.entries() == e0.push((k, ls[i as int]@[index as int])));
                            }
//@@ after-loop 3
                    proof { assert(datum.entries() == zip_row(ls, index as int, ls.len() as int)); }
//@@ before "Some(zipped_list.into())"
                proof { assert(zipped_list@ =~= Seq::new(max_len(ls, ls.len() as int) as nat, |idx: int| json_object(zip_row(ls, idx, ls.len() as int)))); }
//@@ endfn
}
}

// ---- cross: the cartesian product, built argument by argument ----
impl Clone for IndexMap<String, JsonValue> {
    #[verifier::external_body]
    fn clone(&self) -> (r: Self) ensures r == *self { unimplemented!() }
}
pub mod vone {
use vstd::prelude::*;
use super::jt::*;
#[verifier::external_body]
pub fn vec_of_one<T>(x: T) -> (r: Vec<T>) ensures r@ == seq![x] { unimplemented!() }
#[verifier::external_body]
pub fn objects_of(v: &Vec<IndexMap<String, JsonValue>>) -> (r: Vec<JsonValue>)
    ensures r@.len() == v@.len(), forall|j: int| 0 <= j < r@.len() ==> (#[trigger] r@[j]) == JsonValue::Object(v@[j]),
{ unimplemented!() }
}
pub type Row = Seq<(String, JsonValue)>;
// every row so far, extended by the member key = val
pub open spec fn ext(prev: Seq<Row>, key: String, val: JsonValue) -> Seq<Row> { Seq::new(prev.len(), |j: int| prev[j].push((key, val))) }
// the rows after the first m values of the list lst have been combined with every row so far (value-major order)
pub open spec fn cross_step(prev: Seq<Row>, key: String, lst: Seq<JsonValue>, m: int) -> Seq<Row>
    decreases m
{
    if m <= 0 { Seq::empty() } else { cross_step(prev, key, lst, m - 1).add(ext(prev, key, lst[m - 1])) }
}
// the rows after the first n argument lists
pub open spec fn cross_rows(ls: Seq<Vec<JsonValue>>, n: int) -> Seq<Row>
    decreases n
{
    if n <= 0 { seq![Seq::<(String, JsonValue)>::empty()] } else {
        cross_step(cross_rows(ls, n - 1), str_of(vdot::dot_name(n - 1)), ls[n - 1]@, ls[n - 1]@.len() as int)
    }
}
pub open spec fn keys_below(r: Row, n: int) -> bool { forall|j: int| 0 <= j < r.len() ==> exists|i: int| 0 <= i < n && (#[trigger] r[j]).0@ == vdot::dot_name(i) }
pub proof fn lemma_cross_step_keys(prev: Seq<Row>, key: String, lst: Seq<JsonValue>, m: int, n: int)
    requires 0 <= m <= lst.len(), 0 <= n, key@ == vdot::dot_name(n), forall|k: int| 0 <= k < prev.len() ==> keys_below(#[trigger] prev[k], n),
    ensures forall|k: int| 0 <= k < cross_step(prev, key, lst, m).len() ==> keys_below(#[trigger] cross_step(prev, key, lst, m)[k], n + 1),
    decreases m,
{
    if m > 0 {
        lemma_cross_step_keys(prev, key, lst, m - 1, n);
        let a = cross_step(prev, key, lst, m - 1);
        let e = ext(prev, key, lst[m - 1]);
        assert forall|k: int| 0 <= k < cross_step(prev, key, lst, m).len() implies keys_below(#[trigger] cross_step(prev, key, lst, m)[k], n + 1) by {
            if k >= a.len() {
                let r0 = prev[k - a.len()];
                let r = e[k - a.len()];
                assert(keys_below(r0, n));
                assert forall|j: int| 0 <= j < r.len() implies exists|i: int| 0 <= i < n + 1 && (#[trigger] r[j]).0@ == vdot::dot_name(i) by {
                    if j < r0.len() { let i = choose|i: int| 0 <= i < n && r0[j].0@ == vdot::dot_name(i); assert(0 <= i < n + 1 && r[j].0@ == vdot::dot_name(i)); }
                    else { assert(r[j].0@ == vdot::dot_name(n)); }
                }
            }
        }
    }
}
pub proof fn lemma_cross_rows_keys(ls: Seq<Vec<JsonValue>>, n: int)
    requires 0 <= n <= ls.len(),
    ensures forall|k: int| 0 <= k < cross_rows(ls, n).len() ==> keys_below(#[trigger] cross_rows(ls, n)[k], n),
    decreases n,
{
    broadcast use axiom_str_of;
    if n > 0 {
        lemma_cross_rows_keys(ls, n - 1);
        lemma_cross_step_keys(cross_rows(ls, n - 1), str_of(vdot::dot_name(n - 1)), ls[n - 1]@, ls[n - 1]@.len() as int, n - 1);
    }
}
pub open spec fn rows_are(v: Seq<IndexMap<String, JsonValue>>, rows: Seq<Row>) -> bool {
    v.len() == rows.len() && forall|j: int| 0 <= j < v.len() ==> (#[trigger] v[j]).entries() == rows[j]
}
pub mod f_cross {
use super::*;
//@@ item src/functions/list/list_producers/cross.rs :: fn get :: struct Impl
//@@ rewrite pub_tuple pub_struct
//@@ enditem
impl Get for Impl {
    open spec fn get_spec(&self, value: &Context) -> Option<JsonValue> {
        if args_are_lists(self.0@, value, self.0@.len() as int) {
            let ls = lists_of(self.0@, value);
            Some(json_array(cross_rows(ls, ls.len() as int).map_values(|r: Row| json_object(r))))
        } else { None }
    }
//@@ fn f.cross = src/functions/list/list_producers/cross.rs :: fn get :: impl Get for Impl :: fn get
//@@ safety C04 C05
//@@ rewrite with_capacity vec_macro_one_map vec_macro_empty enumerate format_dot_index map_clone_into_collect
//@@ post doc "(cross l0 l1 ..): the cartesian product of the argument lists as a list of objects with the members .0, .1, .. in argument order; the rows are built argument by argument, each new argument's values in list order, for each value every row so far in order (so the first argument varies fastest); nothing when an argument is not a list"
//@@ body-start
        broadcast use group_json_names, super::cl::group_clone_is_copy, super::cl::axiom_string_ext, vcap::group_cap, axiom_args_len_allocated, axiom_str_of, vdot::axiom_dot_name_injective;
        let ghost ls = lists_of(self.0@, value);
//@@ loop 1 iter it
                    invariant
                        it.seq().len() == self.0@.len(), 0 <= it.index@ <= self.0@.len(),
                        forall|j: int| 0 <= j < it.seq().len() ==> *(#[trigger] it.seq()[j]) == self.0@[j],
                        ls == lists_of(self.0@, value),
                        args_are_lists(self.0@, value, it.index@),
                        all_lists@.len() == it.index@,
                        forall|j: int| 0 <= j < it.index@ ==> (#[trigger] all_lists@[j]) == ls[j],
//@@ loop-start 1
                    broadcast use group_json_names, super::cl::group_clone_is_copy, super::cl::axiom_string_ext, vcap::group_cap, axiom_args_len_allocated, axiom_str_of, vdot::axiom_dot_name_injective;
//@@ after-loop 1
                proof {
                    assert(args_are_lists(self.0@, value, self.0@.len() as int));
                    assert(all_lists@ =~= ls);
                    assert(joined_list@[0].entries() =~= Seq::<(String, JsonValue)>::empty());
                    assert(rows_are(joined_list@, cross_rows(ls, 0)));
                }
//@@ loop 2 iter it2
                    invariant
                        all_lists@ == ls, it2.seq().len() == ls.len(), 0 <= it2.index@ <= ls.len(),
                        forall|j: int| 0 <= j < it2.seq().len() ==> (#[trigger] it2.seq()[j]).0 == j && *it2.seq()[j].1 == ls[j],
                        rows_are(joined_list@, cross_rows(ls, it2.index@)),
//@@ loop-start 2
                    broadcast use group_json_names, super::cl::group_clone_is_copy, super::cl::axiom_string_ext, vcap::group_cap, axiom_args_len_allocated, axiom_str_of, vdot::axiom_dot_name_injective;
                    let ghost prev = cross_rows(ls, it2.index@);
                    proof { lemma_cross_rows_keys(ls, it2.index@); }
//@@ loop 3 iter it3
                        invariant
                            it3.seq().len() == lst@.len(), 0 <= it3.index@ <= lst@.len(),
                            forall|j: int| 0 <= j < it3.seq().len() ==> *(#[trigger] it3.seq()[j]) == lst@[j],
                            rows_are(joined_list@, prev), key@ == vdot::dot_name(i as int),
                            forall|k: int| 0 <= k < prev.len() ==> keys_below(#[trigger] prev[k], i as int),
                            rows_are(new_joined_list@, cross_step(prev, key, lst@, it3.index@)),
//@@ loop-start 3
                        broadcast use group_json_names, super::cl::group_clone_is_copy, super::cl::axiom_string_ext, vcap::group_cap, axiom_args_len_allocated, axiom_str_of, vdot::axiom_dot_name_injective;
                        let ghost done = cross_step(prev, key, lst@, it3.index@);
//@@ loop 4 iter it4
                            invariant
                                it4.seq().len() == joined_list@.len(), 0 <= it4.index@ <= joined_list@.len(),
                                forall|j: int| 0 <= j < it4.seq().len() ==> *(#[trigger] it4.seq()[j]) == joined_list@[j],
                                rows_are(joined_list@, prev), key@ == vdot::dot_name(i as int),
                                forall|k: int| 0 <= k < prev.len() ==> keys_below(#[trigger] prev[k], i as int),
                                rows_are(new_joined_list@, done.add(ext(prev, key, *val).take(it4.index@))),
//@@ loop-start 4
                            broadcast use group_json_names, super::cl::group_clone_is_copy, super::cl::axiom_string_ext, vcap::group_cap, axiom_args_len_allocated, axiom_str_of, vdot::axiom_dot_name_injective;
                            let ghost nj0 = new_joined_list@;
//@@ after "datum.insert(key.clone(), val.clone());"
                            proof {
                                let r0 = prev[it4.index@];
                                assert(so_far.entries() == r0);
                                assert(keys_below(r0, i as int));
                                assert(!im_has(r0, key)) by {
                                    if im_has(r0, key) {
                                        let j = im_idx(r0, key);
                                        let i2 = choose|i2: int| 0 <= i2 < i as int && r0[j].0@ == vdot::dot_name(i2);
                                        assert(vdot::dot_name(i2) == vdot::dot_name(i as int));
                                    }
                                }
                                assert(datum.entries() == r0.push((key, *val)));
                            }
//@@ after "new_joined_list.push(datum);"
                            proof {
                                let e = ext(prev, key, *val);
                                assert(e.take(it4.index@ + 1) =~= e.take(it4.index@).push(e[it4.index@]));
                                assert(done.add(e.take(it4.index@ + 1)) =~= done.add(e.take(it4.index@)).push(e[it4.index@]));
                            }
//@@ after-loop 4
                        proof {
                            let e = ext(prev, key, *val);
                            assert(e.take(e.len() as int) =~= e);
                            assert(cross_step(prev, key, lst@, it3.index@ + 1) == done.add(e));
                        }
//@@ after-loop 3
                    proof {
                        assert(key == str_of(vdot::dot_name(i as int)));
                        assert(cross_rows(ls, i as int + 1) == cross_step(prev, key, lst@, lst@.len() as int));
                    }
//@@ before "Some(joined_list.into())"
                proof {
                    let rows = cross_rows(ls, ls.len() as int);
                    assert(joined_list@ =~= rows.map_values(|r: Row| json_object(r)));
                }
//@@ endfn
}
}

// ---- indexed: every element paired with its position ----
pub mod vstr {
use vstd::prelude::*;
#[verifier::external_body]
pub fn string_of(x: &str) -> (r: String) ensures r@ == x@ { unimplemented!() }
}
impl vstd::std_specs::convert::FromSpecImpl<usize> for NumberValue {
    open spec fn obeys_from_spec() -> bool { true }
    open spec fn from_spec(v: usize) -> Self { NumberValue::Positive(v as u64) }
}
impl From<usize> for NumberValue {
//@@ fn nv.from_usize = src/json_value.rs :: impl From<usize> for NumberValue :: fn from
//@@ safety C04
//@@ post from "a usize converts to the non-negative integer with that value"
//@@ endfn
}
impl vstd::std_specs::convert::FromSpecImpl<usize> for JsonValue {
    open spec fn obeys_from_spec() -> bool { true }
    open spec fn from_spec(v: usize) -> Self { JsonValue::Number(NumberValue::Positive(v as u64)) }
}
impl From<usize> for JsonValue {
//@@ fn jv.from_usize = src/json_value.rs :: impl From<usize> for JsonValue :: fn from
//@@ safety C04
//@@ post from "a usize converts to the JSON number with that value"
//@@ endfn
}
pub open spec fn indexed_item(i: int, v: JsonValue) -> JsonValue {
    json_object(seq![(str_of("value"@), v), (str_of("index"@), JsonValue::Number(NumberValue::Positive(i as u64)))])
}
pub mod f_indexed {
use super::*;
//@@ item src/functions/list/list_manipulations/indexed.rs :: fn get :: struct Impl
//@@ rewrite pub_tuple pub_struct
//@@ enditem
impl Get for Impl {
    open spec fn get_spec(&self, value: &Context) -> Option<JsonValue> {
        match arg(self.0@, value, 0) {
            Some(JsonValue::Array(l)) => Some(json_array(vitc::enum_map_spec(l@, |i: int, v: JsonValue| indexed_item(i, v)))),
            _ => None,
        }
    }
//@@ fn f.indexed = src/functions/list/list_manipulations/indexed.rs :: fn get :: impl Get for Impl :: fn get
//@@ safety C04 C05
//@@ rewrite enum_map_collect tuple_param_indexed lit_into_string
//@@ post doc "(indexed l) is the list of the objects {value: element, index: position} for the elements of l in list order; nothing when l is not a list"
//@@ body-start
        broadcast use group_json_names, super::cl::group_clone_is_copy, super::cl::axiom_string_ext, axiom_str_of;
//@@ insert-after ".map(|(i, v)|"
 -> (o: JsonValue)
                            ensures o == indexed_item(iv__.0 as int, iv__.1),
//@@ insert-after ".map(|(i, v)| {"
 let (i, v) = iv__;
                            broadcast use group_json_names, super::cl::group_clone_is_copy, super::cl::axiom_string_ext, axiom_str_of;
                            proof {
                                reveal_strlit("value"); reveal_strlit("index");
                                assert("value"@.len() == 5 && "index"@.len() == 5);
                                assert("value"@[0] == 'v' && "index"@[0] == 'i');
                            }
//@@ after "i.into());"
                            proof {
                                let kv = (str_of("value"@), v);
                                let ki = (str_of("index"@), JsonValue::Number(NumberValue::Positive(i as u64)));
                                let e1 = seq![kv];
                                assert(!im_has(Seq::<(String, JsonValue)>::empty(), str_of("value"@)));
                                assert(!im_has(e1, str_of("index"@))) by { if im_has(e1, str_of("index"@)) { let j = im_idx(e1, str_of("index"@)); assert(e1[j].0@[0] == 'v'); } }
                                assert(mp.entries() =~= seq![kv, ki]);
                            }
//@@ endfn
}
}

} // verus!
fn main() {}
