// Unit R: src/reader.rs — Reader<R>::{next, peek, eat_whitespace, read_digits, where_am_i}
use vstd::prelude::*;
use std::io::{Bytes, Read, Result, BufReader};
use std::fs::File;
use std::path::PathBuf;

verus! {

//@@ include prelude/io.rs
//@@ include prelude/io_open.rs
pub mod u8s {
use vstd::prelude::*;
//@@ include prelude/u8std.rs
}

//@@ item src/reader.rs :: struct Location
//@@ derives Clone
//@@ enditem

//@@ item src/reader.rs :: struct Reader
#[verifier::reject_recursive_types(R)]
//@@ enditem

//@@ include lemmas/reader_spec.rs

impl<R: Read> Reader<R> {
    // ---- ghost view
    pub closed spec fn rest(&self) -> Seq<Option<u8>> { if self.eof { Seq::empty() } else { stream(&self.bytes) } }
    pub closed spec fn cur(&self) -> Option<u8> { self.current_byte }
    pub closed spec fn line(&self) -> int { self.location.line_number as int }
    pub closed spec fn col(&self) -> int { self.location.char_number as int }
    pub closed spec fn name(&self) -> Option<String> { self.location.input }
    pub closed spec fn at_eof(&self) -> bool { self.eof }
    pub closed spec fn wf(&self) -> bool { self.eof ==> self.current_byte is None }
    // bytes still to be looked at: the look-ahead byte (if any) followed by the unread stream
    pub open spec fn pending(&self) -> Seq<Option<u8>> {
        if self.cur() is Some { seq![self.cur()].add(self.rest()) } else { self.rest() }
    }
    pub open spec fn mu(&self) -> nat { self.pending().len() }
    // position bookkeeping is bounded by the number of bytes: the precondition "fewer than 2^64 bytes"
    pub open spec fn room(&self) -> bool { self.line() + self.rest().len() < usize::MAX && self.col() + self.rest().len() < usize::MAX }

//@@ fn reader.next = src/reader.rs :: impl<R: Read> Reader<R> :: fn next
//@@ safety C05
//@@ ret r
//@@ header-from specs/reader/next.spec
//@@ before "let ch = ch?;"
                proof {
                    reveal(has_fault);
                    if ch is Err {
                        let k = if old(self).cur() is Some { 1int } else { 0int };
                        assert(old(self).pending()[k] == old(self).rest()[0]);
                        assert(old(self).pending()[k] is None);
                    }
                }
//@@ endfn

//@@ fn reader.peek = src/reader.rs :: impl<R: Read> Reader<R> :: fn peek
//@@ safety C05
//@@ ret r
//@@ header-from specs/reader/peek.spec
//@@ endfn

//@@ fn reader.eat_whitespace = src/reader.rs :: impl<R: Read> Reader<R> :: fn eat_whitespace
//@@ safety C05
//@@ ret r
//@@ header-from specs/reader/eat_whitespace.spec
//@@ loop 1
        invariant
            self.wf(), self.room(), self.name() == old(self).name(),
            self.mu() <= old(self).mu(),
            self.pending() =~= old(self).pending().subrange(old(self).pending().len() - self.pending().len(), old(self).pending().len() as int),
            ws_run(old(self).pending()) == (old(self).pending().len() - self.pending().len()) + ws_run(self.pending()),
            forall|i: int| 0 <= i < old(self).pending().len() - self.pending().len() ==> (#[trigger] old(self).pending()[i]) is Some,
        decreases self.mu(),
//@@ loop-start 1
            proof { reveal(has_fault); }
//@@ endfn

//@@ fn reader.read_digits = src/reader.rs :: impl<R: Read> Reader<R> :: fn read_digits
//@@ safety C05
//@@ ret r
//@@ header-from specs/reader/read_digits.spec
//@@ loop 1
        invariant
            self.wf(), self.room(), self.name() == old(self).name(),
            self.mu() <= old(self).mu(),
            self.pending() =~= old(self).pending().subrange(old(self).pending().len() - self.pending().len(), old(self).pending().len() as int),
            digit_run(old(self).pending()) == (old(self).pending().len() - self.pending().len()) + digit_run(self.pending()),
            forall|i: int| 0 <= i < old(self).pending().len() - self.pending().len() ==> (#[trigger] old(self).pending()[i]) is Some,
            digits@ =~= old(digits)@.add(unwrap_all(old(self).pending().subrange(0, old(self).pending().len() - self.pending().len()))),
        decreases self.mu(),
//@@ loop-start 1
            proof { reveal(has_fault); }
//@@ endfn

//@@ fn reader.where_am_i = src/reader.rs :: impl<R: Read> Reader<R> :: fn where_am_i
//@@ safety C05
//@@ ret r
//@@ header-from specs/reader/where_am_i.spec
//@@ endfn

// the private constructor: wraps the source WITHOUT reading from it; position 1:1
//@@ fn reader.new = src/reader.rs :: impl<R: Read> Reader<R> :: fn new
//@@ safety C14 C17
//@@ ret r
//@@ header
        ensures r.fresh_over(source(reader), name), // @obl R.new.lazy : C14 C17 C01 C06 C16 C20 C11
//@@ endfn
    // a reader that has looked at nothing yet: the whole source is still unread
    pub open spec fn fresh_over(&self, src: Seq<Option<u8>>, name: Option<String>) -> bool {
        self.wf() && self.cur() is None && !self.at_eof() && self.rest() == src && self.line() == 1 && self.col() == 1 && self.name() == name
    }
}

// ---- the two ways go() opens its input (C14: opening reads NOTHING, so what is consumed is what next() consumes; C17: a file
// and stdin are the same kind of byte source, named by the file name / not named)
//@@ fn reader.from_std_in = src/reader.rs :: fn from_std_in
//@@ safety C14 C17
//@@ ret r
//@@ header
    ensures r.fresh_over(source(stdin), None), // @obl R.from_std_in.lazy : C14 C17 C01 C06 C16 C20 C11
//@@ endfn
//@@ fn reader.from_file = src/reader.rs :: fn from_file
//@@ safety C14 C17
//@@ ret r
//@@ rewrite to_string_fn
//@@ body-start
    broadcast use vopen::ax_path_of_ref;
//@@ header
    ensures r is Ok ==> r->Ok_0.fresh_over(file_source(*file_name), path_name(*file_name)), // @obl R.from_file.lazy : C14 C17 C01 C06 C16 C20 C11
//@@ endfn

} // verus!
fn main() {}
