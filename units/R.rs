// Unit R: src/reader.rs — Reader<R>::{next, peek, eat_whitespace, read_digits, where_am_i}
use vstd::prelude::*;
use std::io::{Bytes, Read, Result};

verus! {

//@@ include prelude/io.rs

//@@ item src/reader.rs :: struct Location
//@@ derives Clone
//@@ enditem

//@@ item src/reader.rs :: struct Reader
#[verifier::reject_recursive_types(R)]
//@@ enditem

pub open spec fn is_ws(b: u8) -> bool { b == 0x20 || b == 0x0a || b == 0x09 || b == 0x0d }
pub open spec fn is_digit(b: u8) -> bool { 0x30 <= b <= 0x39 }

// length of the maximal prefix of delivered bytes that are white space / decimal digits
pub open spec fn ws_run(s: Seq<Option<u8>>) -> nat
    decreases s.len()
{
    if s.len() > 0 && s[0] is Some && is_ws(s[0].unwrap()) { 1 + ws_run(s.subrange(1, s.len() as int)) } else { 0 }
}
pub open spec fn digit_run(s: Seq<Option<u8>>) -> nat
    decreases s.len()
{
    if s.len() > 0 && s[0] is Some && is_digit(s[0].unwrap()) { 1 + digit_run(s.subrange(1, s.len() as int)) } else { 0 }
}
pub open spec fn unwrap_all(s: Seq<Option<u8>>) -> Seq<u8> { Seq::new(s.len(), |i: int| s[i].unwrap()) }

impl<R: Read> Reader<R> {
    // ---- ghost view
    pub closed spec fn rest(&self) -> Seq<Option<u8>> { if self.eof { Seq::empty() } else { stream(&self.bytes) } }
    pub closed spec fn cur(&self) -> Option<u8> { self.current_byte }
    pub closed spec fn line(&self) -> int { self.location.line_number as int }
    pub closed spec fn col(&self) -> int { self.location.char_number as int }
    pub closed spec fn name(&self) -> Option<String> { self.location.input }
    pub closed spec fn at_eof(&self) -> bool { self.eof }
    pub closed spec fn wf(&self) -> bool { self.eof ==> self.current_byte is None }
    // bytes still to be looked at: the look-ahead byte (if any) followed by the unread stream
    pub open spec fn pending(&self) -> Seq<Option<u8>> {
        if self.cur() is Some { seq![self.cur()].add(self.rest()) } else { self.rest() }
    }
    pub open spec fn mu(&self) -> nat { self.pending().len() }
    // position bookkeeping is bounded by the number of bytes: the precondition "fewer than 2^64 bytes"
    pub open spec fn room(&self) -> bool { self.line() + self.rest().len() < usize::MAX && self.col() + self.rest().len() < usize::MAX }

//@@ fn reader.next = src/reader.rs :: impl<R: Read> Reader<R> :: fn next
//@@ safety C05
//@@ ret r
//@@ header
    requires old(self).wf(), old(self).room(),
    ensures
        final(self).wf(), final(self).room(), // @obl R.next.wf : C05 C17
        final(self).name() == old(self).name(), // @obl R.next.name : C17
        // end of input: Ok(None), nothing moves, and it stays that way
        old(self).rest().len() == 0 ==> r is Ok && r.unwrap() is None && final(self).rest().len() == 0 && final(self).cur() is None
            && final(self).line() == old(self).line() && final(self).col() == old(self).col(), // @obl R.next.eof : C01 C16 C17
        // a failing read is an Err: never end of input, never a byte; nothing is consumed from the look-ahead
        old(self).rest().len() > 0 && old(self).rest()[0] is None ==> r is Err && final(self).cur() == old(self).cur()
            && final(self).line() == old(self).line() && final(self).col() == old(self).col()
            && final(self).rest() == old(self).rest().subrange(1, old(self).rest().len() as int), // @obl R.next.ioerr : C16
        // a delivered byte becomes the look-ahead byte, exactly one stream element is consumed
        old(self).rest().len() > 0 && old(self).rest()[0] is Some ==> r is Ok && r.unwrap() == old(self).rest()[0]
            && final(self).cur() == old(self).rest()[0]
            && final(self).rest() == old(self).rest().subrange(1, old(self).rest().len() as int), // @obl R.next.byte : C01 C05 C17
        // line / column: LF starts a new line at column 1, every other byte advances the column by one
        old(self).rest().len() > 0 && old(self).rest()[0] == Some(0x0au8) ==> final(self).line() == old(self).line() + 1 && final(self).col() == 1, // @obl R.next.lf : C17
        old(self).rest().len() > 0 && old(self).rest()[0] is Some && old(self).rest()[0] != Some(0x0au8) ==> final(self).line() == old(self).line() && final(self).col() == old(self).col() + 1, // @obl R.next.col : C17
        r is Ok ==> (r.unwrap() is None <==> old(self).rest().len() == 0), // @obl R.next.none_iff_eof : C01 C16
        // seen through the look-ahead: with a current byte, a successful next() drops exactly the head of the pending bytes
        r is Ok && old(self).cur() is Some ==> final(self).pending() =~= old(self).pending().subrange(1, old(self).pending().len() as int), // @obl R.next.pending : C01 C05
        r is Err ==> final(self).mu() < old(self).mu(), // @obl R.next.err_progress : C05
//@@ endfn

//@@ fn reader.peek = src/reader.rs :: impl<R: Read> Reader<R> :: fn peek
//@@ safety C05
//@@ ret r
//@@ header
    requires old(self).wf(), old(self).room(),
    ensures
        final(self).wf(), final(self).room(), final(self).name() == old(self).name(),
        // with a look-ahead byte: return it, change nothing
        old(self).cur() is Some ==> r is Ok && r.unwrap() == old(self).cur() && final(self).cur() == old(self).cur() && final(self).rest() == old(self).rest()
            && final(self).line() == old(self).line() && final(self).col() == old(self).col(), // @obl R.peek.keep : C01 C17
        // without: behaves as next()
        old(self).cur() is None && old(self).rest().len() == 0 ==> r is Ok && r.unwrap() is None && final(self).rest().len() == 0 && final(self).cur() is None
            && final(self).line() == old(self).line() && final(self).col() == old(self).col(), // @obl R.peek.eof : C01 C16
        old(self).cur() is None && old(self).rest().len() > 0 && old(self).rest()[0] is None ==> r is Err && final(self).cur() is None
            && final(self).rest() == old(self).rest().subrange(1, old(self).rest().len() as int), // @obl R.peek.ioerr : C16
        old(self).cur() is None && old(self).rest().len() > 0 && old(self).rest()[0] is Some ==> r is Ok && r.unwrap() == old(self).rest()[0] && final(self).cur() == old(self).rest()[0]
            && final(self).rest() == old(self).rest().subrange(1, old(self).rest().len() as int), // @obl R.peek.pull : C01 C17
        r is Ok ==> r.unwrap() == final(self).cur() && final(self).pending() == old(self).pending(), // @obl R.peek.pending : C01 C05
        r is Ok && r.unwrap() is None ==> final(self).mu() == 0, // @obl R.peek.none_is_end : C01 C16
        r is Err ==> final(self).mu() < old(self).mu(), // @obl R.peek.err_progress : C05
//@@ endfn

//@@ fn reader.eat_whitespace = src/reader.rs :: impl<R: Read> Reader<R> :: fn eat_whitespace
//@@ safety C05
//@@ ret r
//@@ header
    requires old(self).wf(), old(self).room(),
    ensures
        final(self).wf(), final(self).room(), final(self).name() == old(self).name(),
        // consumes exactly the maximal run of white space; the byte after it is the current byte
        r is Ok ==> final(self).pending() == old(self).pending().subrange(ws_run(old(self).pending()) as int, old(self).pending().len() as int), // @obl R.ws.exact : C01 C06 C17
        r is Ok ==> (final(self).cur() is None ==> final(self).mu() == 0), // @obl R.ws.end : C01
        r is Ok && final(self).cur() is Some ==> !is_ws(final(self).cur().unwrap()), // @obl R.ws.stop : C01
        r is Err ==> final(self).mu() < old(self).mu(), // @obl R.ws.ioerr : C16 C05
        final(self).mu() <= old(self).mu(),
//@@ loop 1
        invariant
            self.wf(), self.room(), self.name() == old(self).name(),
            self.mu() <= old(self).mu(),
            self.pending() =~= old(self).pending().subrange(old(self).pending().len() - self.pending().len(), old(self).pending().len() as int),
            ws_run(old(self).pending()) == (old(self).pending().len() - self.pending().len()) + ws_run(self.pending()),
        decreases self.mu(),
//@@ endfn

//@@ fn reader.read_digits = src/reader.rs :: impl<R: Read> Reader<R> :: fn read_digits
//@@ safety C05
//@@ ret r
//@@ header
    requires old(self).wf(), old(self).room(),
    ensures
        final(self).wf(), final(self).room(), final(self).name() == old(self).name(),
        r is Ok ==> final(self).pending() == old(self).pending().subrange(digit_run(old(self).pending()) as int, old(self).pending().len() as int), // @obl R.digits.exact : C01 C19
        r is Ok ==> final(digits)@ == old(digits)@.add(unwrap_all(old(self).pending().subrange(0, digit_run(old(self).pending()) as int))), // @obl R.digits.copied : C01 C19
        r is Ok ==> (final(self).cur() is None ==> final(self).mu() == 0), // @obl R.digits.end : C01
        r is Ok && final(self).cur() is Some ==> !is_digit(final(self).cur().unwrap()), // @obl R.digits.stop : C01
        r is Err ==> final(self).mu() < old(self).mu(), // @obl R.digits.ioerr : C16 C05
        final(self).mu() <= old(self).mu(),
//@@ loop 1
        invariant
            self.wf(), self.room(), self.name() == old(self).name(),
            self.mu() <= old(self).mu(),
            self.pending() =~= old(self).pending().subrange(old(self).pending().len() - self.pending().len(), old(self).pending().len() as int),
            digit_run(old(self).pending()) == (old(self).pending().len() - self.pending().len()) + digit_run(self.pending()),
            digits@ =~= old(digits)@.add(unwrap_all(old(self).pending().subrange(0, old(self).pending().len() - self.pending().len()))),
        decreases self.mu(),
//@@ endfn

//@@ fn reader.where_am_i = src/reader.rs :: impl<R: Read> Reader<R> :: fn where_am_i
//@@ safety C05
//@@ ret r
//@@ header
    ensures r.line_number as int == self.line() && r.char_number as int == self.col() && r.input == self.name(), // @obl R.where : C17
//@@ endfn

}

} // verus!
fn main() {}
