#![feature(allocator_api)]
// Unit COLL: the collection functions take / take_last / sub / head / tail (C04, C05)
use vstd::prelude::*;
use std::rc::Rc;
use vstd::std_specs::iter::IteratorSpec;

verus! {

pub mod jt {
use vstd::prelude::*;
use std::rc::Rc;
use vstd::std_specs::iter::IteratorSpec;
//@@ include prelude/indexmap.rs
//@@ include prelude/json_types.rs
//@@ include prelude/clone_specs.rs
}
use jt::*;
pub mod cl {
use vstd::prelude::*;
use std::rc::Rc;
use super::jt::*;
//@@ include prelude/clone_axioms.rs
}
//@@ include prelude/fnargs.rs
//@@ include prelude/vit.rs

pub open spec fn min(a: int, b: int) -> int { if a < b { a } else { b } }
// ---- N arguments: TryFrom<NumberValue> for usize (decided on the real body by the Kani harness K.v6_try_into_usize) ----
#[verifier::external_body] pub struct CastError { _p: () }
pub open spec fn num_to_usize(n: NumberValue) -> Option<usize> {
    match n { NumberValue::Positive(p) => if p <= usize::MAX { Some(p as usize) } else { None }, _ => None }
}
impl TryFrom<NumberValue> for usize {
    type Error = CastError;
    #[verifier::external_body]
    fn try_from(value: NumberValue) -> (r: Result<Self, CastError>)
        ensures r is Ok <==> num_to_usize(value) is Some, r is Ok ==> Some(r->Ok_0) == num_to_usize(value),
    { unimplemented!() }
}
pub open spec fn n_arg(args: Seq<Rc<dyn Get>>, value: &Context, i: int) -> Option<usize> {
    match arg(args, value, i) { Some(JsonValue::Number(n)) => num_to_usize(n), _ => None }
}

// ---- String as bytes: len() is the number of UTF-8 bytes, which is at least the number of characters ----
pub uninterp spec fn byte_len(s: Seq<char>) -> nat;
pub broadcast axiom fn axiom_byte_len(s: Seq<char>) ensures s.len() <= #[trigger] byte_len(s), byte_len(s) <= usize::MAX;
pub assume_specification[ String::len ](s: &String) -> (r: usize) ensures r == byte_len(s@);

// ---- s.chars() and its adapters (rewrite chars_model): the characters of the string, in order ----
#[verifier::external_body]
pub struct VChars { _p: () }
impl VChars {
    pub uninterp spec fn seq(&self) -> Seq<char>;
    #[verifier::external_body]
    pub fn take(self, n: usize) -> (r: VChars) ensures r.seq() == self.seq().take(min(n as int, self.seq().len() as int)) { unimplemented!() }
    #[verifier::external_body]
    pub fn skip(self, n: usize) -> (r: VChars) ensures r.seq() == self.seq().skip(min(n as int, self.seq().len() as int)) { unimplemented!() }
    #[verifier::external_body]
    pub fn count(self) -> (r: usize) ensures r == self.seq().len() { unimplemented!() }
    #[verifier::external_body]
    pub fn collect(self) -> (r: String) ensures r@ == self.seq() { unimplemented!() }
}
pub trait VCharsOf { fn vchars(&self) -> (r: VChars); spec fn chars_spec(&self) -> Seq<char>; }
impl VCharsOf for String {
    open spec fn chars_spec(&self) -> Seq<char> { self@ }
    #[verifier::external_body]
    fn vchars(&self) -> (r: VChars) ensures r.seq() == self@ { unimplemented!() }
}
// ---- with_capacity (rewrite with_capacity): no allocation larger than a collection that already exists ----
pub mod vcap {
use vstd::prelude::*;
use super::jt::*;
pub uninterp spec fn cap_limit() -> nat;
pub broadcast axiom fn axiom_vec_len_allocated(v: Vec<JsonValue>) ensures #[trigger] v@.len() <= cap_limit();
pub broadcast axiom fn axiom_map_len_allocated(m: IndexMap<String, JsonValue>) ensures #[trigger] m.entries().len() <= cap_limit();
#[allow(non_snake_case)]
pub fn Vec_with_capacity<T>(n: usize) -> (r: Vec<T>) requires n <= cap_limit(), ensures r@.len() == 0 { Vec::with_capacity(n) }
#[allow(non_snake_case)]
pub fn IndexMap_with_capacity<K, V>(n: usize) -> (r: IndexMap<K, V>) requires n <= cap_limit(), ensures r.entries().len() == 0, r.distinct() { IndexMap::with_capacity(n) }
pub broadcast group group_cap { axiom_vec_len_allocated, axiom_map_len_allocated }
}

pub mod seqlem {
use vstd::prelude::*;
pub broadcast proof fn lemma_take_all<T>(s: Seq<T>, k: int) requires k == s.len() ensures #[trigger] s.take(k) == s { assert(s.take(k) =~= s); }
pub broadcast proof fn lemma_skip_none<T>(s: Seq<T>, k: int) requires k == 0 ensures #[trigger] s.skip(k) == s { assert(s.skip(k) =~= s); }
pub broadcast proof fn lemma_skip_take<T>(s: Seq<T>, a: int, m: int) requires 0 <= a <= s.len(), 0 <= m <= s.len() - a ensures #[trigger] s.skip(a).take(m) == s.subrange(a, a + m) { assert(s.skip(a).take(m) =~= s.subrange(a, a + m)); }
pub broadcast group group_seqlem { lemma_take_all, lemma_skip_none, lemma_skip_take }
}

// ---- the documented results (C04: element and member order preserved; N = 0, N = size, N > size honoured) ----
pub uninterp spec fn str_of(s: Seq<char>) -> String;
pub broadcast axiom fn axiom_str_of(s: Seq<char>) ensures (#[trigger] str_of(s))@ == s;
// the first N elements / members / characters, all of them when N exceeds the size
pub open spec fn take_spec(c: Option<JsonValue>, n: usize) -> Option<JsonValue> {
    match c {
        Some(JsonValue::Array(v)) => Some(json_array(v@.take(min(n as int, v@.len() as int)))),
        Some(JsonValue::Object(m)) => Some(json_object(m.entries().take(min(n as int, m.entries().len() as int)))),
        Some(JsonValue::String(s)) => Some(JsonValue::String(str_of(s@.take(min(n as int, s@.len() as int))))),
        _ => None,
    }
}


// the last N, all when N exceeds the size
pub open spec fn take_last_spec(c: Option<JsonValue>, n: usize) -> Option<JsonValue> {
    match c {
        Some(JsonValue::Array(v)) => Some(json_array(v@.skip(v@.len() - min(n as int, v@.len() as int)))),
        Some(JsonValue::Object(m)) => Some(json_object(m.entries().skip(m.entries().len() - min(n as int, m.entries().len() as int)))),
        Some(JsonValue::String(s)) => Some(JsonValue::String(str_of(s@.skip(s@.len() - min(n as int, s@.len() as int))))),
        _ => None,
    }
}
// at most `length` items starting at position `start`
pub open spec fn sub_seq<T>(s: Seq<T>, start: usize, length: usize) -> Seq<T> {
    let a = min(start as int, s.len() as int);
    s.subrange(a, a + min(length as int, s.len() - a))
}
pub open spec fn sub_spec(c: Option<JsonValue>, start: usize, length: usize) -> Option<JsonValue> {
    match c {
        Some(JsonValue::Array(v)) => Some(json_array(sub_seq(v@, start, length))),
        Some(JsonValue::Object(m)) => Some(json_object(sub_seq(m.entries(), start, length))),
        Some(JsonValue::String(s)) => Some(JsonValue::String(str_of(sub_seq(s@, start, length)))),
        _ => None,
    }
}

pub mod f_take {
use super::*;
//@@ item src/functions/basic/collection/take.rs :: fn get :: struct Impl
//@@ rewrite pub_tuple pub_struct
//@@ enditem
impl Get for Impl {
    open spec fn get_spec(&self, value: &Context) -> Option<JsonValue> {
        match n_arg(self.0@, value, 1) { Some(n) => take_spec(arg(self.0@, value, 0), n), None => None }
    }
//@@ fn f.take = src/functions/basic/collection/take.rs :: fn get :: impl Get for Impl :: fn get
//@@ safety C04 C05
//@@ rewrite chars_model with_capacity
//@@ post doc "(take c N): the first N elements / members / characters of c in their order, all of c when N exceeds its size, the empty collection for N = 0; nothing when c is not a collection or N is not a non-negative integer"
//@@ body-start
        broadcast use group_json_names, super::cl::group_clone_is_copy, super::cl::axiom_string_ext, axiom_str_of, vcap::group_cap, axiom_im_distinct, seqlem::group_seqlem;
//@@ loop 1 iter it
                                        invariant_except_break new_map.entries().len() == it.index@,
                                        invariant new_map.entries() == map.entries().take(new_map.entries().len() as int), it.seq() == map.entries(),
                                            new_map.entries().len() <= size <= map.entries().len(), map.distinct(),
                                        ensures new_map.entries().len() == size,
//@@ before "new_map.insert(k, v);"
                                        proof {
                                            let e = map.entries();
                                            assert(!im_has(new_map.entries(), k)) by {
                                                if im_has(new_map.entries(), k) {
                                                    let j = im_idx(new_map.entries(), k);
                                                    assert(new_map.entries()[j].0 == e[j].0);
                                                    assert(e[j].0 != e[it.index@].0);
                                                }
                                            }
                                            assert(e.take(it.index@).push((k, v)) =~= e.take(it.index@ + 1));
                                        }
//@@ loop 2 iter it
                                        invariant_except_break new_vec@.len() == it.index@,
                                        invariant new_vec@ == vec@.take(new_vec@.len() as int), it.seq() == vec@, new_vec@.len() <= size <= vec@.len(),
                                        ensures new_vec@.len() == size,
//@@ after "new_vec.push(i);"
                                        proof { assert(vec@.take(it.index@).push(i) =~= vec@.take(it.index@ + 1)); }
//@@ endfn
}
}

pub mod f_take_last {
use super::*;
//@@ item src/functions/basic/collection/take_last.rs :: fn get :: struct Impl
//@@ rewrite pub_tuple pub_struct
//@@ enditem
impl Get for Impl {
    open spec fn get_spec(&self, value: &Context) -> Option<JsonValue> {
        match n_arg(self.0@, value, 1) { Some(n) => take_last_spec(arg(self.0@, value, 0), n), None => None }
    }
//@@ fn f.take_last = src/functions/basic/collection/take_last.rs :: fn get :: impl Get for Impl :: fn get
//@@ safety C04 C05
//@@ rewrite chars_model with_capacity
//@@ post doc "(take_last c N): the last N elements / members / characters of c in their order, all of c when N exceeds its size, the empty collection for N = 0; nothing when c is not a collection or N is not a non-negative integer"
//@@ body-start
        broadcast use group_json_names, super::cl::group_clone_is_copy, super::cl::axiom_string_ext, axiom_str_of, vcap::group_cap, axiom_im_distinct, seqlem::group_seqlem;
//@@ loop 1 iter it
                                        invariant
                                            it.seq() == map.entries(), size <= map.entries().len(), map.distinct(),
                                            index == map.entries().len() - it.index@, 0 <= it.index@ <= map.entries().len(),
                                            new_map.entries() == map.entries().subrange(map.entries().len() - size,
                                                if it.index@ < map.entries().len() - size { map.entries().len() - size } else { it.index@ }),
//@@ before "new_map.insert(k, v);"
                                            proof {
                                                let e = map.entries();
                                                let d = e.len() - size;
                                                assert(!im_has(new_map.entries(), k)) by {
                                                    if im_has(new_map.entries(), k) {
                                                        let j = im_idx(new_map.entries(), k);
                                                        assert(new_map.entries()[j].0 == e[d + j].0);
                                                        assert(e[d + j].0 != e[it.index@].0);
                                                    }
                                                }
                                                assert(e.subrange(d, it.index@).push((k, v)) =~= e.subrange(d, it.index@ + 1));
                                            }
//@@ after-loop 1
                                    proof { assert(new_map.entries() =~= map.entries().skip(map.entries().len() - size)); }
//@@ loop 2 iter it
                                        invariant
                                            it.seq() == vec@, size <= vec@.len(),
                                            index == vec@.len() - it.index@, 0 <= it.index@ <= vec@.len(),
                                            new_vec@ == vec@.subrange(vec@.len() - size, if it.index@ < vec@.len() - size { vec@.len() - size } else { it.index@ }),
//@@ after "new_vec.push(i);"
                                            proof { assert(vec@.subrange(vec@.len() - size, it.index@).push(i) =~= vec@.subrange(vec@.len() - size, it.index@ + 1)); }
//@@ after-loop 2
                                    proof { assert(new_vec@ =~= vec@.skip(vec@.len() - size)); }
//@@ endfn
}
}

pub mod f_sub {
use super::*;
//@@ item src/functions/basic/collection/sub.rs :: fn get :: struct Impl
//@@ rewrite pub_tuple pub_struct
//@@ enditem
impl Get for Impl {
    open spec fn get_spec(&self, value: &Context) -> Option<JsonValue> {
        match (n_arg(self.0@, value, 1), n_arg(self.0@, value, 2)) { (Some(start), Some(length)) => sub_spec(arg(self.0@, value, 0), start, length), _ => None }
    }
//@@ fn f.sub = src/functions/basic/collection/sub.rs :: fn get :: impl Get for Impl :: fn get
//@@ safety C04 C05
//@@ rewrite chars_model with_capacity enumerate
//@@ post doc "(sub c S L): at most L elements / members / characters of c starting at position S, in their order; empty when S is past the end or L = 0; nothing when c is not a collection or S, L are not non-negative integers"
//@@ body-start
        broadcast use group_json_names, super::cl::group_clone_is_copy, super::cl::axiom_string_ext, axiom_str_of, vcap::group_cap, axiom_im_distinct, seqlem::group_seqlem;
//@@ loop 1 iter it
                            invariant_except_break
                                new_map.entries() == map.entries().subrange(min(start as int, it.index@), it.index@),
                            invariant
                                it.seq().len() == map.entries().len(), map.distinct(), 0 <= it.index@ <= map.entries().len(),
                                forall|j: int| 0 <= j < it.seq().len() ==> (#[trigger] it.seq()[j]).0 == j && it.seq()[j].1 == map.entries()[j],
                                new_map.entries().len() <= length,
                            ensures new_map.entries() == sub_seq(map.entries(), start, length),
//@@ before "new_map.insert(k, v);"
                                proof {
                                    let e = map.entries();
                                    assert(!im_has(new_map.entries(), k)) by {
                                        if im_has(new_map.entries(), k) {
                                            let j = im_idx(new_map.entries(), k);
                                            assert(new_map.entries()[j].0 == e[start + j].0);
                                            assert(e[start + j].0 != e[it.index@].0);
                                        }
                                    }
                                    assert(e.subrange(start as int, it.index@).push((k, v)) =~= e.subrange(start as int, it.index@ + 1));
                                }
//@@ loop 2 iter it
                            invariant_except_break
                                new_vec@ == vec@.subrange(min(start as int, it.index@), it.index@),
                            invariant
                                it.seq().len() == vec@.len(), 0 <= it.index@ <= vec@.len(),
                                forall|j: int| 0 <= j < it.seq().len() ==> (#[trigger] it.seq()[j]).0 == j && it.seq()[j].1 == vec@[j],
                                new_vec@.len() <= length,
                            ensures new_vec@ == sub_seq(vec@, start, length),
//@@ after "new_vec.push(i);"
                                proof { assert(vec@.subrange(start as int, it.index@).push(i) =~= vec@.subrange(start as int, it.index@ + 1)); }
//@@ endfn
}
}

pub mod f_head {
use super::*;
//@@ item src/functions/string/head.rs :: fn get :: struct Impl
//@@ rewrite pub_tuple pub_struct
//@@ enditem
impl Get for Impl {
    open spec fn get_spec(&self, value: &Context) -> Option<JsonValue> {
        match (arg(self.0@, value, 0), arg(self.0@, value, 1)) {
            (Some(JsonValue::String(s)), Some(JsonValue::Number(n))) => match num_to_usize(n) {
                Some(k) => Some(JsonValue::String(str_of(s@.take(min(k as int, s@.len() as int))))),
                None => None,
            },
            _ => None,
        }
    }
//@@ fn f.head = src/functions/string/head.rs :: fn get :: impl Get for Impl :: fn get
//@@ safety C04 C05
//@@ rewrite chars_model
//@@ post doc "(head s N): the first N characters of the string s, all of s when N exceeds its length; nothing when s is not a string or N is not a non-negative integer"
//@@ body-start
        broadcast use super::cl::axiom_string_ext, axiom_str_of, seqlem::group_seqlem;
//@@ endfn
}
}

pub mod f_tail {
use super::*;
//@@ item src/functions/string/tail.rs :: fn get :: struct Impl
//@@ rewrite pub_tuple pub_struct
//@@ enditem
impl Get for Impl {
    open spec fn get_spec(&self, value: &Context) -> Option<JsonValue> {
        match (arg(self.0@, value, 0), arg(self.0@, value, 1)) {
            (Some(JsonValue::String(s)), Some(JsonValue::Number(n))) => match num_to_usize(n) {
                // as documented by the examples: s without its first N characters, and all of s when N exceeds its length
                Some(k) => Some(JsonValue::String(if k > s@.len() { s } else { str_of(s@.skip(k as int)) })),
                None => None,
            },
            _ => None,
        }
    }
//@@ fn f.tail = src/functions/string/tail.rs :: fn get :: impl Get for Impl :: fn get
//@@ safety C04 C05
//@@ rewrite chars_model
//@@ post doc "(tail s N): the string s without its first N characters, all of s when N exceeds its length; nothing when s is not a string or N is not a non-negative integer"
//@@ body-start
        broadcast use super::cl::axiom_string_ext, axiom_str_of, seqlem::group_seqlem;
//@@ endfn
}
}

} // verus!
fn main() {}
