#![feature(allocator_api)]
// Unit BASIC: simple documented functions — get, size, ?, default, and, or, not, xor, first, last, all, any, pop, push, put, insert_if_absent, replace_if_exists, entries, range, push_front, pop_first, the seven type checks and five casts, = != concat join keys values (C04, C05)
use vstd::prelude::*;
use std::rc::Rc;
use vstd::std_specs::iter::IteratorSpec;

verus! {

pub mod jt {
use vstd::prelude::*;
use std::rc::Rc;
use vstd::std_specs::iter::IteratorSpec;
//@@ include prelude/indexmap.rs
//@@ include prelude/json_types.rs
//@@ include prelude/clone_specs.rs
}
use jt::*;
pub mod cl {
use vstd::prelude::*;
use std::rc::Rc;
use super::jt::*;
//@@ include prelude/clone_axioms.rs
}
//@@ include prelude/fnargs.rs
//@@ include prelude/vit.rs
broadcast use {group_json_names, cl::group_clone_is_copy, group_json_eq};

#[verifier::external_body] pub struct CastError { _p: () }
pub open spec fn num_to_usize(n: NumberValue) -> Option<usize> {
    match n { NumberValue::Positive(p) => if p <= usize::MAX { Some(p as usize) } else { None }, _ => None }
}
impl TryFrom<NumberValue> for usize {
    type Error = CastError;
    #[verifier::external_body]
    fn try_from(value: NumberValue) -> (r: Result<Self, CastError>)
        ensures r is Ok <==> num_to_usize(value) is Some, r is Ok ==> Some(r->Ok_0) == num_to_usize(value),
    { unimplemented!() }
}
impl vstd::std_specs::convert::FromSpecImpl<bool> for JsonValue {
    open spec fn obeys_from_spec() -> bool { true }
    open spec fn from_spec(v: bool) -> Self { JsonValue::Boolean(v) }
}
impl From<bool> for JsonValue {
//@@ fn jv.from_bool = src/json_value.rs :: impl From<bool> for JsonValue :: fn from
//@@ safety C04
//@@ post from "the conversion of a bool is the JSON boolean with that value"
//@@ endfn
}
impl vstd::std_specs::convert::FromSpecImpl<usize> for NumberValue {
    open spec fn obeys_from_spec() -> bool { true }
    open spec fn from_spec(v: usize) -> Self { NumberValue::Positive(v as u64) }
}
impl From<usize> for NumberValue {
//@@ fn nv.from_usize = src/json_value.rs :: impl From<usize> for NumberValue :: fn from
//@@ safety C04
//@@ post from "a usize converts to the non-negative integer with that value"
//@@ endfn
}
impl vstd::std_specs::convert::FromSpecImpl<usize> for JsonValue {
    open spec fn obeys_from_spec() -> bool { true }
    open spec fn from_spec(v: usize) -> Self { JsonValue::Number(NumberValue::Positive(v as u64)) }
}
impl From<usize> for JsonValue {
//@@ fn jv.from_usize = src/json_value.rs :: impl From<usize> for JsonValue :: fn from
//@@ safety C04
//@@ post from "a usize converts to the JSON number with that value"
//@@ endfn
}
pub open spec fn jnum(n: int) -> JsonValue { JsonValue::Number(NumberValue::Positive(n as u64)) }
pub open spec fn jbool(b: bool) -> JsonValue { JsonValue::Boolean(b) }
// s.chars().count() (rewrite chars_model)
#[verifier::external_body]
pub struct VChars { _p: () }
impl VChars {
    pub uninterp spec fn seq(&self) -> Seq<char>;
    #[verifier::external_body]
    pub fn count(self) -> (r: usize) ensures r == self.seq().len() { unimplemented!() }
}
pub trait VCharsOf { fn vchars(&self) -> (r: VChars); spec fn chars_spec(&self) -> Seq<char>; }
impl VCharsOf for String {
    open spec fn chars_spec(&self) -> Seq<char> { self@ }
    #[verifier::external_body]
    fn vchars(&self) -> (r: VChars) ensures r.seq() == self@ { unimplemented!() }
}
pub uninterp spec fn byte_len(s: Seq<char>) -> nat;
pub broadcast axiom fn axiom_byte_len(s: Seq<char>) ensures s.len() <= #[trigger] byte_len(s), byte_len(s) <= usize::MAX;
pub assume_specification[ String::len ](s: &String) -> (r: usize) ensures r == byte_len(s@);

pub mod f_get {
use super::*;
broadcast use {group_json_names, cl::group_clone_is_copy, group_json_eq, axiom_byte_len};
//@@ item src/functions/basic/collection/get.rs :: fn get :: struct Impl
//@@ rewrite pub_tuple pub_struct
//@@ enditem
impl Get for Impl {
    open spec fn get_spec(&self, value: &Context) -> Option<JsonValue> {
        match arg(self.0@, value, 0) {
            Some(JsonValue::Object(m)) => match arg(self.0@, value, 1) {
                Some(JsonValue::String(k)) => if m.has(k) { Some(m.entries()[im_idx(m.entries(), k)].1) } else { None },
                _ => None },
            Some(JsonValue::Array(a)) => match arg(self.0@, value, 1) {
                Some(JsonValue::Number(n)) => match num_to_usize(n) { Some(i) => if i < a@.len() { Some(a@[i as int]) } else { None }, None => None },
                _ => None },
            _ => None,
        }
    }
//@@ fn f.get = src/functions/basic/collection/get.rs :: fn get :: impl Get for Impl :: fn get
//@@ safety C04 C05
//@@ post doc "(get c k): the member of the object c with key k / the element of the list c at index k; nothing when absent, out of range or of the wrong type"
//@@ endfn
}
}

pub mod f_size {
use super::*;
broadcast use {group_json_names, cl::group_clone_is_copy, group_json_eq, axiom_byte_len};
//@@ item src/functions/basic/collection/size.rs :: fn get :: struct Impl
//@@ rewrite pub_tuple pub_struct
//@@ enditem
impl Get for Impl {
    open spec fn get_spec(&self, value: &Context) -> Option<JsonValue> {
        match arg(self.0@, value, 0) {
            Some(JsonValue::Object(m)) => Some(jnum(m.entries().len() as int)),
            Some(JsonValue::Array(a)) => Some(jnum(a@.len() as int)),
            Some(JsonValue::String(s)) => Some(jnum(s@.len() as int)),
            _ => None,
        }
    }
//@@ fn f.size = src/functions/basic/collection/size.rs :: fn get :: impl Get for Impl :: fn get
//@@ safety C04 C05
//@@ rewrite chars_model
//@@ post doc "(size c): the number of elements of a list, of keys of an object, of CHARACTERS of a string; nothing otherwise"
//@@ endfn
}
}

pub mod f_if {
use super::*;
broadcast use {group_json_names, cl::group_clone_is_copy, group_json_eq, axiom_byte_len};
//@@ item src/functions/basic/flow/condition.rs :: fn get :: struct Impl
//@@ rewrite pub_tuple pub_struct
//@@ enditem
impl Get for Impl {
    open spec fn get_spec(&self, value: &Context) -> Option<JsonValue> {
        match arg(self.0@, value, 0) {
            Some(JsonValue::Boolean(b)) => if b { arg(self.0@, value, 1) } else { arg(self.0@, value, 2) },
            _ => None,
        }
    }
//@@ fn f.if = src/functions/basic/flow/condition.rs :: fn get :: impl Get for Impl :: fn get
//@@ safety C04 C05
//@@ post doc "(? c a b): a when c is true, b when c is false, nothing when c is not a boolean"
//@@ endfn
}
}

pub open spec fn first_some(args: Seq<Rc<dyn Get>>, value: &Context, i: int) -> Option<JsonValue>
    decreases args.len() - i
{
    if i < 0 || i >= args.len() { None } else { match args[i].get_spec(value) { Some(v) => Some(v), None => first_some(args, value, i + 1) } }
}
// and / or: left to right; the first false (true) decides; a non-boolean before that gives nothing
pub open spec fn and_from(args: Seq<Rc<dyn Get>>, value: &Context, i: int) -> Option<JsonValue>
    decreases args.len() - i
{
    if i < 0 || i >= args.len() { Some(jbool(true)) } else { match args[i].get_spec(value) {
        Some(JsonValue::Boolean(b)) => if b { and_from(args, value, i + 1) } else { Some(jbool(false)) }, _ => None } }
}
pub open spec fn or_from(args: Seq<Rc<dyn Get>>, value: &Context, i: int) -> Option<JsonValue>
    decreases args.len() - i
{
    if i < 0 || i >= args.len() { Some(jbool(false)) } else { match args[i].get_spec(value) {
        Some(JsonValue::Boolean(b)) => if b { Some(jbool(true)) } else { or_from(args, value, i + 1) }, _ => None } }
}

pub mod f_default {
use super::*;
broadcast use {group_json_names, cl::group_clone_is_copy, group_json_eq, axiom_byte_len};
//@@ item src/functions/basic/flow/default.rs :: fn get :: struct Impl
//@@ rewrite pub_tuple pub_struct
//@@ enditem
impl Get for Impl {
    open spec fn get_spec(&self, value: &Context) -> Option<JsonValue> {
        first_some(self.0@, value, 0)
    }
//@@ fn f.default = src/functions/basic/flow/default.rs :: fn get :: impl Get for Impl :: fn get
//@@ safety C04 C05
//@@ post doc "(default a b ..): the value of the first argument that gives a value; nothing when none does"
//@@ loop 1 iter it
                    invariant
                        it.seq().len() == self.0@.len(), 0 <= it.index@ <= self.0@.len(),
                        forall|j: int| 0 <= j < it.seq().len() ==> *(#[trigger] it.seq()[j]) == self.0@[j],
                        first_some(self.0@, value, it.index@) == first_some(self.0@, value, 0),
//@@ endfn
}
}

pub mod f_and {
use super::*;
broadcast use {group_json_names, cl::group_clone_is_copy, group_json_eq, axiom_byte_len};
//@@ item src/functions/boolean/logical/and.rs :: fn get :: struct Impl
//@@ rewrite pub_tuple pub_struct
//@@ enditem
impl Get for Impl {
    open spec fn get_spec(&self, value: &Context) -> Option<JsonValue> {
        and_from(self.0@, value, 0)
    }
//@@ fn f.and = src/functions/boolean/logical/and.rs :: fn get :: impl Get for Impl :: fn get
//@@ safety C04 C05
//@@ post doc "(and a b ..): false at the first false argument, true when all are true, nothing when an argument before the first false is not a boolean"
//@@ loop 1 iter it
                    invariant
                        it.seq().len() == self.0@.len(), 0 <= it.index@ <= self.0@.len(),
                        forall|j: int| 0 <= j < it.seq().len() ==> *(#[trigger] it.seq()[j]) == self.0@[j],
                        and_from(self.0@, value, it.index@) == and_from(self.0@, value, 0),
//@@ endfn
}
}

pub mod f_or {
use super::*;
broadcast use {group_json_names, cl::group_clone_is_copy, group_json_eq, axiom_byte_len};
//@@ item src/functions/boolean/logical/or.rs :: fn get :: struct Impl
//@@ rewrite pub_tuple pub_struct
//@@ enditem
impl Get for Impl {
    open spec fn get_spec(&self, value: &Context) -> Option<JsonValue> {
        or_from(self.0@, value, 0)
    }
//@@ fn f.or = src/functions/boolean/logical/or.rs :: fn get :: impl Get for Impl :: fn get
//@@ safety C04 C05
//@@ post doc "(or a b ..): true at the first true argument, false when all are false, nothing when an argument before the first true is not a boolean"
//@@ loop 1 iter it
                    invariant
                        it.seq().len() == self.0@.len(), 0 <= it.index@ <= self.0@.len(),
                        forall|j: int| 0 <= j < it.seq().len() ==> *(#[trigger] it.seq()[j]) == self.0@[j],
                        or_from(self.0@, value, it.index@) == or_from(self.0@, value, 0),
//@@ endfn
}
}

pub mod f_not {
use super::*;
broadcast use {group_json_names, cl::group_clone_is_copy, group_json_eq, axiom_byte_len};
//@@ item src/functions/boolean/logical/not.rs :: fn get :: struct Impl
//@@ rewrite pub_tuple pub_struct
//@@ enditem
impl Get for Impl {
    open spec fn get_spec(&self, value: &Context) -> Option<JsonValue> {
        match arg(self.0@, value, 0) { Some(JsonValue::Boolean(b)) => Some(jbool(!b)), _ => None }
    }
//@@ fn f.not = src/functions/boolean/logical/not.rs :: fn get :: impl Get for Impl :: fn get
//@@ safety C04 C05
//@@ post doc "(not a): the negation of the boolean a, nothing otherwise"
//@@ endfn
}
}

pub mod f_xor {
use super::*;
broadcast use {group_json_names, cl::group_clone_is_copy, group_json_eq, axiom_byte_len};
//@@ item src/functions/boolean/logical/xor.rs :: fn get :: struct Impl
//@@ rewrite pub_tuple pub_struct
//@@ enditem
impl Get for Impl {
    open spec fn get_spec(&self, value: &Context) -> Option<JsonValue> {
        match (arg(self.0@, value, 0), arg(self.0@, value, 1)) { (Some(JsonValue::Boolean(a)), Some(JsonValue::Boolean(b))) => Some(jbool(a != b)), _ => None }
    }
//@@ fn f.xor = src/functions/boolean/logical/xor.rs :: fn get :: impl Get for Impl :: fn get
//@@ safety C04 C05
//@@ post doc "(xor a b): true exactly when one of the booleans a, b is true; nothing when either is not a boolean"
//@@ endfn
}
}

pub mod f_first {
use super::*;
broadcast use {group_json_names, cl::group_clone_is_copy, group_json_eq, axiom_byte_len};
//@@ item src/functions/list/list_folding/first.rs :: fn get :: struct Impl
//@@ rewrite pub_tuple pub_struct
//@@ enditem
impl Get for Impl {
    open spec fn get_spec(&self, value: &Context) -> Option<JsonValue> {
        match arg(self.0@, value, 0) { Some(JsonValue::Array(l)) => if l@.len() > 0 { Some(l@[0]) } else { None }, _ => None }
    }
//@@ fn f.first = src/functions/list/list_folding/first.rs :: fn get :: impl Get for Impl :: fn get
//@@ safety C04 C05
//@@ post doc "(first l): the first element of the list, nothing for an empty list or a non-list"
//@@ endfn
}
}

pub mod f_last {
use super::*;
broadcast use {group_json_names, cl::group_clone_is_copy, group_json_eq, axiom_byte_len};
//@@ item src/functions/list/list_folding/last.rs :: fn get :: struct Impl
//@@ rewrite pub_tuple pub_struct
//@@ enditem
impl Get for Impl {
    open spec fn get_spec(&self, value: &Context) -> Option<JsonValue> {
        match arg(self.0@, value, 0) { Some(JsonValue::Array(l)) => if l@.len() > 0 { Some(l@[l@.len() - 1]) } else { None }, _ => None }
    }
//@@ fn f.last = src/functions/list/list_folding/last.rs :: fn get :: impl Get for Impl :: fn get
//@@ safety C04 C05
//@@ post doc "(last l): the last element of the list, nothing for an empty list or a non-list"
//@@ endfn
}
}

pub open spec fn all_true(s: Seq<JsonValue>) -> bool { forall|i: int| 0 <= i < s.len() ==> #[trigger] s[i] == jbool(true) }
pub open spec fn any_true(s: Seq<JsonValue>) -> bool { exists|i: int| 0 <= i < s.len() && #[trigger] s[i] == jbool(true) }

pub mod f_all {
use super::*;
broadcast use {group_json_names, cl::group_clone_is_copy, group_json_eq, axiom_byte_len};
//@@ item src/functions/list/list_folding/all.rs :: fn get :: struct Impl
//@@ rewrite pub_tuple pub_struct
//@@ enditem
impl Get for Impl {
    open spec fn get_spec(&self, value: &Context) -> Option<JsonValue> {
        match arg(self.0@, value, 0) { Some(JsonValue::Array(l)) => Some(jbool(l@.len() > 0 && all_true(l@))), _ => None }
    }
//@@ fn f.all = src/functions/list/list_folding/all.rs :: fn get :: impl Get for Impl :: fn get
//@@ safety C04 C05
//@@ post doc "(all l): true exactly when the list is not empty and every element is the boolean true; nothing for a non-list"
//@@ loop 1 iter it
                            invariant arg(self.0@, value, 0) == Some(JsonValue::Array(list)), it.seq() == list@, 0 <= it.index@ <= list@.len(), forall|j: int| 0 <= j < it.index@ ==> #[trigger] list@[j] == jbool(true),
//@@ before#2 "return Some(false.into());"
                                proof { assert(list@[it.index@] != jbool(true)); assert(!all_true(list@)); }
//@@ endfn
}
}

pub mod f_any {
use super::*;
broadcast use {group_json_names, cl::group_clone_is_copy, group_json_eq, axiom_byte_len};
//@@ item src/functions/list/list_folding/any.rs :: fn get :: struct Impl
//@@ rewrite pub_tuple pub_struct
//@@ enditem
impl Get for Impl {
    open spec fn get_spec(&self, value: &Context) -> Option<JsonValue> {
        match arg(self.0@, value, 0) { Some(JsonValue::Array(l)) => Some(jbool(any_true(l@))), _ => None }
    }
//@@ fn f.any = src/functions/list/list_folding/any.rs :: fn get :: impl Get for Impl :: fn get
//@@ safety C04 C05
//@@ post doc "(any l): true exactly when some element of the list is the boolean true; nothing for a non-list"
//@@ loop 1 iter it
                            invariant arg(self.0@, value, 0) == Some(JsonValue::Array(list)), it.seq() == list@, 0 <= it.index@ <= list@.len(), forall|j: int| 0 <= j < it.index@ ==> #[trigger] list@[j] != jbool(true),
//@@ before "return Some(true.into());"
                                proof { assert(list@[it.index@] == jbool(true)); assert(any_true(list@)); }
//@@ endfn
}
}

pub mod f_pop {
use super::*;
broadcast use {group_json_names, cl::group_clone_is_copy, group_json_eq, axiom_byte_len};
//@@ item src/functions/list/list_manipulations/pop.rs :: fn get :: struct Impl
//@@ rewrite pub_tuple pub_struct
//@@ enditem
impl Get for Impl {
    open spec fn get_spec(&self, value: &Context) -> Option<JsonValue> {
        match arg(self.0@, value, 0) { Some(JsonValue::Array(l)) => Some(json_array(if l@.len() == 0 { l@ } else { l@.drop_last() })), _ => None }
    }
//@@ fn f.pop = src/functions/list/list_manipulations/pop.rs :: fn get :: impl Get for Impl :: fn get
//@@ safety C04 C05
//@@ post doc "(pop l): the list without its last element (the empty list stays empty); nothing for a non-list"
//@@ loop 1 iter it
                                invariant
                                    it.seq().len() == lst@.len(), 0 <= it.index@ <= lst@.len(), new_len == lst@.len() - 1,
                                    forall|j: int| 0 <= j < it.seq().len() ==> *(#[trigger] it.seq()[j]) == lst@[j],
                                    new_list@ == lst@.subrange(0, if it.index@ < new_len { it.index@ } else { new_len as int }),
//@@ after "new_list.push(val.clone());"
                                    proof { assert(lst@.subrange(0, it.index@).push(lst@[it.index@]) =~= lst@.subrange(0, it.index@ + 1)); }
//@@ after-loop 1
                            proof { assert(new_list@ =~= lst@.drop_last()); }
//@@ endfn
}
}

pub open spec fn push_from(args: Seq<Rc<dyn Get>>, value: &Context, i: int, acc: Seq<JsonValue>) -> Seq<JsonValue>
    decreases args.len() - i
{
    if i < 1 || i >= args.len() { acc } else { push_from(args, value, i + 1, match args[i].get_spec(value) { Some(v) => acc.push(v), None => acc }) }
}

pub mod f_push {
use super::*;
broadcast use {group_json_names, cl::group_clone_is_copy, group_json_eq, axiom_byte_len};
//@@ item src/functions/list/list_manipulations/push.rs :: fn get :: struct Impl
//@@ rewrite pub_tuple pub_struct
//@@ enditem
impl Get for Impl {
    open spec fn get_spec(&self, value: &Context) -> Option<JsonValue> {
        match arg(self.0@, value, 0) { Some(JsonValue::Array(l)) => Some(json_array(push_from(self.0@, value, 1, l@))), _ => None }
    }
//@@ fn f.push = src/functions/list/list_manipulations/push.rs :: fn get :: impl Get for Impl :: fn get
//@@ safety C04 C05
//@@ post doc "(push l a b ..): the list followed by the values of the further arguments in order, arguments that give nothing left out; nothing for a non-list"
//@@ loop 1 iter it
                            invariant
                                self.0@.len() >= 1, it.seq().len() == self.0@.len() - 1, 0 <= it.index@ <= it.seq().len(),
                                forall|j: int| 0 <= j < it.seq().len() ==> #[trigger] it.seq()[j] == j + 1,
                                push_from(self.0@, value, it.index@ + 1, new_list@) == push_from(self.0@, value, 1, lst@),
//@@ endfn
}
}

impl Clone for IndexMap<String, JsonValue> {
    #[verifier::external_body]
    fn clone(&self) -> (r: Self) ensures r == *self { unimplemented!() }
}
pub mod st {
use vstd::prelude::*;
pub uninterp spec fn str_of(s: Seq<char>) -> String;
pub broadcast axiom fn axiom_str_of(s: Seq<char>) ensures (#[trigger] str_of(s))@ == s;
}
use st::*;
pub open spec fn obj3(args: Seq<Rc<dyn Get>>, value: &Context) -> Option<(IndexMap<String, JsonValue>, String, JsonValue)> {
    match (arg(args, value, 0), arg(args, value, 1), arg(args, value, 2)) {
        (Some(JsonValue::Object(m)), Some(JsonValue::String(k)), Some(v)) => Some((m, k, v)), _ => None }
}

pub mod f_put {
use super::*;
broadcast use {group_json_names, cl::group_clone_is_copy, group_json_eq, axiom_byte_len};
//@@ item src/functions/object/manipulate_object/put.rs :: fn get :: struct Impl
//@@ rewrite pub_tuple pub_struct
//@@ enditem
impl Get for Impl {
    open spec fn get_spec(&self, value: &Context) -> Option<JsonValue> {
        match obj3(self.0@, value) { Some((m, k, v)) => Some(json_object(im_insert(m.entries(), k, v))), None => None }
    }
//@@ fn f.put = src/functions/object/manipulate_object/put.rs :: fn get :: impl Get for Impl :: fn get
//@@ safety C04 C05
//@@ post doc "(put o k v): the object with member k set to v — replaced in place when present, appended otherwise; nothing unless o is an object, k a string and v present"
//@@ endfn
}
}

pub mod f_insert_if_absent {
use super::*;
broadcast use {group_json_names, cl::group_clone_is_copy, group_json_eq, axiom_byte_len};
//@@ item src/functions/object/manipulate_object/insert_if_absent.rs :: fn get :: struct Impl
//@@ rewrite pub_tuple pub_struct
//@@ enditem
impl Get for Impl {
    open spec fn get_spec(&self, value: &Context) -> Option<JsonValue> {
        match obj3(self.0@, value) { Some((m, k, v)) => Some(json_object(if m.has(k) { m.entries() } else { im_insert(m.entries(), k, v) })), None => None }
    }
//@@ fn f.insert_if_absent = src/functions/object/manipulate_object/insert_if_absent.rs :: fn get :: impl Get for Impl :: fn get
//@@ safety C04 C05
//@@ post doc "(insert_if_absent o k v): o unchanged when it has member k, otherwise o with k: v appended; nothing unless o is an object, k a string and v present"
//@@ endfn
}
}

pub mod f_replace_if_exists {
use super::*;
broadcast use {group_json_names, cl::group_clone_is_copy, group_json_eq, axiom_byte_len};
//@@ item src/functions/object/manipulate_object/replace_if_exists.rs :: fn get :: struct Impl
//@@ rewrite pub_tuple pub_struct
//@@ enditem
impl Get for Impl {
    open spec fn get_spec(&self, value: &Context) -> Option<JsonValue> {
        match obj3(self.0@, value) { Some((m, k, v)) => Some(json_object(if m.has(k) { im_insert(m.entries(), k, v) } else { m.entries() })), None => None }
    }
//@@ fn f.replace_if_exists = src/functions/object/manipulate_object/replace_if_exists.rs :: fn get :: impl Get for Impl :: fn get
//@@ safety C04 C05
//@@ post doc "(replace_if_exists o k v): o with member k replaced in place when present, otherwise o unchanged; nothing unless o is an object, k a string and v present"
//@@ endfn
}
}

pub open spec fn entry_obj(e: (String, JsonValue)) -> JsonValue { json_object(seq![(str_of("value"@), e.1), (str_of("key"@), JsonValue::String(e.0))]) }
pub open spec fn entries_list(e: Seq<(String, JsonValue)>) -> Seq<JsonValue> { Seq::new(e.len(), |i: int| entry_obj(e[i])) }
pub open spec fn range_list(n: int) -> Seq<JsonValue> { Seq::new(n as nat, |i: int| jnum(i)) }
pub open spec fn push_front_from(args: Seq<Rc<dyn Get>>, value: &Context, i: int, acc: Seq<JsonValue>) -> Seq<JsonValue>
    decreases args.len() - i
{
    if i < 1 || i >= args.len() { acc } else { push_front_from(args, value, i + 1, match args[i].get_spec(value) { Some(v) => seq![v].add(acc), None => acc }) }
}

pub mod f_entries {
use super::*;
broadcast use {group_json_names, cl::group_clone_is_copy, group_json_eq, axiom_byte_len};
//@@ item src/functions/object/object_to_list/entries.rs :: fn get :: struct Impl
//@@ rewrite pub_tuple pub_struct
//@@ enditem
impl Get for Impl {
    open spec fn get_spec(&self, value: &Context) -> Option<JsonValue> {
        match arg(self.0@, value, 0) { Some(JsonValue::Object(m)) => Some(json_array(entries_list(m.entries()))), _ => None }
    }
//@@ fn f.entries = src/functions/object/object_to_list/entries.rs :: fn get :: impl Get for Impl :: fn get
//@@ safety C04 C05
//@@ post doc "(entries o): one object {value, key} per member of o, in member order; nothing for a non-object"
//@@ body-start
        broadcast use st::axiom_str_of, cl::axiom_string_ext;
//@@ loop 1 iter it
                        invariant
                            it.seq() == map.entries(), 0 <= it.index@ <= map.entries().len(),
                            list@ == entries_list(map.entries()).subrange(0, it.index@),
//@@ loop-start 1
                        broadcast use st::axiom_str_of, cl::axiom_string_ext, group_json_names, cl::group_clone_is_copy;
                        proof { reveal_strlit("value"); reveal_strlit("key"); assert("value"@.len() == 5 && "key"@.len() == 3); }
//@@ after "list.push(data.into());"
                        proof {
                            let e1 = seq![(str_of("value"@), v)];
                            assert(!im_has(Seq::<(String, JsonValue)>::empty(), str_of("value"@)));
                            assert(!im_has(e1, str_of("key"@))) by { if im_has(e1, str_of("key"@)) { let j = im_idx(e1, str_of("key"@)); assert(e1[j].0@.len() == 5); } }
                            assert(data.entries() =~= seq![(str_of("value"@), v), (str_of("key"@), JsonValue::String(k))]);
                            assert(entries_list(map.entries()).subrange(0, it.index@).push(entry_obj((k, v))) =~= entries_list(map.entries()).subrange(0, it.index@ + 1));
                        }
//@@ after-loop 1
                    proof { assert(list@ =~= entries_list(map.entries())); }
//@@ endfn
}
}

pub mod f_range {
use super::*;
broadcast use {group_json_names, cl::group_clone_is_copy, group_json_eq, axiom_byte_len};
//@@ item src/functions/list/list_producers/range.rs :: fn get :: struct Impl
//@@ rewrite pub_tuple pub_struct
//@@ enditem
impl Get for Impl {
    open spec fn get_spec(&self, value: &Context) -> Option<JsonValue> {
        match arg(self.0@, value, 0) { Some(JsonValue::Number(n)) => match num_to_usize(n) { Some(k) => Some(json_array(range_list(k as int))), None => None }, _ => None }
    }
//@@ fn f.range = src/functions/list/list_producers/range.rs :: fn get :: impl Get for Impl :: fn get
//@@ safety C04 C05
//@@ rewrite vec_macro_empty
//@@ post doc "(range N): the list 0, 1, .., N-1; nothing unless N is a non-negative integer"
//@@ loop 1 iter it
                                invariant 0 <= it.index@ <= size, it.seq().len() == size, forall|j: int| 0 <= j < it.seq().len() ==> #[trigger] it.seq()[j] == j,
                                    vec@ == range_list(size as int).subrange(0, it.index@),
//@@ after "vec.push(i.into());"
                                proof { assert(range_list(size as int).subrange(0, it.index@).push(jnum(i as int)) =~= range_list(size as int).subrange(0, it.index@ + 1)); }
//@@ after-loop 1
                            proof { assert(vec@ =~= range_list(size as int)); }
//@@ endfn
}
}

pub mod f_push_front {
use super::*;
broadcast use {group_json_names, cl::group_clone_is_copy, group_json_eq, axiom_byte_len};
//@@ item src/functions/list/list_manipulations/push_front.rs :: fn get :: struct Impl
//@@ rewrite pub_tuple pub_struct
//@@ enditem
impl Get for Impl {
    open spec fn get_spec(&self, value: &Context) -> Option<JsonValue> {
        match arg(self.0@, value, 0) { Some(JsonValue::Array(l)) => Some(json_array(push_front_from(self.0@, value, 1, l@))), _ => None }
    }
//@@ fn f.push_front = src/functions/list/list_manipulations/push_front.rs :: fn get :: impl Get for Impl :: fn get
//@@ safety C04 C05
//@@ post doc "(push_front l a b ..): each further argument in turn is put in front of the list (so the last one ends up first), arguments that give nothing left out; nothing for a non-list"
//@@ loop 1 iter it
                            invariant
                                self.0@.len() >= 1, it.seq().len() == self.0@.len() - 1, 0 <= it.index@ <= it.seq().len(),
                                forall|j: int| 0 <= j < it.seq().len() ==> #[trigger] it.seq()[j] == j + 1,
                                push_front_from(self.0@, value, it.index@ + 1, new_list@) == push_front_from(self.0@, value, 1, lst@),
//@@ loop-start 1
                            let ghost old_list = new_list@;
//@@ after "new_list.insert(0, val);"
                                proof { assert(new_list@ =~= seq![val].add(old_list)); }
//@@ endfn
}
}

pub mod f_pop_first {
use super::*;
broadcast use {group_json_names, cl::group_clone_is_copy, group_json_eq, axiom_byte_len};
//@@ item src/functions/list/list_manipulations/pop_first.rs :: fn get :: struct Impl
//@@ rewrite pub_tuple pub_struct
//@@ enditem
impl Get for Impl {
    open spec fn get_spec(&self, value: &Context) -> Option<JsonValue> {
        match arg(self.0@, value, 0) { Some(JsonValue::Array(l)) => Some(json_array(if l@.len() == 0 { l@ } else { l@.subrange(1, l@.len() as int) })), _ => None }
    }
//@@ fn f.pop_first = src/functions/list/list_manipulations/pop_first.rs :: fn get :: impl Get for Impl :: fn get
//@@ safety C04 C05
//@@ rewrite enumerate
//@@ post doc "(pop_first l): the list without its first element (the empty list stays empty); nothing for a non-list"
//@@ loop 1 iter it
                                invariant
                                    it.seq().len() == lst@.len(), 0 <= it.index@ <= lst@.len(), lst@.len() > 0,
                                    forall|j: int| 0 <= j < it.seq().len() ==> (#[trigger] it.seq()[j]).0 == j && *it.seq()[j].1 == lst@[j],
                                    new_list@ == lst@.subrange(1, if it.index@ < 1 { 1 } else { it.index@ }),
//@@ after "new_list.push(val.clone());"
                                    proof { assert(lst@.subrange(1, it.index@).push(lst@[it.index@]) =~= lst@.subrange(1, it.index@ + 1)); }
//@@ endfn
}
}

pub mod f_is_array {
use super::*;
broadcast use {group_json_names, cl::group_clone_is_copy, group_json_eq, axiom_byte_len};
//@@ item src/functions/type_group/check_types/is_array.rs :: fn get :: struct Impl
//@@ rewrite pub_tuple pub_struct
//@@ enditem
impl Get for Impl {
    open spec fn get_spec(&self, value: &Context) -> Option<JsonValue> {
        { let o = arg(self.0@, value, 0); Some(jbool(o matches Some(JsonValue::Array(_)))) }
    }
//@@ fn f.is_array = src/functions/type_group/check_types/is_array.rs :: fn get :: impl Get for Impl :: fn get
//@@ safety C04 C05
//@@ post doc "(array? a): true exactly when a is a list; false otherwise, also when a is absent"
//@@ endfn
}
}

pub mod f_is_bool {
use super::*;
broadcast use {group_json_names, cl::group_clone_is_copy, group_json_eq, axiom_byte_len};
//@@ item src/functions/type_group/check_types/is_bool.rs :: fn get :: struct Impl
//@@ rewrite pub_tuple pub_struct
//@@ enditem
impl Get for Impl {
    open spec fn get_spec(&self, value: &Context) -> Option<JsonValue> {
        { let o = arg(self.0@, value, 0); Some(jbool(o matches Some(JsonValue::Boolean(_)))) }
    }
//@@ fn f.is_bool = src/functions/type_group/check_types/is_bool.rs :: fn get :: impl Get for Impl :: fn get
//@@ safety C04 C05
//@@ post doc "(bool? a): true exactly when a is a boolean; false otherwise, also when a is absent"
//@@ endfn
}
}

pub mod f_is_empty {
use super::*;
broadcast use {group_json_names, cl::group_clone_is_copy, group_json_eq, axiom_byte_len};
//@@ item src/functions/type_group/check_types/is_empty.rs :: fn get :: struct Impl
//@@ rewrite pub_tuple pub_struct
//@@ enditem
impl Get for Impl {
    open spec fn get_spec(&self, value: &Context) -> Option<JsonValue> {
        { let o = arg(self.0@, value, 0); Some(jbool(o is None)) }
    }
//@@ fn f.is_empty = src/functions/type_group/check_types/is_empty.rs :: fn get :: impl Get for Impl :: fn get
//@@ safety C04 C05
//@@ post doc "(empty? a): true exactly when a gives nothing"
//@@ endfn
}
}

pub mod f_is_null {
use super::*;
broadcast use {group_json_names, cl::group_clone_is_copy, group_json_eq, axiom_byte_len};
//@@ item src/functions/type_group/check_types/is_null.rs :: fn get :: struct Impl
//@@ rewrite pub_tuple pub_struct
//@@ enditem
impl Get for Impl {
    open spec fn get_spec(&self, value: &Context) -> Option<JsonValue> {
        { let o = arg(self.0@, value, 0); Some(jbool(o == Some(JsonValue::Null))) }
    }
//@@ fn f.is_null = src/functions/type_group/check_types/is_null.rs :: fn get :: impl Get for Impl :: fn get
//@@ safety C04 C05
//@@ post doc "(null? a): true exactly when a is null; false otherwise, also when a is absent"
//@@ endfn
}
}

pub mod f_is_number {
use super::*;
broadcast use {group_json_names, cl::group_clone_is_copy, group_json_eq, axiom_byte_len};
//@@ item src/functions/type_group/check_types/is_number.rs :: fn get :: struct Impl
//@@ rewrite pub_tuple pub_struct
//@@ enditem
impl Get for Impl {
    open spec fn get_spec(&self, value: &Context) -> Option<JsonValue> {
        { let o = arg(self.0@, value, 0); Some(jbool(o matches Some(JsonValue::Number(_)))) }
    }
//@@ fn f.is_number = src/functions/type_group/check_types/is_number.rs :: fn get :: impl Get for Impl :: fn get
//@@ safety C04 C05
//@@ post doc "(number? a): true exactly when a is a number; false otherwise, also when a is absent"
//@@ endfn
}
}

pub mod f_is_object {
use super::*;
broadcast use {group_json_names, cl::group_clone_is_copy, group_json_eq, axiom_byte_len};
//@@ item src/functions/type_group/check_types/is_object.rs :: fn get :: struct Impl
//@@ rewrite pub_tuple pub_struct
//@@ enditem
impl Get for Impl {
    open spec fn get_spec(&self, value: &Context) -> Option<JsonValue> {
        { let o = arg(self.0@, value, 0); Some(jbool(o matches Some(JsonValue::Object(_)))) }
    }
//@@ fn f.is_object = src/functions/type_group/check_types/is_object.rs :: fn get :: impl Get for Impl :: fn get
//@@ safety C04 C05
//@@ post doc "(object? a): true exactly when a is an object; false otherwise, also when a is absent"
//@@ endfn
}
}

pub mod f_is_string {
use super::*;
broadcast use {group_json_names, cl::group_clone_is_copy, group_json_eq, axiom_byte_len};
//@@ item src/functions/type_group/check_types/is_string.rs :: fn get :: struct Impl
//@@ rewrite pub_tuple pub_struct
//@@ enditem
impl Get for Impl {
    open spec fn get_spec(&self, value: &Context) -> Option<JsonValue> {
        { let o = arg(self.0@, value, 0); Some(jbool(o matches Some(JsonValue::String(_)))) }
    }
//@@ fn f.is_string = src/functions/type_group/check_types/is_string.rs :: fn get :: impl Get for Impl :: fn get
//@@ safety C04 C05
//@@ post doc "(string? a): true exactly when a is a string; false otherwise, also when a is absent"
//@@ endfn
}
}

pub mod f_as_array {
use super::*;
broadcast use {group_json_names, cl::group_clone_is_copy, group_json_eq, axiom_byte_len};
//@@ item src/functions/type_group/cast/as_array.rs :: fn get :: struct Impl
//@@ rewrite pub_tuple pub_struct
//@@ enditem
impl Get for Impl {
    open spec fn get_spec(&self, value: &Context) -> Option<JsonValue> {
        match arg(self.0@, value, 0) { Some(v) => if v matches JsonValue::Array(_) { Some(v) } else { None }, None => None }
    }
//@@ fn f.as_array = src/functions/type_group/cast/as_array.rs :: fn get :: impl Get for Impl :: fn get
//@@ safety C04 C05
//@@ post doc "(as_array a): a when it is a list, nothing otherwise"
//@@ endfn
}
}

pub mod f_as_bool {
use super::*;
broadcast use {group_json_names, cl::group_clone_is_copy, group_json_eq, axiom_byte_len};
//@@ item src/functions/type_group/cast/as_bool.rs :: fn get :: struct Impl
//@@ rewrite pub_tuple pub_struct
//@@ enditem
impl Get for Impl {
    open spec fn get_spec(&self, value: &Context) -> Option<JsonValue> {
        match arg(self.0@, value, 0) { Some(v) => if v matches JsonValue::Boolean(_) { Some(v) } else { None }, None => None }
    }
//@@ fn f.as_bool = src/functions/type_group/cast/as_bool.rs :: fn get :: impl Get for Impl :: fn get
//@@ safety C04 C05
//@@ post doc "(as_boolean a): a when it is a boolean, nothing otherwise"
//@@ endfn
}
}

pub mod f_as_number {
use super::*;
broadcast use {group_json_names, cl::group_clone_is_copy, group_json_eq, axiom_byte_len};
//@@ item src/functions/type_group/cast/as_number.rs :: fn get :: struct Impl
//@@ rewrite pub_tuple pub_struct
//@@ enditem
impl Get for Impl {
    open spec fn get_spec(&self, value: &Context) -> Option<JsonValue> {
        match arg(self.0@, value, 0) { Some(v) => if v matches JsonValue::Number(_) { Some(v) } else { None }, None => None }
    }
//@@ fn f.as_number = src/functions/type_group/cast/as_number.rs :: fn get :: impl Get for Impl :: fn get
//@@ safety C04 C05
//@@ post doc "(as_number a): a when it is a number, nothing otherwise"
//@@ endfn
}
}

pub mod f_as_object {
use super::*;
broadcast use {group_json_names, cl::group_clone_is_copy, group_json_eq, axiom_byte_len};
//@@ item src/functions/type_group/cast/as_object.rs :: fn get :: struct Impl
//@@ rewrite pub_tuple pub_struct
//@@ enditem
impl Get for Impl {
    open spec fn get_spec(&self, value: &Context) -> Option<JsonValue> {
        match arg(self.0@, value, 0) { Some(v) => if v matches JsonValue::Object(_) { Some(v) } else { None }, None => None }
    }
//@@ fn f.as_object = src/functions/type_group/cast/as_object.rs :: fn get :: impl Get for Impl :: fn get
//@@ safety C04 C05
//@@ post doc "(as_object a): a when it is an object, nothing otherwise"
//@@ endfn
}
}

pub mod f_as_string {
use super::*;
broadcast use {group_json_names, cl::group_clone_is_copy, group_json_eq, axiom_byte_len};
//@@ item src/functions/type_group/cast/as_string.rs :: fn get :: struct Impl
//@@ rewrite pub_tuple pub_struct
//@@ enditem
impl Get for Impl {
    open spec fn get_spec(&self, value: &Context) -> Option<JsonValue> {
        match arg(self.0@, value, 0) { Some(v) => if v matches JsonValue::String(_) { Some(v) } else { None }, None => None }
    }
//@@ fn f.as_string = src/functions/type_group/cast/as_string.rs :: fn get :: impl Get for Impl :: fn get
//@@ safety C04 C05
//@@ post doc "(as_string a): a when it is a string, nothing otherwise"
//@@ endfn
}
}

pub mod vstr {
use vstd::prelude::*;
#[verifier::external_body]
pub fn string_of(s: &str) -> (r: String) ensures r@ == s@ { unimplemented!() }
}
// TryFrom<JsonValue> for String (src/json_value.rs): Ok exactly for a string, with that string
impl TryFrom<JsonValue> for String {
    type Error = CastError;
    #[verifier::external_body]
    fn try_from(value: JsonValue) -> (r: Result<Self, CastError>)
        ensures r is Ok <==> value is String, r is Ok ==> JsonValue::String(r->Ok_0) == value,
    { unimplemented!() }
}
pub open spec fn concat_from(args: Seq<Rc<dyn Get>>, value: &Context, i: int, acc: Seq<char>) -> Option<Seq<char>>
    decreases args.len() - i
{
    if i < 0 || i >= args.len() { Some(acc) } else { match args[i].get_spec(value) { Some(JsonValue::String(s)) => concat_from(args, value, i + 1, acc.add(s@)), _ => None } }
}
// the items joined with the separator between EVERY two neighbours (also around empty strings)
pub open spec fn join_from(items: Seq<JsonValue>, sep: Seq<char>, i: int, acc: Seq<char>) -> Option<Seq<char>>
    decreases items.len() - i
{
    if i < 0 || i >= items.len() { Some(acc) } else { match items[i] {
        JsonValue::String(s) => join_from(items, sep, i + 1, if i == 0 { s@ } else { acc.add(sep).add(s@) }), _ => None } }
}
pub open spec fn sep_of(o: Option<JsonValue>) -> Seq<char> { match o { Some(JsonValue::String(s)) => s@, _ => seq![',', ' '] } }
pub open spec fn opt_str(o: Option<Seq<char>>) -> Option<JsonValue> { match o { Some(t) => Some(JsonValue::String(str_of(t))), None => None } }

pub mod f_eq {
use super::*;
broadcast use {group_json_names, cl::group_clone_is_copy, group_json_eq, axiom_byte_len};
//@@ item src/functions/boolean/compare/eq.rs :: fn get :: struct Impl
//@@ rewrite pub_tuple pub_struct
//@@ enditem
impl Get for Impl {
    open spec fn get_spec(&self, value: &Context) -> Option<JsonValue> {
        match (arg(self.0@, value, 0), arg(self.0@, value, 1)) { (Some(a), Some(b)) => Some(jbool(json_eq(a, b))), _ => None }
    }
//@@ fn f.eq = src/functions/boolean/compare/eq.rs :: fn get :: impl Get for Impl :: fn get
//@@ safety C04 C05 C10
//@@ post doc "(= a b): true exactly when the two values are equal (JsonValue's ==, the equality --unique and the sort order use); nothing when an argument is absent"
//@@ endfn
}
}

pub mod f_neq {
use super::*;
broadcast use {group_json_names, cl::group_clone_is_copy, group_json_eq, axiom_byte_len};
//@@ item src/functions/boolean/compare/neq.rs :: fn get :: struct Impl
//@@ rewrite pub_tuple pub_struct
//@@ enditem
impl Get for Impl {
    open spec fn get_spec(&self, value: &Context) -> Option<JsonValue> {
        match (arg(self.0@, value, 0), arg(self.0@, value, 1)) { (Some(a), Some(b)) => Some(jbool(!json_eq(a, b))), _ => None }
    }
//@@ fn f.neq = src/functions/boolean/compare/neq.rs :: fn get :: impl Get for Impl :: fn get
//@@ safety C04 C05 C10
//@@ post doc "(!= a b): the negation of (= a b); nothing when an argument is absent"
//@@ endfn
}
}

pub mod f_concat {
use super::*;
broadcast use {group_json_names, cl::group_clone_is_copy, group_json_eq, axiom_byte_len};
//@@ item src/functions/string/concat.rs :: fn get :: struct Impl
//@@ rewrite pub_tuple pub_struct
//@@ enditem
impl Get for Impl {
    open spec fn get_spec(&self, value: &Context) -> Option<JsonValue> {
        opt_str(concat_from(self.0@, value, 0, Seq::empty()))
    }
//@@ fn f.concat = src/functions/string/concat.rs :: fn get :: impl Get for Impl :: fn get
//@@ safety C04 C05
//@@ post doc "(concat a b ..): the strings one after the other; nothing when an argument is not a string"
//@@ body-start
        broadcast use st::axiom_str_of, cl::axiom_string_ext;
//@@ loop 1 iter it
                    invariant
                        it.seq().len() == self.0@.len(), 0 <= it.index@ <= self.0@.len(),
                        forall|j: int| 0 <= j < it.seq().len() ==> *(#[trigger] it.seq()[j]) == self.0@[j],
                        concat_from(self.0@, value, it.index@, all@) == concat_from(self.0@, value, 0, Seq::empty()),
//@@ loop-start 1
                    broadcast use st::axiom_str_of, cl::axiom_string_ext;
//@@ endfn
}
}

pub mod f_join {
use super::*;
broadcast use {group_json_names, cl::group_clone_is_copy, group_json_eq, axiom_byte_len};
//@@ item src/functions/list/list_folding/join.rs :: fn get :: struct Impl
//@@ rewrite pub_tuple pub_struct
//@@ enditem
impl Get for Impl {
    open spec fn get_spec(&self, value: &Context) -> Option<JsonValue> {
        match arg(self.0@, value, 0) { Some(JsonValue::Array(l)) => opt_str(join_from(l@, sep_of(arg(self.0@, value, 1)), 0, Seq::empty())), _ => None }
    }
//@@ fn f.join = src/functions/list/list_folding/join.rs :: fn get :: impl Get for Impl :: fn get
//@@ safety C04 C05
//@@ rewrite lit_into_string
//@@ post doc "(join l sep): the strings of the list with sep (default comma-blank) between every two neighbours; nothing when an element is not a string or l is not a list"
//@@ body-start
        broadcast use st::axiom_str_of, cl::axiom_string_ext;
        proof { reveal_strlit(", "); assert(", "@ =~= seq![',', ' ']); }
//@@ insert-after ".and_then(|f"
 : JsonValue
//@@ insert-after ".and_then(|f|"
 -> (o: Option<String>) ensures (o is Some <==> f is String), o is Some ==> JsonValue::String(o->Some_0) == f, {
//@@ insert-after "TryInto::<String>::try_into(f).ok()"
 }
//@@ loop 1 iter it
                            invariant
                                arg(self.0@, value, 0) == Some(JsonValue::Array(list)), sepetator@ == sep_of(arg(self.0@, value, 1)),
                                it.seq() == list@, 0 <= it.index@ <= list@.len(),
                                first == (it.index@ == 0), it.index@ == 0 ==> str@ =~= Seq::<char>::empty(),
                                join_from(list@, sepetator@, it.index@, str@) == join_from(list@, sepetator@, 0, Seq::empty()),
//@@ loop-start 1
                            broadcast use st::axiom_str_of, cl::axiom_string_ext;
                            let ghost str0 = str@;
//@@ after "str.push_str(to_add.as_str());"
                                    proof {
                                        assert(list@[it.index@] == JsonValue::String(to_add));
                                        assert(Seq::<char>::empty().add(to_add@) =~= to_add@);
                                        assert(str@ == (if it.index@ == 0 { to_add@ } else { str0.add(sepetator@).add(to_add@) }));
                                    }
//@@ endfn
}
}

// keys() / values() of the IndexMap stand-in with the adapter chains the code uses: entries in insertion order
pub struct ImKeys<'a> { pub m: &'a IndexMap<String, JsonValue> }
pub struct ImKeysCloned<'a> { pub m: &'a IndexMap<String, JsonValue> }
pub struct ImKeysJson<'a> { pub m: &'a IndexMap<String, JsonValue> }
pub struct ImValues<'a> { pub m: &'a IndexMap<String, JsonValue> }
pub struct ImValuesCloned<'a> { pub m: &'a IndexMap<String, JsonValue> }
impl IndexMap<String, JsonValue> {
    pub fn keys(&self) -> (r: ImKeys<'_>) ensures r.m == self { ImKeys { m: self } }
    pub fn values(&self) -> (r: ImValues<'_>) ensures r.m == self { ImValues { m: self } }
}
impl<'a> ImKeys<'a> { pub fn cloned(self) -> (r: ImKeysCloned<'a>) ensures r.m == self.m { ImKeysCloned { m: self.m } } }
impl<'a> ImKeysCloned<'a> { pub fn map_json_string(self) -> (r: ImKeysJson<'a>) ensures r.m == self.m { ImKeysJson { m: self.m } } }
pub open spec fn key_values(e: Seq<(String, JsonValue)>) -> Seq<JsonValue> { Seq::new(e.len(), |i: int| JsonValue::String(e[i].0)) }
pub open spec fn member_values(e: Seq<(String, JsonValue)>) -> Seq<JsonValue> { Seq::new(e.len(), |i: int| e[i].1) }
impl<'a> ImKeysJson<'a> {
    #[verifier::external_body]
    pub fn collect(self) -> (r: Vec<JsonValue>) ensures r@ == key_values(self.m.entries()) { unimplemented!() }
}
impl<'a> ImValues<'a> { pub fn cloned(self) -> (r: ImValuesCloned<'a>) ensures r.m == self.m { ImValuesCloned { m: self.m } } }
impl<'a> ImValuesCloned<'a> {
    #[verifier::external_body]
    pub fn collect(self) -> (r: Vec<JsonValue>) ensures r@ == member_values(self.m.entries()) { unimplemented!() }
}

pub mod f_keys {
use super::*;
broadcast use {group_json_names, cl::group_clone_is_copy, group_json_eq, axiom_byte_len};
//@@ item src/functions/object/object_to_list/keys.rs :: fn get :: struct Impl
//@@ rewrite pub_tuple pub_struct
//@@ enditem
impl Get for Impl {
    open spec fn get_spec(&self, value: &Context) -> Option<JsonValue> {
        match arg(self.0@, value, 0) { Some(JsonValue::Object(m)) => Some(json_array(key_values(m.entries()))), _ => None }
    }
//@@ fn f.keys = src/functions/object/object_to_list/keys.rs :: fn get :: impl Get for Impl :: fn get
//@@ safety C04 C05
//@@ rewrite map_json_string
//@@ post doc "(keys o): the member names of the object as strings, in member order; nothing for a non-object"
//@@ endfn
}
}

pub mod f_values {
use super::*;
broadcast use {group_json_names, cl::group_clone_is_copy, group_json_eq, axiom_byte_len};
//@@ item src/functions/object/object_to_list/values.rs :: fn get :: struct Impl
//@@ rewrite pub_tuple pub_struct
//@@ enditem
impl Get for Impl {
    open spec fn get_spec(&self, value: &Context) -> Option<JsonValue> {
        match arg(self.0@, value, 0) { Some(JsonValue::Object(m)) => Some(json_array(member_values(m.entries()))), _ => None }
    }
//@@ fn f.values = src/functions/object/object_to_list/values.rs :: fn get :: impl Get for Impl :: fn get
//@@ safety C04 C05
//@@ post doc "(values o): the member values of the object, in member order; nothing for a non-object"
//@@ endfn
}
}

} // verus!
fn main() {}
