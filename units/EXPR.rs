#![feature(allocator_api)]
// Unit EXPR: pieces of the expression front end — parse_get_variable, Filter::from_str, FunctionDefinitions::create (C13, C18)
use vstd::prelude::*;
use std::rc::Rc;
use std::io::Read;
use std::str::FromStr;
use vstd::std_specs::iter::IteratorSpec;

verus! {

pub mod jt {
use vstd::prelude::*;
use std::rc::Rc;
use vstd::std_specs::iter::IteratorSpec;
//@@ include prelude/indexmap.rs
//@@ include prelude/json_types.rs
//@@ include prelude/clone_specs.rs
}
use jt::*;
pub mod rd {
use vstd::prelude::*;
use std::io::{Read, Result};
//@@ include prelude/reader_opaque.rs
// src/reader.rs: from_string — a reader over the bytes of the text, nothing read yet. The REAL body is verified; its
// name.truncate(32) on the pinned tree is C05.name (String::truncate panics when 32 is not a character boundary).
pub uninterp spec fn byte_len(s: Seq<char>) -> nat;
pub uninterp spec fn is_char_boundary(s: Seq<char>, n: int) -> bool;
pub assume_specification[ String::truncate ](s: &mut String, n: usize)
    requires n >= byte_len(old(s)@) || is_char_boundary(old(s)@, n as int);
pub assume_specification[ String::as_bytes ](s: &String) -> (r: &[u8])
    ensures r@ == super::ls::str_bytes(s@);
// Reader::new over a byte slice (private constructor of src/reader.rs; contract assumed): nothing read yet, the stream is the slice
impl<'a> Reader<&'a [u8]> {
    #[verifier::external_body]
    pub fn new(reader: &'a [u8], name: Option<String>) -> (r: Self)
        ensures r.wf(), r.room(), r.cur() is None, r.name() == name, r.rest().len() == reader@.len(),
            forall|i: int| 0 <= i < r.rest().len() ==> (#[trigger] r.rest()[i]) == Some(reader@[i]),
    { unimplemented!() }
}
// s.chars().take(n).collect() (rewrite chars_model): the first n characters
#[verifier::external_body]
pub struct VChars { _p: () }
impl VChars {
    pub uninterp spec fn seq(&self) -> Seq<char>;
    #[verifier::external_body]
    pub fn take(self, n: usize) -> (r: VChars) ensures r.seq() == self.seq().take(if n < self.seq().len() { n as int } else { self.seq().len() as int }) { unimplemented!() }
    #[verifier::external_body]
    pub fn collect(self) -> (r: String) ensures r@ == self.seq() { unimplemented!() }
}
pub trait VCharsOf { fn vchars(&self) -> (r: VChars); spec fn chars_spec(&self) -> Seq<char>; }
impl VCharsOf for String {
    open spec fn chars_spec(&self) -> Seq<char> { self@ }
    #[verifier::external_body]
    fn vchars(&self) -> (r: VChars) ensures r.seq() == self@ { unimplemented!() }
}
//@@ fn reader.from_string = src/reader.rs :: fn from_string
//@@ ret r
//@@ safety C05
//@@ rewrite chars_model
//@@ header
    ensures r.wf(), r.room(), r.cur() is None, r.rest().len() == super::ls::str_bytes(source@).len(),
        forall|i: int| 0 <= i < r.rest().len() ==> (#[trigger] r.rest()[i]) == Some(super::ls::str_bytes(source@)[i]), // @obl EXPR.from_string : C05 C13 C18
//@@ endfn
}
use rd::*;
pub mod u8s {
use vstd::prelude::*;
//@@ include prelude/u8std.rs
}
pub mod ls {
use vstd::prelude::*;
pub uninterp spec fn valid_utf8(b: Seq<u8>) -> bool;
pub uninterp spec fn str_bytes(s: Seq<char>) -> Seq<u8>;
#[verifier::external_type_specification]
#[verifier::external_body]
pub struct ExFromUtf8Error(std::string::FromUtf8Error);
pub assume_specification[ String::from_utf8 ](v: Vec<u8>) -> (r: std::result::Result<String, std::string::FromUtf8Error>)
    ensures r is Ok <==> valid_utf8(v@), r is Ok ==> str_bytes(r->Ok_0@) == v@;
// UTF-8 is injective: a string is determined by its bytes
pub uninterp spec fn text_of(b: Seq<u8>) -> Seq<char>;
pub broadcast axiom fn axiom_text_of(s: Seq<char>) ensures #[trigger] text_of(str_bytes(s)) == s;
}
use ls::*;
pub mod rdl {
use vstd::prelude::*;
use super::rd::*;
pub broadcast proof fn lemma_advance_refl(a: Seq<Option<u8>>) ensures #[trigger] advance(a, a) {}
pub broadcast proof fn lemma_advance_trans(a: Seq<Option<u8>>, b: Seq<Option<u8>>, c: Seq<Option<u8>>)
    requires #[trigger] advance(a, b), #[trigger] advance(b, c),
    ensures advance(a, c),
{
    assert forall|i: int| 0 <= i < consumed(a, c).len() implies (#[trigger] consumed(a, c)[i]) is Some by {
        if i < consumed(a, b).len() { assert(consumed(a, b)[i] is Some); } else { assert(consumed(b, c)[i - consumed(a, b).len()] is Some); }
    }
}
pub broadcast group group_advance { lemma_advance_refl, lemma_advance_trans }
}
broadcast use rdl::group_advance;

// Context / Get as elsewhere (opaque)
#[verifier::external_body] pub struct Context { _p: () }
pub trait Get {
    spec fn get_spec(&self, value: &Context) -> Option<JsonValue>;
    fn get(&self, value: &Context) -> (r: Option<JsonValue>) ensures r == self.get_spec(value);
}

// error types: opaque; the variant constructors used below are declared as associated functions of the same name
#[verifier::external_body] pub struct JsonParserError { _p: () }
impl JsonParserError {
    #[allow(non_snake_case)] #[verifier::external_body] pub fn UnexpectedEof(l: Location) -> Self { unimplemented!() }
    #[allow(non_snake_case)] #[verifier::external_body] pub fn UnexpectedCharacter(l: Location, c: char, expected: String) -> Self { unimplemented!() }
}
#[verifier::external_body] pub struct SelectionParseError { _p: () }
impl SelectionParseError {
    #[allow(non_snake_case)] #[verifier::external_body] pub fn ExpectingEof(l: Location, c: char) -> Self { unimplemented!() }
}
pub type Result<T> = std::result::Result<T, SelectionParseError>;
impl From<JsonParserError> for SelectionParseError { #[verifier::external_body] fn from(e: JsonParserError) -> Self { unimplemented!() } }
impl From<std::io::Error> for SelectionParseError { #[verifier::external_body] fn from(e: std::io::Error) -> Self { unimplemented!() } }
impl From<std::string::FromUtf8Error> for SelectionParseError { #[verifier::external_body] fn from(e: std::string::FromUtf8Error) -> Self { unimplemented!() } }

// ---- the expression grammar, as far as it is under contract -------------------------------------------------------------
// a variable / macro name ends at white space, `)` or `,` — `,` separates arguments exactly like white space does (C13)
pub open spec fn ends_name(b: u8) -> bool { is_ws(b) || b == 0x29u8 || b == 0x2cu8 }
pub open spec fn name_run(s: Seq<Option<u8>>) -> nat
    decreases s.len()
{
    if s.len() > 0 && s[0] is Some && !ends_name(s[0].unwrap()) { 1 + name_run(s.subrange(1, s.len() as int)) } else { 0 }
}

//@@ item src/variables_extractor.rs :: enum Type
//@@ enditem
//@@ item src/variables_extractor.rs :: struct VariableExtructor
//@@ enditem
impl Get for VariableExtructor {
    uninterp spec fn get_spec(&self, value: &Context) -> Option<JsonValue>;
    #[verifier::external_body]
    fn get(&self, value: &Context) -> (r: Option<JsonValue>) { unimplemented!() }
}

//@@ fn expr.parse_get_variable = src/variables_extractor.rs :: fn parse_get_variable
//@@ safety C13 C05 C18
//@@ ret r
//@@ rewrite try_io
//@@ header
    requires old(reader).wf(), old(reader).room(), old(reader).cur() is Some,
    ensures
        final(reader).wf(), final(reader).room(),
        // `:name` / `@name`: exactly the sigil and the maximal run of bytes that do not end a name are consumed; the
        // byte that ends the name (white space, `)`, or `,`) is left as the current byte for the caller
        r is Ok ==> final(reader).pending().len() + name_run(old(reader).pending().subrange(1, old(reader).pending().len() as int)) + 1 == old(reader).pending().len(), // @obl EXPR.variable.name_end : C13
        r is Ok ==> name_run(old(reader).pending().subrange(1, old(reader).pending().len() as int)) >= 1, // @obl EXPR.variable.nonempty : C18
//@@ body-start
    let ghost p0 = reader.pending();
//@@ loop 1
        invariant_except_break
            reader.wf(), reader.room(), reader.cur() is Some, p0 == old(reader).pending(),
            advance(p0, reader.pending()), reader.pending().len() + name@.len() == p0.len(),
            name_run(p0.subrange(1, p0.len() as int)) == name@.len() + name_run(p0.subrange(name@.len() as int + 1, p0.len() as int)),
        ensures
            reader.wf(), reader.room(), p0 == old(reader).pending(),
            reader.pending().len() + name@.len() + 1 == p0.len(),
            name_run(p0.subrange(1, p0.len() as int)) == name@.len(),
        decreases reader.pending().len(),
//@@ loop-start 1
        proof {
            let k = name@.len() as int;
            let t = p0.subrange(k + 1, p0.len() as int);
            assert(t.len() > 0 ==> t.subrange(1, t.len() as int) =~= p0.subrange(k + 2, p0.len() as int));
        }
//@@ endfn

pub mod vstr {
use vstd::prelude::*;
#[verifier::external_body]
pub fn to_string_of(x: &str) -> (r: String) ensures r@ == x@ { unimplemented!() }
}

// ---- read_getter: the shared expression reader (src/selection.rs). NOT under contract: assumed to be a function of the bytes
// it is given: which getter it builds and how many bytes it consumes (at least one) depend on the pending bytes only.
pub uninterp spec fn getter_at(p: Seq<Option<u8>>) -> Option<(Rc<dyn Get>, int)>;
#[verifier::external_body]
pub fn read_getter<R: Read>(reader: &mut Reader<R>) -> (r: Result<Rc<dyn Get>>)
    requires old(reader).wf(), old(reader).room(),
    ensures final(reader).wf(), final(reader).room(),
        r is Ok ==> (getter_at(old(reader).pending()) matches Some(gn) && gn.0 == r->Ok_0 && 1 <= gn.1 <= old(reader).pending().len()
            && final(reader).pending() =~= old(reader).pending().subrange(gn.1, old(reader).pending().len() as int)),
{ unimplemented!() }

pub open spec fn text_pending(t: Seq<char>) -> Seq<Option<u8>> { Seq::new(str_bytes(t).len(), |i: int| Some(str_bytes(t)[i])) }
// the whole option text is: white space, one expression, white space
pub open spec fn whole_text_getter(t: Seq<char>) -> Option<Rc<dyn Get>> {
    let p = text_pending(t);
    let w = ws_run(p) as int;
    match getter_at(p.subrange(w, p.len() as int)) {
        Some(gn) => if ws_run(p.subrange(w + gn.1, p.len() as int)) == p.len() - (w + gn.1) { Some(gn.0) } else { None },
        None => None,
    }
}

pub mod filter_m {
use vstd::prelude::*;
use std::rc::Rc;
use std::str::FromStr;
use super::*;
use std::result::Result;
//@@ item src/filter.rs :: struct Filter
//@@ enditem
impl Filter { pub closed spec fn g(&self) -> Rc<dyn Get> { self.filter } }

impl FromStr for Filter {
    type Err = SelectionParseError;
//@@ fn expr.filter.from_str = src/filter.rs :: impl FromStr for Filter :: fn from_str
//@@ safety C18 C13 C05
//@@ ret r
//@@ rewrite try_io str_to_string
//@@ header
        ensures
            // the filter is exactly the getter the shared expression reader builds from the option text (C13.shared), and
            // anything but white space after the expression is an error (C18.eof)
            r is Ok ==> whole_text_getter(s@) == Some(r->Ok_0.g()), // @obl EXPR.filter.whole_text : C18 C13
//@@ after "let mut reader = from_string(&source);"
        let ghost p = text_pending(s@);
        let ghost w = ws_run(p) as int;
        proof { assert(reader.pending() =~= p); }
//@@ after#1 "reader.eat_whitespace()?;"
        proof { assert(reader.pending() =~= p.subrange(w, p.len() as int)); }
//@@ after "let filter = read_getter(&mut reader)?;"
        let ghost gn = getter_at(p.subrange(w, p.len() as int))->0;
        proof { assert(reader.pending() =~= p.subrange(w + gn.1, p.len() as int)); }
//@@ before "Ok(Filter { filter })"
        proof {
            assert(reader.pending().len() == 0);
            assert(ws_run(p.subrange(w + gn.1, p.len() as int)) == p.len() - (w + gn.1));
        }
//@@ endfn
}
}

pub mod splitter_m {
use vstd::prelude::*;
use std::rc::Rc;
use std::str::FromStr;
use super::*;
use std::result::Result;
//@@ item src/splitter.rs :: struct Splitter
//@@ enditem
impl Splitter { pub closed spec fn g(&self) -> Rc<dyn Get> { self.split_by } }

impl FromStr for Splitter {
    type Err = SelectionParseError;
//@@ fn expr.splitter.from_str = src/splitter.rs :: impl FromStr for Splitter :: fn from_str
//@@ safety C18 C13 C05
//@@ ret r
//@@ rewrite try_io str_to_string
//@@ header
        ensures
            // the filter is exactly the getter the shared expression reader builds from the option text (C13.shared), and
            // anything but white space after the expression is an error (C18.eof)
            r is Ok ==> whole_text_getter(s@) == Some(r->Ok_0.g()), // @obl EXPR.splitter.whole_text : C18 C13
//@@ after "let mut reader = from_string(&source);"
        let ghost p = text_pending(s@);
        let ghost w = ws_run(p) as int;
        proof { assert(reader.pending() =~= p); }
//@@ after#1 "reader.eat_whitespace()?;"
        proof { assert(reader.pending() =~= p.subrange(w, p.len() as int)); }
//@@ after "let split_by = read_getter(&mut reader)?;"
        let ghost gn = getter_at(p.subrange(w, p.len() as int))->0;
        proof { assert(reader.pending() =~= p.subrange(w + gn.1, p.len() as int)); }
//@@ before "Ok(Splitter { split_by })"
        proof {
            assert(reader.pending().len() == 0);
            assert(ws_run(p.subrange(w + gn.1, p.len() as int)) == p.len() - (w + gn.1));
        }
//@@ endfn
}
}

pub mod grouper_m {
use vstd::prelude::*;
use std::rc::Rc;
use std::str::FromStr;
use super::*;
use std::result::Result;
//@@ item src/grouper.rs :: struct Grouper
//@@ enditem
impl Grouper { pub closed spec fn g(&self) -> Rc<dyn Get> { self.group_by } }

impl FromStr for Grouper {
    type Err = SelectionParseError;
//@@ fn expr.grouper.from_str = src/grouper.rs :: impl FromStr for Grouper :: fn from_str
//@@ safety C18 C13 C05
//@@ ret r
//@@ rewrite try_io str_to_string
//@@ header
        ensures
            // the filter is exactly the getter the shared expression reader builds from the option text (C13.shared), and
            // anything but white space after the expression is an error (C18.eof)
            r is Ok ==> whole_text_getter(s@) == Some(r->Ok_0.g()), // @obl EXPR.grouper.whole_text : C18 C13
//@@ after "let mut reader = from_string(&source);"
        let ghost p = text_pending(s@);
        let ghost w = ws_run(p) as int;
        proof { assert(reader.pending() =~= p); }
//@@ after#1 "reader.eat_whitespace()?;"
        proof { assert(reader.pending() =~= p.subrange(w, p.len() as int)); }
//@@ after "let group_by = read_getter(&mut reader)?;"
        let ghost gn = getter_at(p.subrange(w, p.len() as int))->0;
        proof { assert(reader.pending() =~= p.subrange(w + gn.1, p.len() as int)); }
//@@ before "Ok(Grouper { group_by })"
        proof {
            assert(reader.pending().len() == 0);
            assert(ws_run(p.subrange(w + gn.1, p.len() as int)) == p.len() - (w + gn.1));
        }
//@@ endfn
}
}

pub mod selection_m {
use vstd::prelude::*;
use std::rc::Rc;
use std::str::FromStr;
use super::*;
//@@ item src/selection.rs :: struct Selection
//@@ enditem
impl Selection {
    pub closed spec fn g(&self) -> Rc<dyn Get> { self.getter }
    pub closed spec fn title(&self) -> Seq<char> { (*self.name)@ }
}
impl SelectionParseError {
    #[allow(non_snake_case)] #[verifier::external_body] pub fn ExpectingEquals(l: Location, c: char) -> Self { unimplemented!() }
}
// what may follow the expression of a --select: nothing (the title is the whole option text), or `=` and the title
// (the rest of the text after `=` and white space). ANYTHING else is an error (C18).
pub open spec fn select_text(t: Seq<char>) -> Option<(Rc<dyn Get>, Option<Seq<u8>>)> {
    let p = text_pending(t);
    let w = ws_run(p) as int;
    match getter_at(p.subrange(w, p.len() as int)) {
        Some(gn) => {
            let q = p.subrange(w + gn.1, p.len() as int);
            let a = q.subrange(ws_run(q) as int, q.len() as int);
            if a.len() == 0 { Some((gn.0, None)) }
            else if a[0] == Some(0x3du8) { let b = a.subrange(1, a.len() as int); Some((gn.0, Some(unwrap_all(b.subrange(ws_run(b) as int, b.len() as int))))) }
            else { None }
        },
        None => None,
    }
}
impl FromStr for Selection {
    type Err = SelectionParseError;
//@@ fn expr.selection.from_str = src/selection.rs :: impl FromStr for Selection :: fn from_str
//@@ safety C18 C13 C05 C15
//@@ ret r
//@@ rewrite try_io str_to_string
//@@ header
        ensures
            // the getter is the one the shared expression reader builds from the option text (C13.shared); what follows the
            // expression is nothing or `= title`, anything else is an error (C18); the title is the text after `=`, or the
            // whole option text
            r is Ok ==> (select_text(s@) matches Some(gt) && gt.0 == r->Ok_0.g()
                && (gt.1 is None ==> r->Ok_0.title() == s@) && (gt.1 matches Some(b) ==> str_bytes(r->Ok_0.title()) == b)), // @obl EXPR.selection.text : C18 C13 C15
//@@ after "let mut reader = from_string(&source);"
        let ghost p = text_pending(s@);
        let ghost w = ws_run(p) as int;
        proof { assert(reader.pending() =~= p); }
//@@ after#1 "reader.eat_whitespace()?;"
        proof { assert(reader.pending() =~= p.subrange(w, p.len() as int)); }
//@@ after "let extractors = read_getter(&mut reader)?;"
        let ghost gn = getter_at(p.subrange(w, p.len() as int))->0;
        let ghost q = p.subrange(w + gn.1, p.len() as int);
        proof { assert(reader.pending() =~= q); }
//@@ after#2 "reader.eat_whitespace()?;"
        let ghost a = q.subrange(ws_run(q) as int, q.len() as int);
        proof { assert(reader.pending() =~= a); }
//@@ after#3 "reader.eat_whitespace()?;"
                let ghost b = a.subrange(1, a.len() as int);
                let ghost c = b.subrange(ws_run(b) as int, b.len() as int);
                proof {
                    assert(reader.pending() =~= c);
                    assert(no_fault(c)) by { assert forall|i: int| 0 <= i < c.len() implies (#[trigger] c[i]) is Some by {} }
                    assert(a[0] == Some(0x3du8));
                }
//@@ loop 1
                    invariant
                        reader.wf(), reader.room(), advance(c, reader.pending()), no_fault(c),
                        buf@ =~= unwrap_all(c.subrange(0, c.len() - reader.pending().len())),
                    ensures reader.pending().len() == 0,
                    decreases reader.pending().len(),
//@@ loop-start 1
                    let ghost k = c.len() - reader.pending().len();
                    proof {
                        assert(reader.pending() =~= c.subrange(k, c.len() as int));
                        assert(reader.cur() == Some(ch));
                        assert(reader.pending()[0] == reader.cur());
                        assert(c[k] == Some(ch));
                    }
//@@ loop-end 1
                    proof {
                        assert(reader.pending() =~= c.subrange(k + 1, c.len() as int));
                        assert(unwrap_all(c.subrange(0, k)).push(ch) =~= unwrap_all(c.subrange(0, k + 1)));
                    }
//@@ after-loop 1
                proof {
                    assert(reader.pending().len() == 0);
                    assert(c.subrange(0, c.len() as int) =~= c);
                }
//@@ endfn
}
impl Get for Selection {
    open spec fn get_spec(&self, value: &Context) -> Option<JsonValue> { self.g().get_spec(value) }
//@@ fn expr.selection.get = src/selection.rs :: impl Get for Selection :: fn get
//@@ safety C04 C13
//@@ post delegates "a Selection evaluates to what its getter evaluates to"
//@@ endfn
}
}


// ---- the parse_selection function (src/functions/string/parse_and_stringify/parse_selection.rs): a --select text evaluated here ----
//@@ include prelude/fnargs_apply.rs
pub mod vsel {
use vstd::prelude::*;
use std::rc::Rc;
use super::*;
use super::selection_m::*;
// Selection::from_str as a FUNCTION of the option text (assumed: the parser is deterministic), with the clause unit EXPR proves
// for the real body (EXPR.selection.text): an accepted text is `ws expr ws [= title]` and the getter is the shared reader's
pub uninterp spec fn sel_fn(text: Seq<char>) -> Option<Rc<dyn Get>>;
#[verifier::external_body]
pub fn selection_from_str(s: &str) -> (r: std::result::Result<Selection, SelectionParseError>)
    ensures r is Ok <==> sel_fn(s@) is Some, r is Ok ==> r->Ok_0.g() == sel_fn(s@)->0,
        r is Ok ==> (select_text(s@) matches Some(gt) && gt.0 == r->Ok_0.g()),
{ unimplemented!() }
#[verifier::external_body]
pub fn as_str_of(s: &String) -> (r: &str) ensures r@ == s@ { unimplemented!() }
}
pub mod f_parse_selection {
use super::*;
//@@ item src/functions/string/parse_and_stringify/parse_selection.rs :: fn get :: struct Impl
//@@ rewrite pub_tuple pub_struct
//@@ enditem
impl Get for Impl {
    open spec fn get_spec(&self, value: &Context) -> Option<JsonValue> {
        match arg(self.0@, value, 0) {
            Some(JsonValue::String(s)) => match vsel::sel_fn(s@) { Some(g) => g.get_spec(value), None => None },
            _ => None,
        }
    }
//@@ fn f.parse_selection = src/functions/string/parse_and_stringify/parse_selection.rs :: fn get :: impl Get for Impl :: fn get
//@@ safety C04 C13 C05
//@@ ret r
//@@ rewrite selection_from_str_fn as_str_sel
//@@ post doc "(parse_selection s) is the value of the selection expression written in the string s, evaluated on the CURRENT context (input, parents, bindings); nothing when s is not a string or not a valid --select text"
//@@ endfn
}
}

// ---- --sort-by: Sorter::from_str (src/sorters.rs): <expression> [ASC|DESC] — the direction word (C18: an unknown direction is
// an error; C07: DESC exactly for the word DESC; C13: the getter is the shared reader's)
pub mod sorter_m {
use vstd::prelude::*;
use std::rc::Rc;
use std::str::FromStr;
use std::io::Read;
use super::*;
use std::result::Result;
#[verifier::external_body] pub struct SorterParserError { _p: () }
impl SorterParserError {
    #[allow(non_snake_case)] #[verifier::external_body] pub fn UnknownOrder(t: String) -> Self { unimplemented!() }
}
impl From<SelectionParseError> for SorterParserError { #[verifier::external_body] fn from(e: SelectionParseError) -> Self { unimplemented!() } }
impl From<std::io::Error> for SorterParserError { #[verifier::external_body] fn from(e: std::io::Error) -> Self { unimplemented!() } }
//@@ item src/sorters.rs :: enum Direction
//@@ rewrite pub_struct
//@@ enditem
//@@ item src/sorters.rs :: struct Sorter
//@@ enditem
impl Sorter {
    pub closed spec fn g(&self) -> Rc<dyn Get> { self.sort_by }
    pub closed spec fn desc(&self) -> bool { self.direction is Desc }
}
pub mod vsd {
use vstd::prelude::*;
// str::trim / str::to_uppercase: functions of the text (trusted; nothing else is known about them)
pub uninterp spec fn trim_of(s: Seq<char>) -> Seq<char>;
pub uninterp spec fn upper_of(s: Seq<char>) -> Seq<char>;
#[verifier::external_body]
pub fn trimmed(s: &String) -> (r: String) ensures r@ == trim_of(s@) { unimplemented!() }
pub trait VUpper { fn vupper(&self) -> (r: String); spec fn text(&self) -> Seq<char>; }
impl VUpper for String {
    open spec fn text(&self) -> Seq<char> { self@ }
    #[verifier::external_body]
    fn vupper(&self) -> (r: String) ensures r@ == upper_of(self@) { unimplemented!() }
}
#[verifier::external_body]
pub fn as_str_of(s: &String) -> (r: &str) ensures r@ == s@ { unimplemented!() }
// two string slices with the same characters are the same value (a `match` on string literals compares values)
pub broadcast axiom fn axiom_str_ext(a: &str, b: &str) ensures (#[trigger] a@ == #[trigger] b@) ==> a == b;
}
use vsd::*;
// everything the reader still holds, as text: trimmed
//@@ fn expr.read_to_eof = src/sorters.rs :: fn read_to_eof
//@@ safety C18 C05 C13
//@@ ret res
//@@ rewrite try_io trim_to_string
//@@ header
    requires old(r).wf(), old(r).room(),
    ensures final(r).wf(), final(r).room(),
        // the rest of the option text — every pending byte, from the current one on, none skipped — as UTF-8 text, trimmed
        res is Ok ==> (no_fault(old(r).pending()) && valid_utf8(unwrap_all(old(r).pending()))
            && res->Ok_0@ == trim_of(text_of(unwrap_all(old(r).pending()))) && final(r).pending().len() == 0), // @obl EXPR.read_to_eof.whole_rest : C18 C13
//@@ body-start
    let ghost c = r.pending();
    broadcast use ls::axiom_text_of;
//@@ loop 1
        invariant
            r.wf(), r.room(), advance(c, r.pending()), current == r.cur(), c == old(r).pending(),
            current is None ==> r.pending().len() == 0,
            c.len() >= r.pending().len(),
            no_fault(c.subrange(0, c.len() - r.pending().len())),
            chars@ =~= unwrap_all(c.subrange(0, c.len() - r.pending().len())),
        decreases r.pending().len(),
//@@ loop-start 1
        broadcast use ls::axiom_text_of;
        let ghost k = c.len() - r.pending().len();
        proof {
            assert(r.pending() =~= c.subrange(k, c.len() as int));
            if current is Some { assert(r.pending()[0] == r.cur()); assert(c[k] == current); }
        }
//@@ after "current = r.next()?;"
            proof {
                assert(r.pending() =~= c.subrange(k + 1, c.len() as int));
                assert(c[k] == Some(ch));
                assert(c.subrange(0, k + 1) =~= c.subrange(0, k).push(c[k]));
                assert(unwrap_all(c.subrange(0, k)).push(ch) =~= unwrap_all(c.subrange(0, k + 1)));
            }
//@@ before "let str = String::from_utf8(chars)?;"
            proof {
                assert(r.pending().len() == 0);
                assert(c.subrange(0, c.len() as int) =~= c);
                assert(chars@ == unwrap_all(c));
                assert(no_fault(c));
            }
//@@ after "let str = String::from_utf8(chars)?;"
            proof { assert(str_bytes(str@) == unwrap_all(c)); assert(text_of(str_bytes(str@)) == str@); }
//@@ endfn

// the whole --sort-by text: white space, one expression of the shared grammar, then the direction word
pub open spec fn sort_text(t: Seq<char>) -> Option<(Rc<dyn Get>, bool)> {
    let p = text_pending(t);
    let w = ws_run(p) as int;
    match getter_at(p.subrange(w, p.len() as int)) {
        Some(gn) => {
            let q = unwrap_all(p.subrange(w + gn.1, p.len() as int));
            let d = upper_of(trim_of(text_of(q)));
            if !valid_utf8(q) { None }
            else if d == ""@ || d == "ASC"@ { Some((gn.0, false)) }
            else if d == "DESC"@ { Some((gn.0, true)) }
            else { None }
        },
        None => None,
    }
}
impl FromStr for Sorter {
    type Err = SorterParserError;
//@@ fn expr.sorter.from_str = src/sorters.rs :: impl FromStr for Sorter :: fn from_str
//@@ safety C18 C13 C05 C07
//@@ ret r
//@@ rewrite try_io str_to_string to_uppercase_of as_str_of dir_to_string
//@@ header
        ensures
            // the sort key is exactly the getter the shared expression reader builds from the option text (C13); what follows the
            // expression is, after trimming and upper-casing, nothing or ASC (ascending), or DESC (descending); ANY other word is an
            // error (C18: unknown sort direction)
            r is Ok ==> (sort_text(s@) matches Some(gd) && gd.0 == r->Ok_0.g() && gd.1 == r->Ok_0.desc()), // @obl EXPR.sorter.text : C18 C13 C07
//@@ after "let mut reader = from_string(&source);"
        let ghost p = text_pending(s@);
        let ghost w = ws_run(p) as int;
        proof { assert(reader.pending() =~= p); }
//@@ after#1 "reader.eat_whitespace()?;"
        proof { assert(reader.pending() =~= p.subrange(w, p.len() as int)); }
//@@ after "let sort_by = read_getter(&mut reader)?;"
        let ghost gn = getter_at(p.subrange(w, p.len() as int))->0;
        proof { assert(reader.pending() =~= p.subrange(w + gn.1, p.len() as int)); }
//@@ before "let direction = match"
        broadcast use axiom_str_ext;
        proof {
            reveal_strlit(""); reveal_strlit("ASC"); reveal_strlit("DESC");
        }
//@@ endfn
}
}

// ---- --set: PreSet::from_str (src/pre_sets.rs): NAME=value, @NAME=macro
pub mod preset_m {
use vstd::prelude::*;
use std::rc::Rc;
use std::str::FromStr;
use super::*;
use std::result::Result;
#[verifier::external_body] pub struct PreSetParserError { _p: () }
impl PreSetParserError {
    #[allow(non_snake_case)] #[verifier::external_body] pub fn NoEqualsError(t: String) -> Self { unimplemented!() }
    #[allow(non_snake_case)] #[verifier::external_body] pub fn EmptyName(t: String) -> Self { unimplemented!() }
    #[allow(non_snake_case)] #[verifier::external_body] pub fn EmptyValue(t: String) -> Self { unimplemented!() }
}
impl From<SelectionParseError> for PreSetParserError { #[verifier::external_body] fn from(e: SelectionParseError) -> Self { unimplemented!() } }
impl Context {
    pub uninterp spec fn empty_spec() -> Context;
    #[verifier::external_body]
    pub fn new_empty() -> (r: Context) ensures r == Context::empty_spec() { unimplemented!() }
}
//@@ item src/pre_sets.rs :: enum Value
//@@ rewrite pub_struct
//@@ enditem
//@@ item src/pre_sets.rs :: struct PreSet
//@@ rewrite pub_struct pub_fields
//@@ enditem
pub mod vps {
use vstd::prelude::*;
use super::super::ls::*;
// the byte offset of the first `=` (0x3d) of the text
pub open spec fn first_eq(b: Seq<u8>) -> Option<int>
    decreases b.len()
{
    if b.len() == 0 { None } else if b[0] == 0x3du8 { Some(0int) } else { match first_eq(b.subrange(1, b.len() as int)) { Some(i) => Some(i + 1), None => None } }
}
pub uninterp spec fn trim_of(s: Seq<char>) -> Seq<char>;
#[verifier::external_body]
pub fn find_eq(s: &str) -> (r: Option<usize>)
    ensures r is Some <==> first_eq(str_bytes(s@)) is Some, r is Some ==> r->0 as int == first_eq(str_bytes(s@))->0 && r->0 < str_bytes(s@).len(),
{ unimplemented!() }
#[verifier::external_body]
pub fn before(s: &str, pos: usize) -> (r: String)
    requires pos < str_bytes(s@).len(), str_bytes(s@)[pos as int] < 0x80u8,
    ensures str_bytes(r@) == str_bytes(s@).subrange(0, pos as int),
{ unimplemented!() }
#[verifier::external_body]
pub fn after(s: &str, pos: usize) -> (r: String)
    requires pos < str_bytes(s@).len(), str_bytes(s@)[pos as int] < 0x80u8,
    ensures str_bytes(r@) == str_bytes(s@).subrange(pos as int + 1, str_bytes(s@).len() as int),
{ unimplemented!() }
#[verifier::external_body]
pub fn trim_str(s: &String) -> (r: &str) ensures r@ == trim_of(s@) { unimplemented!() }
#[verifier::external_body]
pub fn strip_at(s: &String) -> (r: Option<&str>)
    ensures r is Some <==> (s@.len() > 0 && s@[0] == '@'), r is Some ==> r->0@ == s@.subrange(1, s@.len() as int),
{ unimplemented!() }
#[verifier::external_body]
pub fn str_is_empty(s: &str) -> (r: bool) ensures r == (s@.len() == 0) { unimplemented!() }
}
pub proof fn lemma_first_eq(b: Seq<u8>)
    ensures first_eq(b) matches Some(i) ==> 0 <= i < b.len() && b[i] == 0x3du8,
    decreases b.len(),
{
    if b.len() > 0 && b[0] != 0x3du8 { lemma_first_eq(b.subrange(1, b.len() as int)); }
}
use vps::*;
// the text after the first `=` is: one expression (read by the shared reader), then white space only
pub open spec fn value_getter(vt: Seq<char>) -> Option<Rc<dyn Get>> {
    let p = text_pending(vt);
    match getter_at(p) {
        Some(gn) => if ws_run(p.subrange(gn.1, p.len() as int)) == p.len() - gn.1 { Some(gn.0) } else { None },
        None => None,
    }
}
impl FromStr for PreSet {
    type Err = PreSetParserError;
//@@ fn expr.preset.from_str = src/pre_sets.rs :: impl FromStr for PreSet :: fn from_str
//@@ safety C18 C12 C13 C05 C03
//@@ ret r
//@@ rewrite find_eq_or_err slice_before slice_after trim_str key_to_string map_err_io strip_at str_is_empty s_to_owned get_or_empty_value
//@@ header
        ensures
            // NAME=value / @NAME=macro: the name is the TRIMMED text before the FIRST `=`; the rest is one expression of the shared
            // grammar followed by nothing but white space; `@` marks a macro (kept unevaluated), anything else a variable whose
            // value is the expression evaluated once, on the empty context; an empty name or an absent value is an error
            r is Ok ==> ({
                let b = str_bytes(s@);
                first_eq(b) matches Some(pos)
                && ({ let name = trim_of(text_of(b.subrange(0, pos))); let vt = text_of(b.subrange(pos + 1, b.len() as int));
                      value_getter(vt) matches Some(g)
                      && (if name.len() > 0 && name[0] == '@' {
                              name.len() > 1 && r->Ok_0.key@ == name.subrange(1, name.len() as int) && r->Ok_0.value == Value::Macro(g)
                          } else {
                              name.len() > 0 && r->Ok_0.key@ == name && (r->Ok_0.value matches Value::Calculated(v) && g.get_spec(&Context::empty_spec()) == Some(v))
                          }) })
            }), // @obl EXPR.preset.text : C18 C12 C13 C03
//@@ body-start
        let ghost b = str_bytes(s@);
        broadcast use ls::axiom_text_of;
        proof { lemma_first_eq(b); }
//@@ after "let mut reader = from_string(&value);"
        let ghost vt = value@;
        let ghost p = text_pending(vt);
        proof { assert(reader.pending() =~= p); }
//@@ after "let value = read_getter(&mut reader)?;"
        let ghost gn = getter_at(p)->0;
        proof { assert(reader.pending() =~= p.subrange(gn.1, p.len() as int)); }
//@@ endfn
}
}

// ---- FunctionDefinitions::create: the arity check (C18). The function pointer field is the opaque stand-in `Factory`.
pub mod fdef {
use super::*;
use std::result::Result;
#[verifier::external_body] pub struct Factory { _p: () }
impl Factory {
    pub uninterp spec fn built(&self, args: Seq<Rc<dyn Get>>) -> Rc<dyn Get>;
    #[verifier::external_body]
    pub fn call(&self, args: Vec<Rc<dyn Get>>) -> (r: Rc<dyn Get>) ensures r == self.built(args@) { unimplemented!() }
}
#[verifier::external_body] pub struct Example { _p: () }
#[verifier::external_body] pub struct FunctionDefinitionsError { _p: () }
impl FunctionDefinitionsError {
    #[allow(non_snake_case)] #[verifier::external_body] pub fn MissingArgument(name: String, a: usize, b: usize) -> Self { unimplemented!() }
    #[allow(non_snake_case)] #[verifier::external_body] pub fn TooManyArgument(name: String, a: usize, b: usize) -> Self { unimplemented!() }
}
//@@ item src/functions_definitions.rs :: struct FunctionDefinitions
//@@ rewrite pub_fields
//@@ enditem
impl FunctionDefinitions {
    // only feeds the error message
    #[verifier::external_body]
    pub fn name(&self) -> String { unimplemented!() }
//@@ fn fdef.create = src/functions_definitions.rs :: impl FunctionDefinitions :: fn create
//@@ safety C18 C05
//@@ rewrite factory_call
//@@ ret r
//@@ header
        ensures
            // fewer than the minimal or more than the maximal number of arguments is an error: the function is never built
            r is Ok <==> self.min_args_count <= args@.len() <= self.max_args_count, // @obl EXPR.arity : C18
            r is Ok ==> r->Ok_0 == self.build_extractor.built(args@), // @obl EXPR.arity.built : C18 C13
//@@ endfn
//@@ fn fdef.names = src/functions_definitions.rs :: impl FunctionDefinitions :: fn names
//@@ safety C13
//@@ ret r
//@@ rewrite vec_macro_empty
//@@ header
        ensures
            // the names under which a function is entered into the table: its name, then every alias, nothing else
            r@ == seq![self.name].add(self.aliases@), // @obl EXPR.names : C13
//@@ loop 1 iter it
            invariant
                it.seq().len() == self.aliases@.len(), 0 <= it.index@ <= self.aliases@.len(),
                forall|j: int| 0 <= j < it.seq().len() ==> *(#[trigger] it.seq()[j]) == self.aliases@[j],
                vec@ == seq![self.name].add(self.aliases@.take(it.index@)),
//@@ loop-start 1
            proof { assert(self.aliases@.take(it.index@).push(self.aliases@[it.index@]) =~= self.aliases@.take(it.index@ + 1)); }
//@@ after-loop 1
        proof { assert(self.aliases@.take(self.aliases@.len() as int) =~= self.aliases@); }
//@@ endfn
}
}

} // verus!
fn main() {}
