#![feature(allocator_api)]
// Unit EXPR: pieces of the expression front end — parse_get_variable, Filter::from_str, FunctionDefinitions::create (C13, C18)
use vstd::prelude::*;
use std::rc::Rc;
use std::io::Read;
use std::str::FromStr;
use vstd::std_specs::iter::IteratorSpec;

verus! {

pub mod jt {
use vstd::prelude::*;
use std::rc::Rc;
use vstd::std_specs::iter::IteratorSpec;
//@@ include prelude/indexmap.rs
//@@ include prelude/json_types.rs
//@@ include prelude/clone_specs.rs
}
use jt::*;
pub mod rd {
use vstd::prelude::*;
use std::io::{Read, Result};
//@@ include prelude/reader_opaque.rs
// src/reader.rs: from_string — a reader over the bytes of the text, nothing read yet (its name.truncate(32) is C05.name)
#[verifier::external_body]
pub fn from_string(source: &String) -> (r: Reader<&[u8]>)
    ensures r.wf(), r.room(), r.cur() is None, r.rest().len() == super::ls::str_bytes(source@).len(),
        forall|i: int| 0 <= i < r.rest().len() ==> (#[trigger] r.rest()[i]) == Some(super::ls::str_bytes(source@)[i]),
{ unimplemented!() }
}
use rd::*;
pub mod u8s {
use vstd::prelude::*;
//@@ include prelude/u8std.rs
}
pub mod ls {
use vstd::prelude::*;
pub uninterp spec fn valid_utf8(b: Seq<u8>) -> bool;
pub uninterp spec fn str_bytes(s: Seq<char>) -> Seq<u8>;
#[verifier::external_type_specification]
#[verifier::external_body]
pub struct ExFromUtf8Error(std::string::FromUtf8Error);
pub assume_specification[ String::from_utf8 ](v: Vec<u8>) -> (r: std::result::Result<String, std::string::FromUtf8Error>)
    ensures r is Ok <==> valid_utf8(v@), r is Ok ==> str_bytes(r->Ok_0@) == v@;
}
use ls::*;
pub mod rdl {
use vstd::prelude::*;
use super::rd::*;
pub broadcast proof fn lemma_advance_refl(a: Seq<Option<u8>>) ensures #[trigger] advance(a, a) {}
pub broadcast proof fn lemma_advance_trans(a: Seq<Option<u8>>, b: Seq<Option<u8>>, c: Seq<Option<u8>>)
    requires #[trigger] advance(a, b), #[trigger] advance(b, c),
    ensures advance(a, c),
{
    assert forall|i: int| 0 <= i < consumed(a, c).len() implies (#[trigger] consumed(a, c)[i]) is Some by {
        if i < consumed(a, b).len() { assert(consumed(a, b)[i] is Some); } else { assert(consumed(b, c)[i - consumed(a, b).len()] is Some); }
    }
}
pub broadcast group group_advance { lemma_advance_refl, lemma_advance_trans }
}
broadcast use rdl::group_advance;

// Context / Get as elsewhere (opaque)
#[verifier::external_body] pub struct Context { _p: () }
pub trait Get {
    spec fn get_spec(&self, value: &Context) -> Option<JsonValue>;
    fn get(&self, value: &Context) -> (r: Option<JsonValue>) ensures r == self.get_spec(value);
}

// error types: opaque; the variant constructors used below are declared as associated functions of the same name
#[verifier::external_body] pub struct JsonParserError { _p: () }
impl JsonParserError {
    #[allow(non_snake_case)] #[verifier::external_body] pub fn UnexpectedEof(l: Location) -> Self { unimplemented!() }
    #[allow(non_snake_case)] #[verifier::external_body] pub fn UnexpectedCharacter(l: Location, c: char, expected: String) -> Self { unimplemented!() }
}
#[verifier::external_body] pub struct SelectionParseError { _p: () }
impl SelectionParseError {
    #[allow(non_snake_case)] #[verifier::external_body] pub fn ExpectingEof(l: Location, c: char) -> Self { unimplemented!() }
}
pub type Result<T> = std::result::Result<T, SelectionParseError>;
impl From<JsonParserError> for SelectionParseError { #[verifier::external_body] fn from(e: JsonParserError) -> Self { unimplemented!() } }
impl From<std::io::Error> for SelectionParseError { #[verifier::external_body] fn from(e: std::io::Error) -> Self { unimplemented!() } }
impl From<std::string::FromUtf8Error> for SelectionParseError { #[verifier::external_body] fn from(e: std::string::FromUtf8Error) -> Self { unimplemented!() } }

// ---- the expression grammar, as far as it is under contract -------------------------------------------------------------
// a variable / macro name ends at white space, `)` or `,` — `,` separates arguments exactly like white space does (C13)
pub open spec fn ends_name(b: u8) -> bool { is_ws(b) || b == 0x29u8 || b == 0x2cu8 }
pub open spec fn name_run(s: Seq<Option<u8>>) -> nat
    decreases s.len()
{
    if s.len() > 0 && s[0] is Some && !ends_name(s[0].unwrap()) { 1 + name_run(s.subrange(1, s.len() as int)) } else { 0 }
}

//@@ item src/variables_extractor.rs :: enum Type
//@@ enditem
//@@ item src/variables_extractor.rs :: struct VariableExtructor
//@@ enditem
impl Get for VariableExtructor {
    uninterp spec fn get_spec(&self, value: &Context) -> Option<JsonValue>;
    #[verifier::external_body]
    fn get(&self, value: &Context) -> (r: Option<JsonValue>) { unimplemented!() }
}

//@@ fn expr.parse_get_variable = src/variables_extractor.rs :: fn parse_get_variable
//@@ safety C13 C05 C18
//@@ ret r
//@@ rewrite try_io
//@@ header
    requires old(reader).wf(), old(reader).room(), old(reader).cur() is Some,
    ensures
        final(reader).wf(), final(reader).room(),
        // `:name` / `@name`: exactly the sigil and the maximal run of bytes that do not end a name are consumed; the
        // byte that ends the name (white space, `)`, or `,`) is left as the current byte for the caller
        r is Ok ==> final(reader).pending().len() + name_run(old(reader).pending().subrange(1, old(reader).pending().len() as int)) + 1 == old(reader).pending().len(), // @obl EXPR.variable.name_end : C13
        r is Ok ==> name_run(old(reader).pending().subrange(1, old(reader).pending().len() as int)) >= 1, // @obl EXPR.variable.nonempty : C18
//@@ body-start
    let ghost p0 = reader.pending();
//@@ loop 1
        invariant_except_break
            reader.wf(), reader.room(), reader.cur() is Some, p0 == old(reader).pending(),
            advance(p0, reader.pending()), reader.pending().len() + name@.len() == p0.len(),
            name_run(p0.subrange(1, p0.len() as int)) == name@.len() + name_run(p0.subrange(name@.len() as int + 1, p0.len() as int)),
        ensures
            reader.wf(), reader.room(), p0 == old(reader).pending(),
            reader.pending().len() + name@.len() + 1 == p0.len(),
            name_run(p0.subrange(1, p0.len() as int)) == name@.len(),
        decreases reader.pending().len(),
//@@ loop-start 1
        proof {
            let k = name@.len() as int;
            let t = p0.subrange(k + 1, p0.len() as int);
            assert(t.len() > 0 ==> t.subrange(1, t.len() as int) =~= p0.subrange(k + 2, p0.len() as int));
        }
//@@ endfn

} // verus!
fn main() {}
