#![feature(allocator_api)]
// Unit RX: src/regex_cache.rs — the compiled pattern does not depend on the cache (C13)
use vstd::prelude::*;
use std::rc::Rc;
use std::ops::Deref;

verus! {

pub mod cs {
use vstd::prelude::*;
use std::rc::Rc;
//@@ include prelude/clone_specs.rs
}
// ---- the dependency `regex`: compiling is a function of the pattern text (assumed) ----
#[verifier::external_body] pub struct Regex { _p: () }
#[verifier::external_body] pub struct Error { _p: () }
pub uninterp spec fn compile_of(pattern: Seq<char>) -> Result<Regex, Error>;
impl Regex {
    #[verifier::external_body]
    pub fn new(re: &str) -> (r: Result<Regex, Error>) ensures r == compile_of(re@) { unimplemented!() }
}
// ---- the dependency `cached`: SizedCache behind Rc<RefCell<..>> (rewrite regex_cache_type). Interior mutability is
// modelled by the cache INVARIANT "every stored value is the compile of its key": `cache_get_or_set_with(key, f)` may
// only be called with an f that produces the compile of that very key, and then returns the compile of the key — whether
// it came from the cache or from f. ----
pub mod vcache {
use vstd::prelude::*;
use std::rc::Rc;
use super::{Regex, Error, compile_of};
#[verifier::external_body] pub struct Cell { _p: () }
#[verifier::external_body] pub struct Guard { _p: () }
impl Cell {
    #[verifier::external_body] pub fn with_size(n: usize) -> (r: Cell) { unimplemented!() }
    #[verifier::external_body] pub fn borrow_mut(&self) -> (r: Guard) { unimplemented!() }
}
impl Guard {
    #[verifier::external_body]
    pub fn cache_get_or_set_with<F: FnOnce() -> Rc<Result<Regex, Error>>>(self, key: String, f: F) -> (r: Rc<Result<Regex, Error>>)
        requires f.requires(()), forall|v: Rc<Result<Regex, Error>>| #[trigger] f.ensures((), v) ==> *v == compile_of(key@),
        ensures *r == compile_of(key@),
    { unimplemented!() }
}
}
pub mod vstr {
use vstd::prelude::*;
// `s.into()` of a &str into a String (rewrite str_into_string): the same text
#[verifier::external_body]
pub fn string_of(s: &str) -> (r: String) ensures r@ == s@ { unimplemented!() }
}
pub uninterp spec fn trim_of(s: Seq<char>) -> Seq<char>;
pub assume_specification[ str::trim ](s: &str) -> (r: &str) ensures r@ == trim_of(s@);

//@@ item src/regex_cache.rs :: type OptionalCache
//@@ rewrite regex_cache_type
//@@ enditem
//@@ item src/regex_cache.rs :: struct RegexCache
//@@ rewrite pub_struct pub_fields
//@@ enditem

pub trait RegexCompile {
//@@ fn regexcompile.compile_regex = src/regex_cache.rs :: trait RegexCompile :: fn compile_regex
//@@ ret r
//@@ header
        ensures *r == compile_of(regex@), // @tobl same
//@@ endfn
}
impl RegexCompile for RegexCache {
//@@ fn rx.compile_regex = src/regex_cache.rs :: impl RegexCompile for RegexCache :: fn compile_regex
//@@ safety C13 C11
//@@ rewrite str_into_string
//@@ insert-after "||"
 -> (v: Rc<Result<Regex, Error>>) ensures *v == compile_of(regex@), {
//@@ insert-after "|| Rc::new(Regex::new(regex))"
 }
//@@ endfn
}
impl RegexCache {
//@@ fn rx.new = src/regex_cache.rs :: impl RegexCache :: fn new
//@@ safety C13 C11
//@@ rewrite regex_cache_new
//@@ endfn
}

} // verus!
fn main() {}
