// Unit MAIN: src/main.rs — fn main: which process stream is handed to jawk::go as what, what is printed where on failure,
// and which exit status the process ends with (C20)
use vstd::prelude::*;

verus! {

// ---- the process, as far as main() touches it (trusted declarations; every one is an assumption about std / clap / jawk::go)
pub mod vproc {
use vstd::prelude::*;
// one of the three standard streams of the process: std::io::stdout() is file descriptor 1, std::io::stderr() is 2
#[verifier::external_body] pub struct StdStream { _p: () }
impl StdStream { pub uninterp spec fn fd(&self) -> int; }
#[verifier::external_body]
pub fn std_stdout() -> (r: StdStream) ensures r.fd() == 1 { unimplemented!() }
#[verifier::external_body]
pub fn std_stderr() -> (r: StdStream) ensures r.fd() == 2 { unimplemented!() }
// Rc::new(RefCell::new(stream)): the shared, UNBUFFERED handle jawk::go writes through (rewrite rc_refcell_new)
#[verifier::external_body] pub struct Out { _p: () }
impl Out { pub uninterp spec fn fd(&self) -> int; }
#[verifier::external_body]
pub fn out_of(s: StdStream) -> (r: Out) ensures r.fd() == s.fd() { unimplemented!() }
// Box::new(std::io::stdin): the factory go() calls when (and only when) it starts to read standard input
#[verifier::external_body] pub struct StdinFactory { _p: () }
#[verifier::external_body]
pub fn stdin_factory() -> (r: StdinFactory) { unimplemented!() }

#[verifier::external_body] pub struct MainError { _p: () }
// the outcome of THIS run of jawk::go (a prophecy constant: go is called once)
pub uninterp spec fn run_outcome() -> Result<(), MainError>;
// "the text of e has been written to standard error" — a fact about the past of the run, established only by eprintln
pub uninterp spec fn reported_on_stderr(e: MainError) -> bool;

// eprintln!("..{e}..") writes one line holding Display of e to file descriptor 2 (std)
#[verifier::external_body]
pub fn eprintln_disp(e: &MainError) ensures reported_on_stderr(*e) { unimplemented!() }
// println! writes to file descriptor 1. C20: "result rows only to standard output" — main itself prints nothing there.
#[verifier::external_body]
pub fn println_disp(e: &MainError)
    requires false, // @obl MAIN.no_stdout_writes : C20
{ unimplemented!() }
// std::process::exit(code): the process ends with status (code mod 256). C20: a non-zero status exactly for a failed run, and
// only after the failure has been reported on standard error.
#[verifier::external_body]
pub fn exit(code: i32)
    requires
        run_outcome() is Err, // @obl MAIN.exit.only_on_failure : C20
        (code as int) % 256 != 0, // @obl MAIN.exit.nonzero : C20
        reported_on_stderr(run_outcome()->Err_0), // @obl MAIN.exit.after_report : C20
    ensures false,
{ unimplemented!() }
}
use vproc::*;

// clap: Cli::parse() reads the command line; on --help / a malformed command line it prints and exits by itself (trusted)
#[verifier::external_body] pub struct Cli { _p: () }
impl Cli { #[verifier::external_body] pub fn parse() -> (r: Cli) { unimplemented!() } }

// jawk::go (src/lib.rs). What it does with its arguments is units GO / LOOP / PRINT: rows are written to `stdout` only, the
// `error:` lines of --on-error=stderr to `stderr` only. At process level C20 therefore demands of the CALLER that `stdout` is
// standard output and `stderr` is standard error: these are go's preconditions here.
#[verifier::external_body]
pub fn go(cli: Cli, stdout: Out, stderr: Out, stdin: StdinFactory) -> (r: Result<(), MainError>)
    requires
        stdout.fd() == 1, // @obl MAIN.go.stdout : C20
        stderr.fd() == 2, // @obl MAIN.go.stderr : C20
    ensures r == run_outcome(),
{ unimplemented!() }

pub mod m {
use super::*;
//@@ fn main.main = src/main.rs :: fn main
//@@ safety C20 C14
//@@ rewrite main_stdout main_stderr main_stdin rc_refcell_new eprintln_disp println_disp process_exit
//@@ header
    ensures
        // returning from main is exit status 0: only a successful run may end that way
        run_outcome() is Ok, // @obl MAIN.status_ok : C20
//@@ endfn
}

} // verus!
fn main() {}
