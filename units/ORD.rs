#![feature(allocator_api)]
// Unit ORD: the one total order on JSON values — Ord/PartialOrd for JsonValue, < <= > >=, sort, sort_unique, sort_by_keys (C07)
use vstd::prelude::*;
use std::rc::Rc;
use std::cmp::Ordering;
use vstd::std_specs::iter::IteratorSpec;
use std::collections::HashMap;

verus! {

pub mod jt {
use vstd::prelude::*;
use std::rc::Rc;
use vstd::std_specs::iter::IteratorSpec;
//@@ include prelude/indexmap.rs
//@@ include prelude/json_types.rs
//@@ include prelude/clone_specs.rs
}
use jt::*;
pub mod cl {
use vstd::prelude::*;
use std::rc::Rc;
use super::jt::*;
//@@ include prelude/clone_axioms.rs
}

// ---------------------------------------------------------------------------------------------------------
// the order, as a specification (taken from the property statement C07; per-type orders are named, not defined)
// ---------------------------------------------------------------------------------------------------------
pub mod ordspec {
use vstd::prelude::*;
use vstd::std_specs::cmp::OrdSpec;
use std::cmp::Ordering;
use super::jt::*;
// null < booleans < strings < numbers < objects < arrays
pub open spec fn rank(a: JsonValue) -> int {
    match a { JsonValue::Null => 0, JsonValue::Boolean(_) => 1, JsonValue::String(_) => 2, JsonValue::Number(_) => 3, JsonValue::Object(_) => 4, JsonValue::Array(_) => 5 }
}
pub open spec fn int_cmp(a: int, b: int) -> Ordering { if a < b { Ordering::Less } else if a == b { Ordering::Equal } else { Ordering::Greater } }
// false < true
pub open spec fn bool_cmp(a: bool, b: bool) -> Ordering { if a == b { Ordering::Equal } else if !a { Ordering::Less } else { Ordering::Greater } }
// std: String's Ord is byte-wise lexicographic on the UTF-8 encoding == lexicographic by code point (trusted, named only)
pub uninterp spec fn str_cmp(a: Seq<char>, b: Seq<char>) -> Ordering;
// NumberValue's hand-written Ord: numeric order (decided by the Kani harnesses K.v2_*)
pub uninterp spec fn num_cmp(a: NumberValue, b: NumberValue) -> Ordering;
// std: Vec<T>'s Ord is lexicographic with respect to T's Ord (a proper prefix is smaller)
pub uninterp spec fn vec_cmp<T>(a: Seq<T>, b: Seq<T>) -> Ordering;
pub broadcast axiom fn axiom_vec_cmp_is_lexicographic<T: Ord>(a: Seq<T>, b: Seq<T>)
    ensures #[trigger] vec_cmp::<T>(a, b) == (
        if a.len() == 0 { if b.len() == 0 { Ordering::Equal } else { Ordering::Less } }
        else if b.len() == 0 { Ordering::Greater }
        else if a[0].cmp_spec(&b[0]) != Ordering::Equal { a[0].cmp_spec(&b[0]) }
        else { vec_cmp::<T>(a.subrange(1, a.len() as int), b.subrange(1, b.len() as int)) });
// std: slice::sort is a stable sort by T's Ord, sort_unstable a sort; Vec::dedup drops consecutive equal elements
pub uninterp spec fn sorted_stable<T>(s: Seq<T>) -> Seq<T>;
pub uninterp spec fn sorted_unstable<T>(s: Seq<T>) -> Seq<T>;
pub uninterp spec fn deduped<T>(s: Seq<T>) -> Seq<T>;
pub open spec fn non_decreasing<T: Ord>(s: Seq<T>) -> bool { forall|i: int, j: int| 0 <= i < j < s.len() ==> (#[trigger] s[i]).cmp_spec(#[trigger] &s[j]) != Ordering::Greater }
pub broadcast axiom fn axiom_sorted_stable<T: Ord>(s: Seq<T>)
    ensures non_decreasing(#[trigger] sorted_stable::<T>(s)), sorted_stable::<T>(s).to_multiset() == s.to_multiset(), sorted_stable::<T>(s).len() == s.len();
pub broadcast axiom fn axiom_sorted_unstable<T: Ord>(s: Seq<T>)
    ensures non_decreasing(#[trigger] sorted_unstable::<T>(s)), sorted_unstable::<T>(s).to_multiset() == s.to_multiset(), sorted_unstable::<T>(s).len() == s.len();
// objects among themselves (not prescribed by C07 beyond being total; read off the code): size, then sorted key lists, then printed text
pub uninterp spec fn text_of(a: JsonValue) -> Seq<char>;
pub open spec fn keys_of<V>(e: Seq<(String, V)>) -> Seq<String> { Seq::new(e.len(), |i: int| e[i].0) }
pub open spec fn obj_cmp(a: JsonValue, x: IndexMap<String, JsonValue>, b: JsonValue, y: IndexMap<String, JsonValue>) -> Ordering {
    if x.entries().len() != y.entries().len() { int_cmp(x.entries().len() as int, y.entries().len() as int) }
    else if vec_cmp::<String>(sorted_stable::<String>(keys_of(x.entries())), sorted_stable::<String>(keys_of(y.entries()))) != Ordering::Equal {
        vec_cmp::<String>(sorted_stable::<String>(keys_of(x.entries())), sorted_stable::<String>(keys_of(y.entries()))) }
    else { str_cmp(text_of(a), text_of(b)) }
}
pub open spec fn json_cmp(a: JsonValue, b: JsonValue) -> Ordering {
    if rank(a) != rank(b) { int_cmp(rank(a), rank(b)) } else {
        match (a, b) {
            (JsonValue::Boolean(x), JsonValue::Boolean(y)) => bool_cmp(x, y),
            (JsonValue::String(x), JsonValue::String(y)) => str_cmp(x@, y@),
            (JsonValue::Number(x), JsonValue::Number(y)) => num_cmp(x, y),
            (JsonValue::Object(x), JsonValue::Object(y)) => obj_cmp(a, x, b, y),
            (JsonValue::Array(x), JsonValue::Array(y)) => vec_cmp::<JsonValue>(x@, y@),
            _ => Ordering::Equal,
        }
    }
}
}
use ordspec::*;

// ---- trusted stand-ins of the std / hand-written Ord impls the real code calls (x.cmp(y) is dispatched here, see rewrite cmp_dispatch) ----
pub trait VCmp {
    spec fn vspec(&self, o: &Self) -> Ordering;
    fn vcmp(&self, o: &Self) -> (r: Ordering) ensures r == self.vspec(o);
}
impl VCmp for usize {
    open spec fn vspec(&self, o: &Self) -> Ordering { int_cmp(*self as int, *o as int) }
    #[verifier::external_body] fn vcmp(&self, o: &Self) -> (r: Ordering) { unimplemented!() }
}
impl VCmp for bool {
    open spec fn vspec(&self, o: &Self) -> Ordering { bool_cmp(*self, *o) }
    #[verifier::external_body] fn vcmp(&self, o: &Self) -> (r: Ordering) { unimplemented!() }
}
impl VCmp for String {
    open spec fn vspec(&self, o: &Self) -> Ordering { str_cmp(self@, o@) }
    #[verifier::external_body] fn vcmp(&self, o: &Self) -> (r: Ordering) { unimplemented!() }
}
impl VCmp for NumberValue {
    open spec fn vspec(&self, o: &Self) -> Ordering { num_cmp(*self, *o) }
    #[verifier::external_body] fn vcmp(&self, o: &Self) -> (r: Ordering) { unimplemented!() }
}
impl VCmp for Vec<JsonValue> {
    open spec fn vspec(&self, o: &Self) -> Ordering { vec_cmp::<JsonValue>(self@, o@) }
    #[verifier::external_body] fn vcmp(&self, o: &Self) -> (r: Ordering) { unimplemented!() }
}
impl VCmp for Vec<String> {
    open spec fn vspec(&self, o: &Self) -> Ordering { vec_cmp::<String>(self@, o@) }
    #[verifier::external_body] fn vcmp(&self, o: &Self) -> (r: Ordering) { unimplemented!() }
}
pub assume_specification[ <Ordering as PartialEq>::eq ](a: &Ordering, b: &Ordering) -> (r: bool) ensures r == (*a == *b);

// keys().cloned().collect() of the IndexMap stand-in: the keys in entry order
pub struct ImKeys<'a> { pub m: &'a IndexMap<String, JsonValue> }
pub struct ImKeysCloned<'a> { pub m: &'a IndexMap<String, JsonValue> }
impl IndexMap<String, JsonValue> {
    pub fn keys(&self) -> (r: ImKeys<'_>) ensures r.m == self { ImKeys { m: self } }
}
impl<'a> ImKeys<'a> { pub fn cloned(self) -> (r: ImKeysCloned<'a>) ensures r.m == self.m { ImKeysCloned { m: self.m } } }
impl<'a> ImKeysCloned<'a> {
    #[verifier::external_body]
    pub fn collect(self) -> (r: Vec<String>) ensures r@ == keys_of(self.m.entries()) { unimplemented!() }
}
pub assume_specification<T: Ord>[ <[T]>::sort ](s: &mut [T]) ensures final(s)@ == sorted_stable::<T>(old(s)@);

pub mod vfmt {
use vstd::prelude::*;
use super::*;
#[verifier::external_body]
pub fn display_json(v: &JsonValue) -> (r: String) ensures r@ == text_of(*v) { unimplemented!() }
}

impl Eq for JsonValue {}
impl vstd::std_specs::cmp::PartialOrdSpecImpl for JsonValue {
    open spec fn obeys_partial_cmp_spec() -> bool { true }
    open spec fn partial_cmp_spec(&self, other: &Self) -> Option<Ordering> { Some(json_cmp(*self, *other)) }
}
impl vstd::std_specs::cmp::OrdSpecImpl for JsonValue {
    open spec fn obeys_cmp_spec() -> bool { true }
    open spec fn cmp_spec(&self, other: &Self) -> Ordering { json_cmp(*self, *other) }
}

impl JsonValue {
//@@ fn jv.inner_index = src/json_value.rs :: impl JsonValue :: fn inner_index
//@@ ret r
//@@ safety C07
//@@ header
        ensures
            // @obl ORD.rank : C07
            r == rank(*self),
//@@ endfn
}

impl PartialOrd for JsonValue {
//@@ fn jv.partial_cmp = src/json_value.rs :: impl PartialOrd for JsonValue :: fn partial_cmp
//@@ safety C07
//@@ post agrees "partial_cmp (behind < <= > >=) is Some of the same order as cmp"
//@@ endfn
}

impl Ord for JsonValue {
//@@ fn jv.cmp = src/json_value.rs :: impl Ord for JsonValue :: fn cmp
//@@ safety C07
//@@ post order "cmp is json_cmp: type rank null < booleans < strings < numbers < objects < arrays first; inside a type false < true, strings by String's order, numbers by NumberValue's order, arrays lexicographically (Vec's order over this same order), objects by size, sorted keys, text"
//@@ rewrite cmp_dispatch format_self format_other
//@@ endfn
}

// ---------------------------------------------------------------------------------------------------------
// the functions that compare / sort with that order
// ---------------------------------------------------------------------------------------------------------
//@@ include lemmas/ctx_spec.rs
//@@ include prelude/ctx_opaque.rs
//@@ include prelude/get_trait.rs
//@@ include prelude/fnargs_apply.rs
impl vstd::std_specs::convert::FromSpecImpl<bool> for JsonValue {
    open spec fn obeys_from_spec() -> bool { true }
    open spec fn from_spec(v: bool) -> Self { JsonValue::Boolean(v) }
}
impl From<bool> for JsonValue {
//@@ fn jv.from_bool = src/json_value.rs :: impl From<bool> for JsonValue :: fn from
//@@ safety C07 C04
//@@ post from "the conversion of a bool is the JSON boolean with that value"
//@@ endfn
}
// (op a b): nothing unless both arguments give a value; otherwise the boolean `a op b` under json_cmp
pub open spec fn compare_spec(args: Seq<Rc<dyn Get>>, value: &Context, f: spec_fn(Ordering) -> bool) -> Option<JsonValue> {
    match (arg(args, value, 0), arg(args, value, 1)) {
        (Some(a), Some(b)) => Some(JsonValue::Boolean(f(json_cmp(a, b)))),
        _ => None,
    }
}
pub mod f_gt {
use super::*;
//@@ item src/functions/boolean/compare/gt.rs :: fn get :: struct Impl
//@@ rewrite pub_tuple pub_struct
//@@ enditem
impl Get for Impl {
    open spec fn get_spec(&self, value: &Context) -> Option<JsonValue> { compare_spec(self.0@, value, |o: Ordering| o == Ordering::Greater) }
//@@ fn f.gt = src/functions/boolean/compare/gt.rs :: fn get :: impl Get for Impl :: fn get
//@@ safety C07 C04
//@@ post agrees "(> a b) is true exactly when a is Greater than b in the one total order json_cmp; nothing if an argument is absent"
//@@ endfn
}
}
pub mod f_gte {
use super::*;
//@@ item src/functions/boolean/compare/gte.rs :: fn get :: struct Impl
//@@ rewrite pub_tuple pub_struct
//@@ enditem
impl Get for Impl {
    open spec fn get_spec(&self, value: &Context) -> Option<JsonValue> { compare_spec(self.0@, value, |o: Ordering| o != Ordering::Less) }
//@@ fn f.gte = src/functions/boolean/compare/gte.rs :: fn get :: impl Get for Impl :: fn get
//@@ safety C07 C04
//@@ post agrees "(>= a b) is true exactly when a is not Less than b in json_cmp; nothing if an argument is absent"
//@@ endfn
}
}
pub mod f_lt {
use super::*;
//@@ item src/functions/boolean/compare/lt.rs :: fn get :: struct Impl
//@@ rewrite pub_tuple pub_struct
//@@ enditem
impl Get for Impl {
    open spec fn get_spec(&self, value: &Context) -> Option<JsonValue> { compare_spec(self.0@, value, |o: Ordering| o == Ordering::Less) }
//@@ fn f.lt = src/functions/boolean/compare/lt.rs :: fn get :: impl Get for Impl :: fn get
//@@ safety C07 C04
//@@ post agrees "(< a b) is true exactly when a is Less than b in json_cmp; nothing if an argument is absent"
//@@ endfn
}
}
pub mod f_lte {
use super::*;
//@@ item src/functions/boolean/compare/lte.rs :: fn get :: struct Impl
//@@ rewrite pub_tuple pub_struct
//@@ enditem
impl Get for Impl {
    open spec fn get_spec(&self, value: &Context) -> Option<JsonValue> { compare_spec(self.0@, value, |o: Ordering| o != Ordering::Greater) }
//@@ fn f.lte = src/functions/boolean/compare/lte.rs :: fn get :: impl Get for Impl :: fn get
//@@ safety C07 C04
//@@ post agrees "(<= a b) is true exactly when a is not Greater than b in json_cmp; nothing if an argument is absent"
//@@ endfn
}
}

pub assume_specification<T: Ord>[ <[T]>::sort_unstable ](s: &mut [T]) ensures final(s)@ == sorted_unstable::<T>(old(s)@);
pub assume_specification<T: PartialEq, A: std::alloc::Allocator>[ Vec::<T, A>::dedup ](v: &mut Vec<T, A>) ensures final(v)@ == deduped::<T>(old(v)@);
// IndexMap stand-in: clone is a copy; sort_keys reorders the entries by String's order of the keys (stable; keys are distinct)
pub uninterp spec fn sorted_by_key(e: Seq<(String, JsonValue)>) -> Seq<(String, JsonValue)>;
pub broadcast axiom fn axiom_sorted_by_key(e: Seq<(String, JsonValue)>)
    ensures (#[trigger] sorted_by_key(e)).to_multiset() == e.to_multiset(), sorted_by_key(e).len() == e.len(),
        forall|i: int, j: int| 0 <= i < j < e.len() ==> str_cmp((#[trigger] sorted_by_key(e)[i]).0@, (#[trigger] sorted_by_key(e)[j]).0@) != Ordering::Greater;
impl IndexMap<String, JsonValue> {
    #[verifier::external_body]
    pub fn sort_keys(&mut self) ensures final(self).entries() == sorted_by_key(old(self).entries()) { unimplemented!() }
}
impl Clone for IndexMap<String, JsonValue> {
    #[verifier::external_body]
    fn clone(&self) -> (r: Self) ensures r == *self { unimplemented!() }
}
pub mod f_sort {
use super::*;
//@@ item src/functions/list/list_manipulations/sort.rs :: fn get :: struct Impl
//@@ rewrite pub_tuple pub_struct
//@@ enditem
impl Get for Impl {
    open spec fn get_spec(&self, value: &Context) -> Option<JsonValue> {
        match arg(self.0@, value, 0) { Some(JsonValue::Array(l)) => Some(json_array(sorted_stable::<JsonValue>(l@))), _ => None }
    }
//@@ fn f.sort = src/functions/list/list_manipulations/sort.rs :: fn get :: impl Get for Impl :: fn get
//@@ safety C07 C04 C19
//@@ post sorted "(sort l) is the stable sort of the list by the one total order (a permutation, non-decreasing, ties in arrival order); nothing for a non-list"
//@@ body-start
        broadcast use group_json_names, super::cl::group_clone_is_copy;
//@@ endfn
}
}
pub mod f_sort_unique {
use super::*;
//@@ item src/functions/list/list_manipulations/sort_unique.rs :: fn get :: struct Impl
//@@ rewrite pub_tuple pub_struct
//@@ enditem
impl Get for Impl {
    open spec fn get_spec(&self, value: &Context) -> Option<JsonValue> {
        match arg(self.0@, value, 0) { Some(JsonValue::Array(l)) => Some(json_array(deduped::<JsonValue>(sorted_unstable::<JsonValue>(l@)))), _ => None }
    }
//@@ fn f.sort_unique = src/functions/list/list_manipulations/sort_unique.rs :: fn get :: impl Get for Impl :: fn get
//@@ safety C07 C04 C19
//@@ post sorted "(sort_unique l) is the list sorted by the one total order with consecutive equal elements dropped; nothing for a non-list"
//@@ body-start
        broadcast use group_json_names, super::cl::group_clone_is_copy;
//@@ endfn
}
}
pub mod f_sort_by_keys {
use super::*;
//@@ item src/functions/object/sort_objects/sort_by_keys.rs :: fn get :: struct Impl
//@@ rewrite pub_tuple pub_struct
//@@ enditem
impl Get for Impl {
    open spec fn get_spec(&self, value: &Context) -> Option<JsonValue> {
        match arg(self.0@, value, 0) { Some(JsonValue::Object(m)) => Some(json_object(sorted_by_key(m.entries()))), _ => None }
    }
//@@ fn f.sort_by_keys = src/functions/object/sort_objects/sort_by_keys.rs :: fn get :: impl Get for Impl :: fn get
//@@ safety C07 C04
//@@ post sorted "(sort_by_keys o) is the object with the same members ordered by key (String order); nothing for a non-object"
//@@ body-start
        broadcast use group_json_names, super::cl::group_clone_is_copy;
//@@ endfn
}
}

// ---- sorting with a key expression: std's sort_by (stable) with a comparator closure. The closure contract is inserted
// into the real closure; the assumed std contract: if every answer of the comparator is the value of a spec function c,
// the result is THE stable sort of the slice by c. ----
pub uninterp spec fn stable_sorted_by<T>(s: Seq<T>, c: spec_fn(T, T) -> Ordering) -> Seq<T>;
pub assume_specification<T, F: FnMut(&T, &T) -> Ordering>[ <[T]>::sort_by ](s: &mut [T], f: F)
    requires forall|a: &T, b: &T| #[trigger] f.requires((a, b)),
    ensures forall|c: spec_fn(T, T) -> Ordering| (forall|a: &T, b: &T, o: Ordering| #[trigger] f.ensures((a, b), o) ==> o == c(*a, *b))
        ==> final(s)@ == #[trigger] stable_sorted_by(old(s)@, c);
pub uninterp spec fn unstable_sorted_by<T>(s: Seq<T>, c: spec_fn(T, T) -> Ordering) -> Seq<T>;
pub assume_specification<T, F: FnMut(&T, &T) -> Ordering>[ <[T]>::sort_unstable_by ](s: &mut [T], f: F)
    requires forall|a: &T, b: &T| #[trigger] f.requires((a, b)),
    ensures forall|c: spec_fn(T, T) -> Ordering| (forall|a: &T, b: &T, o: Ordering| #[trigger] f.ensures((a, b), o) ==> o == c(*a, *b))
        ==> final(s)@ == #[trigger] unstable_sorted_by(old(s)@, c);
// indexmap: IndexMap::sort_by is a stable sort of the entries with a comparator over (key, value, key, value)
impl IndexMap<String, JsonValue> {
    #[verifier::external_body]
    pub fn sort_by<F: FnMut(&String, &JsonValue, &String, &JsonValue) -> Ordering>(&mut self, f: F)
        requires forall|k1: &String, v1: &JsonValue, k2: &String, v2: &JsonValue| #[trigger] f.requires((k1, v1, k2, v2)),
        ensures forall|c: spec_fn((String, JsonValue), (String, JsonValue)) -> Ordering|
            (forall|k1: &String, v1: &JsonValue, k2: &String, v2: &JsonValue, o: Ordering| #[trigger] f.ensures((k1, v1, k2, v2), o) ==> o == c((*k1, *v1), (*k2, *v2)))
            ==> final(self).entries() == #[trigger] stable_sorted_by(old(self).entries(), c),
    { unimplemented!() }
    // indexmap: sort_unstable_by sorts, but equal entries may come out in any order (NOT the stable sort)
    #[verifier::external_body]
    pub fn sort_unstable_by<F: FnMut(&String, &JsonValue, &String, &JsonValue) -> Ordering>(&mut self, f: F)
        requires forall|k1: &String, v1: &JsonValue, k2: &String, v2: &JsonValue| #[trigger] f.requires((k1, v1, k2, v2)),
        ensures forall|c: spec_fn((String, JsonValue), (String, JsonValue)) -> Ordering|
            (forall|k1: &String, v1: &JsonValue, k2: &String, v2: &JsonValue, o: Ordering| #[trigger] f.ensures((k1, v1, k2, v2), o) ==> o == c((*k1, *v1), (*k2, *v2)))
            ==> final(self).entries() == #[trigger] unstable_sorted_by(old(self).entries(), c),
    { unimplemented!() }
}
// the key of an element: the key expression (argument 1) evaluated with the element as input and the caller's input as parent
pub open spec fn key_of(args: Seq<Rc<dyn Get>>, ctx: Context, v: JsonValue) -> Option<JsonValue> { arg(args, &ctx_with_input(ctx, v), 1) }
// absent keys sort first (std: None < Some), present keys by the one total order
pub open spec fn key_cmp(args: Seq<Rc<dyn Get>>, ctx: Context, a: JsonValue, b: JsonValue) -> Ordering {
    match (key_of(args, ctx, a), key_of(args, ctx, b)) {
        (None, None) => Ordering::Equal, (None, Some(_)) => Ordering::Less, (Some(_), None) => Ordering::Greater,
        (Some(x), Some(y)) => json_cmp(x, y),
    }
}
impl VCmp for Option<JsonValue> {
    open spec fn vspec(&self, o: &Self) -> Ordering {
        match (*self, *o) { (None, None) => Ordering::Equal, (None, Some(_)) => Ordering::Less, (Some(_), None) => Ordering::Greater, (Some(x), Some(y)) => json_cmp(x, y) }
    }
    #[verifier::external_body] fn vcmp(&self, o: &Self) -> (r: Ordering) { unimplemented!() }
}
pub mod f_sort_by {
use super::*;
//@@ item src/functions/list/functional/sort_by.rs :: fn get :: struct Impl
//@@ rewrite pub_tuple pub_struct
//@@ enditem
impl Get for Impl {
    open spec fn get_spec(&self, value: &Context) -> Option<JsonValue> {
        match arg(self.0@, value, 0) {
            Some(JsonValue::Array(l)) => Some(json_array(stable_sorted_by(l@, |a: JsonValue, b: JsonValue| key_cmp(self.0@, *value, a, b)))),
            _ => None,
        }
    }
//@@ fn f.sort_by = src/functions/list/functional/sort_by.rs :: fn get :: impl Get for Impl :: fn get
//@@ safety C07 C04 C12
//@@ rewrite cmp_dispatch
//@@ post sorted "(sort_by l k) is the STABLE sort of the list by the key k evaluated on each element (parent = the caller's input) under the one total order, absent keys first; nothing for a non-list"
//@@ body-start
        broadcast use group_json_names, super::cl::group_clone_is_copy;
//@@ insert-after "list.sort_by(|v1"
 : &JsonValue
//@@ insert-after "list.sort_by(|v1, v2"
 : &JsonValue
//@@ insert-after "list.sort_by(|v1, v2|"
 -> (o: Ordering)
                            ensures o == key_cmp(self.0@, *value, *v1, *v2),
//@@ endfn
}
}

pub mod f_sort_by_values {
use super::*;
//@@ item src/functions/object/sort_objects/sort_by_values.rs :: fn get :: struct Impl
//@@ rewrite pub_tuple pub_struct
//@@ enditem
impl Get for Impl {
    open spec fn get_spec(&self, value: &Context) -> Option<JsonValue> {
        match arg(self.0@, value, 0) {
            Some(JsonValue::Object(m)) => Some(json_object(stable_sorted_by(m.entries(), |a: (String, JsonValue), b: (String, JsonValue)| json_cmp(a.1, b.1)))),
            _ => None,
        }
    }
//@@ fn f.sort_by_values = src/functions/object/sort_objects/sort_by_values.rs :: fn get :: impl Get for Impl :: fn get
//@@ safety C07 C04
//@@ rewrite closure4_typed
//@@ post sorted "(sort_by_values o) is the object with its members STABLY sorted by their values under the one total order; nothing for a non-object"
//@@ body-start
        broadcast use group_json_names, super::cl::group_clone_is_copy;
//@@ insert-after "(|_, v1, _, v2|"
 -> (o: Ordering) ensures o == json_cmp(*v1, *v2), {
//@@ insert-after "v1.cmp(v2)"
 }
//@@ endfn
}
}
pub mod f_sort_by_values_by {
use super::*;
//@@ item src/functions/object/sort_objects/sort_by_values_by.rs :: fn get :: struct Impl
//@@ rewrite pub_tuple pub_struct
//@@ enditem
impl Get for Impl {
    open spec fn get_spec(&self, value: &Context) -> Option<JsonValue> {
        match arg(self.0@, value, 0) {
            Some(JsonValue::Object(m)) => Some(json_object(stable_sorted_by(m.entries(), |a: (String, JsonValue), b: (String, JsonValue)| key_cmp(self.0@, *value, a.1, b.1)))),
            _ => None,
        }
    }
//@@ fn f.sort_by_values_by = src/functions/object/sort_objects/sort_by_values_by.rs :: fn get :: impl Get for Impl :: fn get
//@@ safety C07 C04 C12
//@@ rewrite cmp_dispatch closure4_typed
//@@ post sorted "(sort_by_values_by o k) is the object with its members STABLY sorted by the key k evaluated on each value (parent = the caller's input) under the one total order, absent keys first; nothing for a non-object"
//@@ body-start
        broadcast use group_json_names, super::cl::group_clone_is_copy;
//@@ insert-after "(|_, v1, _, v2|"
 -> (o: Ordering)
                            ensures o == key_cmp(self.0@, *value, *v1, *v2),
//@@ endfn
}
}

} // verus!
fn main() {}
