#![feature(allocator_api)]
// Unit RXF: the regular-expression functions `match` and `extract_regex_group` (C04, C05): which arguments they look at,
// when they give nothing, and that the dependency `regex` is only used within its documented preconditions (no panic).
use vstd::prelude::*;
use std::rc::Rc;
use vstd::std_specs::iter::IteratorSpec;

verus! {

pub mod jt {
use vstd::prelude::*;
use std::rc::Rc;
use vstd::std_specs::iter::IteratorSpec;
//@@ include prelude/indexmap.rs
//@@ include prelude/json_types.rs
//@@ include prelude/clone_specs.rs
}
use jt::*;
pub mod cl {
use vstd::prelude::*;
use std::rc::Rc;
use super::jt::*;
//@@ include prelude/clone_axioms.rs
}
//@@ include prelude/fnargs.rs

// ---- the dependency `regex` (assumed contract, from its documentation): compiling is a function of the pattern text;
// is_match / captures are functions of pattern and text; `captures_len()` counts the groups INCLUDING group 0;
// `Captures::get(i)` is None for a group that did not take part or does not exist (it never panics), while INDEXING
// `captures[i]` panics in those cases — hence its precondition. ----
pub mod rx {
use vstd::prelude::*;
#[verifier::external_body] pub struct Regex { _p: () }
#[verifier::external_body] pub struct RegexError { _p: () }
#[verifier::external_body] pub struct Captures<'h> { _p: std::marker::PhantomData<&'h ()> }
#[verifier::external_body] pub struct Match<'h> { _p: std::marker::PhantomData<&'h ()> }
pub uninterp spec fn compile_of(pattern: Seq<char>) -> Result<Regex, RegexError>;
pub uninterp spec fn matches(re: Regex, text: Seq<char>) -> bool;
pub uninterp spec fn groups(re: Regex) -> nat;
// the text of group i of the leftmost match of re in text, if re matches and the group took part
pub uninterp spec fn group_text(re: Regex, text: Seq<char>, i: nat) -> Option<Seq<char>>;
pub broadcast axiom fn axiom_groups(re: Regex, text: Seq<char>, i: nat)
    ensures groups(re) >= 1, (#[trigger] group_text(re, text, i)) is Some ==> matches(re, text) && i < groups(re),
        matches(re, text) ==> group_text(re, text, 0) is Some;
impl Regex {
    #[verifier::external_body]
    pub fn is_match(&self, text: &str) -> (r: bool) ensures r == matches(*self, text@) { unimplemented!() }
    #[verifier::external_body]
    pub fn captures_len(&self) -> (r: usize) ensures r == groups(*self) { unimplemented!() }
    #[verifier::external_body]
    pub fn captures<'h>(&self, text: &'h str) -> (r: Option<Captures<'h>>)
        ensures r is Some <==> matches(*self, text@), r is Some ==> r->0.of() == (*self, text@),
    { unimplemented!() }
}
impl<'h> Captures<'h> {
    pub uninterp spec fn of(&self) -> (Regex, Seq<char>);
    #[verifier::external_body]
    pub fn get(&self, i: usize) -> (r: Option<Match<'h>>)
        ensures r is Some <==> group_text(self.of().0, self.of().1, i as nat) is Some, r is Some ==> Some(r->0.text()) == group_text(self.of().0, self.of().1, i as nat),
    { unimplemented!() }
}
impl<'h> Match<'h> {
    pub uninterp spec fn text(&self) -> Seq<char>;
    #[verifier::external_body]
    pub fn as_str(&self) -> (r: &'h str) ensures r@ == self.text() { unimplemented!() }
}
}
use rx::*;
// Context::compile_regex (src/processor.rs forwards to the cache of unit RX): the compile of the pattern — ASSUMED here, the
// clause `same` of unit RX
pub trait RegexCompile {
    fn compile_regex(&self, regex: &str) -> (r: Rc<Result<Regex, RegexError>>)
        ensures *r == compile_of(regex@);
}
impl RegexCompile for Context {
    #[verifier::external_body]
    fn compile_regex(&self, regex: &str) -> (r: Rc<Result<Regex, RegexError>>) { unimplemented!() }
}
// N arguments: TryFrom<NumberValue> for usize (Kani K.v6_try_into_usize)
#[verifier::external_body] pub struct CastError { _p: () }
pub open spec fn num_to_usize(n: NumberValue) -> Option<usize> {
    match n { NumberValue::Positive(p) => if p <= usize::MAX { Some(p as usize) } else { None }, _ => None }
}
impl vstd::std_specs::convert::TryFromSpecImpl<NumberValue> for usize {
    open spec fn obeys_try_from_spec() -> bool { true }
    open spec fn try_from_spec(v: NumberValue) -> Result<Self, CastError> { match num_to_usize(v) { Some(u) => Ok(u), None => Err(cast_err(v)) } }
}
pub uninterp spec fn cast_err(v: NumberValue) -> CastError;
impl TryFrom<NumberValue> for usize { type Error = CastError; #[verifier::external_body] fn try_from(value: NumberValue) -> Result<Self, CastError> { unimplemented!() } }
impl vstd::std_specs::convert::FromSpecImpl<bool> for JsonValue {
    open spec fn obeys_from_spec() -> bool { true }
    open spec fn from_spec(v: bool) -> Self { JsonValue::Boolean(v) }
}
impl From<bool> for JsonValue { #[verifier::external_body] fn from(v: bool) -> Self { unimplemented!() } }
pub mod st {
use vstd::prelude::*;
pub uninterp spec fn str_of(s: Seq<char>) -> String;
pub broadcast axiom fn axiom_str_of(s: Seq<char>) ensures (#[trigger] str_of(s))@ == s;
}
use st::*;
broadcast use {rx::axiom_groups, cl::axiom_string_ext, st::axiom_str_of};

pub mod f_match {
use super::*;
broadcast use {rx::axiom_groups, cl::axiom_string_ext, st::axiom_str_of};
//@@ item src/functions/string/regex/match_regex.rs :: fn get :: struct Impl
//@@ rewrite pub_tuple pub_struct
//@@ enditem
impl Get for Impl {
    open spec fn get_spec(&self, value: &Context) -> Option<JsonValue> {
        match (arg(self.0@, value, 0), arg(self.0@, value, 1)) {
            (Some(JsonValue::String(s)), Some(JsonValue::String(p))) => match compile_of(p@) { Ok(re) => Some(JsonValue::Boolean(matches(re, s@))), Err(_) => None },
            _ => None }
    }
//@@ fn f.match = src/functions/string/regex/match_regex.rs :: fn get :: impl Get for Impl :: fn get
//@@ safety C04 C05 C13 C11
//@@ post doc "(match s p): whether the string s matches the regular expression p; nothing when an argument is absent or not a string, or p is not a regular expression"
//@@ endfn
}
}

pub mod f_group {
use super::*;
broadcast use {rx::axiom_groups, cl::axiom_string_ext, st::axiom_str_of};
//@@ item src/functions/string/regex/extract_regex_group.rs :: fn get :: struct Impl
//@@ rewrite pub_tuple pub_struct
//@@ enditem
impl Get for Impl {
    open spec fn get_spec(&self, value: &Context) -> Option<JsonValue> {
        match (arg(self.0@, value, 0), arg(self.0@, value, 1), arg(self.0@, value, 2)) {
            (Some(JsonValue::String(s)), Some(JsonValue::String(p)), Some(JsonValue::Number(n))) => match (compile_of(p@), num_to_usize(n)) {
                (Ok(re), Some(i)) => match group_text(re, s@, i as nat) { Some(t) => Some(JsonValue::String(str_of(t))), None => None },
                _ => None },
            _ => None }
    }
//@@ fn f.extract_regex_group = src/functions/string/regex/extract_regex_group.rs :: fn get :: impl Get for Impl :: fn get
//@@ safety C04 C05 C13
//@@ post doc "(extract_regex_group s p i): the text of group i (0 = the whole match) of the first match of p in s; nothing when there is no match, the group does not exist or did not take part, or an argument is absent / of the wrong type"
//@@ insert-after "captures.get(index).map(|s"
 : Match
//@@ insert-after "captures.get(index).map(|s|"
 -> (o: JsonValue) ensures o == JsonValue::String(str_of(s.text())), {
//@@ insert-after "s.as_str().to_string().into()"
 }
//@@ endfn
}
}

} // verus!
fn main() {}
