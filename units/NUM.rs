#![feature(allocator_api)]
// Unit NUM: the number functions abs ceil floor round - / % + * sum (C04): which arguments they look at, when they give
// nothing, and which IEEE operation they apply to which operands in which order. The IEEE operations themselves are
// uninterpreted (the verifier's own treatment of f64): the claim is the SHAPE of the computation, not floating-point facts.
use vstd::prelude::*;
use std::rc::Rc;
use vstd::std_specs::iter::IteratorSpec;
use vstd::std_specs::ops::*;
use vstd::std_specs::cmp::*;

verus! {

pub mod jt {
use vstd::prelude::*;
use std::rc::Rc;
use vstd::std_specs::iter::IteratorSpec;
//@@ include prelude/indexmap.rs
//@@ include prelude/json_types.rs
//@@ include prelude/clone_specs.rs
}
use jt::*;
pub mod cl {
use vstd::prelude::*;
use std::rc::Rc;
use super::jt::*;
//@@ include prelude/clone_axioms.rs
}
//@@ include prelude/fnargs.rs

// ---- f64 (assumed, stated): the IEEE operators never fail (their *_req hold) and are deterministic functions of their
// operands (obeys_*_spec): `a - b` IS a.sub_spec(b), an uninterpreted double. abs/ceil/floor/round likewise. ----
pub mod fl {
use vstd::prelude::*;
use vstd::std_specs::ops::*;
use vstd::std_specs::cmp::*;
pub broadcast axiom fn ax_add(a: f64, b: f64) ensures #[trigger] a.add_req(b);
pub broadcast axiom fn ax_sub(a: f64, b: f64) ensures #[trigger] a.sub_req(b);
pub broadcast axiom fn ax_mul(a: f64, b: f64) ensures #[trigger] a.mul_req(b);
pub broadcast axiom fn ax_div(a: f64, b: f64) ensures #[trigger] a.div_req(b);
pub broadcast axiom fn ax_rem(a: f64, b: f64) ensures #[trigger] a.rem_req(b);
pub broadcast group group_f64 { ax_add, ax_sub, ax_mul, ax_div, ax_rem }
pub axiom fn ax_f64_functions() ensures
    <f64 as AddSpec<f64>>::obeys_add_spec(), <f64 as SubSpec<f64>>::obeys_sub_spec(), <f64 as MulSpec<f64>>::obeys_mul_spec(),
    <f64 as DivSpec<f64>>::obeys_div_spec(), <f64 as RemSpec<f64>>::obeys_rem_spec(), <f64 as PartialEqSpec>::obeys_eq_spec();
pub uninterp spec fn f_abs(x: f64) -> f64;
pub uninterp spec fn f_ceil(x: f64) -> f64;
pub uninterp spec fn f_floor(x: f64) -> f64;
pub uninterp spec fn f_round(x: f64) -> f64;
pub assume_specification[f64::abs](x: f64) -> (r: f64) ensures r == f_abs(x);
pub assume_specification[f64::ceil](x: f64) -> (r: f64) ensures r == f_ceil(x);
pub assume_specification[f64::floor](x: f64) -> (r: f64) ensures r == f_floor(x);
pub assume_specification[f64::round](x: f64) -> (r: f64) ensures r == f_round(x);
}
use fl::*;
broadcast use fl::group_f64;

// the double a JSON number denotes: From<NumberValue> for f64 (ASSUMED: a Float as it is, an integer through `as f64`, whose
// result the verifier leaves unspecified)
pub uninterp spec fn f_of(n: NumberValue) -> f64;
impl vstd::std_specs::convert::FromSpecImpl<NumberValue> for f64 {
    open spec fn obeys_from_spec() -> bool { true }
    open spec fn from_spec(v: NumberValue) -> Self { f_of(v) }
}
impl From<NumberValue> for f64 { #[verifier::external_body] fn from(v: NumberValue) -> Self { unimplemented!() } }
// TryFrom<JsonValue> for f64 (ASSUMED, same reason): Ok exactly for numbers, with that same double
#[verifier::external_body] pub struct CastError { _p: () }
pub uninterp spec fn cast_err(v: JsonValue) -> CastError;
impl vstd::std_specs::convert::TryFromSpecImpl<JsonValue> for f64 {
    open spec fn obeys_try_from_spec() -> bool { true }
    open spec fn try_from_spec(v: JsonValue) -> Result<Self, CastError> { match v { JsonValue::Number(n) => Ok(f_of(n)), _ => Err(cast_err(v)) } }
}
impl TryFrom<JsonValue> for f64 { type Error = CastError; #[verifier::external_body] fn try_from(v: JsonValue) -> Result<Self, CastError> { unimplemented!() } }
// the JSON value of a double result: From<f64> for JsonValue (integral values become integers: proved by the Kani
// harnesses v1_*; here an uninterpreted function of the double)
pub uninterp spec fn jv_of_f(x: f64) -> JsonValue;
impl vstd::std_specs::convert::FromSpecImpl<f64> for JsonValue {
    open spec fn obeys_from_spec() -> bool { true }
    open spec fn from_spec(v: f64) -> Self { jv_of_f(v) }
}
impl From<f64> for JsonValue { #[verifier::external_body] fn from(v: f64) -> Self { unimplemented!() } }
impl vstd::std_specs::convert::FromSpecImpl<usize> for NumberValue {
    open spec fn obeys_from_spec() -> bool { true }
    open spec fn from_spec(v: usize) -> Self { NumberValue::Positive(v as u64) }
}
impl From<usize> for NumberValue {
//@@ fn jv.number_from_usize = src/json_value.rs :: impl From<usize> for NumberValue :: fn from
//@@ safety C04
//@@ post value "a usize becomes the non-negative integer with that value"
//@@ endfn
}
impl vstd::std_specs::convert::FromSpecImpl<usize> for JsonValue {
    open spec fn obeys_from_spec() -> bool { true }
    open spec fn from_spec(v: usize) -> Self { JsonValue::Number(NumberValue::Positive(v as u64)) }
}
impl From<usize> for JsonValue {
//@@ fn jv.from_usize = src/json_value.rs :: impl From<usize> for JsonValue :: fn from
//@@ safety C04
//@@ post value "a usize becomes the JSON non-negative integer with that value"
//@@ endfn
}
// the double of an argument: only numbers
pub open spec fn num_arg(o: Option<JsonValue>) -> Option<f64> {
    match o { Some(JsonValue::Number(n)) => Some(f_of(n)), _ => None }
}

pub mod m_abs {
use super::*;
broadcast use {fl::group_f64, cl::axiom_string_ext};
//@@ item src/functions/number/abs.rs :: fn get :: struct Impl
//@@ rewrite pub_tuple pub_struct
//@@ enditem
impl Get for Impl {
    open spec fn get_spec(&self, value: &Context) -> Option<JsonValue> {
        match num_arg(arg(self.0@, value, 0)) { Some(a) => Some(jv_of_f(f_abs(a))), None => None }
    }
//@@ fn num.abs = src/functions/number/abs.rs :: fn get :: impl Get for Impl :: fn get
//@@ safety C04 C05
//@@ post doc "(abs x) is the absolute value of the number x as a JSON number; nothing when x is absent or not a number"
//@@ body-start
                proof { ax_f64_functions(); }
//@@ endfn
}
}

pub mod m_ceil {
use super::*;
broadcast use {fl::group_f64, cl::axiom_string_ext};
//@@ item src/functions/number/ciel.rs :: fn get :: struct Impl
//@@ rewrite pub_tuple pub_struct
//@@ enditem
impl Get for Impl {
    open spec fn get_spec(&self, value: &Context) -> Option<JsonValue> {
        match num_arg(arg(self.0@, value, 0)) { Some(a) => Some(jv_of_f(f_ceil(a))), None => None }
    }
//@@ fn num.ceil = src/functions/number/ciel.rs :: fn get :: impl Get for Impl :: fn get
//@@ safety C04 C05
//@@ post doc "(ceil x) is the ceiling of the number x; nothing when x is absent or not a number"
//@@ body-start
                proof { ax_f64_functions(); }
//@@ endfn
}
}

pub mod m_floor {
use super::*;
broadcast use {fl::group_f64, cl::axiom_string_ext};
//@@ item src/functions/number/floor.rs :: fn get :: struct Impl
//@@ rewrite pub_tuple pub_struct
//@@ enditem
impl Get for Impl {
    open spec fn get_spec(&self, value: &Context) -> Option<JsonValue> {
        match num_arg(arg(self.0@, value, 0)) { Some(a) => Some(jv_of_f(f_floor(a))), None => None }
    }
//@@ fn num.floor = src/functions/number/floor.rs :: fn get :: impl Get for Impl :: fn get
//@@ safety C04 C05
//@@ post doc "(floor x) is the floor of the number x; nothing when x is absent or not a number"
//@@ body-start
                proof { ax_f64_functions(); }
//@@ endfn
}
}

pub mod m_round {
use super::*;
broadcast use {fl::group_f64, cl::axiom_string_ext};
//@@ item src/functions/number/round.rs :: fn get :: struct Impl
//@@ rewrite pub_tuple pub_struct
//@@ enditem
impl Get for Impl {
    open spec fn get_spec(&self, value: &Context) -> Option<JsonValue> {
        match num_arg(arg(self.0@, value, 0)) { Some(a) => Some(jv_of_f(f_round(a))), None => None }
    }
//@@ fn num.round = src/functions/number/round.rs :: fn get :: impl Get for Impl :: fn get
//@@ safety C04 C05
//@@ post doc "(round x) is the number x rounded; nothing when x is absent or not a number"
//@@ body-start
                proof { ax_f64_functions(); }
//@@ endfn
}
}

pub mod m_sub {
use super::*;
broadcast use {fl::group_f64, cl::axiom_string_ext};
//@@ item src/functions/number/take_away.rs :: fn get :: struct Impl
//@@ rewrite pub_tuple pub_struct
//@@ enditem
impl Get for Impl {
    open spec fn get_spec(&self, value: &Context) -> Option<JsonValue> {
        if self.0@.len() == 1 { match num_arg(arg(self.0@, value, 0)) { Some(b) => Some(jv_of_f(f_of(NumberValue::Positive(0)).sub_spec(b))), None => None } }
        else { match (num_arg(arg(self.0@, value, 0)), num_arg(arg(self.0@, value, 1))) { (Some(a), Some(b)) => Some(jv_of_f(a.sub_spec(b))), _ => None } }
    }
//@@ fn num.take_away = src/functions/number/take_away.rs :: fn get :: impl Get for Impl :: fn get
//@@ safety C04 C05
//@@ post doc "(- a b) is a minus b (first minus second); (- a) is 0 minus a; nothing when an argument is absent or not a number"
//@@ body-start
                proof { ax_f64_functions(); }
//@@ endfn
}
}

pub mod m_divide {
use super::*;
broadcast use {fl::group_f64, cl::axiom_string_ext};
//@@ item src/functions/number/divide.rs :: fn get :: struct Impl
//@@ rewrite pub_tuple pub_struct
//@@ enditem
impl Get for Impl {
    open spec fn get_spec(&self, value: &Context) -> Option<JsonValue> {
        match (num_arg(arg(self.0@, value, 0)), num_arg(arg(self.0@, value, 1))) { (Some(a), Some(b)) => if b.eq_spec(&0.0f64) { None } else { Some(jv_of_f(a.div_spec(b))) }, _ => None }
    }
//@@ fn num.divide = src/functions/number/divide.rs :: fn get :: impl Get for Impl :: fn get
//@@ safety C04 C05
//@@ post doc "(/ a b) is a divided by b (first by second); nothing when b equals 0 or an argument is absent or not a number"
//@@ body-start
                proof { ax_f64_functions(); }
//@@ endfn
}
}

pub mod m_reminder {
use super::*;
broadcast use {fl::group_f64, cl::axiom_string_ext};
//@@ item src/functions/number/reminder.rs :: fn get :: struct Impl
//@@ rewrite pub_tuple pub_struct
//@@ enditem
impl Get for Impl {
    open spec fn get_spec(&self, value: &Context) -> Option<JsonValue> {
        match (num_arg(arg(self.0@, value, 0)), num_arg(arg(self.0@, value, 1))) { (Some(a), Some(b)) => if b.eq_spec(&0.0f64) { None } else { Some(jv_of_f(a.rem_spec(b))) }, _ => None }
    }
//@@ fn num.reminder = src/functions/number/reminder.rs :: fn get :: impl Get for Impl :: fn get
//@@ safety C04 C05
//@@ post doc "(% a b) is the remainder of a divided by b; nothing when b equals 0 or an argument is absent or not a number"
//@@ body-start
                proof { ax_f64_functions(); }
//@@ endfn
}
}

// "+" / "*": all arguments folded left to right from 0 / 1, nothing as soon as one of them is not a number
pub open spec fn num_fold(args: Seq<Rc<dyn Get>>, value: &Context, i: int, acc: f64, mul: bool) -> Option<f64>
    decreases args.len() - i
{
    if i < 0 || i >= args.len() { Some(acc) } else { match num_arg(args[i].get_spec(value)) {
        Some(d) => num_fold(args, value, i + 1, if mul { acc.mul_spec(d) } else { acc.add_spec(d) }, mul), None => None } }
}
pub open spec fn opt_json(o: Option<f64>) -> Option<JsonValue> { match o { Some(d) => Some(jv_of_f(d)), None => None } }

pub mod m_add {
use super::*;
broadcast use {fl::group_f64, cl::axiom_string_ext};
//@@ item src/functions/number/add.rs :: fn get :: struct Impl
//@@ rewrite pub_tuple pub_struct
//@@ enditem
impl Get for Impl {
    open spec fn get_spec(&self, value: &Context) -> Option<JsonValue> {
        opt_json(num_fold(self.0@, value, 0, 0.0f64, false))
    }
//@@ fn num.add = src/functions/number/add.rs :: fn get :: impl Get for Impl :: fn get
//@@ safety C04 C05
//@@ rewrite f64_op_assign
//@@ post doc "(+ a b ..) is the sum of all the arguments, added in order starting from 0; nothing when an argument is absent or not a number"
//@@ body-start
                proof { ax_f64_functions(); }
//@@ loop 1 iter it
                    invariant
                        it.seq().len() == self.0@.len(), 0 <= it.index@ <= self.0@.len(),
                        forall|j: int| 0 <= j < it.seq().len() ==> *(#[trigger] it.seq()[j]) == self.0@[j],
                        num_fold(self.0@, value, it.index@, sum, false) == num_fold(self.0@, value, 0, 0.0f64, false),
//@@ loop-start 1
                    broadcast use fl::group_f64;
                    proof { ax_f64_functions(); }
//@@ endfn
}
}

pub mod m_times {
use super::*;
broadcast use {fl::group_f64, cl::axiom_string_ext};
//@@ item src/functions/number/times.rs :: fn get :: struct Impl
//@@ rewrite pub_tuple pub_struct
//@@ enditem
impl Get for Impl {
    open spec fn get_spec(&self, value: &Context) -> Option<JsonValue> {
        opt_json(num_fold(self.0@, value, 0, 1.0f64, true))
    }
//@@ fn num.times = src/functions/number/times.rs :: fn get :: impl Get for Impl :: fn get
//@@ safety C04 C05
//@@ rewrite f64_op_assign
//@@ post doc "(* a b ..) is the product of all the arguments, multiplied in order starting from 1; nothing when an argument is absent or not a number"
//@@ body-start
                proof { ax_f64_functions(); }
//@@ loop 1 iter it
                    invariant
                        it.seq().len() == self.0@.len(), 0 <= it.index@ <= self.0@.len(),
                        forall|j: int| 0 <= j < it.seq().len() ==> *(#[trigger] it.seq()[j]) == self.0@[j],
                        num_fold(self.0@, value, it.index@, sum, true) == num_fold(self.0@, value, 0, 1.0f64, true),
//@@ loop-start 1
                    broadcast use fl::group_f64;
                    proof { ax_f64_functions(); }
//@@ endfn
}
}

// sum: the elements of the list added in order starting from 0, nothing as soon as one of them is not a number
pub open spec fn sum_fold(l: Seq<JsonValue>, i: int, acc: f64) -> Option<f64>
    decreases l.len() - i
{
    if i < 0 || i >= l.len() { Some(acc) } else { match l[i] { JsonValue::Number(n) => sum_fold(l, i + 1, acc.add_spec(f_of(n))), _ => None } }
}

pub mod m_sum {
use super::*;
broadcast use {fl::group_f64, cl::axiom_string_ext};
//@@ item src/functions/list/list_folding/sum.rs :: fn get :: struct Impl
//@@ rewrite pub_tuple pub_struct
//@@ enditem
impl Get for Impl {
    open spec fn get_spec(&self, value: &Context) -> Option<JsonValue> {
        match arg(self.0@, value, 0) { Some(JsonValue::Array(l)) => opt_json(sum_fold(l@, 0, 0.0f64)), _ => None }
    }
//@@ fn num.sum = src/functions/list/list_folding/sum.rs :: fn get :: impl Get for Impl :: fn get
//@@ safety C04 C05
//@@ rewrite f64_op_assign
//@@ post doc "(sum l) is the sum of the elements of the list, added in order starting from 0 (0 for the empty list); nothing for a non-list or when an element is not a number"
//@@ body-start
                proof { ax_f64_functions(); }
//@@ loop 1 iter it
                            invariant arg(self.0@, value, 0) == Some(JsonValue::Array(list)), it.seq() == list@, 0 <= it.index@ <= list@.len(),
                                sum_fold(list@, it.index@ as int, sum) == sum_fold(list@, 0, 0.0f64),
//@@ loop-start 1
                            broadcast use fl::group_f64;
                            proof { ax_f64_functions(); }
//@@ endfn
}
}

} // verus!
fn main() {}
