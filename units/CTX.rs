#![feature(allocator_api)]
// Unit CTX: src/processor.rs — Context constructors and accessors (C12 frames; shared by C03/C10/C11)
use vstd::prelude::*;
use std::rc::Rc;
use std::collections::HashMap;
use std::ops::Deref;
use vstd::std_specs::iter::IteratorSpec;

verus! {


pub mod jt {
use vstd::prelude::*;
use std::rc::Rc;
//@@ include prelude/indexmap.rs
//@@ include prelude/json_types.rs
//@@ include prelude/clone_specs.rs
}
pub mod hm {
use vstd::prelude::*;
use std::collections::HashMap;
use vstd::std_specs::iter::IteratorSpec;
//@@ include prelude/hashmap.rs
}
use jt::*;
pub mod cl {
use vstd::prelude::*;
use std::rc::Rc;
use super::jt::*;
//@@ include prelude/clone_axioms.rs
}
broadcast use {vstd::std_specs::hash::group_hash_axioms, cl::group_clone_is_copy};

// `trait Get` mentions Context and Context holds Rc<dyn Get>: Verus rejects the cycle, and no function of this unit
// ever calls Get::get, so the trait is declared here without its method (DESIGN §2).
pub trait Get {}

// src/regex_cache.rs: opaque here (Rc<RefCell<SizedCache>>); only ever cloned by the functions of this unit.
#[verifier::external_body]
pub struct RegexCache { _p: () }
impl Clone for RegexCache {
    #[verifier::external_body]
    fn clone(&self) -> (r: Self) ensures r == *self { unimplemented!() }
}

//@@ item src/reader.rs :: struct Location
//@@ derives Clone
//@@ enditem

//@@ item src/processor.rs :: struct InputContext
//@@ enditem

//@@ item src/processor.rs :: struct Context
//@@ enditem

pub open spec fn deref_all(s: Seq<Rc<JsonValue>>) -> Seq<JsonValue> { Seq::new(s.len(), |i: int| *s[i]) }
pub open spec fn res_view(s: Seq<(Rc<String>, Option<JsonValue>)>) -> Seq<(String, Option<JsonValue>)> {
    Seq::new(s.len(), |i: int| (*s[i].0, s[i].1))
}

impl Context {
    // ---- ghost view: everything an expression can observe
    pub closed spec fn inp(&self) -> JsonValue { *self.input }
    pub closed spec fn parents(&self) -> Seq<JsonValue> { deref_all(self.parent_inputs@) }
    pub closed spec fn res(&self) -> Seq<(String, Option<JsonValue>)> { res_view(self.results@) }
    pub closed spec fn vars(&self) -> Map<String, JsonValue> { self.variables@ }
    pub closed spec fn defs(&self) -> Map<String, Rc<dyn Get>> { self.definitions@ }
    pub closed spec fn ictx(&self) -> Option<Rc<InputContext>> { self.input_context }
    pub closed spec fn cache(&self) -> RegexCache { self.regex_cache }
    // all components except the named one are unchanged
    pub open spec fn same_but_inputs(&self, o: &Context) -> bool {
        self.res() == o.res() && self.vars() == o.vars() && self.defs() == o.defs() && self.ictx() == o.ictx() && self.cache() == o.cache()
    }
    pub open spec fn same_inputs(&self, o: &Context) -> bool { self.inp() == o.inp() && self.parents() == o.parents() }

//@@ fn ctx.input = src/processor.rs :: impl Context :: fn input
//@@ safety C12
//@@ ret r
//@@ header
    ensures **r == self.inp(), // @obl CTX.input : C12 C03
//@@ endfn

//@@ fn ctx.with_inupt = src/processor.rs :: impl Context :: fn with_inupt
//@@ safety C12 C05
//@@ ret r
//@@ header
    requires self.parents().len() < usize::MAX,
    ensures
        r.inp() == value, // @obl CTX.with_input.input : C12 C03
        r.parents() =~= seq![self.inp()].add(self.parents()), // @obl CTX.with_input.push : C12
        r.res().len() == 0, // @obl CTX.with_input.results : C12
        r.vars() == self.vars() && r.defs() == self.defs() && r.ictx() == self.ictx() && r.cache() == self.cache(), // @obl CTX.with_input.frame : C12 C11
//@@ loop 1 iter it
        invariant
            parent_inputs@.len() == 1 + it.index@,
            *parent_inputs@[0] == self.inp(),
            forall|j: int| 1 <= j <= it.index@ ==> *(#[trigger] parent_inputs@[j]) == self.parents()[j - 1],
//@@ endfn

//@@ fn ctx.with_result = src/processor.rs :: impl Context :: fn with_result
//@@ safety C12
//@@ ret r
//@@ header
    ensures
        r.res() =~= self.res().push((**title, result)), // @obl CTX.with_result.push : C03 C12 C10
        r.same_inputs(self), // @obl CTX.with_result.inputs : C12
        r.vars() == self.vars() && r.defs() == self.defs() && r.ictx() == self.ictx() && r.cache() == self.cache(), // @obl CTX.with_result.frame : C12 C11
//@@ endfn

//@@ fn ctx.with_variable = src/processor.rs :: impl Context :: fn with_variable
//@@ safety C12 C05
//@@ ret r
//@@ header
    requires self.vars().len() < usize::MAX,
    ensures
        r.vars() =~= self.vars().insert(name, value), // @obl CTX.with_variable.bind : C12
        r.same_inputs(self), // @obl CTX.with_variable.inputs : C12
        r.res() == self.res() && r.defs() == self.defs() && r.ictx() == self.ictx() && r.cache() == self.cache(), // @obl CTX.with_variable.frame : C12
//@@ loop 1 iter it
        invariant
            forall|j: int| 0 <= j < it.index@ ==> variables@.contains_key(*(#[trigger] it.seq()[j]).0) && variables@[*it.seq()[j].0] == *it.seq()[j].1,
            forall|kk: String| #[trigger] variables@.contains_key(kk) ==> self.vars().contains_key(kk) && self.vars()[kk] == variables@[kk],
            forall|j: int| 0 <= j < it.seq().len() ==> self.vars().contains_key(*(#[trigger] it.seq()[j]).0) && self.vars()[*it.seq()[j].0] == *it.seq()[j].1,
            forall|k: String| self.vars().contains_key(k) ==> exists|j: int| 0 <= j < it.seq().len() && *(#[trigger] it.seq()[j]).0 == k,
//@@ endfn

//@@ fn ctx.with_variables = src/processor.rs :: impl Context :: fn with_variables
//@@ safety C12
//@@ ret r
//@@ header
    ensures
        r.vars() == variables@, // @obl CTX.with_variables.bind : C12
        r.same_inputs(self), // @obl CTX.with_variables.inputs : C12
        r.res() == self.res() && r.defs() == self.defs() && r.ictx() == self.ictx() && r.cache() == self.cache(), // @obl CTX.with_variables.frame : C12
//@@ endfn

//@@ fn ctx.with_definition = src/processor.rs :: impl Context :: fn with_definition
//@@ safety C12 C05
//@@ ret r
//@@ header
    requires self.defs().len() < usize::MAX,
    ensures
        r.defs() =~= self.defs().insert(name, *definition), // @obl CTX.with_definition.bind : C12
        r.same_inputs(self), // @obl CTX.with_definition.inputs : C12
        r.res() == self.res() && r.vars() == self.vars() && r.ictx() == self.ictx() && r.cache() == self.cache(), // @obl CTX.with_definition.frame : C12
//@@ loop 1 iter it
        invariant
            forall|j: int| 0 <= j < it.index@ ==> definitions@.contains_key(*(#[trigger] it.seq()[j]).0) && definitions@[*it.seq()[j].0] == *it.seq()[j].1,
            forall|kk: String| #[trigger] definitions@.contains_key(kk) ==> self.defs().contains_key(kk) && self.defs()[kk] == definitions@[kk],
            forall|j: int| 0 <= j < it.seq().len() ==> self.defs().contains_key(*(#[trigger] it.seq()[j]).0) && self.defs()[*it.seq()[j].0] == *it.seq()[j].1,
            forall|k: String| self.defs().contains_key(k) ==> exists|j: int| 0 <= j < it.seq().len() && *(#[trigger] it.seq()[j]).0 == k,
//@@ endfn

//@@ fn ctx.with_definitions = src/processor.rs :: impl Context :: fn with_definitions
//@@ safety C12
//@@ ret r
//@@ header
    ensures
        r.defs() == definitions@, // @obl CTX.with_definitions.bind : C12
        r.same_inputs(self), // @obl CTX.with_definitions.inputs : C12
        r.res() == self.res() && r.vars() == self.vars() && r.ictx() == self.ictx() && r.cache() == self.cache(), // @obl CTX.with_definitions.frame : C12
//@@ endfn

//@@ fn ctx.parent_input = src/processor.rs :: impl Context :: fn parent_input
//@@ safety C12 C05
//@@ ret r
//@@ header
    ensures
        count == 0 ==> *r == self.inp(), // @obl CTX.parent_input.zero : C12
        0 < count <= self.parents().len() ==> *r == self.parents()[count - 1], // @obl CTX.parent_input.nth : C12
//@@ endfn

//@@ fn ctx.get_variable_value = src/processor.rs :: impl Context :: fn get_variable_value
//@@ safety C12
//@@ ret r
//@@ header
    ensures
        r is Some <==> self.vars().contains_key(*name), // @obl CTX.get_variable.dom : C12
        r is Some ==> *r.unwrap() == self.vars()[*name], // @obl CTX.get_variable.val : C12
//@@ endfn

//@@ fn ctx.get_definition = src/processor.rs :: impl Context :: fn get_definition
//@@ safety C12
//@@ ret r
//@@ header
    ensures
        r is Some <==> self.defs().contains_key(*name), // @obl CTX.get_definition.dom : C12
        r is Some ==> *r.unwrap() == self.defs()[*name], // @obl CTX.get_definition.val : C12
//@@ endfn

}

} // verus!
fn main() {}
