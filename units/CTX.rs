#![feature(allocator_api)]
// Unit CTX: src/processor.rs — Context constructors and accessors (C12 frames; shared by C03/C10/C11)
use vstd::prelude::*;
use std::rc::Rc;
use std::collections::HashMap;
use std::ops::Deref;
use vstd::std_specs::iter::IteratorSpec;

verus! {


pub mod jt {
use vstd::prelude::*;
use std::rc::Rc;
use vstd::std_specs::iter::IteratorSpec;
//@@ include prelude/indexmap.rs
//@@ include prelude/json_types.rs
//@@ include prelude/clone_specs.rs
}
pub mod hm {
use vstd::prelude::*;
use std::collections::HashMap;
use vstd::std_specs::iter::IteratorSpec;
//@@ include prelude/hashmap.rs
}
use jt::*;
pub mod cl {
use vstd::prelude::*;
use std::rc::Rc;
use super::jt::*;
//@@ include prelude/clone_axioms.rs
}
broadcast use {vstd::std_specs::hash::group_hash_axioms, cl::group_clone_is_copy};

// `trait Get` mentions Context and Context holds Rc<dyn Get>: Verus rejects the cycle, and no function of this unit
// ever calls Get::get, so the trait is declared here without its method (DESIGN §2).
pub trait Get {}

// src/regex_cache.rs: opaque here (Rc<RefCell<SizedCache>>); only ever cloned by the functions of this unit.
#[verifier::external_body]
pub struct RegexCache { _p: () }
impl RegexCache {
    #[verifier::external_body]
    pub fn new(size: usize) -> (r: Self) { unimplemented!() }
}
impl Clone for RegexCache {
    #[verifier::external_body]
    fn clone(&self) -> (r: Self) ensures r == *self { unimplemented!() }
}

//@@ item src/reader.rs :: struct Location
//@@ derives Clone
//@@ enditem

//@@ item src/processor.rs :: struct InputContext
//@@ enditem

//@@ item src/processor.rs :: enum ContextKey
//@@ enditem
//@@ item src/processor.rs :: struct Context
//@@ enditem

pub open spec fn deref_all(s: Seq<Rc<JsonValue>>) -> Seq<JsonValue> { Seq::new(s.len(), |i: int| *s[i]) }
pub open spec fn res_view(s: Seq<(Rc<String>, Option<JsonValue>)>) -> Seq<(String, Option<JsonValue>)> {
    Seq::new(s.len(), |i: int| (*s[i].0, s[i].1))
}


//@@ include lemmas/ctx_spec.rs
// `v.iter().map(f).collect()` (rewrite results_map_collect): own function with the assumed std contract
pub mod vmapc {
use vstd::prelude::*;
pub struct VCollected<U> { pub v: Vec<U> }
impl<U> VCollected<U> { pub fn collect(self) -> (r: Vec<U>) ensures r == self.v { self.v } }
pub open spec fn map_spec<T, U>(s: Seq<T>, c: spec_fn(T) -> U) -> Seq<U> { Seq::new(s.len(), |i: int| c(s[i])) }
#[verifier::external_body]
pub fn vmap_ref<T, U, F: FnMut(&T) -> U>(v: &Vec<T>, f: F) -> (r: VCollected<U>)
    requires forall|x: &T| #[trigger] f.requires((x,)),
    ensures r.v@.len() == v@.len(), forall|i: int| 0 <= i < v@.len() ==> f.ensures((&v@[i],), #[trigger] r.v@[i]),
{ unimplemented!() }
}

impl Context {
    // ---- ghost view: everything an expression can observe
    pub closed spec fn inp(&self) -> JsonValue { *self.input }
    pub closed spec fn parents(&self) -> Seq<JsonValue> { deref_all(self.parent_inputs@) }
    pub closed spec fn res(&self) -> Seq<(String, Option<JsonValue>)> { res_view(self.results@) }
    pub closed spec fn raw_res(&self) -> Seq<(Rc<String>, Option<JsonValue>)> { self.results@ }
    pub closed spec fn vars(&self) -> Map<String, JsonValue> { self.variables@ }
    pub closed spec fn defs(&self) -> Map<String, Rc<dyn Get>> { self.definitions@ }
    pub closed spec fn ictx(&self) -> Option<Rc<InputContext>> { self.input_context }
    pub closed spec fn cache(&self) -> RegexCache { self.regex_cache }
    // all components except the named one are unchanged
    pub open spec fn same_but_inputs(&self, o: &Context) -> bool {
        self.res() == o.res() && self.vars() == o.vars() && self.defs() == o.defs() && self.ictx() == o.ictx() && self.cache() == o.cache()
    }
    pub open spec fn same_inputs(&self, o: &Context) -> bool { self.inp() == o.inp() && self.parents() == o.parents() }

//@@ fn ctx.input = src/processor.rs :: impl Context :: fn input
//@@ safety C12
//@@ ret r
//@@ header-from specs/ctx/input.spec
//@@ endfn

//@@ fn ctx.with_inupt = src/processor.rs :: impl Context :: fn with_inupt
//@@ safety C12 C05
//@@ ret r
//@@ header-from specs/ctx/with_inupt.spec
//@@ loop 1 iter it
        invariant
            parent_inputs@.len() == 1 + it.index@,
            *parent_inputs@[0] == self.inp(),
            forall|j: int| 1 <= j <= it.index@ ==> *(#[trigger] parent_inputs@[j]) == self.parents()[j - 1],
//@@ endfn

//@@ fn ctx.with_result = src/processor.rs :: impl Context :: fn with_result
//@@ safety C12 C13 C15 C19 C03 C09 C10
//@@ ret r
//@@ header-from specs/ctx/with_result.spec
//@@ endfn

//@@ fn ctx.with_variable = src/processor.rs :: impl Context :: fn with_variable
//@@ safety C12 C05
//@@ ret r
//@@ header-from specs/ctx/with_variable.spec
//@@ loop 1 iter it
        invariant
            forall|j: int| 0 <= j < it.index@ ==> variables@.contains_key(*(#[trigger] it.seq()[j]).0) && variables@[*it.seq()[j].0] == *it.seq()[j].1,
            forall|kk: String| #[trigger] variables@.contains_key(kk) ==> self.vars().contains_key(kk) && self.vars()[kk] == variables@[kk],
            forall|j: int| 0 <= j < it.seq().len() ==> self.vars().contains_key(*(#[trigger] it.seq()[j]).0) && self.vars()[*it.seq()[j].0] == *it.seq()[j].1,
            forall|k: String| self.vars().contains_key(k) ==> exists|j: int| 0 <= j < it.seq().len() && *(#[trigger] it.seq()[j]).0 == k,
//@@ endfn

//@@ fn ctx.with_variables = src/processor.rs :: impl Context :: fn with_variables
//@@ safety C12
//@@ ret r
//@@ header-from specs/ctx/with_variables.spec
//@@ endfn

//@@ fn ctx.with_definition = src/processor.rs :: impl Context :: fn with_definition
//@@ safety C12 C05
//@@ ret r
//@@ header-from specs/ctx/with_definition.spec
//@@ loop 1 iter it
        invariant
            forall|j: int| 0 <= j < it.index@ ==> definitions@.contains_key(*(#[trigger] it.seq()[j]).0) && definitions@[*it.seq()[j].0] == *it.seq()[j].1,
            forall|kk: String| #[trigger] definitions@.contains_key(kk) ==> self.defs().contains_key(kk) && self.defs()[kk] == definitions@[kk],
            forall|j: int| 0 <= j < it.seq().len() ==> self.defs().contains_key(*(#[trigger] it.seq()[j]).0) && self.defs()[*it.seq()[j].0] == *it.seq()[j].1,
            forall|k: String| self.defs().contains_key(k) ==> exists|j: int| 0 <= j < it.seq().len() && *(#[trigger] it.seq()[j]).0 == k,
//@@ endfn

//@@ fn ctx.with_definitions = src/processor.rs :: impl Context :: fn with_definitions
//@@ safety C12
//@@ ret r
//@@ header-from specs/ctx/with_definitions.spec
//@@ endfn

//@@ fn ctx.parent_input = src/processor.rs :: impl Context :: fn parent_input
//@@ safety C12 C05
//@@ ret r
//@@ header-from specs/ctx/parent_input.spec
//@@ insert-after ".unwrap_or_else(||"
 -> (q: &Rc<JsonValue>) ensures **q == self.inp(), {
//@@ insert-after ".unwrap_or_else(|| self.input()"
 }
//@@ endfn

//@@ fn ctx.get_variable_value = src/processor.rs :: impl Context :: fn get_variable_value
//@@ safety C12
//@@ ret r
//@@ header-from specs/ctx/get_variable_value.spec
//@@ endfn

//@@ fn ctx.get_definition = src/processor.rs :: impl Context :: fn get_definition
//@@ safety C12
//@@ ret r
//@@ header-from specs/ctx/get_definition.spec
//@@ endfn

//@@ fn ctx.build = src/processor.rs :: impl Context :: fn build
//@@ safety C03 C05 C15 C19
//@@ ret r
//@@ header-from specs/ctx/build.spec
//@@ loop 1 iter it
        invariant
            0 <= it.index@ <= self.results@.len(), it.seq().len() == self.results@.len(),
            forall|j: int| 0 <= j < it.seq().len() ==> *(#[trigger] it.seq()[j]) == self.results@[j],
            mp.entries() == build_entries(self.res().subrange(0, it.index@)),
//@@ before "match value {"
                proof { assert(self.res().subrange(0, it.index@ + 1).drop_last() =~= self.res().subrange(0, it.index@)); }
//@@ before "JsonValue::Object(mp)"
            proof { assert(self.res().subrange(0, self.res().len() as int) =~= self.res()); }
//@@ endfn

//@@ fn ctx.get_selected = src/processor.rs :: impl Context :: fn get_selected
//@@ safety C12 C05
//@@ ret r
//@@ header-from specs/ctx/get_selected.spec
//@@ body-start
        proof { assert(self.res().subrange(0, self.res().len() as int) =~= self.res()); }
//@@ loop 1 iter it
        invariant
            0 <= it.index@ <= self.results@.len(), it.seq().len() == self.results@.len(),
            forall|j: int| 0 <= j < it.seq().len() ==> *(#[trigger] it.seq()[j]) == self.results@[j],
            first_selected(self.res(), *name) == first_selected(self.res().subrange(it.index@, self.res().len() as int), *name),
//@@ before "if &**title == name {"
            proof {
                let tail = self.res().subrange(it.index@, self.res().len() as int);
                assert(tail.drop_first() =~= self.res().subrange(it.index@ + 1, self.res().len() as int));
                assert(tail[0] == self.res()[it.index@]);
            }
//@@ before "None"
        proof { assert(self.res().subrange(self.res().len() as int, self.res().len() as int).len() == 0); }
//@@ endfn

//@@ fn ctx.new_with_no_context = src/processor.rs :: impl Context :: fn new_with_no_context
//@@ safety C09
//@@ ret r
//@@ header-from specs/ctx/new_with_no_context.spec
//@@ endfn

//@@ fn ctx.new_empty = src/processor.rs :: impl Context :: fn new_empty
//@@ safety C12 C17
//@@ ret r
//@@ header-from specs/ctx/new_empty.spec
//@@ endfn

//@@ fn ctx.new_with_input = src/processor.rs :: impl Context :: fn new_with_input
//@@ safety C11 C17
//@@ ret r
//@@ header-from specs/ctx/new_with_input.spec
//@@ endfn

//@@ fn ctx.to_list = src/processor.rs :: impl Context :: fn to_list
//@@ safety C10 C15
//@@ ret r
//@@ rewrite results_map_collect
//@@ header-from specs/ctx/to_list.spec
//@@ body-start
        broadcast use cl::group_clone_is_copy;
//@@ insert-after ".map(|i"
 : &(Rc<String>, Option<JsonValue>)
//@@ insert-after ".map(|i|"
 -> (o: Option<JsonValue>) ensures o == i.1, {
//@@ insert-after "i.1.clone()"
 }
//@@ endfn

//@@ fn ctx.key = src/processor.rs :: impl Context :: fn key
//@@ safety C10 C19
//@@ ret r
//@@ header-from specs/ctx/key.spec
//@@ endfn

//@@ fn ctx.input_context = src/processor.rs :: impl Context :: fn input_context
//@@ safety C17
//@@ ret r
//@@ header-from specs/ctx/input_context.spec
//@@ endfn

}

// ---- Titles (src/processor.rs): the selection names on their way to the printer. The other units see Titles through the
// assumed declarations of prelude/process.rs (with_title pushes the name, len counts, to_list is one string value per name, in
// order); here the real bodies are verified against exactly those clauses.
pub mod titles_m {
use vstd::prelude::*;
use std::rc::Rc;
use super::jt::*;
//@@ item src/processor.rs :: struct Titles
//@@ enditem
pub open spec fn title_values(n: Seq<String>) -> Seq<Option<JsonValue>> { Seq::new(n.len(), |i: int| Some(JsonValue::String(n[i]))) }
pub broadcast axiom fn axiom_cloned_rc_string(a: Rc<String>, b: Rc<String>)
    requires #[trigger] cloned(a, b),
    ensures a == b;
pub mod vrc {
use vstd::prelude::*;
use std::rc::Rc;
#[verifier::external_body]
pub fn deref_clone(r: &Rc<String>) -> (s: String) ensures s == **r { unimplemented!() }
}
impl Titles {
    pub closed spec fn names(&self) -> Seq<String> { Seq::new(self.titles@.len(), |i: int| *self.titles@[i]) }
//@@ fn titles.with_title = src/processor.rs :: impl Titles :: fn with_title
//@@ safety C15 C18
//@@ ret r
//@@ header
        ensures r.names() == self.names().push(**title), // @obl CTX.titles.with_title : C15 C18
//@@ body-start
        broadcast use axiom_cloned_rc_string;
//@@ before "Titles { titles }"
        proof { assert(Seq::new(titles@.len(), |i: int| *titles@[i]) =~= self.names().push(**title)); }
//@@ endfn
//@@ fn titles.len = src/processor.rs :: impl Titles :: fn len
//@@ safety C15
//@@ ret r
//@@ header
        ensures r == self.names().len(), // @obl CTX.titles.len : C15
//@@ endfn
//@@ fn titles.to_list = src/processor.rs :: impl Titles :: fn to_list
//@@ safety C15
//@@ ret r
//@@ rewrite deref_clone
//@@ header
        ensures r@ == title_values(self.names()), // @obl CTX.titles.to_list : C15
//@@ loop 1 iter it
            invariant
                it.seq().len() == self.titles@.len(), 0 <= it.index@ <= self.titles@.len(),
                forall|j: int| 0 <= j < it.seq().len() ==> *(#[trigger] it.seq()[j]) == self.titles@[j],
                lst@.len() == it.index@,
                forall|j: int| 0 <= j < lst@.len() ==> (#[trigger] lst@[j]) == Some(JsonValue::String(*self.titles@[j])),
//@@ after-loop 1
        proof { assert(lst@ =~= title_values(self.names())); }
//@@ endfn
}
}

} // verus!
fn main() {}
