#![feature(allocator_api)]
// Unit GRAM: the expression grammar — read_getter, parse_function, read_function_name (src/selection.rs), the extractor
// parsers (src/extractor.rs), /name/ (src/selection_extractor.rs), &name (src/input_context_extractor.rs), :name @name
// (src/variables_extractor.rs), literals (src/const_getter.rs). Every parser is verified against ONE spec parser `pe`,
// written from the documented grammar (selection help): what is accepted, how much is consumed, and the abstract syntax
// tree of the getter that is built (C13, C18, C04, C05).
use vstd::prelude::*;
use std::rc::Rc;
use std::io::Read;
use vstd::std_specs::iter::IteratorSpec;

verus! {

pub mod jt {
use vstd::prelude::*;
use std::rc::Rc;
use vstd::std_specs::iter::IteratorSpec;
//@@ include prelude/indexmap.rs
//@@ include prelude/json_types.rs
//@@ include prelude/clone_specs.rs
}
use jt::*;
pub mod rd {
use vstd::prelude::*;
use std::io::{Read, Result};
//@@ include prelude/reader_opaque.rs
}
use rd::*;
pub mod u8s {
use vstd::prelude::*;
//@@ include prelude/u8std.rs
pub assume_specification[ u8::is_ascii_lowercase ](b: &u8) -> (r: bool) ensures r == (0x61u8 <= *b <= 0x7au8);
pub assume_specification[ u8::is_ascii_uppercase ](b: &u8) -> (r: bool) ensures r == (0x41u8 <= *b <= 0x5au8);
pub assume_specification[ u8::to_ascii_lowercase ](b: &u8) -> (r: u8) ensures r == (if 0x41u8 <= *b <= 0x5au8 { (*b + 0x20u8) as u8 } else { *b });
}
pub mod ls {
use vstd::prelude::*;
pub uninterp spec fn valid_utf8(b: Seq<u8>) -> bool;
pub uninterp spec fn str_bytes(s: Seq<char>) -> Seq<u8>;
#[verifier::external_type_specification]
#[verifier::external_body]
pub struct ExFromUtf8Error(std::string::FromUtf8Error);
#[verifier::external_type_specification]
#[verifier::external_body]
pub struct ExParseIntError(std::num::ParseIntError);
pub assume_specification[ String::from_utf8 ](v: Vec<u8>) -> (r: std::result::Result<String, std::string::FromUtf8Error>)
    ensures r is Ok <==> valid_utf8(v@), r is Ok ==> str_bytes(r->Ok_0@) == v@;
#[verifier::external_trait_specification]
pub trait ExFromStr: Sized {
    type ExternalTraitSpecificationFor: std::str::FromStr;
    type Err;
    fn from_str(s: &str) -> std::result::Result<Self, Self::Err>;
}
// str::parse::<usize> of a run of decimal digits: a function of the text (None: out of range)
pub uninterp spec fn parse_of<F>(s: Seq<char>) -> Option<F>;
pub assume_specification<F: std::str::FromStr>[ <str>::parse::<F> ](s: &str) -> (r: std::result::Result<F, F::Err>)
    ensures r is Ok <==> parse_of::<F>(s@) is Some, r is Ok ==> r->Ok_0 == parse_of::<F>(s@)->0;
// the empty string is the one without bytes (UTF-8)
pub broadcast axiom fn axiom_str_bytes_empty(s: Seq<char>) ensures ((#[trigger] str_bytes(s)).len() == 0) == (s.len() == 0);
// UTF-8 is injective: a string is determined by its bytes
pub uninterp spec fn text_of(b: Seq<u8>) -> Seq<char>;
pub broadcast axiom fn axiom_text_of(s: Seq<char>) ensures #[trigger] text_of(str_bytes(s)) == s;
}
use ls::*;
pub mod rdl {
use vstd::prelude::*;
use super::rd::*;
pub broadcast proof fn lemma_advance_refl(a: Seq<Option<u8>>) ensures #[trigger] advance(a, a) {}
pub broadcast proof fn lemma_advance_trans(a: Seq<Option<u8>>, b: Seq<Option<u8>>, c: Seq<Option<u8>>)
    requires #[trigger] advance(a, b), #[trigger] advance(b, c),
    ensures advance(a, c),
{
    assert forall|i: int| 0 <= i < consumed(a, c).len() implies (#[trigger] consumed(a, c)[i]) is Some by {
        if i < consumed(a, b).len() { assert(consumed(a, b)[i] is Some); } else { assert(consumed(b, c)[i - consumed(a, b).len()] is Some); }
    }
}
pub broadcast group group_advance { lemma_advance_refl, lemma_advance_trans }
}
broadcast use {rdl::group_advance, ls::axiom_text_of, ls::axiom_str_bytes_empty};

// ---- error types: opaque; the variant constructors used below are declared as associated functions of the same name
#[verifier::external_body] pub struct JsonParserError { _p: () }
impl JsonParserError {
    #[allow(non_snake_case)] #[verifier::external_body] pub fn UnexpectedEof(l: Location) -> Self { unimplemented!() }
    #[allow(non_snake_case)] #[verifier::external_body] pub fn UnexpectedCharacter(l: Location, c: char, expected: String) -> Self { unimplemented!() }
}
#[verifier::external_body] pub struct InputContextExtractorParseError { _p: () }
impl InputContextExtractorParseError {
    #[allow(non_snake_case)] #[verifier::external_body] pub fn UnknonwType(name: String) -> Self { unimplemented!() }
}
#[verifier::external_body] pub struct FunctionDefinitionsError { _p: () }
#[verifier::external_body] pub struct OtherSelectionParseError { _p: () }
pub enum SelectionParseError { UnexpectedEof, Other(OtherSelectionParseError) }
impl SelectionParseError {
    #[allow(non_snake_case)] #[verifier::external_body] pub fn MissingKey(l: Location) -> Self { unimplemented!() }
}
pub type Result<T> = std::result::Result<T, SelectionParseError>;
pub type SelectionResult<T> = std::result::Result<T, SelectionParseError>;
impl From<JsonParserError> for SelectionParseError { #[verifier::external_body] fn from(e: JsonParserError) -> Self { unimplemented!() } }
impl From<std::io::Error> for SelectionParseError { #[verifier::external_body] fn from(e: std::io::Error) -> Self { unimplemented!() } }
impl From<std::string::FromUtf8Error> for SelectionParseError { #[verifier::external_body] fn from(e: std::string::FromUtf8Error) -> Self { unimplemented!() } }
impl From<std::num::ParseIntError> for SelectionParseError { #[verifier::external_body] fn from(e: std::num::ParseIntError) -> Self { unimplemented!() } }
impl From<FunctionDefinitionsError> for SelectionParseError { #[verifier::external_body] fn from(e: FunctionDefinitionsError) -> Self { unimplemented!() } }
impl From<InputContextExtractorParseError> for SelectionParseError { #[verifier::external_body] fn from(e: InputContextExtractorParseError) -> Self { unimplemented!() } }

// ---- the abstract syntax of an expression (ghost): what a getter IS, independent of how it was spelled
pub enum Step { Key(Seq<u8>), Index(usize) }
pub enum Ast {
    // ^^.a#1 : `parents` enclosing inputs up, then the steps (no step: the input itself)
    Path { parents: nat, steps: Seq<Step> },
    // (name a0 a1 ..): the function the name (or alias) denotes, applied to the argument expressions in order
    Call { f: int, args: Seq<Ast> },
    Var { name: Seq<u8> },
    Macro { name: Seq<u8> },
    // &name: one of the seven input-context selectors
    Ictx { kind: int },
    // /name/: a previously selected value
    Sel { name: Seq<char> },
    Lit { value: JsonValue },
}
#[verifier::external_body] pub struct Context { _p: () }
pub trait Get {
    spec fn ast(&self) -> Ast;
    fn get(&self, value: &Context) -> Option<JsonValue>;
}

// ---- token runs: the length of the maximal prefix of delivered bytes that do not satisfy `stop`
pub open spec fn run(s: Seq<Option<u8>>, stop: spec_fn(u8) -> bool) -> nat
    decreases s.len()
{
    if s.len() > 0 && s[0] is Some && !stop(s[0].unwrap()) { 1 + run(s.subrange(1, s.len() as int), stop) } else { 0 }
}
pub open spec fn at(p: Seq<Option<u8>>, i: int) -> Option<u8> { if 0 <= i < p.len() { p[i] } else { None } }
pub open spec fn from(p: Seq<Option<u8>>, i: int) -> Seq<Option<u8>> { if 0 <= i <= p.len() { p.subrange(i, p.len() as int) } else { Seq::empty() } }
pub open spec fn seg(p: Seq<Option<u8>>, a: int, b: int) -> Seq<u8> { if 0 <= a <= b <= p.len() { unwrap_all(p.subrange(a, b)) } else { Seq::empty() } }
pub open spec fn ascii_ws(b: u8) -> bool { b == 0x20u8 || b == 0x09u8 || b == 0x0au8 || b == 0x0cu8 || b == 0x0du8 }
pub open spec fn ascii_ctl(b: u8) -> bool { b < 0x20u8 || b == 0x7fu8 }
// a function name ends at white space, a control character, `,` `(` or `)`
pub open spec fn fname_stop() -> spec_fn(u8) -> bool { |b: u8| ascii_ws(b) || ascii_ctl(b) || b == 0x2cu8 || b == 0x28u8 || b == 0x29u8 }
// a key of `.key` ends at white space, a control character or one of . , = ( ) " ] [ { } #
pub open spec fn key_stop() -> spec_fn(u8) -> bool {
    |b: u8| ascii_ws(b) || ascii_ctl(b) || b == 0x2eu8 || b == 0x2cu8 || b == 0x3du8 || b == 0x28u8 || b == 0x29u8 || b == 0x22u8
        || b == 0x5du8 || b == 0x5bu8 || b == 0x7bu8 || b == 0x7du8 || b == 0x23u8
}
// a variable / macro name ends at white space, `)` or `,`
pub open spec fn var_stop() -> spec_fn(u8) -> bool { |b: u8| is_ws(b) || b == 0x29u8 || b == 0x2cu8 }
pub open spec fn sel_stop() -> spec_fn(u8) -> bool { |b: u8| b == 0x2fu8 }
pub open spec fn caret_stop() -> spec_fn(u8) -> bool { |b: u8| b != 0x5eu8 }
pub open spec fn ic_byte(b: u8) -> bool { (0x61u8 <= b <= 0x7au8) || (0x41u8 <= b <= 0x5au8) || b == 0x5fu8 || b == 0x2du8 }
pub open spec fn ic_stop() -> spec_fn(u8) -> bool { |b: u8| !ic_byte(b) }
pub open spec fn digit_stop() -> spec_fn(u8) -> bool { |b: u8| !is_digit(b) }

pub proof fn lemma_run_step(s: Seq<Option<u8>>, stop: spec_fn(u8) -> bool, k: int)
    requires 0 <= k < s.len(), run(s, stop) >= k, s[k] is Some, !stop(s[k].unwrap()),
        run(s, stop) == k + run(s.subrange(k, s.len() as int), stop),
    ensures run(s, stop) == k + 1 + run(s.subrange(k + 1, s.len() as int), stop),
{
    let t = s.subrange(k, s.len() as int);
    assert(t[0] == s[k]);
    assert(t.subrange(1, t.len() as int) =~= s.subrange(k + 1, s.len() as int));
}
pub proof fn lemma_run_stop(s: Seq<Option<u8>>, stop: spec_fn(u8) -> bool, k: int)
    requires 0 <= k <= s.len(), run(s, stop) == k + run(s.subrange(k, s.len() as int), stop),
        k == s.len() || s[k] is None || stop(s[k].unwrap()),
    ensures run(s, stop) == k,
{
    let t = s.subrange(k, s.len() as int);
    if k < s.len() { assert(t[0] == s[k]); }
}
pub proof fn lemma_run_le(s: Seq<Option<u8>>, stop: spec_fn(u8) -> bool)
    ensures run(s, stop) <= s.len(),
    decreases s.len(),
{
    if s.len() > 0 && s[0] is Some && !stop(s[0].unwrap()) { lemma_run_le(s.subrange(1, s.len() as int), stop); }
}
pub proof fn lemma_from_from(p: Seq<Option<u8>>, c: int, e: int)
    requires 0 <= c <= p.len(), 0 <= e,
    ensures from(from(p, c), e) =~= from(p, c + e),
{}
pub proof fn lemma_run_digits(s: Seq<Option<u8>>)
    ensures run(s, digit_stop()) == digit_run(s),
    decreases s.len(),
{
    if s.len() > 0 && s[0] is Some && is_digit(s[0].unwrap()) { lemma_run_digits(s.subrange(1, s.len() as int)); }
}

// "the option text is shorter than 2^64 bytes" (counters over it are machine integers)
pub open spec fn small<R: Read>(r: &Reader<R>) -> bool { r.pending().len() < usize::MAX }

pub mod vstr {
use vstd::prelude::*;
#[verifier::external_body]
pub fn to_string_of(x: &str) -> (r: String) ensures r@ == x@ { unimplemented!() }
#[verifier::external_body]
pub fn string_of(x: &str) -> (r: String) ensures r@ == x@ { unimplemented!() }
}

// ------------------------------------------------------------------------------------------------ src/extractor.rs
pub mod ex {
use super::*;
broadcast use {rdl::group_advance, ls::axiom_text_of, ls::axiom_str_bytes_empty};
//@@ item src/extractor.rs :: enum SingleExtract
//@@ rewrite pub_struct
//@@ enditem
//@@ item src/extractor.rs :: enum ExtractFromInput
//@@ rewrite pub_struct
//@@ enditem
//@@ item src/extractor.rs :: struct Extract
//@@ rewrite pub_struct pub_fields
//@@ enditem
pub open spec fn step_of(e: SingleExtract) -> Step {
    match e { SingleExtract::ByKey(k) => Step::Key(str_bytes(k@)), SingleExtract::ByIndex(i) => Step::Index(i) }
}
pub open spec fn steps_of(e: ExtractFromInput) -> Seq<Step> {
    match e { ExtractFromInput::Root => Seq::empty(), ExtractFromInput::Element(es) => es@.map_values(|x: SingleExtract| step_of(x)) }
}
impl Get for Extract {
    open spec fn ast(&self) -> Ast { Ast::Path { parents: self.number_of_parents as nat, steps: steps_of(self.extract_from_input) } }
    #[verifier::external_body]
    fn get(&self, value: &Context) -> Option<JsonValue> { unimplemented!() }
}

// the steps of a path from offset i of q on: (`.key` | `#index`)*; an empty key / index is the end of a path WITHOUT steps
// (`.` and `#` alone are the input itself) and an error after a step
pub open spec fn p_steps(q: Seq<Option<u8>>, i: int, acc: Seq<Step>) -> Option<(Seq<Step>, int)>
    decreases q.len() - i,
{
    if i < 0 || i >= q.len() { Some((acc, i)) }
    else if q[i] == Some(0x2eu8) {
        let k = run(from(q, i + 1), key_stop()) as int;
        if k == 0 { if acc.len() == 0 { Some((acc, i + 1)) } else { None } }
        else if i + 1 + k > q.len() || !valid_utf8(seg(q, i + 1, i + 1 + k)) { None }
        else { p_steps(q, i + 1 + k, acc.push(Step::Key(seg(q, i + 1, i + 1 + k)))) }
    } else if q[i] == Some(0x23u8) {
        let d = run(from(q, i + 1), digit_stop()) as int;
        if d == 0 { if acc.len() == 0 { Some((acc, i + 1)) } else { None } }
        else if i + 1 + d > q.len() { None }
        else { match parse_of::<usize>(text_of(seg(q, i + 1, i + 1 + d))) {
            Some(n) => p_steps(q, i + 1 + d, acc.push(Step::Index(n))),
            None => None } }
    } else { Some((acc, i)) }
}

//@@ fn gram.read_number_of_parents = src/extractor.rs :: fn read_number_of_parents
//@@ safety C04 C05 C13 C18
//@@ ret r
//@@ rewrite try_io
//@@ header
    requires old(reader).wf(), old(reader).room(), old(reader).cur() is Some, small(old(reader)),
    ensures final(reader).wf(), final(reader).room(),
        // exactly the run of `^` is consumed, and counted
        r is Ok ==> r->Ok_0 == run(old(reader).pending(), caret_stop())
            && final(reader).pending() =~= from(old(reader).pending(), run(old(reader).pending(), caret_stop()) as int)
            && (final(reader).cur() is None ==> final(reader).pending().len() == 0), // @obl GRAM.parents : C04 C13
//@@ body-start
    let ghost p0 = reader.pending();
//@@ loop 1
        invariant
            reader.wf(), reader.room(), p0 == old(reader).pending(), size <= p0.len(), size + reader.pending().len() == p0.len(), p0.len() < usize::MAX,
            reader.pending() =~= from(p0, size as int), reader.cur() is None ==> reader.pending().len() == 0,
            run(p0, caret_stop()) == size + run(from(p0, size as int), caret_stop()),
        decreases reader.pending().len(),
//@@ before "size += 1;"
                proof { lemma_run_step(p0, caret_stop(), size as int); }
//@@ before "return Ok(size);"
                proof { lemma_run_stop(p0, caret_stop(), size as int); }
//@@ endfn

impl ExtractFromInput {
//@@ fn gram.read_extract_key = src/extractor.rs :: impl ExtractFromInput :: fn read_extract_key
//@@ safety C04 C05 C13 C18
//@@ ret r
//@@ rewrite try_io
//@@ header
        requires old(reader).wf(), old(reader).room(), old(reader).cur() is Some,
        ensures final(reader).wf(), final(reader).room(),
            // the current byte (the `.`) is dropped, then exactly the maximal run of key bytes is the key; the byte that ends
            // it is left as the current byte
            r is Ok ==> ({ let p = old(reader).pending(); let k = run(from(p, 1), key_stop()) as int;
                str_bytes(r->Ok_0@) == seg(p, 1, 1 + k) && valid_utf8(seg(p, 1, 1 + k)) && final(reader).pending() =~= from(p, 1 + k)
                && (final(reader).cur() is None ==> final(reader).pending().len() == 0) }), // @obl GRAM.key : C04 C13
//@@ body-start
        let ghost p0 = reader.pending();
        let ghost t = from(p0, 1);
        proof { assert(from(t, 0) =~= t); assert(reader.rest() =~= from(p0, 1)); assert(seg(p0, 1, 1) =~= Seq::<u8>::empty()); }
//@@ loop 1
            invariant_except_break
                reader.wf(), reader.room(), reader.cur() is Some, p0 == old(reader).pending(), t == from(p0, 1), p0.len() >= 1,
                buf@.len() + 1 <= p0.len(), reader.rest() =~= from(p0, buf@.len() as int + 1),
                buf@ =~= seg(p0, 1, 1 + buf@.len() as int), no_fault(p0.subrange(0, buf@.len() as int + 1)),
                run(t, key_stop()) == buf@.len() + run(from(t, buf@.len() as int), key_stop()),
            ensures
                reader.wf(), reader.room(), p0 == old(reader).pending(), t == from(p0, 1),
                run(t, key_stop()) == buf@.len(), buf@ =~= seg(p0, 1, 1 + buf@.len() as int),
                reader.pending() =~= from(p0, 1 + buf@.len() as int), reader.cur() is None ==> reader.pending().len() == 0,
            decreases reader.rest().len(),
//@@ loop-start 1
            let ghost n = buf@.len() as int;
            proof { assert(from(t, n) =~= from(p0, n + 1)); }
//@@ before#1 "break;"
                    proof { lemma_run_stop(t, key_stop(), n); assert(reader.pending().len() == 0); }
//@@ before#2 "break;"
                        proof {
                            assert(p0[n + 1] == Some(ch));
                            assert(t[n] == Some(ch));
                            lemma_run_stop(t, key_stop(), n);
                            assert(reader.pending() =~= from(p0, n + 1));
                        }
//@@ before "buf.push(ch);"
                    proof {
                        assert(p0[n + 1] == Some(ch));
                        assert(t[n] == Some(ch));
                        lemma_run_step(t, key_stop(), n);
                        assert(from(t, n + 1) =~= t.subrange(n + 1, t.len() as int));
                        assert(seg(p0, 1, 1 + n).push(ch) =~= seg(p0, 1, 2 + n));
                        assert(reader.rest() =~= from(p0, n + 2));
                    }
//@@ endfn

//@@ fn gram.read_extract_index = src/extractor.rs :: impl ExtractFromInput :: fn read_extract_index
//@@ safety C04 C05 C13 C18
//@@ ret r
//@@ rewrite try_io
//@@ header
        requires old(reader).wf(), old(reader).room(), old(reader).cur() is Some,
        ensures final(reader).wf(), final(reader).room(),
            // the current byte (the `#`) is dropped, then exactly the maximal run of digits is the index (none: no index)
            r is Ok ==> ({ let p = old(reader).pending(); let d = run(from(p, 1), digit_stop()) as int;
                final(reader).pending() =~= from(p, 1 + d) && (final(reader).cur() is None ==> final(reader).pending().len() == 0)
                && (r->Ok_0 is None <==> d == 0)
                && (r->Ok_0 matches Some(n) ==> parse_of::<usize>(text_of(seg(p, 1, 1 + d))) == Some(n)) }), // @obl GRAM.index : C04 C13
//@@ body-start
        let ghost p0 = reader.pending();
        proof { lemma_run_digits(from(p0, 1)); }
//@@ after "reader.next()?;"
        proof { assert(reader.pending() =~= from(p0, 1)); }
//@@ after "reader.read_digits(&mut digits)?;"
        let ghost d = digit_run(from(p0, 1)) as int;
        let ghost dg = digits@;
        proof {
            lemma_run_le(from(p0, 1), digit_stop());
            assert(reader.pending() =~= from(p0, 1 + d));
            assert(digits@ =~= seg(p0, 1, 1 + d));
        }
//@@ after "let str = String::from_utf8(digits)?;"
        proof {
            assert(str_bytes(str@) == dg);
            assert(text_of(str_bytes(str@)) == str@);
            assert((str@.len() == 0) == (d == 0));
        }
//@@ endfn

//@@ fn gram.efi_parse = src/extractor.rs :: impl ExtractFromInput :: fn parse
//@@ safety C04 C05 C13 C18
//@@ ret r
//@@ rewrite try_io vec_macro_empty
//@@ header
        requires old(reader).wf(), old(reader).room(), old(reader).cur() is None ==> old(reader).pending().len() == 0,
        ensures final(reader).wf(), final(reader).room(),
            // THE PATH: the steps are exactly the ones the grammar reads from the pending bytes, exactly their text is consumed
            r is Ok ==> (p_steps(old(reader).pending(), 0, Seq::empty()) matches Some(se) && se.0 == steps_of(r->Ok_0)
                && 0 <= se.1 <= old(reader).pending().len() && final(reader).pending() =~= from(old(reader).pending(), se.1)
                && (final(reader).cur() is None ==> final(reader).pending().len() == 0)), // @obl GRAM.steps : C04 C13 C18
//@@ body-start
        let ghost p0 = reader.pending();
        proof { assert(from(p0, 0) =~= p0); }
//@@ before-loop 1
        proof { assert(steps_of(ExtractFromInput::Element(ext)) =~= Seq::<Step>::empty()); }
//@@ loop 1
            invariant
                reader.wf(), reader.room(), p0 == old(reader).pending(), reader.cur() is None ==> reader.pending().len() == 0,
                reader.pending().len() <= p0.len(), reader.pending() =~= from(p0, p0.len() - reader.pending().len()),
                p_steps(p0, 0, Seq::empty()) == p_steps(p0, p0.len() - reader.pending().len(), steps_of(ExtractFromInput::Element(ext))),
            decreases reader.pending().len(),
//@@ loop-start 1
            let ghost i = p0.len() - reader.pending().len();
            let ghost acc = steps_of(ExtractFromInput::Element(ext));
            let ghost q = reader.pending();
            proof {
                assert(ext@.len() == 0 <==> acc.len() == 0);
                if q.len() > 0 { assert(q[0] == p0[i]); assert(from(q, 1) =~= from(p0, i + 1)); }
            }
//@@ after "let key = Self::read_extract_key(reader)?;"
                    let ghost k = run(from(p0, i + 1), key_stop()) as int;
                    proof {
                        lemma_run_le(from(p0, i + 1), key_stop());
                        lemma_from_from(p0, i, 1 + k);
                        assert(reader.pending() =~= from(p0, i + 1 + k));
                        assert(seg(q, 1, 1 + k) =~= seg(p0, i + 1, i + 1 + k));
                        assert((str_bytes(key@).len() == 0) == (k == 0));
                    }
//@@ before "let es = SingleExtract::ByKey(key);"
                    let ghost kb = str_bytes(key@);
//@@ after "let es = SingleExtract::ByKey(key);"
                    proof { assert(steps_of(ExtractFromInput::Element(ext)).push(step_of(es)) =~= acc.push(Step::Key(kb))); }
//@@ after#1 "ext.push(es);"
                    proof {
                        assert(steps_of(ExtractFromInput::Element(ext)) =~= acc.push(Step::Key(kb)));
                        assert(p_steps(p0, i, acc) == p_steps(p0, i + 1 + k, acc.push(Step::Key(seg(p0, i + 1, i + 1 + k)))));
                    }
//@@ before "let es = SingleExtract::ByIndex(index);"
                        let ghost d = run(from(p0, i + 1), digit_stop()) as int;
                        proof {
                            lemma_run_le(from(p0, i + 1), digit_stop());
                            lemma_from_from(p0, i, 1 + d);
                            assert(reader.pending() =~= from(p0, i + 1 + d));
                            assert(seg(q, 1, 1 + d) =~= seg(p0, i + 1, i + 1 + d));
                        }
//@@ after#2 "ext.push(es);"
                        proof {
                            assert(steps_of(ExtractFromInput::Element(ext)) =~= acc.push(Step::Index(index)));
                            assert(p_steps(p0, i, acc) == p_steps(p0, i + 1 + d, acc.push(Step::Index(index))));
                        }
//@@ before "return Ok(ExtractFromInput::Element(ext));"
                    proof { assert(reader.pending() =~= from(p0, i)); }
//@@ endfn
}

//@@ fn gram.root = src/extractor.rs :: fn root
//@@ safety C13 C04
//@@ ret r
//@@ header
    ensures r.ast() == (Ast::Path { parents: 0, steps: Seq::empty() }), // @obl GRAM.root : C13 C04
//@@ endfn

// a path: `^`* then the steps
pub open spec fn p_path(q: Seq<Option<u8>>) -> Option<(Ast, int)> {
    let c = run(q, caret_stop()) as int;
    match p_steps(from(q, c), 0, Seq::empty()) {
        Some((st, e)) => Some((Ast::Path { parents: c as nat, steps: st }, c + e)),
        None => None,
    }
}
//@@ fn gram.parse_extractor = src/extractor.rs :: fn parse_extractor
//@@ safety C04 C05 C13 C18
//@@ ret r
//@@ header
    requires old(reader).wf(), old(reader).room(), old(reader).cur() is Some, small(old(reader)),
    ensures final(reader).wf(), final(reader).room(),
        r is Ok ==> (p_path(old(reader).pending()) matches Some(an) && r->Ok_0.ast() == an.0
            && final(reader).pending() =~= from(old(reader).pending(), an.1)
            && (final(reader).cur() is None ==> final(reader).pending().len() == 0)), // @obl GRAM.path : C04 C13 C18
//@@ body-start
    let ghost p0 = reader.pending();
    let ghost c = run(p0, caret_stop()) as int;
    proof { lemma_run_le(p0, caret_stop()); }
//@@ after "let extract_from_input = ExtractFromInput::parse(reader)?;"
    proof {
        let se = p_steps(from(p0, c), 0, Seq::empty())->0;
        lemma_from_from(p0, c, se.1);
    }
//@@ endfn
}

// ------------------------------------------------------------------------------------------------ src/variables_extractor.rs
pub mod vx {
use super::*;
broadcast use {rdl::group_advance, ls::axiom_text_of, ls::axiom_str_bytes_empty};
//@@ item src/variables_extractor.rs :: enum Type
//@@ rewrite pub_struct
//@@ enditem
//@@ item src/variables_extractor.rs :: struct VariableExtructor
//@@ rewrite pub_struct pub_fields
//@@ enditem
impl Get for VariableExtructor {
    open spec fn ast(&self) -> Ast {
        match self.variable_type { Type::Variable => Ast::Var { name: str_bytes(self.name@) }, Type::Macro => Ast::Macro { name: str_bytes(self.name@) } }
    }
    #[verifier::external_body]
    fn get(&self, value: &Context) -> Option<JsonValue> { unimplemented!() }
}
// `:name` / `@name`: the sigil, then the maximal run of bytes that do not end a name (white space, `)`, `,`)
pub open spec fn p_var(q: Seq<Option<u8>>) -> Option<(Ast, int)> {
    let k = run(from(q, 1), var_stop()) as int;
    if k == 0 || !valid_utf8(seg(q, 1, 1 + k)) { None }
    else if at(q, 0) == Some(0x3au8) { Some((Ast::Var { name: seg(q, 1, 1 + k) }, 1 + k)) }
    else if at(q, 0) == Some(0x40u8) { Some((Ast::Macro { name: seg(q, 1, 1 + k) }, 1 + k)) }
    else { None }
}
//@@ fn gram.parse_get_variable = src/variables_extractor.rs :: fn parse_get_variable
//@@ safety C04 C05 C13 C18
//@@ ret r
//@@ rewrite try_io lit_into_string
//@@ header
    requires old(reader).wf(), old(reader).room(), old(reader).cur() is Some,
    ensures final(reader).wf(), final(reader).room(),
        r is Ok ==> (p_var(old(reader).pending()) matches Some(an) && r->Ok_0.ast() == an.0
            && final(reader).pending() =~= from(old(reader).pending(), an.1)
            && (final(reader).cur() is None ==> final(reader).pending().len() == 0)), // @obl GRAM.var : C04 C13 C18
//@@ body-start
    let ghost p0 = reader.pending();
    let ghost t = from(p0, 1);
    proof { assert(from(t, 0) =~= t); assert(reader.rest() =~= from(p0, 1)); assert(seg(p0, 1, 1) =~= Seq::<u8>::empty()); lemma_run_le(t, var_stop()); }
//@@ loop 1
        invariant_except_break
            reader.wf(), reader.room(), reader.cur() is Some, p0 == old(reader).pending(), t == from(p0, 1), p0.len() >= 1,
            name@.len() + 1 <= p0.len(), reader.rest() =~= from(p0, name@.len() as int + 1),
            name@ =~= seg(p0, 1, 1 + name@.len() as int),
            run(t, var_stop()) == name@.len() + run(from(t, name@.len() as int), var_stop()),
        ensures
            reader.wf(), reader.room(), p0 == old(reader).pending(), t == from(p0, 1),
            run(t, var_stop()) == name@.len(), name@ =~= seg(p0, 1, 1 + name@.len() as int),
            reader.pending() =~= from(p0, 1 + name@.len() as int), reader.cur() is None ==> reader.pending().len() == 0,
        decreases reader.rest().len(),
//@@ loop-start 1
        let ghost n = name@.len() as int;
        proof { assert(from(t, n) =~= from(p0, n + 1)); }
//@@ before "break;"
                proof {
                    if reader.cur() is Some { assert(p0[n + 1] == reader.cur()); assert(t[n] == reader.cur()); assert(reader.pending() =~= from(p0, n + 1)); }
                    lemma_run_stop(t, var_stop(), n);
                }
//@@ loop-end 1
            proof {
                {
                    let ch = reader.cur().unwrap();
                    assert(p0[n + 1] == Some(ch));
                    assert(t[n] == Some(ch));
                    lemma_run_step(t, var_stop(), n);
                    assert(from(t, n + 1) =~= t.subrange(n + 1, t.len() as int));
                    assert(seg(p0, 1, 1 + n).push(ch) =~= seg(p0, 1, 2 + n));
                    assert(reader.rest() =~= from(p0, n + 2));
                }
            }
//@@ endfn
}

// ------------------------------------------------------------------------------------------------ src/selection_extractor.rs
pub mod sx {
use super::*;
broadcast use {rdl::group_advance, ls::axiom_text_of, ls::axiom_str_bytes_empty};
//@@ item src/selection_extractor.rs :: struct SelectionExtructor
//@@ rewrite pub_struct pub_fields
//@@ enditem
impl Get for SelectionExtructor {
    open spec fn ast(&self) -> Ast { Ast::Sel { name: self.name@ } }
    #[verifier::external_body]
    fn get(&self, value: &Context) -> Option<JsonValue> { unimplemented!() }
}
// str::trim (std): a function of the text
pub uninterp spec fn trim_of(s: Seq<char>) -> Seq<char>;
#[verifier::external_body]
pub fn trimmed_string(s: &String) -> (r: String) ensures r@ == trim_of(s@) { unimplemented!() }
// `/name/`: both slashes are required, the name between them is not empty; it is used trimmed
pub open spec fn p_sel(q: Seq<Option<u8>>) -> Option<(Ast, int)> {
    let k = run(from(q, 1), sel_stop()) as int;
    if at(q, 0) != Some(0x2fu8) || k == 0 || at(q, 1 + k) != Some(0x2fu8) || !valid_utf8(seg(q, 1, 1 + k)) { None }
    else { Some((Ast::Sel { name: trim_of(text_of(seg(q, 1, 1 + k))) }, k + 2)) }
}
//@@ fn gram.parse_get_selection = src/selection_extractor.rs :: fn parse_get_selection
//@@ safety C04 C05 C13 C18
//@@ ret r
//@@ rewrite try_io trim_into
//@@ header
    requires old(reader).wf(), old(reader).room(), old(reader).cur() is Some,
    ensures final(reader).wf(), final(reader).room(),
        r is Ok ==> (p_sel(old(reader).pending()) matches Some(an) && r->Ok_0.ast() == an.0
            && final(reader).pending() =~= from(old(reader).pending(), an.1)
            && (final(reader).cur() is None ==> final(reader).pending().len() == 0)), // @obl GRAM.sel : C04 C13 C18
//@@ body-start
    let ghost p0 = reader.pending();
    let ghost t = from(p0, 1);
    proof { assert(from(t, 0) =~= t); assert(reader.rest() =~= from(p0, 1)); assert(seg(p0, 1, 1) =~= Seq::<u8>::empty()); lemma_run_le(t, sel_stop()); }
//@@ loop 1
        invariant_except_break
            reader.wf(), reader.room(), reader.cur() is Some, p0 == old(reader).pending(), t == from(p0, 1), p0.len() >= 1, p0[0] == Some(0x2fu8),
            name@.len() + 1 <= p0.len(), reader.rest() =~= from(p0, name@.len() as int + 1),
            name@ =~= seg(p0, 1, 1 + name@.len() as int),
            run(t, sel_stop()) == name@.len() + run(from(t, name@.len() as int), sel_stop()),
        ensures
            reader.wf(), reader.room(), p0 == old(reader).pending(), t == from(p0, 1), p0[0] == Some(0x2fu8),
            run(t, sel_stop()) == name@.len(), name@ =~= seg(p0, 1, 1 + name@.len() as int),
            reader.cur() == Some(0x2fu8), at(p0, 1 + name@.len() as int) == Some(0x2fu8),
            reader.pending() =~= from(p0, 1 + name@.len() as int),
        decreases reader.rest().len(),
//@@ loop-start 1
        let ghost n = name@.len() as int;
        proof { assert(from(t, n) =~= from(p0, n + 1)); }
//@@ before "break;"
                proof {
                    assert(p0[n + 1] == Some(0x2fu8)); assert(t[n] == Some(0x2fu8));
                    lemma_run_stop(t, sel_stop(), n);
                    assert(reader.pending() =~= from(p0, n + 1));
                }
//@@ loop-end 1
            proof {
                {
                    let ch = reader.cur().unwrap();
                    assert(p0[n + 1] == Some(ch));
                    assert(t[n] == Some(ch));
                    lemma_run_step(t, sel_stop(), n);
                    assert(from(t, n + 1) =~= t.subrange(n + 1, t.len() as int));
                    assert(seg(p0, 1, 1 + n).push(ch) =~= seg(p0, 1, 2 + n));
                    assert(reader.rest() =~= from(p0, n + 2));
                }
            }
//@@ after-loop 1
    let ghost k = name@.len() as int;
    let ghost nb = name@;
//@@ after#2 "reader.next()?;"
    proof { assert(reader.pending() =~= from(p0, k + 2)); }
//@@ endfn
}

// ------------------------------------------------------------------------------------------------ src/input_context_extractor.rs
pub mod icx {
use super::*;
use std::result::Result;
broadcast use {rdl::group_advance, ls::axiom_text_of, ls::axiom_str_bytes_empty};
//@@ item src/input_context_extractor.rs :: enum Type
//@@ rewrite pub_struct
//@@ enditem
//@@ item src/input_context_extractor.rs :: struct InputContextExtractor
//@@ rewrite pub_struct pub_fields
//@@ enditem
pub open spec fn type_code(t: Type) -> int {
    match t { Type::Index => 0, Type::IndexInFile => 1, Type::FileName => 2, Type::StartedAtLineNumber => 3, Type::EndsAtLineNumber => 4,
              Type::StartedAtCharNumber => 5, Type::EndAtCharNumber => 6 }
}
impl Get for InputContextExtractor {
    open spec fn ast(&self) -> Ast { Ast::Ictx { kind: type_code(self.extration) } }
    #[verifier::external_body]
    fn get(&self, value: &Context) -> Option<JsonValue> { unimplemented!() }
}
// the table of the seven selector names, as documented in the selection help: InputContextExtractor::from_name (real body
// verified below: a `match` on string literals compares the texts)
pub open spec fn ic_kind(name: Seq<char>) -> Option<int> {
    if name == "index"@ { Some(0int) }
    else if name == "index-in-file"@ { Some(1int) }
    else if name == "file-name"@ { Some(2int) }
    else if name == "started-at-line-number"@ { Some(3int) }
    else if name == "ended-at-line-number"@ { Some(4int) }
    else if name == "started-at-char-number"@ { Some(5int) }
    else if name == "ended-at-char-number"@ { Some(6int) }
    else { None }
}
pub mod vsd {
use vstd::prelude::*;
#[verifier::external_body]
pub fn as_str_of(s: &String) -> (r: &str) ensures r@ == s@ { unimplemented!() }
// two string slices with the same characters are the same value (a `match` on string literals compares values)
pub broadcast axiom fn axiom_str_ext(a: &str, b: &str) ensures (#[trigger] a@ == #[trigger] b@) ==> a == b;
}
impl InputContextExtractor {
//@@ fn gram.ictx.from_name = src/input_context_extractor.rs :: impl InputContextExtractor :: fn from_name
//@@ safety C17 C18 C13
//@@ ret r
//@@ rewrite as_str_of
//@@ header
        ensures
            // exactly the seven documented names are accepted, each selecting its own field of the input context
            r is Ok <==> ic_kind(name@) is Some, // @obl GRAM.ictx.names : C17 C18
            r is Ok ==> type_code(r->Ok_0.extration) == ic_kind(name@)->0, // @obl GRAM.ictx.kind : C17 C13
//@@ body-start
        broadcast use vsd::axiom_str_ext;
        proof {
            reveal_strlit("index"); reveal_strlit("index-in-file"); reveal_strlit("file-name");
            reveal_strlit("started-at-line-number"); reveal_strlit("ended-at-line-number");
            reveal_strlit("started-at-char-number"); reveal_strlit("ended-at-char-number");
            assert("started-at-line-number"@[11] == 'l' && "started-at-char-number"@[11] == 'c');
            assert("ended-at-line-number"@[9] == 'l' && "ended-at-char-number"@[9] == 'c');
        }
//@@ endfn
}
// a selector name is case-insensitive and `_` may be written for `-`
pub open spec fn ic_norm(b: u8) -> u8 { if 0x61u8 <= b <= 0x7au8 { b } else if 0x41u8 <= b <= 0x5au8 { (b + 0x20u8) as u8 } else { 0x2du8 } }
pub open spec fn ic_name(q: Seq<Option<u8>>, k: int) -> Seq<u8> { seg(q, 1, 1 + k).map_values(|b: u8| ic_norm(b)) }
// `&name`: the sigil, then the maximal run of letters, `-` and `_`
pub open spec fn p_ictx(q: Seq<Option<u8>>) -> Option<(Ast, int)> {
    let k = run(from(q, 1), ic_stop()) as int;
    if !valid_utf8(ic_name(q, k)) { None } else {
        match ic_kind(text_of(ic_name(q, k))) { Some(kd) => Some((Ast::Ictx { kind: kd }, 1 + k)), None => None }
    }
}
//@@ fn gram.parse_input_context = src/input_context_extractor.rs :: fn parse_input_context
//@@ safety C04 C05 C13 C17 C18
//@@ ret r
//@@ rewrite try_io
//@@ header
    requires old(reader).wf(), old(reader).room(), old(reader).cur() is Some,
    ensures final(reader).wf(), final(reader).room(),
        r is Ok ==> (p_ictx(old(reader).pending()) matches Some(an) && r->Ok_0.ast() == an.0
            && final(reader).pending() =~= from(old(reader).pending(), an.1)
            && (final(reader).cur() is None ==> final(reader).pending().len() == 0)), // @obl GRAM.ictx : C04 C13 C17 C18
//@@ body-start
    let ghost p0 = reader.pending();
    let ghost t = from(p0, 1);
    proof { assert(from(t, 0) =~= t); assert(reader.rest() =~= from(p0, 1)); assert(ic_name(p0, 0) =~= Seq::<u8>::empty()); lemma_run_le(t, ic_stop()); }
//@@ loop 1
        invariant_except_break
            reader.wf(), reader.room(), reader.cur() is Some, p0 == old(reader).pending(), t == from(p0, 1), p0.len() >= 1,
            name@.len() + 1 <= p0.len(), reader.rest() =~= from(p0, name@.len() as int + 1),
            name@ =~= ic_name(p0, name@.len() as int),
            run(t, ic_stop()) == name@.len() + run(from(t, name@.len() as int), ic_stop()),
        ensures
            reader.wf(), reader.room(), p0 == old(reader).pending(), t == from(p0, 1),
            run(t, ic_stop()) == name@.len(), name@ =~= ic_name(p0, name@.len() as int),
            reader.pending() =~= from(p0, 1 + name@.len() as int), reader.cur() is None ==> reader.pending().len() == 0,
        decreases reader.rest().len(),
//@@ loop-start 1
        let ghost n = name@.len() as int - (if ic_byte(ch) { 0int } else { 0int });
        proof {
            assert(from(t, n) =~= from(p0, n + 1));
            assert(p0[n + 1] == Some(ch));
            assert(t[n] == Some(ch));
            if ic_byte(ch) {
                lemma_run_step(t, ic_stop(), n);
                assert(from(t, n + 1) =~= t.subrange(n + 1, t.len() as int));
                assert(seg(p0, 1, 1 + n).push(ch) =~= seg(p0, 1, 2 + n));
                assert(ic_name(p0, n).push(ic_norm(ch)) =~= ic_name(p0, n + 1));
                assert(reader.rest() =~= from(p0, n + 2));
            } else {
                lemma_run_stop(t, ic_stop(), n);
                assert(reader.pending() =~= from(p0, n + 1));
            }
        }
//@@ endfn
}

// ------------------------------------------------------------------------------------------------ src/const_getter.rs
pub mod cg {
use super::*;
broadcast use {rdl::group_advance};
//@@ item src/const_getter.rs :: struct ConstGetters
//@@ rewrite pub_fields
//@@ enditem
impl Get for ConstGetters {
    open spec fn ast(&self) -> Ast { Ast::Lit { value: self.value } }
    #[verifier::external_body]
    fn get(&self, value: &Context) -> Option<JsonValue> { unimplemented!() }
}
// the JSON value the pending bytes start with (after white space) and the offset just behind it: the spec parser `pv` of unit
// LEX, named abstractly here. ASSUMED: the clauses of next_json_value's contract that unit LEX proves (L1.post, L1.eof, L3.value)
pub uninterp spec fn lit_at(p: Seq<Option<u8>>) -> Option<(JsonValue, int)>;
pub trait JsonParser {
    fn next_json_value(&mut self) -> (r: std::result::Result<Option<JsonValue>, JsonParserError>);
}
pub open spec fn njv_post<R: Read>(o: &Reader<R>, n: &Reader<R>, r: std::result::Result<Option<JsonValue>, JsonParserError>) -> bool {
    &&& n.wf() && n.room()
    &&& (r is Ok ==> (n.cur() is None ==> n.pending().len() == 0))
    &&& (r is Ok && r->Ok_0 is None ==> n.pending().len() == 0)
    &&& (r is Ok && r->Ok_0 is Some ==> (lit_at(o.pending()) matches Some(vn) && vn.0 == r->Ok_0->0 && 0 < vn.1 <= o.pending().len()
            && n.pending() =~= from(o.pending(), vn.1)))
}
#[verifier::external_body]
pub fn next_json_value_of<R: Read>(reader: &mut Reader<R>) -> (r: std::result::Result<Option<JsonValue>, JsonParserError>)
    requires old(reader).wf(), old(reader).room(),
    ensures njv_post(old(reader), final(reader), r),
{ unimplemented!() }
impl ConstGetters {
//@@ fn gram.const_parse = src/const_getter.rs :: impl ConstGetters :: fn parse
//@@ safety C04 C05 C13 C18
//@@ ret r
//@@ rewrite njv_call
//@@ header
        requires old(reader).wf(), old(reader).room(),
        ensures final(reader).wf(), final(reader).room(),
            r is Ok ==> (final(reader).cur() is None ==> final(reader).pending().len() == 0),
            // a literal is exactly the JSON value the bytes spell
            r is Ok && r->Ok_0 is Some ==> (lit_at(old(reader).pending()) matches Some(vn) && vn.0 == r->Ok_0->0.value && 0 < vn.1 <= old(reader).pending().len()
                && final(reader).pending() =~= from(old(reader).pending(), vn.1)), // @obl GRAM.literal : C04 C13
//@@ insert-after "value.map(|value"
 : JsonValue
//@@ insert-after "value.map(|value|"
 -> (g: ConstGetters) ensures g.value == value, {
//@@ insert-after "ConstGetters { value }"
 }
//@@ endfn
}
}

// ------------------------------------------------------------------------------------------------ src/selection.rs
pub mod sel {
use super::*;
use super::ex::*;
use super::vx::*;
use super::sx::*;
use super::icx::*;
use super::cg::*;
broadcast use {rdl::group_advance, ls::axiom_text_of, ls::axiom_str_bytes_empty};

// the function table (src/functions_definitions.rs): ASSUMED — find_function is a function of the name (aliases denote the
// same definition), FunctionDefinitions::create checks the arity (proved in unit EXPR) and builds the named function applied to
// the argument getters in order
pub uninterp spec fn fn_of(name: Seq<char>) -> Option<int>;
pub uninterp spec fn arity_ok(f: int, n: nat) -> bool;
#[verifier::external_body] pub struct FunctionDefinitions { _p: () }
pub open spec fn asts_of(args: Seq<Rc<dyn Get>>) -> Seq<Ast> { Seq::new(args.len(), |i: int| args[i].ast()) }
impl FunctionDefinitions {
    pub uninterp spec fn id(&self) -> int;
    #[verifier::external_body]
    pub fn create(&self, args: Vec<Rc<dyn Get>>) -> (r: std::result::Result<Rc<dyn Get>, FunctionDefinitionsError>)
        ensures r is Ok ==> arity_ok(self.id(), args@.len()) && r->Ok_0.ast() == (Ast::Call { f: self.id(), args: asts_of(args@) }),
    { unimplemented!() }
}
#[verifier::external_body]
pub fn find_function(name: &str) -> (r: std::result::Result<&'static FunctionDefinitions, FunctionDefinitionsError>)
    ensures r is Ok <==> fn_of(name@) is Some, r is Ok ==> r->Ok_0.id() == fn_of(name@)->0,
{ unimplemented!() }
pub mod vs2 {
use vstd::prelude::*;
use super::super::ls::*;
// str::starts_with(char) for an ASCII character, and `s[1..].to_string()` behind such a character (rewrites starts_with_char / skip_first)
#[verifier::external_body]
pub fn starts_with_char(s: &String, c: char) -> (r: bool)
    requires (c as u32) < 0x80,
    ensures r == (str_bytes(s@).len() > 0 && str_bytes(s@)[0] == c as u8),
{ unimplemented!() }
#[verifier::external_body]
pub fn skip_first_byte(s: &String) -> (r: String)
    requires str_bytes(s@).len() > 0, str_bytes(s@)[0] < 0x80u8,
    ensures str_bytes(r@) == str_bytes(s@).subrange(1, str_bytes(s@).len() as int),
{ unimplemented!() }
}

// ---- THE GRAMMAR (selection help): an expression is, after optional white space, a path (. # ^), a call `(name args..)`, a
// variable / macro reference, an input-context selector, a reference to a selected value, or a JSON literal.
// In a call the arguments are separated by white space or commas — the two are interchangeable — and a name that starts with
// `.` is the same call with the input `.` as an additional first argument.
pub open spec fn root_ast() -> Ast { Ast::Path { parents: 0, steps: Seq::empty() } }
pub open spec fn shift(r: Option<(Ast, int)>, w: int) -> Option<(Ast, int)> { match r { Some((a, n)) => Some((a, w + n)), None => None } }
#[verifier::opaque]
pub open spec fn pe(p: Seq<Option<u8>>) -> Option<(Ast, int)>
    decreases p.len(), 2int
{
    let w = ws_run(p) as int;
    if w < 0 || w >= p.len() { None } else {
        let q = p.subrange(w, p.len() as int);
        match p[w] {
            None => None,
            Some(b) =>
                if b == 0x2eu8 || b == 0x23u8 || b == 0x5eu8 { shift(p_path(q), w) }
                else if b == 0x28u8 { shift(p_call(q), w) }
                else if b == 0x3au8 || b == 0x40u8 { shift(p_var(q), w) }
                else if b == 0x26u8 { shift(p_ictx(q), w) }
                else if b == 0x2fu8 { shift(p_sel(q), w) }
                else { match lit_at(q) { Some((v, n)) => Some((Ast::Lit { value: v }, w + n)), None => None } },
        }
    }
}
// q[0] is `(`
#[verifier::opaque]
pub open spec fn p_call(q: Seq<Option<u8>>) -> Option<(Ast, int)>
    decreases q.len(), 1int
{
    let k = run(from(q, 1), fname_stop()) as int;
    let raw = seg(q, 1, 1 + k);
    if q.len() == 0 || 1 + k > q.len() || !valid_utf8(raw) { None } else {
        let dot = k > 0 && raw[0] == 0x2eu8;
        let nm = if dot { raw.subrange(1, k) } else { raw };
        match fn_of(text_of(nm)) {
            None => None,
            Some(f) => match p_args(q, 1 + k, if dot { seq![root_ast()] } else { Seq::empty() }) {
                Some((args, e)) => if arity_ok(f, args.len()) { Some((Ast::Call { f: f, args: args }, e)) } else { None },
                None => None,
            },
        }
    }
}
// the arguments from offset i of q on, up to and including the closing `)`
#[verifier::opaque]
pub open spec fn p_args(q: Seq<Option<u8>>, i: int, acc: Seq<Ast>) -> Option<(Seq<Ast>, int)>
    decreases q.len() - i, 3int
{
    if i < 0 || i > q.len() { None } else {
        let j = i + ws_run(from(q, i));
        if j >= q.len() { None } else {
            match q[j] {
                None => None,
                Some(b) =>
                    if b == 0x2cu8 { p_args(q, j + 1, acc) }
                    else if b == 0x29u8 { Some((acc, j + 1)) }
                    else { match pe(q.subrange(j, q.len() as int)) {
                        Some((a, n)) => if n <= 0 || j + n > q.len() { None } else { p_args(q, j + n, acc.push(a)) },
                        None => None } },
            }
        }
    }
}
pub proof fn lemma_ws_le(s: Seq<Option<u8>>)
    ensures ws_run(s) <= s.len(),
    decreases s.len(),
{
    if s.len() > 0 && s[0] is Some && is_ws(s[0].unwrap()) { lemma_ws_le(s.subrange(1, s.len() as int)); }
}

// unfolding lemmas for the opaque grammar functions (each restates the definition once)
pub proof fn lemma_pe(p: Seq<Option<u8>>)
    ensures pe(p) == ({
    let w = ws_run(p) as int;
    if w < 0 || w >= p.len() { None } else {
        let q = p.subrange(w, p.len() as int);
        match p[w] {
            None => None,
            Some(b) =>
                if b == 0x2eu8 || b == 0x23u8 || b == 0x5eu8 { shift(p_path(q), w) }
                else if b == 0x28u8 { shift(p_call(q), w) }
                else if b == 0x3au8 || b == 0x40u8 { shift(p_var(q), w) }
                else if b == 0x26u8 { shift(p_ictx(q), w) }
                else if b == 0x2fu8 { shift(p_sel(q), w) }
                else { match lit_at(q) { Some((v, n)) => Some((Ast::Lit { value: v }, w + n)), None => None } },
        }
    } })
{ reveal(pe); reveal(p_call); reveal(p_args); }
pub proof fn lemma_p_call(q: Seq<Option<u8>>)
    ensures p_call(q) == ({
    let k = run(from(q, 1), fname_stop()) as int;
    let raw = seg(q, 1, 1 + k);
    if q.len() == 0 || 1 + k > q.len() || !valid_utf8(raw) { None } else {
        let dot = k > 0 && raw[0] == 0x2eu8;
        let nm = if dot { raw.subrange(1, k) } else { raw };
        match fn_of(text_of(nm)) {
            None => None,
            Some(f) => match p_args(q, 1 + k, if dot { seq![root_ast()] } else { Seq::empty() }) {
                Some((args, e)) => if arity_ok(f, args.len()) { Some((Ast::Call { f: f, args: args }, e)) } else { None },
                None => None,
            },
        }
    } })
{ reveal(pe); reveal(p_call); reveal(p_args); }
pub proof fn lemma_p_args(q: Seq<Option<u8>>, i: int, acc: Seq<Ast>)
    ensures p_args(q, i, acc) == ({
    if i < 0 || i > q.len() { None } else {
        let j = i + ws_run(from(q, i));
        if j >= q.len() { None } else {
            match q[j] {
                None => None,
                Some(b) =>
                    if b == 0x2cu8 { p_args(q, j + 1, acc) }
                    else if b == 0x29u8 { Some((acc, j + 1)) }
                    else { match pe(q.subrange(j, q.len() as int)) {
                        Some((a, n)) => if n <= 0 || j + n > q.len() { None } else { p_args(q, j + n, acc.push(a)) },
                        None => None } },
            }
        }
    } })
{ reveal(pe); reveal(p_call); reveal(p_args); }
// a path that starts with `.`, `#` or `^` is not empty and ends inside the text
pub proof fn lemma_p_steps_bounds(q: Seq<Option<u8>>, i: int, acc: Seq<Step>)
    requires 0 <= i <= q.len(),
    ensures p_steps(q, i, acc) matches Some(se) ==> i <= se.1 <= q.len() && (i < q.len() && (q[i] == Some(0x2eu8) || q[i] == Some(0x23u8)) ==> i < se.1),
    decreases q.len() - i,
{
    if i < q.len() {
        if q[i] == Some(0x2eu8) {
            let k = run(from(q, i + 1), key_stop()) as int;
            if k != 0 && i + 1 + k <= q.len() && valid_utf8(seg(q, i + 1, i + 1 + k)) { lemma_p_steps_bounds(q, i + 1 + k, acc.push(Step::Key(seg(q, i + 1, i + 1 + k)))); }
        } else if q[i] == Some(0x23u8) {
            let d = run(from(q, i + 1), digit_stop()) as int;
            if d != 0 && i + 1 + d <= q.len() {
                match parse_of::<usize>(text_of(seg(q, i + 1, i + 1 + d))) { Some(n) => { lemma_p_steps_bounds(q, i + 1 + d, acc.push(Step::Index(n))); } None => {} }
            }
        }
    }
}
pub proof fn lemma_p_path_pos(q: Seq<Option<u8>>)
    requires q.len() > 0, q[0] == Some(0x2eu8) || q[0] == Some(0x23u8) || q[0] == Some(0x5eu8),
    ensures p_path(q) matches Some(an) ==> 0 < an.1 <= q.len(),
{
    let c = run(q, caret_stop()) as int;
    lemma_run_le(q, caret_stop());
    let t = from(q, c);
    lemma_p_steps_bounds(t, 0, Seq::empty());
    if q[0] == Some(0x5eu8) { assert(c >= 1); } else { assert(c == 0); assert(t =~= q); }
}

//@@ fn gram.read_function_name = src/selection.rs :: fn read_function_name
//@@ safety C04 C05 C13 C18
//@@ ret r
//@@ rewrite try_io
//@@ header
    requires old(reader).wf(), old(reader).room(), old(reader).cur() is Some, !is_ws(old(reader).cur().unwrap()),
    ensures final(reader).wf(), final(reader).room(),
        // the current byte (the `(`) is dropped, then exactly the maximal run of name bytes is the name; a name ends at white
        // space, a control character, `,` `(` or `)` — and at nothing else; the byte that ends it is left as the current byte
        r is Ok ==> ({ let p = old(reader).pending(); let k = run(from(p, 1), fname_stop()) as int;
            str_bytes(r->Ok_0@) == seg(p, 1, 1 + k) && valid_utf8(seg(p, 1, 1 + k)) && 1 + k <= p.len() && final(reader).pending() =~= from(p, 1 + k)
            && (final(reader).cur() is None ==> final(reader).pending().len() == 0) }), // @obl GRAM.function_name : C04 C13 C18
//@@ body-start
    let ghost p0 = reader.pending();
    let ghost t = from(p0, 1);
    proof { assert(from(t, 0) =~= t); assert(reader.rest() =~= from(p0, 1)); assert(seg(p0, 1, 1) =~= Seq::<u8>::empty()); lemma_run_le(t, fname_stop());
            assert(ws_run(p0) == 0); assert(p0.subrange(0, p0.len() as int) =~= p0); }
//@@ loop 1
        invariant_except_break
            reader.wf(), reader.room(), reader.cur() is Some, p0 == old(reader).pending(), t == from(p0, 1), p0.len() >= 1,
            buf@.len() + 1 <= p0.len(), reader.rest() =~= from(p0, buf@.len() as int + 1),
            buf@ =~= seg(p0, 1, 1 + buf@.len() as int),
            run(t, fname_stop()) == buf@.len() + run(from(t, buf@.len() as int), fname_stop()),
        ensures
            reader.wf(), reader.room(), p0 == old(reader).pending(), t == from(p0, 1),
            run(t, fname_stop()) == buf@.len(), buf@ =~= seg(p0, 1, 1 + buf@.len() as int),
            reader.pending() =~= from(p0, 1 + buf@.len() as int), reader.cur() is None ==> reader.pending().len() == 0,
        decreases reader.rest().len(),
//@@ loop-start 1
        let ghost n = buf@.len() as int;
        proof { assert(from(t, n) =~= from(p0, n + 1)); }
//@@ before#1 "break;"
                proof { lemma_run_stop(t, fname_stop(), n); assert(reader.pending().len() == 0); }
//@@ before#2 "break;"
                    proof {
                        assert(p0[n + 1] == Some(ch));
                        assert(t[n] == Some(ch));
                        lemma_run_stop(t, fname_stop(), n);
                        assert(reader.pending() =~= from(p0, n + 1));
                    }
//@@ before "buf.push(ch);"
                proof {
                    assert(p0[n + 1] == Some(ch));
                    assert(t[n] == Some(ch));
                    lemma_run_step(t, fname_stop(), n);
                    assert(from(t, n + 1) =~= t.subrange(n + 1, t.len() as int));
                    assert(seg(p0, 1, 1 + n).push(ch) =~= seg(p0, 1, 2 + n));
                    assert(reader.rest() =~= from(p0, n + 2));
                }
//@@ endfn

//@@ fn gram.parse_function = src/selection.rs :: fn parse_function
//@@ safety C04 C05 C13 C18
//@@ ret r
//@@ rewrite try_io starts_with_char skip_first
//@@ header
    requires old(reader).wf(), old(reader).room(), old(reader).cur() == Some(0x28u8), small(old(reader)),
    ensures final(reader).wf(), final(reader).room(),
        // A CALL: the function the name denotes (a leading `.` adds the input as first argument), applied to exactly the argument
        // expressions found up to the closing `)`, separated by white space and/or commas; unknown name, wrong arity or a missing
        // `)` is an error
        r is Ok ==> (p_call(old(reader).pending()) matches Some(an) && r->Ok_0.ast() == an.0 && 0 < an.1 <= old(reader).pending().len()
            && final(reader).pending() =~= from(old(reader).pending(), an.1)
            && (final(reader).cur() is None ==> final(reader).pending().len() == 0)), // @obl GRAM.call : C04 C13 C18
    decreases old(reader).pending().len(), 0int,
//@@ body-start
    let ghost p0 = reader.pending();
    let ghost k = run(from(p0, 1), fname_stop()) as int;
    let ghost raw = seg(p0, 1, 1 + k);
    proof { lemma_p_call(p0); }
//@@ after "let mut args: Vec<Rc<dyn Get>> = Vec::new();"
    let ghost dot = k > 0 && raw[0] == 0x2eu8;
    let ghost name0 = name@;
    proof { assert(asts_of(args@) =~= Seq::<Ast>::empty()); assert(raw.len() == k); }
//@@ after "args.push(root());"
        proof { assert(asts_of(args@) =~= seq![root_ast()]); }
//@@ after "let function = find_function(&name)?;"
    let ghost nm = if dot { raw.subrange(1, k) } else { raw };
    let ghost f = fn_of(text_of(nm))->0;
    let ghost acc0 = if dot { seq![root_ast()] } else { Seq::<Ast>::empty() };
    proof {
        assert(str_bytes(name@) =~= nm);
        assert(text_of(str_bytes(name@)) == name@);
        assert(asts_of(args@) =~= acc0);
        assert(reader.pending() =~= from(p0, 1 + k));
    }
//@@ loop 1
        invariant_except_break
            reader.wf(), reader.room(), p0 == old(reader).pending(), small(reader), p0.len() < usize::MAX,
            reader.cur() is None ==> reader.pending().len() == 0,
            reader.pending().len() < p0.len(), reader.pending() =~= from(p0, p0.len() - reader.pending().len()),
            p_args(p0, 1 + k, acc0) == p_args(p0, p0.len() - reader.pending().len(), asts_of(args@)),
        ensures
            reader.wf(), reader.room(), p0 == old(reader).pending(), reader.cur() == Some(0x29u8),
            reader.pending().len() < p0.len(), reader.pending().len() > 0, reader.pending() =~= from(p0, p0.len() - reader.pending().len()),
            p_args(p0, 1 + k, acc0) == Some((asts_of(args@), p0.len() - reader.pending().len() + 1)),
        decreases reader.pending().len(),
//@@ loop-start 1
        let ghost i = p0.len() - reader.pending().len();
        let ghost q = reader.pending();
        let ghost acc = asts_of(args@);
        proof { lemma_p_args(p0, i, acc); lemma_ws_le(q); assert(from(p0, i) =~= q); }
//@@ after#1 "reader.eat_whitespace()?;"
        let ghost j = i + ws_run(q);
        proof {
            lemma_from_from(p0, i, ws_run(q) as int);
            assert(reader.pending() =~= from(p0, j));
            if j < p0.len() { assert(reader.pending()[0] == p0[j]); }
        }
//@@ after#1 "reader.next()?;"
                proof { lemma_from_from(p0, j, 1); assert(reader.pending() =~= from(p0, j + 1)); }
//@@ before "let arg = read_getter(reader)?;"
                let ghost qj = reader.pending();
                proof { assert(qj =~= p0.subrange(j, p0.len() as int)); }
//@@ after "args.push(arg);"
                proof {
                    let an = pe(qj)->0;
                    lemma_from_from(p0, j, an.1);
                    assert(reader.pending() =~= from(p0, j + an.1));
                    assert(asts_of(args@) =~= acc.push(an.0));
                }
//@@ after-loop 1
    let ghost e = p0.len() - reader.pending().len() + 1;
    let ghost fargs = asts_of(args@);
//@@ after#2 "reader.next()?;"
    proof { lemma_from_from(p0, e - 1, 1); assert(reader.pending() =~= from(p0, e)); }
//@@ endfn

//@@ fn gram.read_getter = src/selection.rs :: fn read_getter
//@@ safety C04 C05 C13 C18
//@@ ret r
//@@ rewrite try_io
//@@ header
    requires old(reader).wf(), old(reader).room(), small(old(reader)),
    ensures final(reader).wf(), final(reader).room(),
        // THE EXPRESSION: the getter that is built is the one the grammar assigns to the pending bytes — whatever option or
        // argument position they stand in — exactly its text is consumed, and anything the grammar does not accept is an error
        r is Ok ==> (pe(old(reader).pending()) matches Some(an) && r->Ok_0.ast() == an.0 && 0 < an.1 <= old(reader).pending().len()
            && final(reader).pending() =~= from(old(reader).pending(), an.1)
            && (final(reader).cur() is None ==> final(reader).pending().len() == 0)), // @obl GRAM.expression : C04 C13 C18
    decreases old(reader).pending().len(), 1int,
//@@ body-start
    let ghost p0 = reader.pending();
    let ghost w = ws_run(p0) as int;
    proof { lemma_pe(p0); lemma_ws_le(p0); }
//@@ after "reader.eat_whitespace()?;"
    let ghost q = reader.pending();
    proof {
        assert(q =~= p0.subrange(w, p0.len() as int));
        if w < p0.len() { assert(q[0] == p0[w]); }
        assert forall|n: int| 0 <= n implies #[trigger] from(q, n) =~= from(p0, w + n) by { lemma_from_from(p0, w, n); }
        if q.len() > 0 && (q[0] == Some(0x2eu8) || q[0] == Some(0x23u8) || q[0] == Some(0x5eu8)) { lemma_p_path_pos(q); }
        lemma_run_le(from(q, 1), var_stop());
        lemma_run_le(from(q, 1), ic_stop());
        lemma_run_le(from(q, 1), sel_stop());
    }
//@@ endfn
}

} // verus!
fn main() {}
