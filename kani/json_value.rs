// Appended to src/json_value.rs of a scratch copy of /repo (never to /repo itself).
// Loop-free harnesses over full-domain symbolic scalars: each is a complete proof, not a bounded one.
#[cfg(kani)]
mod verif_kani {
    use super::*;
    use std::cmp::Ordering;
    use std::hash::{Hash, Hasher};

    const TWO64: f64 = 18446744073709551616.0;
    const TWO63: f64 = 9223372036854775808.0;
    const TWO53: f64 = 9007199254740992.0;

    fn any_number() -> NumberValue {
        let tag: u8 = kani::any();
        kani::assume(tag < 3);
        match tag {
            0 => NumberValue::Positive(kani::any()),
            1 => NumberValue::Negative(kani::any()),
            _ => NumberValue::Float(kani::any()),
        }
    }
    // what the parser and From<f64> establish
    fn wf(n: &NumberValue) -> bool {
        match n {
            NumberValue::Float(f) => f.is_finite() && (f.fract() != 0.0 || *f >= TWO64 || *f <= -TWO63),
            _ => true,
        }
    }
    // canonical: additionally no `Negative(i)` with i >= 0 (the parser breaks this only for the token `-0`)
    fn canon(n: &NumberValue) -> bool {
        wf(n) && match n { NumberValue::Negative(i) => *i < 0, _ => true }
    }
    // reachable: additionally `Negative(i)` only with i <= 0 — the only constructors of Negative are the parser
    // (tokens starting with `-`) and From<f64> (values < 0)
    fn reach(n: &NumberValue) -> bool {
        wf(n) && match n { NumberValue::Negative(i) => *i <= 0, _ => true }
    }
    // interoperable range: integers below 2^53 in magnitude, or any non-integral / huge double
    fn interop(n: &NumberValue) -> bool {
        match n {
            NumberValue::Positive(u) => *u < (1u64 << 53),
            NumberValue::Negative(i) => *i > -(1i64 << 53) && *i < (1i64 << 53),
            NumberValue::Float(f) => f.fract() != 0.0,
        }
    }

    // V1: From<f64> normalises: integral doubles in (-2^63, 2^64) become the exact integer, the rest stays the same double
    #[kani::proof]
    fn v1_from_f64_normalises() {
        let f: f64 = kani::any();
        kani::assume(f.is_finite());
        let v: JsonValue = f.into();
        match v {
            JsonValue::Number(NumberValue::Positive(u)) => {
                assert!(f.fract() == 0.0 && f >= 0.0 && f < TWO64);
                assert!((u as f64) == f);
                // exactness: u is the mathematical value of f (f integral and < 2^64 => the cast is exact)
                assert!(u as f64 == f && ((u as f64) as u64 == u || f >= TWO63));
            }
            JsonValue::Number(NumberValue::Negative(i)) => {
                assert!(f.fract() == 0.0 && f < 0.0 && f > -TWO63);
                assert!((i as f64) == f && i < 0);
            }
            JsonValue::Number(NumberValue::Float(g)) => {
                assert!(g.to_bits() == f.to_bits());
                assert!(f.fract() != 0.0 || f >= TWO64 || f <= -TWO63);
            }
            _ => assert!(false),
        }
        kani::cover!(f.fract() == 0.0 && f > 0.0 && f < TWO64);
        kani::cover!(f.fract() == 0.0 && f < 0.0 && f > -TWO63);
        kani::cover!(f.fract() != 0.0);
        kani::cover!(f >= TWO64);
    }

    // V1b: the result of From<f64> is always well-formed (so every later obligation may assume wf)
    #[kani::proof]
    fn v1_from_f64_wf() {
        let f: f64 = kani::any();
        kani::assume(f.is_finite());
        let v: JsonValue = f.into();
        if let JsonValue::Number(n) = v { assert!(canon(&n) || matches!(n, NumberValue::Negative(_))); assert!(wf(&n)); } else { assert!(false); }
    }

    // V1x (expected to FAIL on the pinned tree, known finding): From<f64> accepts EVERY double, so a non-finite arithmetic
    // result becomes Float(inf/NaN) — not a well-formed number, and it prints as `inf` / `NaN`, which is not JSON
    #[kani::proof]
    fn v1x_from_f64_total() {
        let f: f64 = kani::any();
        let v: JsonValue = f.into();
        if let JsonValue::Number(n) = v { assert!(wf(&n)); } else { assert!(false); }
    }

    // V2a: cmp is reflexive and antisymmetric on all well-formed numbers
    #[kani::proof]
    fn v2_cmp_reflexive_antisymmetric() {
        let a = any_number();
        let b = any_number();
        kani::assume(wf(&a) && wf(&b));
        assert!(a.cmp(&a) == Ordering::Equal);
        assert!(a.cmp(&b) == b.cmp(&a).reverse());
        kani::cover!(a.cmp(&b) == Ordering::Less);
        kani::cover!(a.cmp(&b) == Ordering::Equal && matches!(a, NumberValue::Float(_)) && matches!(b, NumberValue::Positive(_)));
    }

    // V2x: Ord / PartialOrd for NumberValue return for EVERY pair of numbers — also the non-finite doubles
    // that arithmetic can produce (inf - inf): comparing never panics (C05). (`==` is left out: f64::fract on an infinity
    // computes inf - inf, which CBMC's NaN check flags although Rust does not panic there.)
    #[kani::proof]
    fn v2x_cmp_total() {
        let a = any_number();
        let b = any_number();
        let o = a.cmp(&b);
        let p = a.partial_cmp(&b);
        assert!(p == Some(o));
        kani::cover!(matches!(a, NumberValue::Float(f) if f.is_nan()));
    }

    // V2b: cmp is transitive on all well-formed numbers (triples)
    #[kani::proof]
    fn v2_cmp_transitive() {
        let a = any_number();
        let b = any_number();
        let c = any_number();
        kani::assume(wf(&a) && wf(&b) && wf(&c));
        if a.cmp(&b) != Ordering::Greater && b.cmp(&c) != Ordering::Greater {
            assert!(a.cmp(&c) != Ordering::Greater);
        }
        if a.cmp(&b) == Ordering::Equal && b.cmp(&c) == Ordering::Equal {
            assert!(a.cmp(&c) == Ordering::Equal);
        }
        kani::cover!(a.cmp(&b) == Ordering::Less && b.cmp(&c) == Ordering::Less);
    }

    // exact mathematical comparison of two interoperable numbers, without going through cmp():
    // integers are compared as i128, doubles as doubles (every interoperable integer is exactly representable)
    fn exact_cmp(a: &NumberValue, b: &NumberValue) -> Ordering {
        fn as_i128(n: &NumberValue) -> Option<i128> {
            match n { NumberValue::Positive(u) => Some(*u as i128), NumberValue::Negative(i) => Some(*i as i128), _ => None }
        }
        match (as_i128(a), as_i128(b)) {
            (Some(x), Some(y)) => x.cmp(&y),
            _ => {
                let x: f64 = match a { NumberValue::Positive(u) => *u as f64, NumberValue::Negative(i) => *i as f64, NumberValue::Float(f) => *f };
                let y: f64 = match b { NumberValue::Positive(u) => *u as f64, NumberValue::Negative(i) => *i as f64, NumberValue::Float(f) => *f };
                if x < y { Ordering::Less } else if x > y { Ordering::Greater } else { Ordering::Equal }
            }
        }
    }

    // V2c: in the interoperable range cmp is the exact numeric order, and cmp == Equal exactly when == holds
    #[kani::proof]
    fn v2_cmp_is_numeric_order_and_agrees_with_eq() {
        let a = any_number();
        let b = any_number();
        kani::assume(reach(&a) && reach(&b) && interop(&a) && interop(&b));
        assert!(a.cmp(&b) == exact_cmp(&a, &b));
        assert!((a.cmp(&b) == Ordering::Equal) == (a == b));
        kani::cover!(a == b && matches!(a, NumberValue::Negative(_)) && matches!(b, NumberValue::Positive(_)));
    }

    // V2d: == is an equivalence relation on well-formed numbers (symmetric, reflexive)
    #[kani::proof]
    fn v2_eq_reflexive_symmetric() {
        let a = any_number();
        let b = any_number();
        kani::assume(wf(&a) && wf(&b));
        assert!(a == a);
        assert!((a == b) == (b == a));
    }

    struct LogHasher { words: [u64; 6], n: usize }
    impl Hasher for LogHasher {
        fn finish(&self) -> u64 { 0 }
        fn write(&mut self, bytes: &[u8]) { if self.n < 6 { self.words[self.n] = 0xB000 + bytes.len() as u64; self.n += 1; } }
        fn write_i8(&mut self, i: i8) { if self.n < 6 { self.words[self.n] = 0x100 + (i as u8) as u64; self.n += 1; } }
        fn write_u64(&mut self, i: u64) { if self.n < 6 { self.words[self.n] = i; self.n += 1; } }
        fn write_i64(&mut self, i: i64) { if self.n < 6 { self.words[self.n] = i as u64; self.n += 1; } }
    }
    fn hash_log(n: NumberValue) -> ([u64; 6], usize) {
        let mut h = LogHasher { words: [0; 6], n: 0 };
        JsonValue::Number(n).hash(&mut h);
        (h.words, h.n)
    }

    // V3: Hash agrees with Eq on canonical interoperable numbers: equal numbers feed the hasher the same calls
    #[kani::proof]
    fn v3_hash_coherent_with_eq() {
        let a = any_number();
        let b = any_number();
        kani::assume(canon(&a) && canon(&b) && interop(&a) && interop(&b));
        if a == b {
            let (wa, na) = hash_log(a.clone());
            let (wb, nb) = hash_log(b.clone());
            assert!(na == nb && wa == wb);
        }
        kani::cover!(a == b);
    }

    // V3x (expected to FAIL on the pinned tree, known finding): without the canonical/interoperable restriction
    #[kani::proof]
    fn v3x_hash_coherent_all_numbers() {
        let a = any_number();
        let b = any_number();
        kani::assume(wf(&a) && wf(&b));
        if a == b {
            let (wa, na) = hash_log(a.clone());
            let (wb, nb) = hash_log(b.clone());
            assert!(na == nb && wa == wb);
        }
    }

    // V2y (expected to FAIL on the pinned tree, known finding): the ORDER of two integers is the integer order. Ord for NumberValue
    // compares through `as f64`, so two different integers above 2^53 that share a double compare Equal.
    #[kani::proof]
    fn v2y_integer_order_exact() {
        let x: u64 = kani::any();
        let y: u64 = kani::any();
        assert!(NumberValue::Positive(x).cmp(&NumberValue::Positive(y)) == x.cmp(&y));
        let p: i64 = kani::any();
        let q: i64 = kani::any();
        assert!(NumberValue::Negative(p).cmp(&NumberValue::Negative(q)) == p.cmp(&q));
    }

    // V4: same-variant integers are compared as integers, bit for bit (no detour through a double)
    #[kani::proof]
    fn v4_integer_eq_exact() {
        let x: u64 = kani::any();
        let y: u64 = kani::any();
        assert!((NumberValue::Positive(x) == NumberValue::Positive(y)) == (x == y));
        let p: i64 = kani::any();
        let q: i64 = kani::any();
        assert!((NumberValue::Negative(p) == NumberValue::Negative(q)) == (p == q));
        kani::assume(p < 0);
        assert!(NumberValue::Negative(p) != NumberValue::Positive(x));
        // and hashing an integer feeds the hasher the integer itself
        let (w, n) = hash_log(NumberValue::Positive(x));
        assert!(n == 2 && w[1] == x);
        let (w, n) = hash_log(NumberValue::Negative(p));
        assert!(n == 2 && w[1] == p as u64);
    }

    // V5: type rank used by Ord for JsonValue: null < bool < string < number < object < array
    #[kani::proof]
    fn v5_rank() {
        let n = JsonValue::Null;
        let b = JsonValue::Boolean(kani::any());
        let num = JsonValue::Number(any_number());
        assert!(n.inner_index() < b.inner_index());
        assert!(b.inner_index() < 2 && 2 < num.inner_index());
        assert!(num.inner_index() == 3);
        let t = JsonValue::Boolean(true);
        let f = JsonValue::Boolean(false);
        assert!(f.cmp(&t) == Ordering::Less && n.cmp(&f) == Ordering::Less && t.cmp(&num) == Ordering::Less);
    }

    // V6: TryFrom<NumberValue> for usize (the N of take/take_last/sub/...): Positive(p) fits -> p, everything else is an error
    #[kani::proof]
    fn v6_try_into_usize() {
        let a = any_number();
        let r: Result<usize, CastError> = a.clone().try_into();
        match a {
            NumberValue::Positive(p) => assert!(matches!(r, Ok(s) if s as u64 == p)),
            _ => assert!(r.is_err()),
        }
    }
}
