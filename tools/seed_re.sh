#!/bin/sh
# seed_re.sh <worktree> <name> <props...> : re-evaluate one stored seed (merging with the stored evaluation)
wt=$1; n=$2; shift 2
SEED_MERGE=1 python3 tools/seed_eval.py "$wt" "seeded/$n" "$n" "$@"
