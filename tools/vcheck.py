#!/usr/bin/env python3
"""Driver: ./check <Cnn> [--tier quick|thorough]

Builds the Verus units (and Kani harness groups) that serve the property from /repo's
current working tree, runs the verifiers, maps every diagnostic to a named obligation,
applies the vacuity guards and the known-findings list, writes evidence/<Cnn>.json.

exit 0  every obligation of the property discharged (known findings printed as KNOWN-FINDING)
exit 1  a baseline obligation fails with a semantic diagnostic -> VIOLATION line(s)
exit 2  undecided: lost anchor, unsupported construct, rlimit, tool failure, vacuity guard
"""
import argparse
import concurrent.futures as cf
import hashlib
import json
import os
import re
import shutil
import subprocess
import sys
import time

HERE = os.path.dirname(os.path.abspath(__file__))
VERIF = os.path.dirname(HERE)
sys.path.insert(0, HERE)
import extract  # noqa: E402

REPO = os.environ.get("VERIF_REPO", "/repo")
BUILD = os.environ.get("VERIF_BUILD", os.path.join(VERIF, "build"))
SEMANTIC = [
    "postcondition not satisfied", "precondition not satisfied", "invariant not satisfied",
    "assertion failed", "possible arithmetic underflow/overflow", "decreases not satisfied",
    "possible division by zero", "could not prove termination", "assert_by", "loop invariant",
    "possible bit shift underflow/overflow", "unreachable", "constructed value may fail",
    "failed to satisfy", "not satisfied", "unable to prove",
]
RLIMIT = ["Resource limit (rlimit) exceeded", "rlimit"]


def log(*a):
    print(*a, file=sys.stderr, flush=True)


def load_json(p, default=None):
    if not os.path.exists(p):
        return default
    with open(p) as f:
        return json.load(f)


def run_verus(path, rlimit, multiple_errors, extra=()):
    t0 = time.time()
    cmd = ["verus", path, "--error-format=json", "--output-json", "--time", "--rlimit", str(rlimit),
           "--multiple-errors", str(multiple_errors), "--num-threads", "8"] + list(extra)
    env = dict(os.environ)
    # wall-clock guard: a query the solver cannot finish is "undecided", never a hang (rlimit does not bound every z3 loop)
    tmo = int(os.environ.get("VERIF_VERUS_TIMEOUT", "900"))
    import signal
    pp = subprocess.Popen(cmd, stdout=subprocess.PIPE, stderr=subprocess.PIPE, text=True, cwd=BUILD, env=env, start_new_session=True)
    timed_out = False
    try:
        so, se = pp.communicate(timeout=tmo)
    except subprocess.TimeoutExpired:
        timed_out = True
        try:
            os.killpg(pp.pid, signal.SIGKILL)
        except OSError:
            pass
        so, se = pp.communicate()
    class _P:
        pass
    p = _P()
    p.stdout, p.stderr, p.returncode = so, se, (124 if timed_out else pp.returncode)
    if timed_out:
        p.stderr += '\n{"level": "error", "message": "Resource limit (rlimit) exceeded: verus/z3 did not finish within %d s (wall clock)", "spans": []}\n' % tmo
    diags = []
    for ln in p.stderr.splitlines():
        ln = ln.strip()
        if ln.startswith("{"):
            try:
                diags.append(json.loads(ln))
            except ValueError:
                pass
    out = None
    try:
        out = json.loads(p.stdout)
    except ValueError:
        pass
    return {"cmd": " ".join(cmd), "rc": p.returncode, "diags": diags, "out": out, "stderr": p.stderr,
            "wall": time.time() - t0}


def classify(d):
    msg = d.get("message", "")
    if d.get("level") != "error":
        return None
    if msg.startswith("aborting due to"):
        return None
    for r in RLIMIT:
        if r in msg:
            return "rlimit"
    for s in SEMANTIC:
        if s in msg:
            return "semantic"
    return "other"


class UnitResult:
    def __init__(self, name):
        self.name = name
        self.map = None
        self.obligations = {}   # id -> {"props": [...], "fn": .., "text": ..}
        self.failed = {}        # id -> [diag summaries]
        self.undecided = []     # reasons
        self.fn_times = {}
        self.verified = 0
        self.errors = 0
        self.cmd = ""
        self.wall = 0.0
        self.trusted = []
        self.canary_missing = []
        self.canary_total = 0
        self.tobl_lines = {}
        self.degraded = []
        self.impl_of = {}
        self.rejected = []      # [(function id or None, message)]: Verus refused the unit (unsupported construct ...)


def scan_trusted(gen_path):
    """Mechanical scan of the generated file for everything that is assumed rather than proved."""
    pats = ["external_body", "assume_specification", "uninterp", "assume(", "admit(", "external_type_specification",
            "external_trait_specification", "axiom", "#[verifier::external"]
    out = []
    lines = open(gen_path, encoding="utf-8").read().split("\n")
    for i, ln in enumerate(lines):
        st = ln.strip()
        if st.startswith("//"):
            continue
        for p in pats:
            if p in st:
                # describe by the next line that looks like a signature
                sig = st
                for j in range(i, min(i + 6, len(lines))):
                    t = lines[j].strip()
                    if re.search(r"\b(fn|struct|trait|enum|type)\b", t) and not t.startswith("#"):
                        sig = t
                        break
                sig = re.sub(r"\s+", " ", sig)[:160]
                item = "%s: %s" % (p.strip("(#["), sig)
                if item not in out:
                    out.append(item)
                break
    return out


def _clause_text(gl, line):
    """The clause that ends on `line` (1-based): join the continuation lines above it."""
    parts = [re.sub(r"\s*//\s*@obl.*$", "", gl[line - 1]).strip()]
    k = line - 2
    while k >= 0:
        t = re.sub(r"//.*$", "", gl[k]).strip()
        if not t or t.endswith(",") or t.endswith("{") or t.endswith(";") or t in ("requires", "ensures", "invariant"):
            break
        if re.match(r"^(requires|ensures|invariant|decreases)\b", t):
            t2 = re.sub(r"^(requires|ensures|invariant|decreases)\s*", "", t)
            if t2:
                parts.insert(0, t2)
            break
        parts.insert(0, t)
        k -= 1
    return re.sub(r"^(requires|ensures|invariant)\s+", "", " ".join(parts))


def run_unit(unit, tier):
    res = UnitResult(unit)
    tmpl = os.path.join(VERIF, "units", unit + ".rs")
    os.makedirs(BUILD, exist_ok=True)
    gen = os.path.join(BUILD, unit + ".rs")
    def gen_all(lenient):
        m_ = extract.generate(tmpl, gen, canary=False, lenient=lenient)
        levels = extract.canary_levels(tmpl)
        cans_ = []
        if not levels and m_.get("lemma_obligations"):
            levels = [set()]
        for k, lv in enumerate(levels):
            cp = os.path.join(BUILD, "%s_canary%d.rs" % (unit, k))
            # the twins of the pure-spec lemmas (vacuity guard of their hypotheses) go into the first canary build
            cans_.append((cp, extract.generate(tmpl, cp, canary=lv or {"-"}, lenient=lenient, lemma_canaries=(k == 0))))
        return m_, cans_
    try:
        try:
            m, cans = gen_all(False)
        except extract.ExtractError as e:
            if "lost anchor" not in str(e):
                raise
            # a proof-hint anchor is gone (the function was restructured): retry without the hints that cannot be placed.
            # The contract clauses themselves are attached to the signature and are still checked.
            m, cans = gen_all(True)
            res.degraded = m.get("lost_hints", [])
            if not res.degraded:
                raise
    except extract.OrderViolation as e:
        # decided by the extractor itself: report as a failed obligation `<slice>.order`
        oid = e.fid + ".order"
        res.map = {"functions": [], "lines": [], "ranges": {}, "lost_hints": []}
        res.obligations[oid] = {"props": e.props, "fn": e.fid, "line": 0,
                                "text": "the slice ends before the statement that must follow it (everything fallible is constructed before the pipeline is started / anything is read or written)"}
        res.failed[oid] = [{"message": "statement order violated", "rendered": "extractor: " + e.msg, "spans": []}]
        res.order_only = True
        return res
    except (extract.ExtractError, LookupError) as e:
        res.undecided.append("extract: " + str(e))
        fid = getattr(e, "fid", None)
        if fid:
            # the function / slice itself can no longer be extracted (an anchor statement is gone): its obligations, known
            # from the committed baseline, are no longer discharged; report.py probes them on the real binary
            try:
                bp = json.load(open(os.path.join(VERIF, "baseline", "obligation_props.json"))).get(unit, {})
            except (OSError, ValueError):
                bp = {}
            if bp:
                res.map = {"functions": [], "lines": [], "ranges": {}, "lost_hints": []}
                for oid, o in bp.items():
                    res.obligations[oid] = {"props": o["props"], "fn": o["fn"], "line": 0, "text": o.get("text", "")}
                # a method that is gone from a trait declaration is gone from (or changed in) its implementations too
                meth = fid.split(".")[-1]
                if meth == "*":      # every function of the impl block (impl-methods check)
                    fns = {o["fn"] for o in bp.values() if o.get("fn") and o["fn"].startswith(fid[:-1])}
                else:
                    fns = {o["fn"] for o in bp.values() if o.get("fn") and (o["fn"] == fid or o["fn"].split(".")[-1] == meth)} | {fid}
                res.rejected = [(f, "extraction failed: " + str(e)) for f in sorted(fns)]
        return res
    res.map = m
    json.dump(m, open(gen + ".map.json", "w"), indent=1)
    # registry of obligations
    gl = open(gen, encoding="utf-8").read().split("\n")
    for e in m["lines"]:
        if e["obl"]:
            res.obligations[e["obl"]] = {"props": e["props"], "fn": e["fn"], "line": e["line"],
                                         "text": _clause_text(gl, e["line"])}
    for f in m["functions"]:
        if f["id"].startswith("item:") or f.get("assumed_here"):
            continue
        if f["lines"] and m["ranges"].get(f["id"]):
            res.obligations[f["id"] + ".safety"] = {
                "props": f["safety_props"], "fn": f["id"], "line": m["ranges"][f["id"]][0],
                "text": "implicit obligations of %s (%s:%d-%d): no overflow, no failing unwrap/index, callee preconditions, termination"
                        % (f["id"], f["source"], f["lines"][0], f["lines"][1])}
    res.ext_post = {}
    for f in m["functions"]:
        if f.get("ext_post") and not f.get("assumed_here"):
            oid_ = "%s.%s" % (f["id"], f["ext_post"][0])
            res.ext_post[f["id"]] = oid_
            res.obligations[oid_] = {"props": f["safety_props"], "fn": f["id"], "line": m["ranges"][f["id"]][0],
                                     "text": "[postcondition of the library trait contract, for %s] %s" % (f["id"], f["ext_post"][1])}
    # obligations inherited from a trait-level contract: one per tagged trait clause and implementing function
    tobl = {}
    for e in m["lines"]:
        if e.get("tobl") and e["fn"]:
            tobl.setdefault(e["fn"], {})[e["line"]] = e["tobl"]
    res.tobl_lines = {ln: (tf, tag) for tf, d in tobl.items() for ln, tag in d.items()}
    res.impl_of = {}
    for f in m["functions"]:
        if f["id"].startswith("item:") or f.get("assumed_here"):
            continue
        mm = re.search(r"impl(?:<[^>]*>)?\s+(\w+)(?:<[^>]*>)?\s+for\s+", f["path"])
        meth = re.search(r"fn\s+(\w+)\s*$", f["path"])
        if mm and meth:
            tf = "%s.%s" % (mm.group(1).lower(), meth.group(1))
            if tf in tobl:
                res.impl_of[f["id"]] = tf
                for ln, tag in tobl[tf].items():
                    res.obligations["%s.%s" % (f["id"], tag)] = {
                        "props": f["safety_props"], "fn": f["id"], "line": ln,
                        "text": "[%s of trait contract, for %s] %s" % (tag, f["id"], _clause_text(gl, ln).replace("// @tobl " + tag, "").strip())}
    res.trusted = scan_trusted(gen)
    rl = 60 if tier == "quick" else 300
    me = 4 if tier == "quick" else 12
    with cf.ThreadPoolExecutor(1 + len(cans)) as ex:
        fa = ex.submit(run_verus, gen, rl, me)
        fbs = [ex.submit(run_verus, cp, rl, 2) for cp, _ in cans]
        a = fa.result()
        bs = [f.result() for f in fbs]
    res.cmd = a["cmd"]
    res.wall = max([a["wall"]] + [b["wall"] for b in bs])
    _digest(res, a, m)
    for (cp, mc), b in zip(cans, bs):
        _digest_canary(res, b, mc)
    if tier == "thorough":
        # proof-stability probe: the same obligations under another solver seed must give the same verdicts; a proof that
        # only holds for one seed is a machinery problem (it could flake into a false alarm), reported as undecided
        alt_seed = 1 + int(os.environ.get("VERIF_SEED", "0") or 0)
        alt = UnitResult(unit)
        alt.obligations = dict(res.obligations)
        alt.tobl_lines, alt.impl_of, alt.ext_post = res.tobl_lines, res.impl_of, getattr(res, "ext_post", {})
        a2 = run_verus(gen, rl, me, extra=["--smt-option", "smt.random_seed=%d" % alt_seed])
        _digest(alt, a2, m)
        res.stability = {"alt_seed": alt_seed, "same_verdicts": sorted(alt.failed) == sorted(res.failed),
                         "only_main": sorted(set(res.failed) - set(alt.failed)), "only_alt": sorted(set(alt.failed) - set(res.failed)),
                         "cmd": a2["cmd"]}
        if not res.stability["same_verdicts"]:
            res.undecided.append("proof stability: verdicts differ under smt.random_seed=%d (only in the main run: %s; only in the alternate run: %s)"
                                 % (alt_seed, res.stability["only_main"], res.stability["only_alt"]))
            # an obligation that fails under one seed only is not a decided violation
            for k in res.stability["only_main"]:
                res.failed.pop(k, None)
    return res


def _line_index(m):
    return {e["line"]: e for e in m["lines"]}


def _fn_of_line(m, line):
    for fid, (a, b) in m["ranges"].items():
        if a <= line <= b:
            return fid
    return None


def _digest(res, run, m):
    idx = _line_index(m)
    out = run["out"]
    if out:
        vr = out.get("verification-results", {})
        res.verified = vr.get("verified", 0)
        res.errors = vr.get("errors", 0)
        try:
            for mod in out["times-ms"]["smt"]["smt-run-module-times"]:
                for fb in mod.get("function-breakdown", []):
                    res.fn_times[fb["function"]] = {"ms": fb["time"], "rlimit": fb["rlimit"], "success": fb["success"]}
        except (KeyError, TypeError):
            pass
    any_err = False
    for d in run["diags"]:
        c = classify(d)
        if c is None:
            continue
        any_err = True
        spans = d.get("spans", [])
        rendered = d.get("rendered", d.get("message", ""))
        if c == "rlimit":
            res.undecided.append("rlimit: " + d["message"] + " @ " + _span_str(spans))
            continue
        if c == "other":
            res.undecided.append("verus rejected the unit: " + d["message"] + " @ " + _span_str(spans))
            rfn = None
            for sp in spans:
                rfn = rfn or _fn_of_line(m, sp["line_start"])
            if not hasattr(res, "rejected"):
                res.rejected = []
            if rfn is None:
                # a copied type definition the verifier refuses (e.g. a field whose type changed): every function under
                # contract that comes from the same source file works on that type
                srcf = None
                for sp in spans:
                    e_ = idx.get(sp["line_start"])
                    if e_ and e_.get("src"):
                        srcf = srcf or e_["src"][0]
                for f in m["functions"]:
                    if srcf and f.get("source") == srcf and not f["id"].startswith("item:"):
                        res.rejected.append((f["id"], d["message"]))
            res.rejected.append((rfn, d["message"]))
            continue
        # semantic: find the obligation
        obl = None
        # a trait-level clause violated by an implementing function
        tl = getattr(res, "tobl_lines", {})
        ttag = None
        for sp in spans:
            for ln in range(sp["line_start"], sp["line_end"] + 1):
                if ln in tl:
                    ttag = tl[ln]
        if ttag:
            for sp in spans:
                fn = _fn_of_line(m, sp["line_start"])
                if fn and res.impl_of.get(fn) == ttag[0]:
                    obl = "%s.%s" % (fn, ttag[1])
        for s in sorted(spans, key=lambda s: not s.get("is_primary")):
            if obl:
                break
            for ln in range(s["line_start"], s["line_end"] + 1):
                e = idx.get(ln)
                if e and e["obl"]:
                    obl = e["obl"]
                    break
        if not obl and (d["message"].startswith("postcondition not satisfied") or "post-condition of closure" in d["message"]):
            for s in spans:
                fn = _fn_of_line(m, s["line_start"])
                if fn and fn in getattr(res, "ext_post", {}):
                    obl = res.ext_post[fn]
                    break
        if not obl:
            # implicit obligation: attribute to the function that contains a span (prefer call sites = non primary)
            fn = None
            for s in sorted(spans, key=lambda s: bool(s.get("is_primary"))):
                fn = _fn_of_line(m, s["line_start"])
                if fn:
                    break
            if fn and (fn + ".safety") in res.obligations:
                obl = fn + ".safety"
            else:
                obl = "%s.untagged" % res.name
                res.obligations.setdefault(obl, {"props": ["*"], "fn": None, "line": 0,
                                                 "text": "lemma / template obligation without a tag"})
        res.failed.setdefault(obl, []).append({"message": d["message"], "rendered": rendered,
                                               "spans": [[s["line_start"], s.get("label")] for s in spans]})
    if run["rc"] != 0 and not any_err:
        res.undecided.append("verus exited %d without a diagnostic: %s" % (run["rc"], run["stderr"][-400:]))
    if run["out"] is None and run["rc"] == 0:
        res.undecided.append("verus produced no JSON result")


def _span_str(spans):
    return ",".join("line %d" % s["line_start"] for s in spans[:2])


def _digest_canary(res, run, mc):
    """Every contracted function with a body carries `ensures false` in the canary build: it MUST fail there."""
    can_lines = {e["line"]: e["fn"] for e in mc["lines"] if e.get("canary")}
    res.canary_total += len(can_lines)
    hit = set()
    for d in run["diags"]:
        if classify(d) != "semantic":
            continue
        for s in d.get("spans", []):
            for ln in range(s["line_start"], s["line_end"] + 1):
                if ln in can_lines:
                    hit.add(can_lines[ln])
    rejected = [d for d in run["diags"] if classify(d) == "other"]
    if rejected:
        msg = "canary build rejected: " + rejected[0]["message"]
        if msg not in res.undecided:
            res.undecided.append(msg)
        return
    for fn in set(can_lines.values()) - hit:
        res.canary_missing.append(fn)


# ---------------------------------------------------------------------------

def main():
    ap = argparse.ArgumentParser()
    ap.add_argument("prop")
    ap.add_argument("--tier", default=os.environ.get("VERIF_TIER", "quick"))
    ap.add_argument("--update-baseline", action="store_true")
    ap.add_argument("--replay")
    a = ap.parse_args()
    tier = a.tier if a.tier in ("quick", "thorough") else "quick"
    seed = int(os.environ.get("VERIF_SEED", "0") or 0)
    cfg = load_json(os.path.join(VERIF, "config", "properties.json"))
    if a.replay:
        import replay
        sys.exit(replay.replay_file(a.replay))
    if a.prop not in cfg:
        log("unknown or unclaimed property", a.prop)
        sys.exit(2)
    pc = cfg[a.prop]
    t0 = time.time()
    units = pc.get("verus_units", [])
    results = []
    with cf.ThreadPoolExecutor(max(1, min(4, len(units)))) as ex:
        for r in ex.map(lambda u: run_unit(u, tier), units):
            results.append(r)
    kani_res = None
    if pc.get("kani_harnesses"):
        import kani_run
        kani_res = kani_run.run(pc["kani_harnesses"], tier)

    import report
    rc = report.finish(a.prop, pc, tier, seed, results, kani_res, time.time() - t0, update_baseline=a.update_baseline)
    sys.exit(rc)


if __name__ == "__main__":
    main()
