#!/usr/bin/env python3
"""Replay concrete inputs against the real code (the jawk binary built from /repo's working tree).

Replays document a failed obligation; they never decide a property.
"""
import json
import os
import subprocess
import sys

HERE = os.path.dirname(os.path.abspath(__file__))
VERIF = os.path.dirname(HERE)
REPO = os.environ.get("VERIF_REPO", "/repo")
TARGET = os.environ.get("VERIF_TARGET", os.path.join(VERIF, ".cache", "target"))
_built = {}


def build():
    if "bin" in _built:
        return _built["bin"]
    env = dict(os.environ, CARGO_NET_OFFLINE="true", CARGO_TARGET_DIR=TARGET)
    p = subprocess.run(["cargo", "build", "--offline", "--quiet", "--manifest-path", os.path.join(REPO, "Cargo.toml")],
                       capture_output=True, text=True, env=env)
    if p.returncode != 0:
        _built["bin"] = None
        _built["err"] = p.stderr[-2000:]
        return None
    _built["bin"] = os.path.join(TARGET, "debug", "jawk")
    return _built["bin"]


def run(args, stdin, timeout=20, failing_stdin=False, full_stdout=False, chunks=None):
    b = build()
    if b is None:
        return {"error": "build failed: " + _built.get("err", "")}
    data = stdin.encode("utf-8", "surrogateescape") if isinstance(stdin, str) else bytes(stdin)
    try:
        if failing_stdin:
            # a standard input whose every read FAILS (a directory: read(2) gives EISDIR): the run must report it (C16)
            fd = os.open("/", os.O_RDONLY)
            try:
                p = subprocess.run([b] + list(args), stdin=fd, capture_output=True, timeout=timeout)
            finally:
                os.close(fd)
        elif chunks:
            # the input delivered in several pieces, a pause between them (C17: the output must not depend on the delivery)
            import time
            pr = subprocess.Popen([b] + list(args), stdin=subprocess.PIPE, stdout=subprocess.PIPE, stderr=subprocess.PIPE)
            try:
                for ck in chunks:
                    pr.stdin.write(ck.encode("utf-8", "surrogateescape") if isinstance(ck, str) else bytes(ck))
                    pr.stdin.flush()
                    time.sleep(0.4)
            except OSError:
                pass
            try:
                pr.stdin.close()
            except OSError:
                pass
            pr.stdin = None
            out, err = pr.communicate(timeout=timeout)
            class _P: pass
            p = _P(); p.stdout, p.stderr, p.returncode = out, err, pr.returncode
        elif full_stdout:
            # a standard output on which every write FAILS (/dev/full: ENOSPC): the run must report it (C16)
            with open("/dev/full", "wb") as full:
                p = subprocess.run([b] + list(args), input=data, stdout=full, stderr=subprocess.PIPE, timeout=timeout)
            p.stdout = b""
        else:
            p = subprocess.run([b] + list(args), input=data, capture_output=True, timeout=timeout)
    except subprocess.TimeoutExpired:
        return {"timeout": True, "stdout": "", "stderr": "", "rc": None}
    return {"stdout": p.stdout.decode("utf-8", "replace"), "stderr": p.stderr.decode("utf-8", "replace")[-1500:],
            "rc": p.returncode}


def build_fault():
    """the fault-injection harness tools/faultreplay: jawk::go of the tree under test on a standard input whose read fails at one offset"""
    if "fault" in _built:
        return _built["fault"]
    import shutil
    src = os.path.join(HERE, "faultreplay")
    tdir = TARGET.rstrip("/") + "-fault"
    crate = os.path.join(tdir, "crate")
    os.makedirs(os.path.join(crate, "src"), exist_ok=True)
    shutil.copy(os.path.join(src, "src", "main.rs"), os.path.join(crate, "src", "main.rs"))
    with open(os.path.join(src, "Cargo.toml.in")) as f:
        toml = f.read().replace("@REPO@", os.path.abspath(REPO))
    with open(os.path.join(crate, "Cargo.toml"), "w") as f:
        f.write(toml)
    if os.path.exists(os.path.join(REPO, "Cargo.lock")):
        shutil.copy(os.path.join(REPO, "Cargo.lock"), os.path.join(crate, "Cargo.lock"))
    env = dict(os.environ, CARGO_NET_OFFLINE="true", CARGO_TARGET_DIR=tdir)
    p = subprocess.run(["cargo", "build", "--offline", "--quiet", "--manifest-path", os.path.join(crate, "Cargo.toml")],
                       capture_output=True, text=True, env=env)
    if p.returncode != 0:
        _built["fault"] = None
        _built["fault_err"] = p.stderr[-2000:]
        return None
    _built["fault"] = os.path.join(tdir, "debug", "faultreplay")
    return _built["fault"]


def run_fault_sweep(args, stdin, timeout=20):
    """C16: for EVERY byte offset k of the input (and the end-of-input position), a read that fails there — for good, or once — must
    make the run fail (exit status of an Err, no panic, never success), and what was printed must be a prefix of the fault-free output"""
    b = build_fault()
    if b is None:
        return {"error": "fault harness build failed: " + _built.get("fault_err", "")}
    data = stdin.encode("utf-8", "surrogateescape") if isinstance(stdin, str) else bytes(stdin)
    def one(k, transient):
        try:
            p = subprocess.run([b, str(k), "1" if transient else "0"] + list(args), input=data, capture_output=True, timeout=timeout)
        except subprocess.TimeoutExpired:
            return {"timeout": True, "rc": None, "stdout": b"", "stderr": b""}
        return {"rc": p.returncode, "stdout": p.stdout, "stderr": p.stderr}
    clean = one(len(data) + 10, False)
    if clean.get("rc") != 0:
        return {"error": "the fault-free run of the sweep input does not succeed (rc %s): %s" % (clean.get("rc"), clean.get("stderr", b"")[-300:])}
    for k in range(len(data) + 1):
        for transient in (False, True):
            r = one(k, transient)
            ok = r.get("rc") == 3 and clean["stdout"].startswith(r["stdout"])
            if not ok:
                return {"fault_at": k, "transient": transient, "rc": r.get("rc"), "timeout": r.get("timeout", False),
                        "stdout": r["stdout"].decode("utf-8", "replace"), "stderr": r["stderr"].decode("utf-8", "replace")[-600:],
                        "fault_free_stdout": clean["stdout"].decode("utf-8", "replace"), "sweep_failed": True}
    return {"rc": 3, "stdout": "", "stderr": "", "sweep": "every offset 0..%d, persistent and transient: failed with an error, output a prefix" % len(data)}


def run_write_fault_sweep(args, stdin, timeout=20):
    """C16: for EVERY byte offset k of the fault-free output, a write that fails there must make the run fail (an Err, no panic, never
    success), and what reached the output before is exactly the first k bytes of the fault-free output"""
    b = build_fault()
    if b is None:
        return {"error": "fault harness build failed: " + _built.get("fault_err", "")}
    data = stdin.encode("utf-8", "surrogateescape") if isinstance(stdin, str) else bytes(stdin)
    def one(spec):
        try:
            p = subprocess.run([b, spec, "0"] + list(args), input=data, capture_output=True, timeout=timeout)
        except subprocess.TimeoutExpired:
            return {"timeout": True, "rc": None, "stdout": b"", "stderr": b""}
        return {"rc": p.returncode, "stdout": p.stdout, "stderr": p.stderr}
    clean = one(str(len(data) + 10))
    if clean.get("rc") != 0:
        return {"error": "the fault-free run of the sweep input does not succeed (rc %s)" % clean.get("rc")}
    total = len(clean["stdout"])
    for k in range(total):
        r = one("w%d" % k)
        ok = r.get("rc") == 3 and r["stdout"] == clean["stdout"][:k]
        if not ok:
            return {"write_fault_at": k, "rc": r.get("rc"), "timeout": r.get("timeout", False), "stdout": r["stdout"].decode("utf-8", "replace"),
                    "stderr": r["stderr"].decode("utf-8", "replace")[-600:], "fault_free_stdout": clean["stdout"].decode("utf-8", "replace"), "sweep_failed": True}
    return {"rc": 3, "stdout": "", "stderr": "", "sweep": "a failing write at every offset 0..%d of the output: failed with an error, exactly the bytes before it were written" % total}


def run_endless(args, line, via_file, timeout=10):
    """An UNBOUNDED input: `line` repeated for ever, on stdin or through a named pipe given as the file argument {FIFO}.
    The run must end by itself (C14); a run still going after `timeout` seconds is killed and reported as a timeout."""
    import shutil, tempfile, threading, time
    b = build()
    if b is None:
        return {"error": "build failed: " + _built.get("err", "")}
    tmp = tempfile.mkdtemp(prefix="jawk-probe-")
    fifo = os.path.join(tmp, "in.fifo")
    os.mkfifo(fifo)
    so, se = open(os.path.join(tmp, "out"), "wb"), open(os.path.join(tmp, "err"), "wb")
    argv = [b] + [a.replace("{FIFO}", fifo) for a in args]
    p = subprocess.Popen(argv, stdin=subprocess.DEVNULL if via_file else subprocess.PIPE, stdout=so, stderr=se)
    stop = threading.Event()
    fed = [0]

    def feed():
        data = line.encode("utf-8")
        block = data * (65536 // max(1, len(data)) + 1)
        fd = None
        try:
            if via_file:
                while fd is None and not stop.is_set():
                    try:
                        fd = os.open(fifo, os.O_WRONLY | os.O_NONBLOCK)
                    except OSError:
                        time.sleep(0.01)
            else:
                fd = p.stdin.fileno()
                os.set_blocking(fd, False)
            while fd is not None and not stop.is_set():
                try:
                    fed[0] += os.write(fd, block)
                except BlockingIOError:
                    pass
                time.sleep(0.005)
        except OSError:
            pass          # EPIPE: the reader went away, which is what C14 expects
        finally:
            if via_file and fd is not None:
                try:
                    os.close(fd)
                except OSError:
                    pass
    t = threading.Thread(target=feed, daemon=True)
    t.start()
    try:
        rc = p.wait(timeout=timeout)
        obs = {"rc": rc}
    except subprocess.TimeoutExpired:
        p.kill()
        p.wait()
        obs = {"timeout": True, "rc": None}
    stop.set()
    t.join(2)
    so.close(); se.close()
    obs["stdout"] = open(os.path.join(tmp, "out"), "rb").read()[:100000].decode("utf-8", "replace")
    obs["stderr"] = open(os.path.join(tmp, "err"), "rb").read()[-1500:].decode("utf-8", "replace")
    obs["bytes_offered"] = fed[0]
    shutil.rmtree(tmp, ignore_errors=True)
    return obs


def run_probe(probe):
    """probe: {args, stdin | stdin_hex, expect_stdout? , expect_rc?, expect_no_panic?}
    or {steps: [{args, stdin}...], expect: "<python expression over o = list of stdouts, rc = list of exit codes>"}.
    Returns (ok, observed)."""
    if "steps" in probe:
        obs = []
        for st in probe["steps"]:
            stdin = bytes.fromhex(st["stdin_hex"]) if "stdin_hex" in st else st.get("stdin", "")
            if "stdin_from" in st:      # the output of an earlier step is this step's input (C02: fixpoint)
                stdin = obs[st["stdin_from"]].get("stdout", "")
            r = run(st.get("args", []), stdin)
            if "error" in r:
                return None, r
            obs.append(r)
        o = [x.get("stdout", "") for x in obs]
        rc = [x.get("rc") for x in obs]
        try:
            ok = bool(eval(probe["expect"], {"o": o, "rc": rc, "len": len}))
        except Exception as e:  # an expectation that cannot be evaluated on this output is a failed expectation
            ok = False
            obs.append({"expect_error": repr(e)})
        if any(x == 101 for x in rc):
            ok = False
        return ok, obs
    if "files" in probe:
        # input FILES: written into a scratch directory; `{DIR}` in an argument is that directory (a name that is not listed is a
        # file that does not exist). A value is the file's text, or {"hex": ".."} for arbitrary bytes.
        import shutil, tempfile
        tmp = tempfile.mkdtemp(prefix="jawk-probe-")
        try:
            for name, content in probe["files"].items():
                fp = os.path.join(tmp, name)
                os.makedirs(os.path.dirname(fp), exist_ok=True)
                data = bytes.fromhex(content["hex"]) if isinstance(content, dict) else content.encode("utf-8")
                with open(fp, "wb") as fh:
                    fh.write(data)
            args = [a.replace("{DIR}", tmp) for a in probe.get("args", [])]
            stdin = bytes.fromhex(probe["stdin_hex"]) if "stdin_hex" in probe else probe.get("stdin", "")
            obs = run(args, stdin, full_stdout=bool(probe.get("full_stdout")))
            for k in ("stdout", "stderr"):
                if isinstance(obs.get(k), str):
                    obs[k] = obs[k].replace(tmp, "{DIR}")
        finally:
            shutil.rmtree(tmp, ignore_errors=True)
    elif probe.get("fault_sweep"):
        obs = run_fault_sweep(probe.get("args", []), bytes.fromhex(probe["stdin_hex"]) if "stdin_hex" in probe else probe.get("stdin", ""))
        if "error" in obs:
            return None, obs
        return (not obs.get("sweep_failed")), obs
    elif probe.get("write_fault_sweep"):
        obs = run_write_fault_sweep(probe.get("args", []), bytes.fromhex(probe["stdin_hex"]) if "stdin_hex" in probe else probe.get("stdin", ""))
        if "error" in obs:
            return None, obs
        return (not obs.get("sweep_failed")), obs
    elif "endless" in probe:
        obs = run_endless(probe.get("args", []), probe["endless"], any("{FIFO}" in a for a in probe.get("args", [])))
    else:
        stdin = bytes.fromhex(probe["stdin_hex"]) if "stdin_hex" in probe else probe.get("stdin", "")
        obs = run(probe.get("args", []), stdin, failing_stdin=bool(probe.get("failing_stdin")), full_stdout=bool(probe.get("full_stdout")), chunks=probe.get("chunks"))
    if "error" in obs:
        return None, obs
    ok = True
    if obs.get("timeout"):
        ok = False
    if "expect_stdout" in probe and obs.get("stdout") != probe["expect_stdout"]:
        ok = False
    if "expect_rc" in probe and obs.get("rc") != probe["expect_rc"]:
        ok = False
    if "expect_rc_nonzero" in probe and (obs.get("rc") == 0) == bool(probe["expect_rc_nonzero"]):
        ok = False
    if "expect_stderr_empty" in probe and (obs.get("stderr", "") == "") != bool(probe["expect_stderr_empty"]):
        ok = False
    if "expect_stderr_contains" in probe and probe["expect_stderr_contains"] not in obs.get("stderr", ""):
        ok = False
    if probe.get("expect_no_panic", True) and obs.get("rc") == 101:
        ok = False
    return ok, obs


def replay_file(path):
    r = json.load(open(path))
    bad = 0
    for w in r.get("failing_inputs", []):
        ok, obs = run_probe(w["probe"])
        print(json.dumps({"probe": w["probe"], "observed": obs, "meets_expectation": ok}, indent=1))
        if ok is False:
            bad += 1
    if not r.get("failing_inputs"):
        print("no failing input recorded; failed obligation(s):")
        for o in r.get("obligations", []):
            print(" -", o.get("id"), ":", o.get("clause"))
            print(o.get("verifier_output", ""))
        return 1
    return 1 if bad else 0


if __name__ == "__main__":
    sys.exit(replay_file(sys.argv[1]))
