#!/usr/bin/env python3
"""seed_eval.py <worktree> <seed-dir> <name> [props...]
1. confirm the seeded change: demo passes on HEAD, suite passes with the patch, demo fails with the patch;
2. store it under /verif/seeded/<name>/;
3. run the given checks against the patched worktree (VERIF_REPO=<worktree>, scratch build/out dirs) and record who catches it."""
import json, os, shutil, subprocess, sys, tempfile, time
wt, sd, name = sys.argv[1:4]
sd = os.path.abspath(sd)
props = sys.argv[4:]
V = os.path.dirname(os.path.dirname(os.path.abspath(__file__)))
def sh(cmd, cwd=wt, env=None, timeout=3000):
    p = subprocess.run(cmd, shell=True, cwd=cwd, capture_output=True, text=True, env=env, timeout=timeout)
    return p.returncode, p.stdout + p.stderr
meta = {"name": name, "ran": []}
head = subprocess.run(["git", "-C", "/repo", "rev-parse", "HEAD"], capture_output=True, text=True).stdout.strip()
sh("git checkout -- . && git clean -fdq src && git checkout -q --detach %s" % head)
meta["base"] = head
rc0, o0 = sh("bash %s/demo.sh" % sd); meta["demo_on_head_rc"] = rc0
rca, oa = sh("git apply %s/patch.diff" % sd); meta["apply_rc"] = rca
rct, ot = sh("cargo test --offline 2>&1 | grep -E '^test result' "); meta["tests_with_patch"] = ot.strip().splitlines()
tests_ok = all(" 0 failed" in l for l in meta["tests_with_patch"]) and len(meta["tests_with_patch"]) >= 2
rc1, o1 = sh("bash %s/demo.sh" % sd); meta["demo_with_patch_rc"] = rc1; meta["demo_with_patch_out"] = o1[-800:]
meta["confirmed"] = (rc0 == 0 and rca == 0 and tests_ok and rc1 != 0)
meta["ran"] += ["bash demo.sh on HEAD (rc %d)" % rc0, "git apply patch.diff", "cargo test --offline (%s)" % ("all passed" if tests_ok else "FAILED"), "bash demo.sh with patch (rc %d)" % rc1]
dst = os.path.join(V, "seeded", name)
os.makedirs(dst, exist_ok=True)
for f in ("patch.diff", "demo.sh", "notes.md"):
    if os.path.exists(os.path.join(sd, f)) and os.path.abspath(sd) != os.path.abspath(dst):
        shutil.copy(os.path.join(sd, f), dst)
res = {}
if meta["confirmed"]:
    scratch = tempfile.mkdtemp(prefix="seedrun-")
    env = dict(os.environ, VERIF_REPO=wt, VERIF_BUILD=os.path.join(scratch, "build"), VERIF_OUT=scratch,
               VERIF_TARGET=os.path.join(wt, "target"), VERIF_NO_CACHE="0")
    for p in props:
        rc, out = sh("./check %s" % p, cwd=V, env=env)
        res[p] = {"rc": rc, "lines": [l for l in out.splitlines() if l.startswith(("VIOLATION", "UNDECIDED", "KNOWN"))][:6] + out.strip().splitlines()[-1:]}
    shutil.rmtree(scratch, ignore_errors=True)
meta["checks"] = res
meta["caught_by"] = [p for p, r in res.items() if r["rc"] == 1]
meta["verif_commit"] = subprocess.run(["git", "-C", V, "rev-parse", "--short", "HEAD"], capture_output=True, text=True).stdout.strip()
sh("git checkout -- . && git clean -fdq src")
old = {}
mp = os.path.join(dst, "meta.json")
if os.path.exists(mp):
    old = json.load(open(mp))
if os.environ.get("SEED_MERGE") == "1" and old.get("checks") and old.get("base") == meta.get("base"):
    merged = dict(old["checks"]); merged.update(res)
    meta["checks"] = merged
    meta["caught_by"] = [p for p, r in merged.items() if r["rc"] == 1]
old.update(meta)
json.dump(old, open(mp, "w"), indent=1)
print(json.dumps({k: meta[k] for k in ("name", "confirmed", "caught_by")}), flush=True)
for p, r in res.items():
    print("  ", p, r["rc"], r["lines"])
