#!/usr/bin/env python3
"""Run loop-free Kani harnesses on a scratch copy of /repo (harness modules appended under #[cfg(kani)])."""
import hashlib
import json
import os
import re
import shutil
import struct
import subprocess
import sys
import tempfile
import time

HERE = os.path.dirname(os.path.abspath(__file__))
VERIF = os.path.dirname(HERE)
REPO = os.environ.get("VERIF_REPO", "/repo")
CACHE = os.path.join(VERIF, ".cache", "kani")


def _tree_hash(files_extra):
    h = hashlib.sha256()
    for root, dirs, files in os.walk(os.path.join(REPO, "src")):
        dirs.sort()
        for f in sorted(files):
            p = os.path.join(root, f)
            h.update(os.path.relpath(p, REPO).encode())
            h.update(open(p, "rb").read())
    for f in ("Cargo.toml", "Cargo.lock"):
        h.update(open(os.path.join(REPO, f), "rb").read())
    for f in files_extra:
        h.update(open(f, "rb").read())
    h.update(b"kani-0.68.0")
    return h.hexdigest()


def _parse(out):
    """terse -j output -> {harness_short_name: {...}}"""
    res = {}
    cur = {}
    lines = out.splitlines()
    i = 0
    solo = None
    while i < len(lines):
        ln = lines[i]
        m = re.match(r"^(?:Thread (\d+): )?Checking harness (\S+?)\.\.\.$", ln)
        if m:
            t = m.group(1) or "solo"
            cur[t] = m.group(2).split("::")[-1]
            i += 1
            continue
        m = re.match(r"^Thread (\d+): \s*$", ln)
        t = None
        if m:
            t = m.group(1)
        elif ln.startswith("VERIFICATION RESULT:") and "solo" in cur:
            t = "solo"
            i -= 1
        if t is not None and t in cur:
            name = cur[t]
            block = []
            i += 1
            while i < len(lines):
                block.append(lines[i])
                if lines[i].startswith("Verification Time:"):
                    break
                i += 1
            txt = "\n".join(block)
            r = {"raw": txt}
            if "VERIFICATION:- SUCCESSFUL" in txt:
                r["status"] = "SUCCESS"
            elif "VERIFICATION:- FAILED" in txt:
                r["status"] = "FAILURE"
            else:
                r["status"] = "ERROR"
            mm = re.search(r"\*\* (\d+) of (\d+) failed", txt)
            if mm:
                r["checks"] = int(mm.group(2))
                r["failed_checks"] = int(mm.group(1))
            mm = re.search(r"\*\* (\d+) of (\d+) cover properties satisfied", txt)
            if mm:
                r["covers"] = [int(mm.group(1)), int(mm.group(2))]
            mm = re.search(r"Verification Time: ([\d.]+)s", txt)
            if mm:
                r["time"] = float(mm.group(1))
            r["failure"] = "\n".join(l for l in block if l.startswith("Failed Checks") or l.startswith(" File:"))
            res[name] = r
        i += 1
    return res


def _decode_playback(out, layout):
    """First concrete playback test -> list of python values following `layout`."""
    m = re.search(r"let concrete_vals: Vec<Vec<u8>> = vec!\[(.*?)\];", out, re.S)
    if not m:
        return None
    vecs = [bytes(int(x) for x in v.split(",") if x.strip()) for v in re.findall(r"vec!\[([^\]]*)\]", m.group(1))]
    vals = []
    k = 0
    try:
        for ty in layout:
            if ty == "num":
                tag = vecs[k][0]
                k += 1
                raw = vecs[k]
                k += 1
                if tag == 0:
                    vals.append({"variant": "Positive", "value": struct.unpack("<Q", raw)[0]})
                elif tag == 1:
                    vals.append({"variant": "Negative", "value": struct.unpack("<q", raw)[0]})
                else:
                    vals.append({"variant": "Float", "value": struct.unpack("<d", raw)[0], "bits": raw.hex()})
            elif ty == "f64":
                vals.append({"variant": "f64", "value": struct.unpack("<d", vecs[k])[0]})
                k += 1
            elif ty == "u64":
                vals.append({"variant": "u64", "value": struct.unpack("<Q", vecs[k])[0]})
                k += 1
            elif ty == "i64":
                vals.append({"variant": "i64", "value": struct.unpack("<q", vecs[k])[0]})
                k += 1
    except (IndexError, struct.error):
        return None
    return vals


def _json_num(v):
    if v["variant"] == "Float" or v["variant"] == "f64":
        return repr(v["value"])
    return str(v["value"])


def _probes(kind, vals):
    """Turn Kani's concrete values into jawk invocations (replays against the real binary)."""
    if not vals or not kind:
        return []
    try:
        if kind == "unique_pair":
            a, b = _json_num(vals[0]), _json_num(vals[1])
            return [{"steps": [{"args": ["--select", "(= #0 #1)=eq"], "stdin": "[%s, %s]\n" % (a, b)},
                               {"args": ["--unique"], "stdin": "%s\n%s\n" % (a, b)}],
                     "expect": "('true' in o[0]) == (len(o[1].splitlines()) == 1)",
                     "what": "`=` and --unique must agree on whether %s and %s are duplicates" % (a, b)}]
        if kind == "sort_pair":
            a, b = _json_num(vals[0]), _json_num(vals[1])
            return [{"steps": [{"args": ["--sort-by", "."], "stdin": "%s\n%s\n" % (a, b)},
                               {"args": ["--sort-by", "."], "stdin": "%s\n%s\n" % (b, a)},
                               {"args": ["--select", "(< #0 #1)=lt", "--select", "(> #0 #1)=gt", "--select", "(= #0 #1)=eq"], "stdin": "[%s, %s]\n" % (a, b)}],
                     "expect": "(o[0] == o[1] or 'true' in o[2].split('eq')[1]) and (('true' in o[2].split('gt')[0]) == (o[0].splitlines()[0].strip() == %r and o[0].splitlines()[0] != o[0].splitlines()[1]))" % a,
                     "what": "sorting %s and %s must not depend on input order unless they are equal, and `<` must agree with the sort" % (a, b)}]
    except Exception:
        return []
    return []


def run(harness_names, tier):
    idx = json.load(open(os.path.join(VERIF, "kani", "index.json")))
    t0 = time.time()
    result = {"harnesses": {}, "undecided": [], "trusted": [
        "kani/cbmc: rustc MIR -> goto translation of Kani 0.68 and CBMC 6.11's bit-precise float/integer semantics are trusted",
        "kani: std library code reached by the harness (f64::fract, total_cmp, as-casts) is verified as compiled, not assumed"]}
    need = [h for h in harness_names if h in idx["harnesses"]]
    for h in harness_names:
        if h not in idx["harnesses"]:
            result["undecided"].append("unknown harness " + h)
    files = sorted({idx["harnesses"][h]["file"] for h in need})
    hfiles = [os.path.join(VERIF, "kani", f) for f in files]
    key = _tree_hash(hfiles)
    os.makedirs(CACHE, exist_ok=True)
    cpath = os.path.join(CACHE, key + ".json")
    cache = json.load(open(cpath)) if os.path.exists(cpath) else {}
    use_cache = tier == "quick" and os.environ.get("VERIF_NO_CACHE") != "1"
    todo = [h for h in need if not (use_cache and h in cache)]
    solver = [] if tier == "quick" else ["--solver", "kissat"]
    cmd_s = "cargo kani -j 12 --output-format terse %s--harness <%d harnesses> (scratch copy of /repo + kani/*.rs appended under #[cfg(kani)])" % (
        "--solver kissat " if solver else "", len(need))
    result["cmd"] = cmd_s
    fresh = {}
    if todo:
        scratch = tempfile.mkdtemp(prefix="jawk-kani-")
        try:
            subprocess.run(["rsync", "-a", "--exclude", "target", "--exclude", ".git", "--exclude", "book", "--exclude", "docker",
                            REPO + "/", scratch + "/"], check=True)
            for f in files:
                dst = os.path.join(scratch, idx["files"][f])
                if not os.path.exists(dst):
                    result["undecided"].append("lost anchor: %s does not exist" % idx["files"][f])
                    continue
                with open(dst, "a") as out:
                    out.write("\n" + open(os.path.join(VERIF, "kani", f)).read())
            env = dict(os.environ, CARGO_NET_OFFLINE="true")
            cmd = ["cargo", "kani", "-j", "12", "--output-format", "terse"] + solver
            for h in todo:
                cmd += ["--harness", h]
            p = subprocess.run(cmd, cwd=scratch, capture_output=True, text=True, env=env, timeout=3000)
            out = p.stdout + "\n" + p.stderr
            parsed = _parse(out)
            if not parsed:
                result["undecided"].append("kani produced no harness result (build failure?): " + out[-1500:])
            for h in todo:
                if h not in parsed:
                    if parsed:
                        result["undecided"].append("no result for harness " + h)
                    continue
                r = parsed[h]
                # an unsatisfied cover only means "vacuous" when nothing failed: after a failed assertion/panic the rest of
                # the harness is unreachable and its covers are unsatisfied for that reason
                if r["status"] != "FAILURE" and r.get("covers") and r["covers"][0] != r["covers"][1]:
                    r["status"] = "ERROR"
                    r["failure"] = "vacuity guard: only %d of %d kani::cover! satisfied" % tuple(r["covers"])
                if r["status"] == "FAILURE":
                    # ask for the concrete counterexample
                    q = subprocess.run(["cargo", "kani", "--harness", h, "-Z", "concrete-playback", "--concrete-playback=print",
                                        "--output-format", "terse"], cwd=scratch, capture_output=True, text=True, env=env, timeout=3000)
                    vals = _decode_playback(q.stdout + q.stderr, idx["harnesses"][h].get("layout", []))
                    r["playback"] = {"values": vals, "probes": _probes(idx["harnesses"][h].get("probe"), vals)}
                r.pop("raw", None)
                fresh[h] = r
        except subprocess.TimeoutExpired:
            result["undecided"].append("cargo kani timed out")
        finally:
            shutil.rmtree(scratch, ignore_errors=True)
        if tier == "quick":
            cache.update(fresh)
            json.dump(cache, open(cpath, "w"))
    for h in need:
        r = fresh.get(h) or (cache.get(h) if use_cache else None)
        if r is None:
            continue
        meta = idx["harnesses"][h]
        result["harnesses"][h] = dict(r, props=meta["props"], doc=meta["doc"], fn=meta.get("fn"), bounded=meta.get("bounded"),
                                      from_cache=h not in fresh)
    result["wall"] = round(time.time() - t0, 1)
    result["cache_note"] = "quick tier reuses per-harness results keyed by sha256(src/**, Cargo.toml, Cargo.lock, harness file); thorough tier always re-runs"
    return result


if __name__ == "__main__":
    print(json.dumps(run(sys.argv[2:], sys.argv[1]), indent=1))
