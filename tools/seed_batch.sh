#!/bin/sh
# seed_batch.sh <worktree> <props...> : evaluate every seed under <worktree>/out/ one after the other
wt=$1; shift
for d in "$wt"/out/*/; do
  n=$(basename "$d")
  python3 tools/seed_eval.py "$wt" "$d" "$n" "$@"
done
