"""Minimal Rust lexer and item locator used by the extractor.

It understands exactly what is needed to find an item by *path* (never by line
number) and to copy its text byte for byte: comments, string / raw string /
byte string / char literals, lifetimes, nested (), [], {}.
"""
import re

IDENT_START = set("abcdefghijklmnopqrstuvwxyzABCDEFGHIJKLMNOPQRSTUVWXYZ_")
IDENT_CONT = IDENT_START | set("0123456789")


class LexError(Exception):
    pass


class Tok:
    __slots__ = ("kind", "text", "start", "end")

    def __init__(self, kind, text, start, end):
        self.kind, self.text, self.start, self.end = kind, text, start, end

    def __repr__(self):
        return "%s(%r@%d)" % (self.kind, self.text, self.start)


def lex(src, keep_comments=False):
    """Return the list of tokens of `src` (comments and blanks dropped)."""
    toks = []
    i, n = 0, len(src)
    while i < n:
        c = src[i]
        if c in " \t\r\n":
            i += 1
            continue
        if src.startswith("//", i):
            j = src.find("\n", i)
            j = n if j < 0 else j
            if keep_comments:
                toks.append(Tok("comment", src[i:j], i, j))
            i = j
            continue
        if src.startswith("/*", i):
            depth, j = 1, i + 2
            while j < n and depth:
                if src.startswith("/*", j):
                    depth += 1
                    j += 2
                elif src.startswith("*/", j):
                    depth -= 1
                    j += 2
                else:
                    j += 1
            if keep_comments:
                toks.append(Tok("comment", src[i:j], i, j))
            i = j
            continue
        # raw strings r"..", r#".."#, br#".."#
        m = re.match(r'(b|c)?r(#*)"', src[i:i + 40])
        if m:
            hashes = m.group(2)
            close = '"' + hashes
            j = src.find(close, i + m.end())
            if j < 0:
                raise LexError("unterminated raw string at %d" % i)
            j += len(close)
            toks.append(Tok("str", src[i:j], i, j))
            i = j
            continue
        if c == '"' or (c in "bc" and i + 1 < n and src[i + 1] == '"'):
            j = i + (1 if c == '"' else 2)
            while j < n and src[j] != '"':
                j += 2 if src[j] == "\\" else 1
            if j >= n:
                raise LexError("unterminated string at %d" % i)
            j += 1
            toks.append(Tok("str", src[i:j], i, j))
            i = j
            continue
        if c == "'" or (c == "b" and i + 1 < n and src[i + 1] == "'"):
            k = i + (1 if c == "'" else 2)
            # char literal or lifetime?
            if k < n and src[k] == "\\":
                j = k + 2
                while j < n and src[j] != "'":
                    j += 1
                j += 1
                toks.append(Tok("char", src[i:j], i, j))
                i = j
                continue
            if k + 1 < n and src[k + 1] == "'" and src[k] != "'":
                j = k + 2
                toks.append(Tok("char", src[i:j], i, j))
                i = j
                continue
            # non-ASCII char literal such as 'é'
            m2 = re.match(r"'[^'\\\n]'", src[i:i + 8]) if c == "'" else None
            if m2:
                j = i + m2.end()
                toks.append(Tok("char", src[i:j], i, j))
                i = j
                continue
            if c == "'":
                j = k
                while j < n and src[j] in IDENT_CONT:
                    j += 1
                toks.append(Tok("lifetime", src[i:j], i, j))
                i = j
                continue
        if c in IDENT_START:
            j = i + 1
            while j < n and src[j] in IDENT_CONT:
                j += 1
            toks.append(Tok("ident", src[i:j], i, j))
            i = j
            continue
        if c.isdigit():
            j = i + 1
            while j < n and (src[j] in IDENT_CONT or (src[j] == "." and j + 1 < n and src[j + 1].isdigit())):
                j += 1
            toks.append(Tok("num", src[i:j], i, j))
            i = j
            continue
        if ord(c) > 127:
            raise LexError("non-ASCII character outside literal at %d" % i)
        toks.append(Tok("punct", c, i, i + 1))
        i += 1
    return toks


OPEN = {"(": ")", "[": "]", "{": "}"}
CLOSE = {")", "]", "}"}


def match_close(toks, i):
    """toks[i] is an opening bracket; return index of its closing partner."""
    depth = 0
    for j in range(i, len(toks)):
        t = toks[j]
        if t.kind == "punct":
            if t.text in OPEN:
                depth += 1
            elif t.text in CLOSE:
                depth -= 1
                if depth == 0:
                    return j
    raise LexError("unbalanced bracket at token %d" % i)


class Item:
    """An item (or statement) found at one nesting level.

    attrs_start .. head_start : attributes (#[..]) preceding the item
    head_start .. body_open   : header tokens
    body_open .. body_close   : the { ... } block, or None when the item ends in ';'
    """

    def __init__(self, toks, attrs_start, head_start, body_open, body_close, end):
        self.toks = toks
        self.attrs_start, self.head_start = attrs_start, head_start
        self.body_open, self.body_close, self.end = body_open, body_close, end

    def header_tokens(self):
        """Header tokens at bracket depth 0 (contents of (..) and [..] left out)."""
        stop = self.body_open if self.body_open is not None else self.end
        out, depth = [], 0
        for t in self.toks[self.head_start:stop]:
            if t.kind == "punct" and t.text in "([{":
                if depth == 0:
                    out.append(t.text)
                depth += 1
            elif t.kind == "punct" and t.text in ")]}":
                depth -= 1
                if depth == 0:
                    out.append(t.text)
            elif depth == 0:
                out.append(t.text)
        return out

    def header(self):
        return " ".join(self.header_tokens())


def items_in(toks, lo, hi):
    """Split toks[lo:hi] (the inside of a block or a file) into items."""
    out = []
    i = lo
    while i < hi:
        attrs_start = i
        # attributes
        while i < hi and toks[i].text == "#":
            j = i + 1
            if j < hi and toks[j].text == "!":
                j += 1
            if j < hi and toks[j].text == "[":
                i = match_close(toks, j) + 1
            else:
                break
        head_start = i
        body_open = body_close = None
        depth = 0
        j = i
        while j < hi:
            t = toks[j]
            if t.kind == "punct":
                if t.text in "([":
                    j = match_close(toks, j)
                elif t.text == "{":
                    if _is_value_item(toks, head_start, j):
                        j = match_close(toks, j)   # braces of an initialiser expression
                    else:
                        body_open = j
                        body_close = match_close(toks, j)
                        j = body_close
                        break
                elif t.text == ";":
                    break
            j += 1
        end = min(j + 1, hi)
        # `struct S { .. }` / fn / impl end at '}', a following ';' belongs to a statement like `let x = match .. { } ;`
        out.append(Item(toks, attrs_start, head_start, body_open, body_close, end))
        i = end
    return out


def _is_value_item(toks, a, b):
    """static / const / let items and plain expression statements: braces belong to an expression."""
    k = a
    while k < b and toks[k].text in ("pub", "(", ")", "crate", "super", "in", "unsafe"):
        k += 1
    if k >= b:
        return False
    kw = toks[k].text
    if kw in ("static", "let"):
        return True
    if kw == "const" and k + 1 < b and toks[k + 1].text not in ("fn", "unsafe"):
        return True
    return False


def _subseq_at(hay, needle):
    n = len(needle)
    return [k for k in range(len(hay) - n + 1) if hay[k:k + n] == needle]


def find_path(src, path):
    """Locate an item by path, e.g. ["impl Process for Limiter", "fn process"].

    Every path element is matched token-wise as a contiguous subsequence of the
    header of exactly one item at that level.  Returns (toks, Item).
    """
    toks = lex(src)
    lo, hi = 0, len(toks)
    item = None
    for depth, elem in enumerate(path):
        want = [t.text for t in lex(elem)]
        cands = []
        for it in items_in(toks, lo, hi):
            ht = it.header_tokens()
            pos = _subseq_at(ht, want)
            if not pos:
                continue
            # the element must end the "name" part: next token must not continue a path/ident
            ok = False
            for p in pos:
                nxt = ht[p + len(want)] if p + len(want) < len(ht) else ""
                if nxt not in (":",) or True:
                    ok = True
            if ok:
                cands.append(it)
        if len(cands) > 1 and depth + 1 < len(path):
            # several blocks with the same header (e.g. two `impl T { .. }`): the one that directly contains the next element
            nw = [t.text for t in lex(path[depth + 1])]
            keep = [c for c in cands if c.body_open is not None and
                    any(_subseq_at(it.header_tokens(), nw) for it in items_in(toks, c.body_open + 1, c.body_close))]
            if len(keep) == 1:
                cands = keep
        if len(cands) != 1:
            raise LookupError("path element %r matches %d items (need exactly 1)" % (elem, len(cands)))
        item = cands[0]
        if depth + 1 < len(path):
            if item.body_open is None:
                # e.g. `pub fn get() -> X { FunctionDefinitions::new(.., |args| { struct Impl; impl .. }) }`
                raise LookupError("path element %r has no body" % elem)
            lo, hi = item.body_open + 1, item.body_close
            # descend through closures / call arguments: if the next element is not found at this level,
            # look inside nested brace blocks (handled by find_nested below)
            nxt_want = [t.text for t in lex(path[depth + 1])]
            if not any(_subseq_at(it.header_tokens(), nxt_want) for it in items_in(toks, lo, hi)):
                found = _find_nested_block(toks, lo, hi, nxt_want)
                if found is None:
                    raise LookupError("path element %r not found under %r" % (path[depth + 1], elem))
                lo, hi = found
    return toks, item


def _find_nested_block(toks, lo, hi, want):
    """Find the unique brace block inside toks[lo:hi] (any depth, including closure
    bodies inside call parentheses) that directly contains an item matching `want`."""
    hits = []
    j = lo
    while j < hi:
        t = toks[j]
        if t.kind == "punct" and t.text == "{":
            c = match_close(toks, j)
            if any(_subseq_at(it.header_tokens(), want) for it in items_in(toks, j + 1, c)):
                hits.append((j + 1, c))
            else:
                sub = _find_nested_block(toks, j + 1, c, want)
                if sub:
                    hits.append(sub)
            j = c + 1
        else:
            j += 1
    if len(hits) == 1:
        return hits[0]
    return None
