#!/usr/bin/env python3
"""Unit generator: real functions of /repo + injected contracts -> one Verus file.

A unit template (units/<U>.rs) is a Verus source file in which blocks of the form

    //@@ fn <id> = <file> :: <path element> :: <path element> ...
    //@@ safety C05 C16            properties served by the implicit obligations of this function
    //@@ loop-end N                proof text placed at the end of the body of the N-th loop
    //@@ post TAG "text"           the function's postcondition comes from a library trait contract (vstd Ord::cmp + OrdSpecImpl ..):
    //@@                           a failed postcondition of this function is obligation <id>.TAG
    //@@ ret r                     name the return value `r` (Verus needs a name to write `ensures`)
    //@@ rewrite <name> ...        rewrites (from the fixed table below) this function may need
    //@@ header                    lines inserted between the signature and the body
    //@@ header-from <file>        the same, read from a shared spec file (assume-guarantee between units)
    //@@ loop <n>                  lines inserted between the n-th loop header and its `{`
    //@@ before "<anchor text>"    lines inserted before the unique body line containing the anchor
    //@@ after "<anchor text>"     lines inserted after it
    //@@ body-start                lines inserted right after the opening `{` of the body
    //@@ assume                    emit signature + header as #[verifier::external_body] (trusted here, proved elsewhere)
    //@@ endfn

    //@@ item <file> :: <path>     copy a struct/enum/type verbatim (attributes and doc comments dropped)
    //@@ enditem                   (lines in between are emitted before the item, e.g. verifier attributes)

    //@@ include <file>            textual include of a prelude / lemma file

are replaced by text copied byte for byte from /repo's working tree.  Contracts
are only ever *inserted*; every inserted line is recorded, and the self-check
removes them again and compares token streams with the source.
"""
import hashlib
import json
import os
import re
import sys

sys.path.insert(0, os.path.dirname(os.path.abspath(__file__)))
from rustlex import lex, find_path, match_close, LexError  # noqa: E402

REPO = os.environ.get("VERIF_REPO", "/repo")
VERIF = os.path.dirname(os.path.dirname(os.path.abspath(__file__)))


import threading


class _Lenient(threading.local):
    """per-thread: units are generated concurrently"""
    def __init__(self):
        self.d = {"on": False, "lost": []}

    def __getitem__(self, k):
        return self.d[k]

    def __setitem__(self, k, v):
        self.d[k] = v


LENIENT = _Lenient()


def _hint_lost(msg):
    """A proof-hint anchor cannot be placed.  Strict mode: undecided.  Lenient mode: drop the hint and remember it."""
    if LENIENT["on"]:
        LENIENT["lost"].append(msg)
        return True
    raise ExtractError(msg)


class OrderViolation(Exception):
    def __init__(self, fid, props, msg):
        Exception.__init__(self, msg)
        self.fid, self.props, self.msg = fid, props, msg


class ExtractError(Exception):
    """Lost anchor / unsupported shape: the run is undecided (exit 2), never a violation."""


# --------------------------------------------------------------------------
# Rewrites: the complete list.  Each is (name, regex, replacement, trusted statement).
# They are applied to the copied text only when the function's directive names them.
REWRITES = {
    "break_value": (
        r"\bbreak\s+(Ok\([\w:()]*\));", r"return \1;",
        "`break <expr>;` inside a loop that is the tail expression of the function body == `return <expr>;`"),
    "write_lit": (
        r"\bwrite!\(\s*(\w+)\s*,\s*(\"(?:[^\"\\{}]|\\.)*\")\s*\)", r"vfmt::lit(\1, \2)",
        "write!(f, \"<literal without placeholders>\") writes the literal verbatim"),
    "write_disp": (
        r"\bwrite!\(\s*(\w+)\s*,\s*\"\{(\w*)\}\"\s*(?:,\s*([^()]+?)\s*)?\)", None,
        "write!(f, \"{}\", x) / \"{x}\" appends Display of x"),
    "write_hex4": (
        r"\bwrite!\(\s*(\w+)\s*,\s*\"\\\\u\{:04x\}\"\s*,\s*([^()]+?)\s*\)", r"vfmt::hex_min4(\1, \2)",
        "write!(f, \"\\\\u{:04x}\", n) appends backslash-u and lower-case hex of n zero-padded to AT LEAST four digits"),
    "writeln_error": (
        r"\bwriteln!\(\s*self\.(stdout|stderr)\.borrow_mut\(\)\s*,\s*\"error:\{e\}\"\s*\)", r"error_line(&self.\1, &e, &self.cli.on_error)",
        "writeln!(w.borrow_mut(), \"error:{e}\") appends exactly one line starting `error:` to w, or fails with an io::Error; the trusted primitive is also handed the configured policy (&self.cli.on_error) so that its precondition can say which stream the policy names"),
    "write2_out": (
        r"\bwrite!\(\s*self\.(\w+)\.borrow_mut\(\)\s*,\s*\"\{\}\{\}\"\s*,\s*([^,()]+?)\s*,\s*([^()]+?)\s*\)", r"vio::write2(&self.\1, \2, \3)",
        "write!(w.borrow_mut(), \"{}{}\", a, b) appends Display(a)+Display(b) to w's log, or a prefix of it and fails"),
    "dyn_write": (
        r"Rc<RefCell<dyn\s+std::io::Write\s*\+\s*Send>>", r"vio::Out",
        "Rc<RefCell<dyn Write + Send>> is an opaque sink with a ghost log"),
    "stdin_factory": (
        r"Box<dyn\s+Fn\(\)\s*->\s*(\w+)>", r"vio::StdinFactory<\1>",
        "Box<dyn Fn() -> R> is opaque (only used in the unverified half of go)"),
    "format_self": (
        r"format!\(\"\{self\}\"\)", r"vfmt::display_json(self)", "format!(\"{self}\") is an uninterpreted function of the value"),
    "format_other": (
        r"format!\(\"\{other\}\"\)", r"vfmt::display_json(other)", "format!(\"{other}\") is an uninterpreted function of the value"),
    "to_string_char": (
        r"\(ch as char\)\.to_string\(\)", r"vfmt::char_to_string(ch as char)", "char::to_string is the one-character string"),
    "vec_macro_empty": (
        r"\bvec!\[\]", r"Vec::new()", "vec![] == Vec::new()"),
    "matches_ws": (
        r"matches!\(\s*(\w+)\s*,\s*Some\(([^()]*)\)\s*\)", None, "matches!(x, Some(p)) == match x { Some(p) => true, _ => false }"),
    "crate_paths": (r"\bcrate::processor::(Titles|Context)\b", r"\1", "crate::processor::X is the X of this file"),
    "underscore_param": (r"\(&mut self, _: ", r"(&mut self, _unused: ", "a parameter pattern `_` is an unnamed (unused) parameter"),
    "matches_not": (r"!matches!\(\s*self\s*,\s*([\w:]+)\(_\)\s*\)", r"!(match self { \1(_) => true, _ => false })", "!matches!(self, V(_)) == !(match self { V(_) => true, _ => false })"),
    "try_io": (r"\b(self|reader|r)\.(next|peek|eat_whitespace|read_digits)\(([^()]*)\)\?",
               r"(match \1.\2(\3) { Ok(v__) => v__, Err(e__) => return Err(From::<std::io::Error>::from(e__)) })",
               "`e?` on an io::Result is `match e { Ok(v) => v, Err(x) => return Err(From::from(x)) }` (the definition of `?`; Verus does not track the converted error of a `?` between different error types)"),
    "write_macros": (None, None,
        "write!(f, \"<literal>\") appends the literal; write!(f, \"{}\", x) / \"{x}\" appends Display of x; \"{}{}\" two of them; write!(f, \"\\\\u{:04x}\", n) appends backslash-u and lower-case hex of n padded to AT LEAST four digits; writeln!(f) appends a line feed; a target `self.w.borrow_mut()` is the sink `&mut self.w`"),
    "enumerate": (r"(\w+(?:\.\w+)*)\.(iter|into_iter)\(\)\.enumerate\(\)", r"vit::venumerate(\1.\2())",
        "`.iter().enumerate()` pairs each item with its 0-based position (own iterator type: vstd has no specification for Enumerate)"),
    "underscore_param2": (r"\(&self, _: ", r"(&self, _unused: ", "a parameter pattern `_` is an unnamed (unused) parameter"),
    "pub_fields": (r"(?m)^(\s+)(?!pub\b)([a-z_]\w*)(\s*:\s)", r"\1pub \2\3", "field visibility is irrelevant in a single file"),
    "pub_struct": (r"(?m)^(struct|enum) ", r"pub \1 ", "item visibility is irrelevant in a single file"),
    "cmp_dispatch": (r"\.cmp\(", r".vcmp(",
        "`x.cmp(y)` calls the Ord impl of x's type; here it dispatches (trait VCmp, one impl per type) to a trusted stand-in carrying that type's order as a spec function — Verus rejects the recursion Vec<JsonValue>::cmp -> JsonValue::cmp through the trait impl, so termination of that recursion (bounded by nesting depth) is NOT proved"),
    "pub_tuple": (r"^(\s*(?:pub )?struct \w+\()(?!pub )", r"\1pub ", "field visibility is irrelevant in a single file"),
    "chars_model": (r"\.chars\(\)", r".vchars()",
        "`s.chars()` followed by skip / take / count / collect: own iterator type VChars over the string's characters (vstd has no specification for the Skip/Take adapters or collect::<String>)"),
    "with_capacity": (r"\b(Vec|IndexMap)::with_capacity\(", r"vcap::\1_with_capacity(",
        "`with_capacity(n)` goes to a stand-in that is the same constructor plus the precondition `n` is no larger than a collection that already exists (an N argument must not drive an allocation)"),
    "closure4_typed": (r"\|_, (\w+), _, (\w+)\|", r"|_k1: &String, \1: &JsonValue, _k2: &String, \2: &JsonValue|",
        "IndexMap::sort_by comparator closure: parameter patterns `_` are unnamed (unused) parameters; the parameter types are the ones of IndexMap<String, JsonValue>::sort_by"),
    "shadow_param": (r"(\(&self, context)(: &Context\))|(let mut context = )context(\.with_inupt\()context(\.input\(\))",
        lambda m: (m.group(1) + "_in" + m.group(2)) if m.group(1) else (m.group(3) + "context_in" + m.group(4) + "context_in" + m.group(5)),
        "alpha-renaming: the parameter `context`, which the first statement shadows with a local of the same name, is called `context_in` (loop invariants must be able to name both)"),
    "filter_map_collect": (r"(\w+)\s*\.into_iter\(\)\s*\.filter_map\(", r"vitc::vfilter_map(\1, ",
        "`v.into_iter().filter_map(f)` (followed by .collect()) is the function vfilter_map(v, f) with the assumed std contract"),
    "filter_collect": (r"(\w+)\s*\.into_iter\(\)\s*\.filter\(", r"vitc::vfilter(\1, ",
        "`v.into_iter().filter(f)` (followed by .collect()) is the function vfilter(v, f) with the assumed std contract"),
    "range_inclusive_count": (r"for _ in 1\.\.=(\w+) \{", r"for _i in 0..\1 {",
        "`for _ in 1..=n` runs the body n times, as `for _i in 0..n` does (vstd specifies Range, not RangeInclusive)"),
    "regex_cache_type": (r"Option<Rc<RefCell<SizedCache<String, Rc<Result<Regex, Error>>>>>>", r"Option<Rc<vcache::Cell>>",
        "RefCell<SizedCache<..>> is the opaque cell `vcache::Cell` (interior mutability is outside Verus); see the cache invariant in unit RX"),
    "regex_cache_new": (r"Rc::new\(RefCell::new\(SizedCache::with_size\((\w+)\)\)\)", r"Rc::new(vcache::Cell::with_size(\1))",
        "the constructor of the opaque cell"),
    "str_into_string": (r"\b(regex(?:\.\w+\(\))*)\.into\(\)", r"vstr::string_of(\1)", "`s.into()` of a &str into the String key is a String with the same text"),
    "byte_literals": (r'b"([A-Za-z0-9 _-]*)"', lambda m: "&[" + ", ".join("0x%02xu8" % ord(ch) for ch in m.group(1)) + "]",
        "a byte string literal b\"..\" is the array of its ASCII bytes (Verus knows the length of such a literal but not its contents)"),
    "lit_into_string": (r'("[^"\\\\]*")\.into\(\)', r"vstr::string_of(\1)", "`\"lit\".into()` where a String is expected is the String with that text"),
    "map_json_string": (r"\.map\(JsonValue::String\)", r".map_json_string()", "`.map(JsonValue::String)` wraps every key in the String variant (an enum constructor used as a function value is outside Verus)"),
    "factory_call": (r"\(self\.build_extractor\)\(args\)", r"self.build_extractor.call(args)",
        "the field `build_extractor: fn(Vec<Rc<dyn Get>>) -> Rc<dyn Get>` is the opaque stand-in `Factory` (Verus rejects function pointer types); calling it is `call`"),
    "box_as_mut": (r"\b(\w+)\.as_mut\(\)", r"&mut *\1",
        "`b.as_mut()` on a Box is the mutable reborrow `&mut *b` of the boxed value (Box::as_mut has no specification in vstd)"),
    "stdin_call": (r"\(self\.stdin\)\(\)", r"self.stdin.call()",
        "calling the opaque `Box<dyn Fn() -> S>` field (rewrite stdin_factory) is the method `call` of its stand-in: some reader, nothing known about it"),
    "to_string_fn": (r"(\w+)\.to_str\(\)\.map\(ToString::to_string\)", r"vopen::name_of(\1)",
        "`path.to_str().map(ToString::to_string)` (a trait method used as a function value is outside Verus) is the stand-in name_of(path): the path as text when it is valid UTF-8"),
    "f64_op_assign": (r"\b(\w+) ([+*])= (\w+);", r"\1 = \1 \2 \3;",
        "`x += y` / `x *= y` on doubles is written `x = x + y` / `x = x * y` (the compound assignment on f64 crashes the installed Verus); same operation, same operands, same order"),
    "str_to_string": (r"\b(s|str|word|text)\.to_string\(\)", r"vstr::to_string_of(\1)", "&str::to_string() is a String with the same text"),
    "main_stdout": (r"\bstd::io::stdout\(\)", r"vproc::std_stdout()", "std::io::stdout() is the handle of file descriptor 1"),
    "main_stderr": (r"\bstd::io::stderr\(\)", r"vproc::std_stderr()", "std::io::stderr() is the handle of file descriptor 2"),
    "main_stdin": (r"Box::new\(std::io::stdin\)", r"vproc::stdin_factory()", "Box::new(std::io::stdin) is the factory of the standard input handle"),
    "rc_refcell_new": (r"Rc::new\(RefCell::new\(([^()]*(?:\([^()]*\))?)\)\)", r"vproc::out_of(\1)", "Rc::new(RefCell::new(stream)) is a shared unbuffered handle of the same stream"),
    "eprintln_disp": (r"\beprintln!\(\s*\"[^\"{}]*\{(\w+)\}[^\"{}]*\"\s*\)", r"vproc::eprintln_disp(&\1)", "eprintln!(\"..{e}..\") writes a line holding Display of e to standard error"),
    "println_disp": (r"\bprintln!\(\s*\"[^\"{}]*\{(\w+)\}[^\"{}]*\"\s*\)", r"vproc::println_disp(&\1)", "println!(\"..{e}..\") writes a line holding Display of e to standard output"),
    "process_exit": (r"\bstd::process::exit\(", r"vproc::exit(", "std::process::exit(code) ends the process with status code mod 256 and does not return"),
    "trim_into": (r"let name = name\.trim\(\)\.into\(\);", r"let name = trimmed_string(&name);", "`name.trim().into()` where a String is expected is the String holding str::trim of the text"),
    "njv_call": (r"\breader\.next_json_value\(\)", r"next_json_value_of(reader)", "reader.next_json_value() is the trait method JsonParser::next_json_value of Reader<R> (contract: unit LEX); called through a free function because the verifier rejects a second trait with the reader's contract in this unit"),
    "starts_with_char": (r"\b(\w+)\.starts_with\('([ -~])'\)", r"vs2::starts_with_char(&\1, '\2')", "s.starts_with('c') for an ASCII c: the first byte of the text is c"),
    "skip_first": (r"\b(\w+)\[1\.\.\]\.to_string\(\)", r"vs2::skip_first_byte(&\1)", "s[1..].to_string() behind a one-byte first character: the text without its first byte (precondition: the first byte is ASCII, i.e. 1 is a character boundary)"),
    "assert_exists": (r"assert!\(\s*(\w+)\.exists\(\)\s*,\s*\"[^\"]*\"\s*\);", r"vfs::require_exists(\1);", "assert!(file.exists(), msg): a path that does not exist ends the run with a panic message; otherwise nothing happens"),
    "path_is_dir": (r"\b(\w+)\.is_dir\(\)", r"vfs::is_dir(\1)", "Path::is_dir: some boolean (nothing is known about it)"),
    "fs_read_dir": (r"\bread_dir\((\w+)\)", r"vfs::read_dir(\1)", "std::fs::read_dir: an iterator over the entries of the directory (each may fail to be read), own iterator type with vstd's iterator laws"),
    "lit_to_string": (r'("(?:[^"\\]|\\.)*")\.to_string\(\)', r"vstr::string_of(\1)", "\"lit\".to_string() is the String with that text"),
    "first_char": (r"\b(\w+)\.chars\(\)\.next\(\)", r"vs2::first_char(\1)", "s.chars().next() is the first character of the text, if any"),
    "skip_first_char": (r"\b(\w+)\[(\w+)\.len_utf8\(\)\.\.\]\.to_string\(\)", r"vs2::skip_first_char(\1, \2)", "s[c.len_utf8()..].to_string() where c is the first character of s: the text without its first character"),
    "hashmap_with_capacity": (r"HashMap::with_capacity\((\w+(?:\.\w+)*)\.capacity\(\)\)", r"vs2::map_with_capacity_of(&\1)", "HashMap::with_capacity(v.capacity()) is an empty map (the capacity of an existing Vec can be allocated)"),
    "into_printer": (r"printer: options\.into\(\)", r"printer: TextPrinter::from(options)", "`options.into()` where a TextPrinter is expected is From<TextOutputOptions> for TextPrinter"),
    "find_eq_or_err": (r"s\s*\.find\('='\)\s*\.ok_or_else\(\|\| PreSetParserError::NoEqualsError\(s\.to_string\(\)\)\)\?", r"(match vps::find_eq(s) { Some(p__) => p__, None => return Err(PreSetParserError::NoEqualsError(vstr::to_string_of(s))) })", "s.find('=') is the byte offset of the first `=`; opt.ok_or_else(|| e)? is the value, or the early return of Err(e)"),
    "slice_before": (r"\bs\[\.\.pos\]\.to_string\(\)", r"vps::before(s, pos)", "s[..pos].to_string(): the text before byte offset pos (a character boundary: the offset of an ASCII character found by find)"),
    "slice_after": (r"\bs\[pos \+ 1\.\.\]\.to_string\(\)", r"vps::after(s, pos)", "s[pos + 1..].to_string(): the text behind the one-byte character at byte offset pos"),
    "trim_str": (r"\bkey\.trim\(\)", r"vps::trim_str(&key)", "str::trim: a function of the text (trim_of)"),
    "key_to_string": (r"\b(key|macro_name)\.to_string\(\)", r"vstr::to_string_of(\1)", "&str::to_string() is a String with the same text"),
    "map_err_io": (r"\b(reader\.\w+\(\))\.map_err\(SelectionParseError::from\)\?", r"(match \1 { Ok(v__) => v__, Err(e__) => return Err(PreSetParserError::from(SelectionParseError::from(e__))) })", "r.map_err(f)? is the value, or the early return of Err(From::from(f(e)))"),
    "strip_at": (r"\bkey\.strip_prefix\('@'\)", r"vps::strip_at(&key)", "str::strip_prefix('@'): the text behind a leading `@`, if there is one"),
    "str_is_empty": (r"\bmacro_name\.is_empty\(\)", r"vps::str_is_empty(macro_name)", "str::is_empty: the text has no characters"),
    "s_to_owned": (r"\bs\.to_owned\(\)", r"vstr::to_string_of(s)", "&str::to_owned() is a String with the same text"),
    "get_or_empty_value": (r"value\s*\.get\(&context\)\s*\.ok_or_else\(\|\| PreSetParserError::EmptyValue\(s\.to_string\(\)\)\)\?", r"(match value.get(&context) { Some(v__) => v__, None => return Err(PreSetParserError::EmptyValue(vstr::to_string_of(s))) })", "opt.ok_or_else(|| e)? is the value, or the early return of Err(e)"),
    "trim_to_string": (r"\b(\w+)\.trim\(\)\.to_string\(\)", r"vsd::trimmed(&\1)", "s.trim().to_string() is the String holding str::trim of the text (a function of the text: trim_of)"),
    "to_uppercase_of": (r"\.to_uppercase\(\)", r".vupper()", "str::to_uppercase is a function of the text (upper_of)"),
    "as_str_of": (r"\b(\w+)\.as_str\(\)", r"vsd::as_str_of(&\1)", "String::as_str is the same text as a slice"),
    "dir_to_string": (r"\bdir\.to_string\(\)", r"vstr::to_string_of(dir)", "&str::to_string() is a String with the same text"),
    "float_cast_i64": (r"\b(\w+) as i64\b", r"vtm::f64_as_i64(\1)", "`x as i64` on a double is the named function f2i (the verifier leaves float casts unspecified)"),
    "int_cast_f64": (r"\((\w+) as f64\)", r"vtm::i64_as_f64(\1)", "`(n as f64)` on a 64-bit integer is the named function i2f"),
    "float_cast_u32": (r"= \((.*)\) as u32;", r"= vtm::f64_as_u32(\1);", "`(e) as u32` on a double is the named function f2u"),
    "time_write_format": (r"write!\(text, \"\{\}\", datetime\.format\(&format\)\)\.is_ok\(\)", r"vtm::write_formatted(&mut text, &datetime, &format)", "write!(text, \"{}\", datetime.format(&format)).is_ok(): the text of the instant in that format is appended to the (empty) string and the answer is true, or the format is invalid and the answer is false (chrono reports a bad format as fmt::Error)"),
    "unix_epoch_const": (r"\b(NaiveDateTime|DateTime)::UNIX_EPOCH\b", r"\1::unix_epoch()", "the associated constant UNIX_EPOCH of the chrono stand-in is written as a function call (an opaque type has no constant initialiser)"),
    "iter_rev": (r"\b(\w+)\.iter\(\)\.rev\(\)", r"vit::vrev(\1.iter())", "`v.iter().rev()` yields the items of v.iter(), last first (own iterator type: see prelude/vit.rs)"),
    "format_dot_index": (r"format!\(\"\.\{(\w+)\}\"\)(\.to_string\(\))?", r"vdot::dot_key(\1)", "format!(\".{i}\") is the text `.` followed by the decimal spelling of i: a function of i that is injective (dot_name)"),
    "vec_macro_one_map": (r"\bvec!\[IndexMap::new\(\)\]", r"vone::vec_of_one(IndexMap::new())", "vec![x] is the Vec holding exactly x"),
    "map_clone_into_collect": (r"\b(\w+)\s*\.iter\(\)\s*\.map\(\|f\| f\.clone\(\)\.into\(\)\)\s*\.collect\(\)", r"vone::objects_of(&\1)", "v.iter().map(|f| f.clone().into()).collect() on a Vec of maps is the Vec of the JSON objects of those maps, in order (Clone is a copy, into() is From<IndexMap> for JsonValue)"),
    "entries_filter_map": (r"\b(\w+)\s*\.into_iter\(\)\s*\.filter_map\(", r"vitm::vfilter_map_entries(\1, ",
        "`m.into_iter().filter_map(f)` on an IndexMap (followed by collect) is the function vfilter_map_entries(m, f) over the entries in insertion order, with the assumed std contract"),
    "entries_filter": (r"\b(\w+)\s*\.into_iter\(\)\s*\.filter\(", r"vitm::vfilter_entries(\1, ",
        "`m.into_iter().filter(f)` on an IndexMap (followed by collect) is the function vfilter_entries(m, f) over the entries in insertion order, with the assumed std contract"),
    "tuple_param_owned": (r"\|\((\w+), (\w+)\)\|", r"|kv__: (String, JsonValue)|",
        "a closure parameter written as the tuple pattern `(k, v)` is the parameter kv__ destructured by `let (k, v) = kv__;` as the first statement of the body (injected line; the verifier accepts only variables as closure parameters)"),
    "tuple_param_ref": (r"\|\((\w+), (\w+)\)\|", r"|kv__: &(String, JsonValue)|",
        "a by-reference closure parameter written as the tuple pattern `(k, _)` / `(_, v)` is the parameter kv__ with `let k = &kv__.0;` / `let v = &kv__.1;` as the first statement of the body (injected line)"),
    "collect_indexmap": (r"\.collect::<IndexMap<_, _>>\(\)", r".collect_map()",
        "collect::<IndexMap<_, _>>() of (key, value) pairs inserts them one after the other: a later pair with a key already present overwrites that member's value in place"),
    "option_map_pair": (r"(self\.0\.apply\(&v, 1\))\.map\(\|v\| \(k, v\)\)", r"(match \1 { Some(v) => Some((k, v)), None => None })",
        "opt.map(|v| (k, v)) is Some((k, v)) for Some(v) and None for None (the definition of Option::map)"),
    "or_insert_with_vec_new": (r"\.or_insert_with\(Vec::new\)", r".or_insert_with_vec_new()", "entry.or_insert_with(Vec::new): the stored Vec, or a new empty Vec inserted at the end (a function item used as a value is outside the verifier; stand-in method with the contract of or_default)"),
    "groups_to_map": (r"\bgroups\s*\.iter\(\)\s*\.map\(\|\(k, v\)\| \{\s*\(k\.clone\(\), Into::<JsonValue>::into\(v\.clone\(\)\)\)\s*\}\)\s*\.collect::<IndexMap<_, _>>\(\)", r"vgrp::groups_to_map(&groups)",
        "groups.iter().map(|(k, v)| (k.clone(), Into::<JsonValue>::into(v.clone()))).collect::<IndexMap<_, _>>() is the map with the same keys in the same order whose values are the JSON arrays of the grouped Vecs (clone is a copy, into() is From<Vec<JsonValue>>; the keys of a map are distinct, so collecting inserts every pair)"),
    "enum_map_collect": (r"\b(\w+)\s*\.into_iter\(\)\s*\.enumerate\(\)\s*\.map\(", r"vitc::venum_map(\1, ",
        "`v.into_iter().enumerate().map(f)` (followed by .collect()) is the function venum_map(v, f): f applied to (position, element) for every element in order, with the assumed std contract"),
    "tuple_param_indexed": (r"\|\((\w+), (\w+)\)\|", r"|iv__: (usize, JsonValue)|",
        "a closure parameter written as the tuple pattern `(i, v)` is the parameter iv__ destructured by `let (i, v) = iv__;` as the first statement of the body (injected line)"),
    "split_map_collect": (r"\bstr\.split\(splitter\.as_str\(\)\)\s*\.map\(\|f\| JsonValue::String\(f\.to_string\(\)\)\)\s*\.collect::<Vec<_>>\(\)", r"vsplit::split_to_strings(&str, &splitter)",
        "str.split(sep.as_str()).map(|f| JsonValue::String(f.to_string())).collect::<Vec<_>>() is the Vec of the JSON strings of the pieces str::split yields, in order (str::split itself: an uninterpreted function of text and separator)"),
    "format_val": (r"format!\(\"\{val\}\"\)", r"vdisp::display_string(&val)", "format!(\"{val}\") is the String holding Display of the value (the one-line JSON text; uninterpreted here)"),
    "selection_from_str_fn": (r"\bSelection::from_str\(", r"vsel::selection_from_str(", "Selection::from_str called from parse_selection is the stand-in selection_from_str: the same function with, in addition to the clause unit EXPR proves for the real body, the assumption that its answer is a function of the text"),
    "as_str_sel": (r"\bstr\.as_str\(\)", r"vsel::as_str_of(&str)", "String::as_str is the same text as a slice"),
    "results_map_collect": (r"\bself\.results\.iter\(\)\.map\(", r"vmapc::vmap_ref(&self.results, ",
        "`v.iter().map(f)` (followed by .collect()) on a Vec is the function vmap_ref(&v, f): f applied to a reference to every element in order, with the assumed std contract"),
    "pub_crate": (r"\bpub\(crate\)\s+", r"pub ", "visibility is irrelevant in a single file"),
    "deref_clone": (
        r"(\w+)\.deref\(\)\.clone\(\)", r"vrc::deref_clone(&\1)", "Rc<T>::deref().clone() clones the pointee"),
}


def _split_args(s):
    """split a macro argument list at top-level commas (strings, chars and brackets respected)"""
    out, cur, depth, i = [], "", 0, 0
    while i < len(s):
        c = s[i]
        if c == '"':
            j = i + 1
            while s[j] != '"':
                j += 2 if s[j] == "\\" else 1
            cur += s[i:j + 1]
            i = j + 1
            continue
        if c == "'" and i + 2 < len(s) and (s[i + 2] == "'" or s[i + 1] == "\\"):
            j = s.index("'", i + 2 if s[i + 1] != "\\" else i + 3)
            cur += s[i:j + 1]
            i = j + 1
            continue
        if c in "([{":
            depth += 1
        elif c in ")]}":
            depth -= 1
        if c == "," and depth == 0:
            out.append(cur.strip())
            cur = ""
        else:
            cur += c
        i += 1
    if cur.strip():
        out.append(cur.strip())
    return out


def _rewrite_write_macros(text):
    """write!(f, ..) / writeln!(f) on a fmt::Write `f` or on `self.<field>.borrow_mut()` -> calls of trusted primitives"""
    n = 0
    out = ""
    i = 0
    while True:
        m = re.search(r"\b(write|writeln)!\(", text[i:])
        if not m:
            out += text[i:]
            break
        a = i + m.start()
        b = i + m.end()
        depth, j = 1, b
        while depth:
            c = text[j]
            if c == '"':
                j += 1
                while text[j] != '"':
                    j += 2 if text[j] == "\\" else 1
            elif c in "([{":
                depth += 1
            elif c in ")]}":
                depth -= 1
            j += 1
        args = _split_args(text[b:j - 1])
        target = args[0]
        mm = re.match(r"^self\.(\w+)\.borrow_mut\(\)$", target)
        mod, tgt = ("vio", "&mut self.%s" % mm.group(1)) if mm else ("vfmt", target)
        ln = m.group(1) == "writeln"
        if len(args) == 1:
            if not ln:
                raise ExtractError("write! without a format string")
            rep = "%s::lit(%s, \"\\n\")" % (mod, tgt)
        else:
            fmt = args[1]
            if not (fmt.startswith('"') and fmt.endswith('"')):
                raise ExtractError("write!: format is not a literal: %r" % fmt)
            body = fmt[1:-1]
            rest = args[2:]
            holes = re.findall(r"(?<!\{)\{([^{}]*)\}(?!\})", body.replace("{{", "\0").replace("}}", "\1"))
            if not holes and not rest:
                lit = body.replace("{{", "{").replace("}}", "}") + ("\\n" if ln else "")
                rep = "%s::lit(%s, \"%s\")" % (mod, tgt, lit)
            elif body == "\\\\u{:04x}" and len(rest) == 1 and not ln:
                rep = "%s::hex_min4(%s, %s)" % (mod, tgt, rest[0])
            elif re.match(r"^\{\w*\}$", body) and len(holes) == 1 and not ln:
                x = holes[0] if holes[0] else rest[0]
                rep = "%s::disp(%s, &%s)" % (mod, tgt, x)
            elif re.match(r"^\{\w*\}\{\w*\}$", body) and len(holes) == 2 and not ln:
                xs = [h if h else None for h in holes]
                it = iter(rest)
                xs = [x if x else next(it) for x in xs]
                rep = "%s::disp2(%s, &%s, &%s)" % (mod, tgt, xs[0], xs[1])
            elif mm and ln and re.match(r"^error:\{\w+\}$", body):
                rep = "error_line(&self.%s, &%s, &self.cli.on_error)" % (mm.group(1), holes[0])
            else:
                # general case: literal pieces and plain Display holes `{}` / `{name}`, written one after the other; the first
                # failing piece ends the call with that error (what core::fmt::write does)
                pieces = []
                k = 0
                lit_acc = ""
                it = iter(rest)
                ok = True
                while k < len(body):
                    if body.startswith("{{", k):
                        lit_acc += "{"; k += 2
                    elif body.startswith("}}", k):
                        lit_acc += "}"; k += 2
                    elif body[k] == "{":
                        e = body.find("}", k)
                        hole = body[k + 1:e] if e > 0 else None
                        if hole is None or not re.match(r"^\w*$", hole):
                            ok = False
                            break
                        if lit_acc:
                            pieces.append(("lit", lit_acc)); lit_acc = ""
                        try:
                            pieces.append(("disp", hole if hole else next(it)))
                        except StopIteration:
                            ok = False
                            break
                        k = e + 1
                    else:
                        if body[k] == "\\" and k + 1 < len(body):
                            lit_acc += body[k:k + 2]; k += 2
                        else:
                            lit_acc += body[k]; k += 1
                if ln:
                    lit_acc += "\\n"
                if lit_acc:
                    pieces.append(("lit", lit_acc))
                if not ok or not pieces or mm:
                    raise ExtractError("write!: unsupported format %r" % fmt)
                def call(pc):
                    return ("%s::lit(%s, \"%s\")" % (mod, tgt, pc[1])) if pc[0] == "lit" else ("%s::disp(%s, &%s)" % (mod, tgt, pc[1]))
                rep = call(pieces[-1])
                for pc in reversed(pieces[:-1]):
                    rep = "{ let r__ = %s; if r__.is_err() { r__ } else { %s } }" % (call(pc), rep)
        out += text[i:a] + rep
        i = j
        n += 1
    return out, n


def _apply_rewrite(name, text):
    if name == "write_macros":
        return _rewrite_write_macros(text)
    pat, repl, _ = REWRITES[name]
    if name == "write_disp":
        def f(m):
            w, inl, arg = m.group(1), m.group(2), m.group(3)
            x = inl if inl else arg
            if x is None:
                raise ExtractError("write_disp: no argument in %r" % m.group(0))
            return "vfmt::disp(%s, %s)" % (w, x.strip())
        return re.subn(pat, f, text)
    if name == "matches_ws":
        return re.subn(pat, r"(match \1 { Some(\2) => true, _ => false })", text)
    return re.subn(pat, repl, text)


def _read(path):
    with open(path, encoding="utf-8") as f:
        return f.read()


def _norm(s):
    return " ".join(s.split())


class GenLine:
    __slots__ = ("text", "kind", "fn", "obl", "props", "src_file", "src_line", "canary", "tobl")

    def __init__(self, text, kind, fn=None, obl=None, props=None, src_file=None, src_line=None):
        self.text, self.kind, self.fn, self.obl, self.props = text, kind, fn, obl, props or []
        self.src_file, self.src_line = src_file, src_line
        self.canary = False
        m = TOBL_RE.search(text) if kind == "inj" else None
        self.tobl = m.group(1) if m else None


OBL_RE = re.compile(r"//\s*@obl\s+([\w.\-]+)\s*:\s*([C0-9 ]+?)\s*$")
TOBL_RE = re.compile(r"//\s*@tobl\s+([\w.\-]+)\s*$")


def _mk_injected(lines, fn_id):
    out = []
    for ln in lines:
        m = OBL_RE.search(ln)
        if m:
            out.append(GenLine(ln, "inj", fn_id, m.group(1), m.group(2).split()))
        else:
            out.append(GenLine(ln, "inj", fn_id))
    return out


class FnSpec:
    def __init__(self, fid, file, path):
        self.id, self.file, self.path = fid, file, path
        self.safety, self.ret, self.rewrites = [], None, []
        self.ext_post = None
        self.header, self.loops, self.before, self.after, self.body_start = [], {}, [], [], []
        self.loop_iter = {}
        self.after_loops = {}
        self.before_loops = {}
        self.attrs = []
        self.insert_after, self.insert_before = [], []
        self.is_slice = False
        self.from_anchor = self.to_anchor = self.must_precede = None
        self.must_contain = []
        self.from_after = None   # the slice starts on the line after this anchor (the last line of the preceding slice)
        self.prologue, self.epilogue = [], []
        self.loop_starts = {}
        self.loop_ends = {}
        self.assume = False
        self.header_files = []
        self.sig_rewrites = []


def parse_template(path):
    """Split a template into a list of ('text', [lines]) / ('fn', FnSpec) / ('item', ...) / includes (expanded)."""
    parts = []
    lines = _read(path).split("\n")
    i = 0
    cur_text = []

    def flush():
        nonlocal cur_text
        if cur_text:
            parts.append(("text", cur_text, path))
            cur_text = []

    while i < len(lines):
        ln = lines[i]
        s = ln.strip()
        if s.startswith("//@@ include "):
            flush()
            inc = os.path.join(VERIF, s[len("//@@ include "):].strip())
            parts.extend(parse_template(inc))
            i += 1
        elif s.startswith("//@@ impl-methods "):
            # //@@ impl-methods <id prefix> = <file> :: <impl header> :: m1 m2 ...   the impl block defines exactly these methods.
            # A method that appears (e.g. an override of a verified default method of the trait) or disappears changes which
            # code runs behind the contracts of this unit: the unit is then not the program (undecided; probes are replayed).
            flush()
            m = re.match(r"//@@ impl-methods\s+([\w.\-]+)\s*=\s*(.*)$", s)
            file, *p = [x.strip() for x in m.group(2).split(" :: ")]
            parts.append(("implcheck", (m.group(1), file, p[:-1], p[-1].split()), path))
            i += 1
        elif s.startswith("//@@ file-consts "):
            flush()
            parts.append(("consts", s[len("//@@ file-consts "):].strip(), path))
            i += 1
        elif s.startswith("//@@ item "):
            flush()
            spec = s[len("//@@ item "):]
            file, *p = [x.strip() for x in spec.split("::")]
            # re-join `impl<R: Read> Reader<R>`-style elements that contain '::'? (none used)
            pre = []
            rewrites = []
            i += 1
            while lines[i].strip() != "//@@ enditem":
                if lines[i].strip().startswith("//@@ rewrite "):
                    rewrites += lines[i].strip()[len("//@@ rewrite "):].split()
                elif lines[i].strip().startswith("//@@ derives "):
                    rewrites += ["derive:" + d for d in lines[i].strip().split()[2:]]
                elif lines[i].strip().startswith("//@@ keep-derive "):
                    rewrites += ["keep:" + d for d in lines[i].strip().split()[2:]]
                else:
                    pre.append(lines[i])
                i += 1
            parts.append(("item", (file, p, pre, rewrites), path))
            i += 1
        elif s.startswith("//@@ fn ") or s.startswith("//@@ slice "):
            flush()
            m = re.match(r"//@@ (?:fn|slice)\s+([\w.\-]+)\s*=\s*(.*)$", s)
            if not m:
                raise ExtractError("bad fn directive: " + s)
            file, *p = [x.strip() for x in m.group(2).split(" :: ")]
            fs = FnSpec(m.group(1), file, p)
            fs.is_slice = s.startswith("//@@ slice ")
            i += 1
            target = None
            while True:
                if i >= len(lines):
                    raise ExtractError("unterminated //@@ fn %s" % fs.id)
                t = lines[i].strip()
                if t == "//@@ endfn" or t == "//@@ endslice":
                    break
                if t.startswith("//@@ "):
                    d = t[5:]
                    if d.startswith("safety"):
                        fs.safety = d.split()[1:]
                        target = None
                    elif d.startswith("ret "):
                        fs.ret = d.split()[1]
                        target = None
                    elif d.startswith("rewrite "):
                        fs.rewrites += d.split()[1:]
                        target = None
                    elif d == "assume":
                        fs.assume = True
                        target = None
                    elif d.startswith("post "):
                        # the postcondition comes from a library trait contract (e.g. vstd's Ord::cmp + OrdSpecImpl): name it
                        mm_ = re.match(r'post\s+(\S+)\s+"(.*)"\s*$', d)
                        if not mm_:
                            raise ExtractError("bad //@@ post directive: " + d)
                        fs.ext_post = (mm_.group(1), mm_.group(2))
                        target = None
                    elif d == "header":
                        target = fs.header
                    elif d.startswith("header-from "):
                        hf = os.path.join(VERIF, d.split()[1])
                        fs.header_files.append(hf)
                        fs.header += _read(hf).rstrip("\n").split("\n")
                        target = None
                    elif d.startswith("loop "):
                        w = d.split()
                        target = fs.loops.setdefault(int(w[1]), [])
                        if len(w) >= 4 and w[2] == "iter":
                            fs.loop_iter[int(w[1])] = w[3]
                    elif d.startswith("after-loop "):
                        target = fs.after_loops.setdefault(int(d.split()[1]), [])
                    elif d.startswith("before-loop "):
                        target = fs.before_loops.setdefault(int(d.split()[1]), [])
                    elif d.startswith("loop-end "):
                        target = fs.loop_ends.setdefault(int(d.split()[1]), [])
                    elif d.startswith("loop-start "):
                        target = fs.loop_starts.setdefault(int(d.split()[1]), [])
                    elif d.startswith("insert-after "):
                        target = []
                        fs.insert_after.append((d[len("insert-after "):].strip()[1:-1], target))
                    elif d.startswith("insert-before "):
                        target = []
                        fs.insert_before.append((d[len("insert-before "):].strip()[1:-1], target))
                    elif re.match(r"before(#\d+)? ", d):
                        target = []
                        mm = re.match(r"before(?:#(\d+))? (.*)$", d)
                        fs.before.append((mm.group(2).strip().strip('"'), target, int(mm.group(1)) if mm.group(1) else None))
                    elif re.match(r"after(#\d+)? ", d):
                        target = []
                        mm = re.match(r"after(?:#(\d+))? (.*)$", d)
                        fs.after.append((mm.group(2).strip().strip('"'), target, int(mm.group(1)) if mm.group(1) else None))
                    elif d == "attr":
                        target = fs.attrs
                    elif d == "body-start":
                        target = fs.body_start
                    elif d.startswith("from "):
                        fs.from_anchor = d[5:].strip().strip('"'); target = None
                    elif d.startswith("to "):
                        fs.to_anchor = d[3:].strip().strip('"'); target = None
                    elif d.startswith("from-after "):
                        fs.from_after = d[len("from-after "):].strip().strip('"'); target = None
                    elif d.startswith("must-contain "):
                        fs.must_contain.append(d[len("must-contain "):].strip().strip('"')); target = None
                    elif d.startswith("must-precede "):
                        fs.must_precede = d[len("must-precede "):].strip().strip('"'); target = None
                    elif d == "prologue":
                        target = fs.prologue
                    elif d == "epilogue":
                        target = fs.epilogue
                    else:
                        raise ExtractError("unknown directive in fn %s: %s" % (fs.id, t))
                else:
                    if target is None:
                        if t:
                            raise ExtractError("stray line in fn %s: %s" % (fs.id, t))
                    else:
                        target.append(lines[i])
                i += 1
            parts.append(("fn", fs, path))
            i += 1
        else:
            cur_text.append(ln)
            i += 1
    flush()
    return parts


DROP_ATTR = re.compile(r"^\s*(#\[(derive|error|inline|arg|command|clap|allow|must_use|doc)\b.*\]|///.*|//!.*)\s*$")


def _strip_attr_lines(text):
    """Drop derive/doc/clap attributes and doc comments from a copied item. Returns (text, dropped)."""
    out, dropped = [], []
    lines = text.split("\n")
    i = 0
    while i < len(lines):
        ln = lines[i]
        st = ln.strip()
        if st.startswith("///") or st.startswith("//!"):
            dropped.append(st)
            i += 1
            continue
        if st.startswith("#["):
            # attribute, possibly multi-line: find balanced ]
            j = i
            acc = ln
            while acc.count("[") > acc.count("]") and j + 1 < len(lines):
                j += 1
                acc += "\n" + lines[j]
            a = acc.strip()
            if re.match(r"#\[(derive|error|inline|arg|command|clap|allow|must_use|doc|from)\b", a):
                dropped.append(_norm(a))
                i = j + 1
                continue
        # inline field attributes such as `Io(#[from] IoEror),`
        new = re.sub(r"#\[from\]\s*", "", ln)
        if new != ln:
            dropped.append("#[from]")
        out.append(new)
        i += 1
    return "\n".join(out), dropped


def _line_of(src, off):
    return src.count("\n", 0, off) + 1


def _process_body(fs, body, src, b0, applied, out, tail_check=True):
    """Inject the directives of `fs` into `body` (text starting at offset b0 of `src`) and append GenLines to `out`."""
    # ---- body: compute insertion points as byte offsets into `body`
    btoks = lex(body)
    inserts = []  # (offset, order, lines, mode)  mode: 'line-before' | 'split'
    # loops
    loop_idx = 0
    k = 0
    loop_positions = []
    while k < len(btoks):
        t = btoks[k]
        if t.kind == "ident" and t.text in ("loop", "while", "for"):
            # `for` in `impl X for Y` / HRTB cannot occur inside a body except nested items; accept.
            depth = 0
            j = k + 1
            brace = None
            while j < len(btoks):
                u = btoks[j]
                if u.kind == "punct" and u.text in "([":
                    j = match_close(btoks, j)
                elif u.kind == "punct" and u.text == "{":
                    brace = j
                    break
                elif u.kind == "punct" and u.text == ";":
                    break
                j += 1
            if brace is not None:
                loop_idx += 1
                in_end = None
                if t.text == "for":
                    jj = k + 1
                    while jj < brace:
                        if btoks[jj].kind == "punct" and btoks[jj].text in "([":
                            jj = match_close(btoks, jj)
                        elif btoks[jj].kind == "ident" and btoks[jj].text == "in":
                            in_end = btoks[jj].end
                            break
                        jj += 1
                loop_positions.append((loop_idx, btoks[brace].start, t.text, in_end, btoks[match_close(btoks, brace)].end, t.start))
        k += 1
    for n, lines in fs.loops.items():
        pos = [(p, ie) for (i_, p, _, ie, _e, _s) in loop_positions if i_ == n]
        if not pos:
            _hint_lost("lost anchor: %s has no loop #%d (found %d)" % (fs.id, n, len(loop_positions)))
            continue
        inserts.append((pos[0][0], "split", lines))
        if n in fs.loop_iter:
            if pos[0][1] is None:
                _hint_lost("lost anchor: loop #%d of %s is not a `for .. in` loop" % (n, fs.id))
                inserts.pop()
                continue
            # ghost name of the iterator (Verus `for x in it: expr`): a pure insertion on its own line
            inserts.append((pos[0][1], "split", [" " + fs.loop_iter[n] + ":"]))
    for n, lines in fs.after_loops.items():
        pos = [e for (i_, _p, _t, _ie, e, _s) in loop_positions if i_ == n]
        if not pos:
            _hint_lost("lost anchor: %s has no loop #%d" % (fs.id, n))
            continue
        inserts.append((pos[0], "split", lines))
    for n, lines in fs.before_loops.items():
        pos = [s_ for (i_, _p, _t, _ie, _e, s_) in loop_positions if i_ == n]
        if not pos:
            _hint_lost("lost anchor: %s has no loop #%d" % (fs.id, n))
            continue
        inserts.append((pos[0], "split", lines))
    for n, lines in fs.loop_starts.items():
        pos = [p_ + 1 for (i_, p_, _t, _ie, _e, _s) in loop_positions if i_ == n]
        if not pos:
            _hint_lost("lost anchor: %s has no loop #%d" % (fs.id, n))
            continue
        inserts.append((pos[0], "split", lines))
    for n, lines in fs.loop_ends.items():
        # just before the closing brace of the loop body (only meaningful when the body does not end in a tail expression)
        pos = [e - 1 for (i_, _p, _t, _ie, e, _s) in loop_positions if i_ == n]
        if not pos:
            _hint_lost("lost anchor: %s has no loop #%d" % (fs.id, n))
            continue
        inserts.append((pos[0], "split", lines))
    # contract text inserted in the middle of a line (closure signatures): after / before a unique piece of source text
    # (these insertions come in groups that together form one syntactic construct — `|x| -> (r: T) ensures .. {` and the
    # closing `}` — so if one anchor of a function is lost, none of them is placed)
    mid = []
    mid_lost = False
    for kind, lst in (("after", fs.insert_after), ("before", fs.insert_before)):
        for anchor, lines in lst:
            cnt = body.count(anchor)
            if cnt != 1:
                _hint_lost("lost anchor: %s: text %r occurs %d times" % (fs.id, anchor, cnt))
                mid_lost = True
                continue
            k = body.index(anchor)
            mid.append((k + len(anchor) if kind == "after" else k, "split", lines))
    if not mid_lost:
        inserts.extend(mid)
    # body-start
    if fs.body_start:
        inserts.append((1, "after-brace", fs.body_start))
    # textual anchors
    blines = body.split("\n")
    offs = []
    o = 0
    for ln in blines:
        offs.append(o)
        o += len(ln) + 1
    for kind, lst in (("before", fs.before), ("after", fs.after)):
        for anchor, lines, nth in lst:
            hits = [i_ for i_, ln in enumerate(blines) if _norm(anchor) in _norm(ln)]
            if nth is not None and len(hits) >= nth:
                hits = [hits[nth - 1]]      # the n-th occurrence was asked for explicitly
            if len(hits) != 1:
                _hint_lost("lost anchor: %s: %r matches %d body lines" % (fs.id, anchor, len(hits)))
                # lenient: an ambiguous anchor gets the hint at every match, a missing one gets none
            for i_ in (hits if len(hits) != 1 else hits[:1]):
                if kind == "before":
                    inserts.append((offs[i_], "line", list(lines)))
                else:
                    inserts.append((offs[i_] + len(blines[i_]) + 1, "line-after", list(lines)))
    # apply rewrites to body segments between insert points (offsets refer to the unrewritten body)
    # at equal offsets the hints that FOLLOW the previous line come before the hints that PRECEDE the next one
    inserts.sort(key=lambda x: (x[0], 0 if x[1] == "line-after" else 1))
    inserts = [(o_, "line" if m_ == "line-after" else m_, l_) for (o_, m_, l_) in inserts]
    cuts = [0] + [p for p, _, _ in inserts] + [len(body)]
    segs = [body[cuts[i]:cuts[i + 1]] for i in range(len(cuts) - 1)]
    for rw in fs.rewrites:
        total = 0
        for si in range(len(segs)):
            segs[si], n = _apply_rewrite(rw, segs[si])
            total += n
        if total:
            if rw == "break_value":
                _check_tail_loop(body)
            applied.append((rw, "body", "%d site(s)" % total))
    # emit
    body_first_line = _line_of(src, b0)

    def emit_src(text, start_off):
        # text is a piece of the body starting at original offset start_off
        ln0 = body_first_line + body.count("\n", 0, start_off)
        pieces = text.split("\n")
        for k_, p in enumerate(pieces):
            out.append(GenLine(p, "src", fs.id, src_file=fs.file, src_line=ln0 + k_))

    # we need to emit segs with injected lines in between; a 'split' insert breaks a line in two
    for si, seg in enumerate(segs):
        if si > 0:
            _, mode, lines = inserts[si - 1]
            out.extend(_mk_injected(lines, fs.id))
        if seg.endswith("\n") and si + 1 < len(segs) and inserts[si][1] == "line":
            seg = seg[:-1]
        emit_src(seg, cuts[si])


def build_slice(fs, canary=False):
    """A statement slice of a function body: the statements from the line containing `from` through the line containing
    `to`, copied verbatim between a synthetic prologue (signature + contract + `{`) and epilogue (tail + `}`) that are
    template text.  Checked syntactically: both anchors unique and at the top nesting level of the body, the slice is
    bracket-balanced, and `must-precede` does not occur in the body before the end of the slice."""
    fpath = os.path.join(REPO, fs.file)
    if not os.path.exists(fpath):
        raise ExtractError("lost anchor: %s does not exist" % fs.file)
    src = _read(fpath)
    try:
        toks, item = find_path(src, fs.path)
    except (LookupError, LexError) as e:
        raise ExtractError("lost anchor %s :: %s: %s" % (fs.file, " :: ".join(fs.path), e))
    if item.body_open is None:
        raise ExtractError("%s has no body" % fs.id)
    b0 = toks[item.body_open].start
    b1 = toks[item.body_close].end
    body = src[b0:b1]
    blines = body.split("\n")
    offs, o = [], 0
    for ln in blines:
        offs.append(o)
        o += len(ln) + 1
    def find(anchor):
        hits = [i for i, ln in enumerate(blines) if _norm(anchor) in _norm(ln)]
        if len(hits) != 1:
            raise ExtractError("lost anchor: slice %s: %r matches %d body lines" % (fs.id, anchor, len(hits)))
        return hits[0]
    if getattr(fs, "from_after", None):
        # the slice begins right after the last line of the preceding slice: nothing of the function lies between the two
        i0 = find(fs.from_after) + 1
        fs.from_anchor = "(the line after) " + fs.from_after
    else:
        i0 = find(fs.from_anchor)
    i1 = find(fs.to_anchor)
    if i1 < i0:
        raise ExtractError("slice %s: `to` precedes `from`" % fs.id)
    a, b = offs[i0], offs[i1] + len(blines[i1])
    text = body[a:b]
    # nesting level and balance
    depth = 0
    for t in lex(body[:a]):
        if t.kind == "punct" and t.text in "([{":
            depth += 1
        elif t.kind == "punct" and t.text in ")]}":
            depth -= 1
    if depth != 1:
        raise ExtractError("slice %s does not start at the top level of the function body" % fs.id)
    d2 = 0
    for t in lex(text):
        if t.kind == "punct" and t.text in "([{":
            d2 += 1
        elif t.kind == "punct" and t.text in ")]}":
            d2 -= 1
            if d2 < 0:
                raise ExtractError("slice %s is not bracket-balanced" % fs.id)
    if d2 != 0:
        raise ExtractError("slice %s is not bracket-balanced" % fs.id)
    if fs.must_precede and _norm(fs.must_precede) in _norm(body[:b]):
        # a decided, syntactic obligation (straight-line code): the statement that must come AFTER every fallible
        # construction of the slice now comes before the end of it
        raise OrderViolation(fs.id, fs.safety, "%r occurs before the end of the slice %r .. %r" % (fs.must_precede, fs.from_anchor, fs.to_anchor))
    if fs.must_precede and _norm(fs.must_precede) not in _norm(body[b:]):
        raise ExtractError("lost anchor: slice %s: %r no longer follows the slice" % (fs.id, fs.must_precede))
    for mc in getattr(fs, "must_contain", []):
        if _norm(mc) not in _norm(text):
            if _norm(mc) in _norm(body[b:]):
                # same decided, syntactic obligation: a fallible construction now comes AFTER the last statement of the slice
                raise OrderViolation(fs.id, fs.safety, "%r occurs after the end of the slice %r .. %r" % (mc, fs.from_anchor, fs.to_anchor))
            raise ExtractError("lost anchor: slice %s: %r is no longer part of the slice" % (fs.id, mc))
    applied = [("slice", "%s .. %s" % (fs.from_anchor, fs.to_anchor), "statements wrapped in a synthetic signature and tail (template text)")]
    out = []
    pro = list(fs.prologue)
    if canary and (canary is True or fs.id in canary):
        # the contract lines of the prologue precede its final `{`
        k = max(i for i, ln in enumerate(pro) if ln.strip() == "{")
        pro = _add_canary(pro[:k], fs.id) + pro[k:]
    out.extend(_mk_injected(pro, fs.id))
    _process_body(fs, text, src, b0 + a, applied, out)
    out.extend(_mk_injected(fs.epilogue, fs.id))
    info = _info(fs, src, b0 + a, b0 + b, applied, assumed=False, toks_slice=text)
    info["slice"] = True
    info["dropped"] = "everything of the function outside the slice (see DESIGN)"
    return out, info


def build_fn(fs, canary=False):
    if getattr(fs, "is_slice", False):
        return build_slice(fs, canary)
    """Return (list[GenLine], info dict) for one //@@ fn block."""
    fpath = os.path.join(REPO, fs.file)
    if not os.path.exists(fpath):
        raise ExtractError("lost anchor: %s does not exist" % fs.file)
    src = _read(fpath)
    try:
        toks, item = find_path(src, fs.path)
    except (LookupError, LexError) as e:
        raise ExtractError("lost anchor %s :: %s: %s" % (fs.file, " :: ".join(fs.path), e))
    if "fn" not in item.header_tokens():
        raise ExtractError("%s is not a function" % fs.id)
    h0 = toks[item.head_start].start
    has_body = item.body_open is not None
    if has_body:
        b0 = toks[item.body_open].start
        b1 = toks[item.body_close].end
    else:
        b0 = toks[item.end - 1].start  # the ';'
        b1 = toks[item.end - 1].end
    sig = src[h0:b0].rstrip()
    body = src[b0:b1] if has_body else None
    src_first_line = _line_of(src, h0)
    applied = []

    # ---- signature: name the return value
    sig_out = sig
    if fs.ret:
        # find '->' at depth 0 of the signature, after the parameter list
        st = lex(sig)
        arrow = None
        depth = 0
        for k, t in enumerate(st):
            if t.kind == "punct" and t.text in "([":
                depth += 1
            elif t.kind == "punct" and t.text in ")]":
                depth -= 1
            elif depth == 0 and t.text == "-" and k + 1 < len(st) and st[k + 1].text == ">":
                # skip the arrow inside `Fn() -> X` bounds: take the LAST depth-0 arrow before `where`
                arrow = k
            elif depth == 0 and t.text == "where":
                break
        if arrow is None:
            # unit return: add one
            wh = [t for t in st if t.text == "where"]
            if wh:
                p = wh[0].start
                sig_out = sig[:p] + "-> (%s: ()) " % fs.ret + sig[p:]
            else:
                sig_out = sig + " -> (%s: ())" % fs.ret
            applied.append(("ret_name", "", "-> (%s: ())" % fs.ret))
        else:
            p = st[arrow + 1].end
            wh = [t for t in st[arrow:] if t.text == "where"]
            q = wh[0].start if wh else len(sig)
            ty = sig[p:q].strip()
            sig_out = sig[:p] + " (%s: %s)" % (fs.ret, ty) + (" " + sig[q:] if wh else "")
            applied.append(("ret_name", "-> " + ty, "-> (%s: %s)" % (fs.ret, ty)))
    for rw in fs.rewrites:
        if rw not in REWRITES:
            raise ExtractError("unknown rewrite %s" % rw)
        new, n = _apply_rewrite(rw, sig_out)
        if n:
            applied.append((rw, "signature", "%d site(s)" % n))
            sig_out = new

    out = []
    header = list(fs.header)
    if canary and (canary is True or fs.id in canary) and has_body and not fs.assume:
        header = _add_canary(header, fs.id)
    if fs.assume:
        out.append(GenLine("#[verifier::external_body]", "inj", fs.id))
    for a_ in fs.attrs:
        out.append(GenLine(a_, "inj", fs.id))
    sig_lines = sig_out.split("\n")
    for k, ln in enumerate(sig_lines):
        out.append(GenLine(ln, "src", fs.id, src_file=fs.file, src_line=src_first_line + k))
    hl = _mk_injected(header, fs.id)
    if fs.assume:
        for g in hl:
            g.obl, g.props = None, []
    out.extend(hl)
    if not has_body:
        out.append(GenLine(";", "src", fs.id, src_file=fs.file, src_line=_line_of(src, b0)))
        info = _info(fs, src, h0, b1, applied, assumed=fs.assume, toks_slice=src[h0:b1])
        return out, info
    if fs.assume:
        out.append(GenLine("{ unimplemented!() }", "inj", fs.id))
        info = _info(fs, src, h0, b1, applied, assumed=True, toks_slice=src[h0:b1])
        return out, info

    _process_body(fs, body, src, b0, applied, out)
    info = _info(fs, src, h0, b1, applied, assumed=False, toks_slice=src[h0:b1])
    return out, info


def _check_tail_loop(body):
    bt = lex(body)
    # body = { stmts...; loop { ... } }   : the last token before the closing brace must close the loop
    close = len(bt) - 1
    if bt[close - 1].text != "}":
        raise ExtractError("break_value: loop is not the tail expression")
    # find matching open of that brace, token before it must be `loop`
    depth = 0
    for j in range(close - 1, -1, -1):
        if bt[j].text == "}":
            depth += 1
        elif bt[j].text == "{":
            depth -= 1
            if depth == 0:
                if bt[j - 1].text != "loop":
                    raise ExtractError("break_value: tail expression is not a `loop`")
                return
    raise ExtractError("break_value: unbalanced")


def _add_canary(header, fid):
    tag = "false, // @canary " + fid
    out = list(header)
    for i, ln in enumerate(out):
        m = re.match(r"^(\s*)ensures\b(.*)$", ln)
        if m:
            out[i] = m.group(1) + "ensures " + tag
            rest = m.group(2).strip()
            if rest:
                out.insert(i + 1, m.group(1) + "        " + rest)
            return out
    for i, ln in enumerate(out):
        if re.match(r"^\s*decreases\b", ln):
            out.insert(i, "    ensures " + tag)
            return out
    out.append("    ensures " + tag)
    return out


def _info(fs, src, a, b, applied, assumed, toks_slice):
    tk = " ".join(t.text for t in lex(toks_slice))
    return {
        "id": fs.id,
        "source": fs.file,
        "path": " :: ".join(fs.path),
        "lines": [_line_of(src, a), _line_of(src, b)],
        "token_sha256": hashlib.sha256(tk.encode()).hexdigest()[:16],
        "rewrites": [list(x) for x in applied],
        "assumed_here": assumed,
        "safety_props": fs.safety,
        "ext_post": list(fs.ext_post) if getattr(fs, "ext_post", None) else None,
        "spec_files": [os.path.relpath(p, VERIF) for p in fs.header_files],
    }


def build_item(file, path, pre, rewrites):
    fpath = os.path.join(REPO, file)
    if not os.path.exists(fpath):
        raise ExtractError("lost anchor: %s does not exist" % file)
    src = _read(fpath)
    try:
        toks, item = find_path(src, path)
    except (LookupError, LexError) as e:
        raise ExtractError("lost anchor %s :: %s: %s" % (file, " :: ".join(path), e))
    a = toks[item.head_start].start
    b = toks[item.end - 1].end
    text = src[a:b]
    text, dropped = _strip_attr_lines(text)
    applied = []
    derives = [rw[7:] for rw in rewrites if rw.startswith("derive:")]
    keeps = [rw[5:] for rw in rewrites if rw.startswith("keep:")]
    rewrites = [rw for rw in rewrites if not rw.startswith("derive:") and not rw.startswith("keep:")]
    for rw in rewrites:
        text, n = _apply_rewrite(rw, text)
        if n:
            applied.append([rw, "item", "%d site(s)" % n])
    out = [GenLine(ln, "inj") for ln in pre]
    trailer = []
    if keeps:
        attr_text = src[toks[item.attrs_start].start:a]
        have = set(re.findall(r"\w+", " ".join(re.findall(r"derive\(([^)]*)\)", attr_text))))
        for d in keeps:
            if d not in have:
                raise ExtractError("lost anchor: item no longer derives %s" % d)
        out.append(GenLine("#[derive(%s)]" % ", ".join(keeps), "inj"))
        applied.append(["keep_derive", "item", "derive(%s) kept verbatim (supported by Verus for field-less Copy enums)" % ", ".join(keeps)])
    if derives:
        # attributes precede the item header: look at them in the source
        attr_text = src[toks[item.attrs_start].start:a]
        have = set(re.findall(r"\w+", " ".join(re.findall(r"derive\(([^)]*)\)", attr_text))))
        ht = item.header_tokens()
        name = ht[[k for k, t in enumerate(ht) if t in ("struct", "enum")][0] + 1]
        for d in derives:
            if d not in have:
                raise ExtractError("lost anchor: %s no longer derives %s" % (name, d))
            if d == "Clone":
                trailer += ["// trusted stand-in for #[derive(Clone)] on %s: a structural copy" % name,
                            "impl Clone for %s {" % name,
                            "    #[verifier::external_body]",
                            "    fn clone(&self) -> (r: Self) ensures r == *self { unimplemented!() }",
                            "}"]
                applied.append(["derive_clone", "item", "derive(Clone) replaced by a trusted impl with `ensures r == *self`"])
            elif d in ("PartialEq", "Eq", "Hash", "Copy", "Debug"):
                # presence check only: the trusted stand-in impl is written in the prelude next to the item
                applied.append(["derive_" + d.lower(), "item", "derive(%s) is present in the source; its stand-in is declared in the prelude" % d])
            else:
                raise ExtractError("no stand-in for derive(%s)" % d)
    l0 = _line_of(src, a)
    for k, ln in enumerate(text.split("\n")):
        out.append(GenLine(ln, "src", src_file=file, src_line=l0 + k))
    out.extend(GenLine(ln, "inj") for ln in trailer)
    info = {"id": "item:" + " :: ".join(path), "source": file, "path": " :: ".join(path),
            "lines": [l0, _line_of(src, b)], "dropped": dropped, "rewrites": applied,
            "token_sha256": hashlib.sha256(" ".join(t.text for t in lex(src[a:b])).encode()).hexdigest()[:16]}
    return out, info


def self_check(gen_lines, infos):
    """Remove injected lines, undo nothing else: the remaining tokens of every function must equal the
    tokens of the source slice after the recorded rewrites.  Done token-wise and independently of the
    text-level generator: we re-extract the slice and compare multisets in order."""
    by_fn = {}
    for g in gen_lines:
        if g.kind == "src" and g.fn:
            by_fn.setdefault(g.fn, []).append(g.text)
    problems = []
    for info in infos:
        fid = info["id"]
        if fid.startswith("item:") or info.get("assumed_here"):
            continue
        src = _read(os.path.join(REPO, info["source"]))
        toks, item = find_path(src, info["path"].split(" :: "))
        a = toks[item.head_start].start
        b = toks[item.end - 1].end
        want = src[a:b]
        if info.get("slice"):
            sl = src.split("\n")[info["lines"][0] - 1:info["lines"][1]]
            want = "\n".join(sl)
        for rw, where, _ in info["rewrites"]:
            if rw in ("ret_name", "slice"):
                continue
            want, _n = _apply_rewrite(rw, want)
        got = "\n".join(by_fn.get(fid, []))
        wt = [t.text for t in lex(want)]
        gt = [t.text for t in lex(got)]
        # undo the return-value naming on the generated side
        for rw, before, after in info["rewrites"]:
            if rw == "ret_name":
                at = [t.text for t in lex(after)]
                bt = [t.text for t in lex(before)]
                for k in range(len(gt) - len(at) + 1):
                    if gt[k:k + len(at)] == at:
                        gt[k:k + len(at)] = bt
                        break
        if wt != gt:
            # first difference
            k = 0
            while k < min(len(wt), len(gt)) and wt[k] == gt[k]:
                k += 1
            problems.append("%s: token mismatch at #%d: source %r vs generated %r" % (
                fid, k, wt[k:k + 6], gt[k:k + 6]))
    return problems


def canary_levels(template):
    """Partition the contracted functions into groups such that no function of a group (textually) calls
    another one of the same group: a canary `ensures false` on a callee would make its callers vacuous."""
    parts = parse_template(template)
    fns = []
    for kind, fs, _ in parts:
        if kind != "fn" or fs.assume:
            continue
        src = _read(os.path.join(REPO, fs.file))
        toks, item = find_path(src, fs.path)
        if item.body_open is None:
            continue
        ht = item.header_tokens()
        name = ht[ht.index("fn") + 1]
        if getattr(fs, "is_slice", False):
            name = "__slice__" + name
        body = [t.text for t in toks[item.body_open:item.body_close + 1] if t.kind == "ident"]
        # calls that do not name their target: x.into() is From::from, x.try_into() is TryFrom::try_from, `?` converts with From::from
        if "into" in body or any(t.text == "?" for t in toks[item.body_open:item.body_close + 1]):
            body.append("from")
        if "try_into" in body:
            body.append("try_from")
        trait = None
        for el in fs.path:
            m = re.match(r"impl(?:<[^>]*>)?\s+([\w:]+)(?:<[^>]*>)?\s+for\s+(\S+)", el)
            if m:
                trait = (m.group(1), m.group(2))
        fns.append((fs.id, name, set(body), trait))
    levels = []
    for fid, name, body, trait in fns:
        placed = False
        for lv in levels:
            ok = True
            for (gid, gname, gbody, gtrait) in lv:
                same_trait_other_type = trait and gtrait and trait[0] == gtrait[0] and trait[1] != gtrait[1]
                if same_trait_other_type:
                    continue
                if (gname in body and gid != fid) or name in gbody:
                    ok = False
                    break
            if ok:
                lv.append((fid, name, body, trait))
                placed = True
                break
        if not placed:
            levels.append([(fid, name, body, trait)])
    return [set(x[0] for x in lv) for lv in levels]


def _add_lemma_canaries(gen):
    """Vacuity guard of the pure-spec lemmas: every `proof fn` of the template text that carries an `@obl` tag gets a twin
    with the same parameters and the same `requires`, `ensures false` and an empty body. The twin MUST fail: if the solver
    can derive false from the hypotheses (and the axioms in scope) alone, the lemma says nothing."""
    out = list(gen)
    inserts = []      # (index to insert before, [GenLine])
    opaque = []
    for i, g in enumerate(gen):
        if "#[verifier::opaque]" in g.text:
            for x in gen[i:i + 3]:
                m = re.search(r"\bspec\s+fn\s+(\w+)", x.text)
                if m:
                    opaque.append(m.group(1))
                    break
    seen = set()
    for i, g in enumerate(gen):
        if g.kind != "tmpl" or not g.obl:
            continue
        # header start: the closest `proof fn` above
        k = i
        while k >= 0 and not re.search(r"\bproof\s+fn\s+\w+", gen[k].text):
            if gen[k].kind != "tmpl":
                k = -1
                break
            k -= 1
        if k < 0 or k in seen:
            continue
        # the tag must sit in this function's own header: no body or other function in between
        if any(x.text.strip() in ("{", "}") or re.search(r"\bfn\s+\w+", x.text) for x in gen[k + 1:i + 1]):
            continue
        seen.add(k)
        # header lines: from `proof fn` to the line before the first `ensures`
        e = k
        while e <= i and not re.match(r"^\s*ensures\b", gen[e].text):
            e += 1
        if e > i:
            continue
        head = [x.text for x in gen[k:e]]
        m = re.search(r"\bproof\s+fn\s+(\w+)", head[0])
        head[0] = head[0][:m.start(1)] + m.group(1) + "__canary" + head[0][m.end(1):]
        head[0] = re.sub(r"^(\s*)(pub\s+)?(broadcast\s+)?proof", r"\1proof", head[0])
        # hypotheses hidden behind #[verifier::opaque] are revealed in the twin, so that a contradictory definition shows
        reveals = [n for n in opaque if re.search(r"\b%s\s*\(" % re.escape(n), " ".join(head[1:]) + head[0])]
        lines = head + ["    ensures false, // @canary " + g.obl, "{ " + " ".join("reveal(%s);" % n for n in reveals) + " }", ""]
        at = k
        while at > 0 and re.match(r"^\s*(#\[|///)", gen[at - 1].text):
            at -= 1
        gl = []
        for t in lines:
            x = GenLine(t, "lemma-canary")
            x.fn = g.obl
            gl.append(x)
        inserts.append((at, gl))
    for at, gl in sorted(inserts, key=lambda z: -z[0]):
        out[at:at] = gl
    return out


def generate(template, out_path, canary=False, lenient=False, lemma_canaries=False):
    LENIENT["on"] = lenient
    LENIENT["lost"] = []
    parts = parse_template(template)
    gen = []
    infos = []
    for kind, payload, origin in parts:
        if kind == "text":
            for ln in payload:
                g = GenLine(ln, "tmpl")
                m = OBL_RE.search(ln)
                if m:
                    g.obl, g.props = m.group(1), m.group(2).split()
                gen.append(g)
        elif kind == "consts":
            # top-level `const NAME: <primitive> = <literal>;` items of the file (a change may introduce one)
            fpath = os.path.join(REPO, payload)
            if os.path.exists(fpath):
                srcc = _read(fpath)
                tk = lex(srcc)
                from rustlex import items_in
                for it in items_in(tk, 0, len(tk)):
                    ht = it.header_tokens()
                    if "const" in ht[:3] and "fn" not in ht and it.body_open is None:
                        text = srcc[tk[it.head_start].start:tk[it.end - 1].end]
                        if re.match(r"^(pub(\([a-z]+\))?\s+)?const\s+\w+\s*:\s*(u8|u16|u32|u64|usize|i8|i16|i32|i64|isize|bool|char|f64|&str|&'static str)\s*=\s*[^;{}]+;$", _norm(text)):
                            gen.append(GenLine(re.sub(r"^pub(\([a-z]+\))?\s+", "", text), "src", src_file=payload, src_line=_line_of(srcc, tk[it.head_start].start)))
        elif kind == "implcheck":
            prefix, file, ipath, want = payload
            from rustlex import items_in
            srcc = _read(os.path.join(REPO, file))
            try:
                tk, it = find_path(srcc, ipath)
            except LookupError as e:
                err = ExtractError("lost anchor %s :: %s: %s" % (file, " :: ".join(ipath), e))
                err.fid = prefix + ".*"
                raise err
            have = []
            for sub in items_in(tk, it.body_open + 1, it.body_close):
                ht = sub.header_tokens()
                if "fn" in ht:
                    have.append(ht[ht.index("fn") + 1])
            if sorted(have) != sorted(want):
                err = ExtractError("lost anchor %s :: %s: the impl block defines %s, the unit expects %s (a method was added, e.g. an override of a verified default method, or removed)"
                                   % (file, " :: ".join(ipath), sorted(set(have) - set(want)) or sorted(have), sorted(want)))
                err.fid = prefix + ".*"
                raise err
        elif kind == "item":
            lines, info = build_item(*payload)
            gen.extend(lines)
            infos.append(info)
        elif kind == "fn":
            try:
                lines, info = build_fn(payload, canary=canary)
            except ExtractError as e:
                e.fid = payload.id      # which function / slice could not be extracted
                raise
            gen.extend(lines)
            infos.append(info)
    problems = self_check(gen, infos)
    if problems:
        raise ExtractError("self-check failed: " + "; ".join(problems))
    if lemma_canaries:
        gen = _add_lemma_canaries(gen)
    with open(out_path, "w", encoding="utf-8") as f:
        f.write("\n".join(g.text for g in gen) + "\n")
    linemap = []
    for n, g in enumerate(gen, 1):
        if g.kind != "tmpl" or g.obl or g.tobl:
            linemap.append({"line": n, "kind": g.kind, "fn": g.fn, "obl": g.obl, "props": g.props,
                            "src": [g.src_file, g.src_line] if g.src_file else None,
                            "canary": "@canary" in g.text, "tobl": g.tobl})
    # function line ranges in the generated file
    ranges = {}
    for n, g in enumerate(gen, 1):
        if g.fn:
            r = ranges.setdefault(g.fn, [n, n])
            r[1] = n
    lost = list(LENIENT["lost"])
    LENIENT["on"] = False
    return {"unit": os.path.splitext(os.path.basename(template))[0], "file": out_path, "functions": infos, "lost_hints": lost,
            "lemma_obligations": sum(1 for g in gen if g.kind == "tmpl" and g.obl),
            "ranges": ranges, "lines": linemap, "rewrite_statements": {k: v[2] for k, v in REWRITES.items()}}


if __name__ == "__main__":
    import argparse
    ap = argparse.ArgumentParser()
    ap.add_argument("template")
    ap.add_argument("-o", required=True)
    ap.add_argument("--canary", action="store_true")
    a = ap.parse_args()
    try:
        m = generate(a.template, a.o, canary=a.canary)
    except ExtractError as e:
        print("UNDECIDED: " + str(e), file=sys.stderr)
        sys.exit(2)
    with open(a.o + ".map.json", "w") as f:
        json.dump(m, f, indent=1)
    print("generated %s: %d functions" % (a.o, len(m["functions"])))
