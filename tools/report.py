"""Turn verifier results into exit status, VIOLATION / KNOWN-FINDING lines, replay files and evidence."""
import hashlib
import json
import os
import re
import sys
import time

HERE = os.path.dirname(os.path.abspath(__file__))
VERIF = os.path.dirname(HERE)
OUT = os.environ.get("VERIF_OUT", VERIF)   # evidence/ and replays/ go here (scratch runs against a mutated copy use another dir)


def log(*a):
    print(*a, file=sys.stderr, flush=True)


def _load(p, default):
    if os.path.exists(p):
        with open(p) as f:
            return json.load(f)
    return default


def finish(prop, pc, tier, seed, results, kani_res, wall, update_baseline=False):
    known = _load(os.path.join(VERIF, "KNOWN_FINDINGS.json"), {"findings": [], "fixed": []})
    probes = _load(os.path.join(VERIF, "config", "probes.json"), {})
    known_by_obl = {}
    for k in known.get("findings", []):
        known_by_obl.setdefault(k["obligation"], []).append(k)

    undecided = []
    degraded = []      # proof hints that could not be placed (function restructured); contracts are still checked
    obligations = {}   # id -> record
    all_ids_by_unit = {}
    trusted = []
    functions = []
    fn_times = {}
    cmds = []
    canary_total = canary_ok = 0
    for r in results:
        cmds.append(r.cmd)
        for u in r.undecided:
            undecided.append("[%s] %s" % (r.name, u))
        for dgr in getattr(r, "degraded", []):
            degraded.append("[%s] %s" % (r.name, dgr))
        if r.map is None:
            continue
        if not getattr(r, "order_only", False):
            all_ids_by_unit[r.name] = sorted(r.obligations.keys())
        for t in r.trusted:
            if t not in trusted:
                trusted.append(t)
        for f in r.map["functions"]:
            functions.append(dict(f, unit=r.name))
        fn_times.update({k: v for k, v in r.fn_times.items()})
        canary_total += r.canary_total
        canary_ok += r.canary_total - len(r.canary_missing)
        for fn in r.canary_missing:
            undecided.append("[%s] vacuity guard: canary `ensures false` on %s did not fail (contradictory requires/assumption?)" % (r.name, fn))
        rej = getattr(r, "rejected", [])
        rej_fns = {fn: msg for fn, msg in rej if fn}
        for oid, o in r.obligations.items():
            if prop in o["props"] or "*" in o["props"]:
                # a unit the verifier refused (unsupported construct in a changed function ...) has discharged NOTHING
                obligations[oid] = {"id": oid, "backend": "verus", "unit": r.name, "clause": o["text"], "fn": o["fn"],
                                    "status": "failed" if oid in r.failed else ("undecided" if rej else "discharged"),
                                    "diag": r.failed.get(oid)}
                if rej and o["fn"] in rej_fns and oid not in r.failed:
                    obligations[oid]["rejected"] = rej_fns[o["fn"]]
    kani_info = None
    if kani_res is not None:
        kani_info = {"cmd": kani_res.get("cmd"), "wall_s": kani_res.get("wall"), "harnesses": {}}
        cmds.append(kani_res.get("cmd", "cargo kani"))
        for u in kani_res.get("undecided", []):
            undecided.append("[kani] " + u)
        for name, h in kani_res.get("harnesses", {}).items():
            all_ids_by_unit.setdefault("kani", []).append("K." + name)
            if prop not in h.get("props", []):
                continue
            st = h["status"]
            oid = "K." + name
            obligations[oid] = {"id": oid, "backend": "kani/cbmc", "unit": "kani", "clause": h.get("doc", ""), "fn": h.get("fn"),
                                "status": {"SUCCESS": "discharged", "FAILURE": "failed"}.get(st, "undecided"),
                                "diag": h.get("failure"), "time_s": h.get("time"), "bounded": h.get("bounded"),
                                "playback": h.get("playback")}
            kani_info["harnesses"][name] = {"status": st, "time_s": h.get("time"), "checks": h.get("checks"), "bounded": h.get("bounded")}
            if st not in ("SUCCESS", "FAILURE"):
                undecided.append("[kani] harness %s: %s" % (name, st))
        for t in kani_res.get("trusted", []):
            if t not in trusted:
                trusted.append(t)
        if "kani" in all_ids_by_unit:
            all_ids_by_unit["kani"].sort()

    # ---- baseline: the committed list of obligation ids per unit
    bpath = os.path.join(VERIF, "baseline", "obligations.json")
    base = _load(bpath, {})
    if update_baseline:
        for u, ids in all_ids_by_unit.items():
            # each property runs only its own harnesses, so the kani list is accumulated, never replaced
            base[u] = sorted(set(base.get(u, [])) | set(ids)) if u == "kani" else ids
        os.makedirs(os.path.dirname(bpath), exist_ok=True)
        json.dump(base, open(bpath, "w"), indent=1, sort_keys=True)
        # the tags of every obligation (used when a function can no longer be extracted at all)
        ppath = os.path.join(VERIF, "baseline", "obligation_props.json")
        pb = _load(ppath, {})
        for r in results:
            if r.map is None or getattr(r, "order_only", False) or getattr(r, "rejected", []):
                continue
            pb[r.name] = {oid: {"props": o["props"], "fn": o["fn"], "text": o["text"][:300]} for oid, o in sorted(r.obligations.items())}
        json.dump(pb, open(ppath, "w"), indent=1, sort_keys=True)
        log("baseline updated for units", list(all_ids_by_unit))
    else:
        for u, ids in all_ids_by_unit.items():
            b = base.get(u)
            if u == "kani":
                missing = [i for i in ids if i not in (b or [])]
                if missing:
                    undecided.append("baseline: kani harnesses %s not in the committed baseline" % missing)
                continue
            if b is None:
                undecided.append("baseline: unit %s has no committed obligation list" % u)
            elif [x for x in b if not x.endswith(".untagged")] != [x for x in ids if not x.endswith(".untagged")]:
                undecided.append("baseline: obligations generated for %s differ from the committed list (+%s -%s)" % (
                    u, sorted(set(ids) - set(b))[:5], sorted(set(b) - set(ids))[:5]))

    n_obl = len(obligations)
    if n_obl == 0 and not undecided:
        undecided.append("vacuity guard: no obligation generated for " + prop)

    # ---- decide
    violations = []
    known_lines = []
    witness_checks = []
    for oid, o in sorted(obligations.items()):
        if o["status"] != "failed":
            continue
        if oid in known_by_obl:
            for k in known_by_obl[oid]:
                if k["property"] == prop or prop in k.get("also", []):
                    known_lines.append("KNOWN-FINDING: property=%s %s [obligation %s]" % (prop, k["what"], oid))
                    if tier == "thorough" and k.get("witness"):
                        # the listed witness must still reproduce on the real binary
                        sys.path.insert(0, HERE)
                        import replay as _rp
                        ok, obs = _rp.run_probe(k["witness"])
                        witness_checks.append({"obligation": oid, "witness_still_fails": ok is False})
                        if ok is not False:
                            undecided.append("known finding %s: the listed witness no longer reproduces" % oid)
            o["status"] = "known-finding"
            continue
        violations.append(o)

    # obligations of a function the verifier refused to process: no longer discharged. They are undecided, unless a concrete
    # input replayed on the real binary shows the behaviour the clause pins down is gone: then it is a violation WITH a failing input.
    by_fn = {}
    for oid, o in sorted(obligations.items()):
        if o["status"] == "undecided" and o.get("rejected") and oid not in known_by_obl:
            by_fn.setdefault(o["fn"], []).append(o)
    for fn, obls in sorted(by_fn.items()):
        sys.path.insert(0, HERE)
        import replay as _rp2
        chosen = None
        # the probes of a rejected function: those registered for the function itself (or a prefix of its id) and those
        # registered for any of its obligations; a probe registered for exactly one obligation names that obligation
        failing_keys = set()
        def _fails(pl, _cache={}):
            for pr in pl:
                k = json.dumps(pr, sort_keys=True)
                if k not in _cache:
                    _cache[k] = _rp2.run_probe(pr)[0] is False
                if _cache[k]:
                    return True
            return False
        for key, pl in probes.items():
            kk = key[:-1] if key.endswith("*") else key
            rel = fn and (fn == kk or fn.startswith(kk + ".")) or any(o["id"] == kk or o["id"].startswith(kk + ".") for o in obls)
            if rel and _fails(pl):
                failing_keys.add(kk)
        if failing_keys:
            exact = [o for o in obls if o["id"] in failing_keys]
            pref = [o for o in obls if not o["id"].endswith(".safety") and any(o["id"].startswith(k + ".") for k in failing_keys)]
            nons = [o for o in obls if not o["id"].endswith(".safety")]
            chosen = (exact or pref or nons or obls)[0]
            chosen["probe_keys"] = sorted(failing_keys)
        if chosen:
            chosen["status"] = "failed"
            chosen["diag"] = ("the verifier rejected the changed function %s (%s): its obligations %s, discharged on the unchanged tree, are no longer "
                              "discharged; the failing input below is replayed on the real binary" % (fn, chosen["rejected"], [o["id"] for o in obls]))
            violations.append(chosen)

    os.makedirs(os.path.join(OUT, "replays"), exist_ok=True)
    vio_lines = []
    downgraded = []
    replay_mod = None
    for o in violations:
        rec = {"property": prop, "obligations": [{"id": o["id"], "clause": o["clause"], "backend": o["backend"],
                                                  "function": o["fn"],
                                                  "verifier_output": "\n".join(d.get("rendered", "") for d in (o["diag"] or []))
                                                  if isinstance(o["diag"], list) else (o["diag"] or "")}],
               "failing_inputs": [], "tree": _tree_id(), "proof_hints_not_placed": degraded}
        found = False
        cand = []
        if o.get("playback"):
            cand += o["playback"].get("probes", [])
            rec["kani_concrete_values"] = o["playback"].get("values")
        for key, pl in probes.items():
            kk = key[:-1] if key.endswith("*") else key
            if o["id"] == key or o["id"].startswith(kk + ".") or kk in o.get("probe_keys", []):
                cand += pl
        if cand:
            if replay_mod is None:
                sys.path.insert(0, HERE)
                import replay as replay_mod
            for pr in cand:
                ok, obs = replay_mod.run_probe(pr)
                if ok is False:
                    rec["failing_inputs"].append({"probe": pr, "observed": obs})
                    found = True
        if not found and o.get("fn") and any(re.search(r"(?<![\w.])%s(?![\w.])" % re.escape(o["fn"]), dgr) for dgr in degraded):
            # the proof of this very function lost a hint (its body was restructured) and no concrete failing input exists:
            # the failed proof is inconclusive, not a violation
            undecided.append("obligation %s failed, but proof hints of %s could not be placed on the restructured body and no failing input was found: undecided" % (o["id"], o["fn"]))
            downgraded.append(o["id"])
            continue
        h = hashlib.sha256((o["id"] + json.dumps(rec["obligations"])).encode()).hexdigest()[:8]
        rp = os.path.join(OUT, "replays", "%s-%s-%s.json" % (prop, re.sub(r"[^\w.]+", "_", o["id"]), h))
        json.dump(rec, open(rp, "w"), indent=1)
        vio_lines.append("VIOLATION property=%s replay=%s%s" % (prop, rp, "" if found else " no-failing-input-found"))

    # ---- evidence
    discharged = sum(1 for o in obligations.values() if o["status"] == "discharged")
    by_backend = {}
    for o in obligations.values():
        b = by_backend.setdefault(o["backend"], {"obligations": 0, "discharged": 0})
        b["obligations"] += 1
        b["discharged"] += o["status"] == "discharged"
    my_fns = sorted({o["fn"] for o in obligations.values() if o["fn"]})
    fn_rows = [f for f in functions if f["id"] in my_fns]
    samples = [{"id": o["id"], "backend": o["backend"], "clause": o["clause"][:400], "status": o["status"]}
               for o in list(sorted(obligations.values(), key=lambda x: x["id"]))[:12]]
    smt_ms = sum(v["ms"] for v in fn_times.values())
    ev = {
        "property_id": prop, "tier": tier, "seed": seed, "level": "proof",
        "coverage": {
            # obligations the property needs; the unrestricted clauses recorded as known findings are listed separately
            "obligations": n_obl - sum(1 for o in obligations.values() if o["status"] == "known-finding"), "discharged": discharged,
            "known_findings": sum(1 for o in obligations.values() if o["status"] == "known-finding"),
            "checker_cmd": " ; ".join(c for c in cmds if c),
            "trusted_base": trusted,
            "samples": samples,
            "by_backend": by_backend,
            "functions_under_contract": [{"id": f["id"], "source": f["source"], "path": f["path"], "lines": f["lines"],
                                          "token_sha256": f["token_sha256"], "rewrites": f.get("rewrites", []), "unit": f["unit"]}
                                         for f in fn_rows],
            "verus_units": [r.name for r in results],
            "verus_functions_verified": {r.name: r.verified for r in results},
            "solver_time_ms": {"smt_total": smt_ms,
                               "per_function": {k: v for k, v in sorted(fn_times.items()) if v["ms"] >= 1}},
            "kani": kani_info,
            "vacuity": {"canaries": canary_total, "canaries_failed_as_required": canary_ok},
            "proof_stability": {r.name: getattr(r, "stability", None) for r in results if getattr(r, "stability", None)},
            "bounded_stand_ins": [o["id"] + ": " + str(o.get("bounded")) for o in obligations.values() if o.get("bounded")],
            "unverified_residue": pc.get("residue", []),
            "undecided": undecided,
            "proof_hints_not_placed": degraded,
            "known_finding_witnesses": witness_checks,
            "failed_obligations": [o["id"] for o in violations if o["id"] not in downgraded],
            "inconclusive_obligations": downgraded,
            "all_obligation_ids": sorted(obligations.keys()),
        },
        "assumptions": pc.get("assumptions", []) + ["machine arithmetic is NOT idealised: Verus overflow obligations / CBMC bit-precise"],
        "wall_s": round(wall, 2),
        "violations": len([o for o in violations if o["id"] not in downgraded]),
    }
    os.makedirs(os.path.join(OUT, "evidence"), exist_ok=True)
    json.dump(ev, open(os.path.join(OUT, "evidence", prop + ".json"), "w"), indent=1)

    for ln in known_lines:
        print(ln)
    for ln in vio_lines:
        print(ln)
    for u in undecided:
        print("UNDECIDED: " + u)
    for dgr in degraded:
        print("NOTE: proof hint not placed, " + dgr)
    print("%s: %d obligations, %d discharged, %d known findings, %d violations, %d undecided notes, %.1fs" % (
        prop, n_obl, discharged, ev["coverage"]["known_findings"], len(violations) - len(downgraded), len(undecided), wall))
    violations = [o for o in violations if o["id"] not in downgraded]
    if violations:
        return 1
    if undecided:
        return 2
    return 0


def _tree_id():
    import subprocess
    try:
        h = subprocess.run(["git", "-C", os.environ.get("VERIF_REPO", "/repo"), "rev-parse", "HEAD"], capture_output=True, text=True).stdout.strip()
        d = subprocess.run(["git", "-C", os.environ.get("VERIF_REPO", "/repo"), "status", "--porcelain"], capture_output=True, text=True).stdout.strip()
        return {"head": h, "dirty": bool(d)}
    except Exception:
        return {}
