#!/usr/bin/env python3
"""Regenerate MANIFEST.json from config/properties.json + config/manifest_static.json."""
import json, os
V = os.path.dirname(os.path.dirname(os.path.abspath(__file__)))
cfg = json.load(open(os.path.join(V, "config", "properties.json")))
st = json.load(open(os.path.join(V, "config", "manifest_static.json")))
checks = []
for pid in sorted(cfg):
    pc = cfg[pid]
    checks.append({
        "property_id": pid,
        "quick_cmd": "./check %s --tier quick" % pid,
        "thorough_cmd": "./check %s --tier thorough" % pid,
        "evidence_file": "/verif/evidence/%s.json" % pid,
        "replay_cmd_template": "./check %s --replay {path}" % pid,
        "engine": "contracts",
        "level_claimed": {"category": "proof", "text": pc["level_text"], "design_ref": pc.get("design_ref", "DESIGN.md §5 " + pid)},
        "level_note": pc["level_note"],
        "technique": pc["technique"],
    })
na = [{"property_id": k, "reason": v} for k, v in sorted(st["not_applicable"].items()) if k not in cfg]
m = {"version": 1, "setup_cmd": st["setup_cmd"], "hooks": st["hooks"], "engines": st["engines"], "checks": checks,
     "notes": st["notes"], "not_applicable": na}
json.dump(m, open(os.path.join(V, "MANIFEST.json"), "w"), indent=1)
print("MANIFEST: %d checks, %d not applicable" % (len(checks), len(na)))
