#!/usr/bin/env python3
"""setup_cmd: offline; warms the Verus cache and builds the replay binary. Nothing here decides anything."""
import os, subprocess, sys
V = os.path.dirname(os.path.dirname(os.path.abspath(__file__)))
os.makedirs(os.path.join(V, "build"), exist_ok=True)
os.makedirs(os.path.join(V, "replays"), exist_ok=True)
os.makedirs(os.path.join(V, "evidence"), exist_ok=True)
sys.path.insert(0, os.path.join(V, "tools"))
import replay
b = replay.build()
print("replay binary:", b)
sys.exit(0)
