// Replay helper (never decides a property): runs jawk::go — the library of the tree under test — on a standard input whose read
// FAILS at one byte offset, once (transient) or from then on.  usage: faultreplay <fail_at> <transient:0|1> <jawk args...> < input
// or, with <fail_at> written w<k>: on a standard output whose write fails at byte offset k (what was accepted before is printed)
// exit status 0: go() returned Ok; 3: go() returned Err (message on stderr); a panic keeps its own status (101)
use std::cell::RefCell;
use std::io::{Read, Write};
use std::rc::Rc;

use clap::Parser;

struct Faulty { data: Rc<Vec<u8>>, pos: usize, fail_at: usize, transient: bool, failed: bool }
impl Read for Faulty {
    fn read(&mut self, buf: &mut [u8]) -> std::io::Result<usize> {
        if buf.is_empty() { return Ok(0); }
        if self.pos == self.fail_at && (!self.transient || !self.failed) {
            self.failed = true;
            return Err(std::io::Error::new(std::io::ErrorKind::Other, "injected read failure"));
        }
        if self.pos >= self.data.len() { return Ok(0); }
        // one byte at a time up to the failing offset, so that the failure is hit exactly there whatever the buffering
        let limit = if self.pos < self.fail_at { self.fail_at.min(self.data.len()) } else { self.data.len() };
        let n = buf.len().min(limit - self.pos).max(1).min(self.data.len() - self.pos);
        buf[..n].copy_from_slice(&self.data[self.pos..self.pos + n]);
        self.pos += n;
        Ok(n)
    }
}
struct Shared(Rc<RefCell<Vec<u8>>>, Option<usize>, bool, bool);
impl Write for Shared {
    fn write(&mut self, b: &[u8]) -> std::io::Result<usize> {
        if let Some(k) = self.1 {
            let have = self.0.borrow().len();
            if have >= k && !b.is_empty() && (!self.2 || !self.3) {
                self.3 = true;
                return Err(std::io::Error::new(std::io::ErrorKind::Other, "injected write failure"));
            }
            if have < k {
                // a short write up to the failing offset: the caller has to come back for the rest
                let n = b.len().min(k - have);
                self.0.borrow_mut().extend_from_slice(&b[..n]);
                return Ok(n);
            }
        }
        self.0.borrow_mut().extend_from_slice(b);
        Ok(b.len())
    }
    fn flush(&mut self) -> std::io::Result<()> { Ok(()) }
}
// the library wants `dyn Write + Send`; the replay is single-threaded
unsafe impl Send for Shared {}

fn main() {
    let mut args: Vec<String> = std::env::args().collect();
    let wfail: Option<usize> = args[1].strip_prefix('w').map(|k| k.parse().unwrap());
    let fail_at: usize = if wfail.is_some() { usize::MAX } else { args[1].parse().unwrap() };
    let transient = args[2] == "1";
    let jargs: Vec<String> = std::iter::once("jawk".to_string()).chain(args.drain(3..)).collect();
    let mut input = Vec::new();
    std::io::stdin().read_to_end(&mut input).unwrap();
    let data = Rc::new(input);
    let cli = jawk::Cli::parse_from(jargs);
    let out = Rc::new(RefCell::new(Vec::new()));
    let err = Rc::new(RefCell::new(Vec::new()));
    let stdout: Rc<RefCell<dyn Write + Send>> = Rc::new(RefCell::new(Shared(out.clone(), wfail, transient, false)));
    let stderr: Rc<RefCell<dyn Write + Send>> = Rc::new(RefCell::new(Shared(err.clone(), None, false, false)));
    let d2 = data.clone();
    let stdin = Box::new(move || Faulty { data: d2.clone(), pos: 0, fail_at, transient, failed: false });
    let res = jawk::go(cli, stdout, stderr, stdin);
    std::io::stdout().write_all(&out.borrow()).unwrap();
    std::io::stderr().write_all(&err.borrow()).unwrap();
    if let Err(e) = res {
        eprintln!("{e}");
        std::process::exit(3);
    }
}
