// ---- trusted stand-in for std::collections::BTreeMap (only the API SortProcess uses) ----
// A BTreeMap is a sequence of (key, value) pairs in strictly ascending key order (K::cmp). The key order itself is
// uninterpreted here: which bucket a key falls into is `bt_found / bt_idx / bt_rank`; that K::cmp is a total order is C07.
#[verifier::external_body]
#[verifier::accept_recursive_types(K)]
#[verifier::accept_recursive_types(V)]
pub struct BTreeMap<K, V> { _k: std::marker::PhantomData<(K, V)> }
#[verifier::external_body]
#[verifier::accept_recursive_types(K)]
#[verifier::accept_recursive_types(V)]
pub struct BtEntry<'a, K, V> { _k: std::marker::PhantomData<&'a mut (K, V)> }
#[verifier::external_body]
#[verifier::accept_recursive_types(K)]
#[verifier::accept_recursive_types(V)]
pub struct BtOccupied<'a, K, V> { _k: std::marker::PhantomData<&'a mut (K, V)> }
#[verifier::external_body]
#[verifier::accept_recursive_types(K)]
#[verifier::accept_recursive_types(V)]
pub struct BtValuesMut<'a, K, V> { _k: std::marker::PhantomData<&'a mut (K, V)> }

pub uninterp spec fn key_cmp_eq<K>(a: K, b: K) -> bool;   // K::cmp(a, b) == Equal
pub uninterp spec fn key_cmp_lt<K>(a: K, b: K) -> bool;   // K::cmp(a, b) == Less
pub open spec fn bt_found<K>(keys: Seq<K>, k: K) -> bool { exists|i: int| 0 <= i < keys.len() && key_cmp_eq(#[trigger] keys[i], k) }
pub open spec fn bt_idx<K>(keys: Seq<K>, k: K) -> int { choose|i: int| 0 <= i < keys.len() && key_cmp_eq(#[trigger] keys[i], k) }
pub open spec fn bt_rank<K>(keys: Seq<K>, k: K) -> int
    decreases keys.len()
{
    if keys.len() == 0 { 0 } else { bt_rank(keys.drop_last(), k) + if key_cmp_lt(keys.last(), k) { 1int } else { 0int } }
}
pub open spec fn bt_keys<K, V>(s: Seq<(K, V)>) -> Seq<K> { Seq::new(s.len(), |i: int| s[i].0) }
// entry(k).or_default() then writing v: update the bucket of an equal key in place, else insert a new pair at k's rank
pub open spec fn bt_upsert<K, V>(s: Seq<(K, V)>, k: K, v: V) -> Seq<(K, V)> {
    if bt_found(bt_keys(s), k) { let i = bt_idx(bt_keys(s), k); s.update(i, (s[i].0, v)) } else { s.insert(bt_rank(bt_keys(s), k), (k, v)) }
}

impl<K, V> BTreeMap<K, V> {
    pub uninterp spec fn view(&self) -> Seq<(K, V)>;
    #[verifier::external_body]
    pub fn new() -> (r: Self) ensures r.view().len() == 0 { unimplemented!() }
    #[verifier::external_body]
    pub fn clear(&mut self) ensures final(self).view().len() == 0 { unimplemented!() }
    #[verifier::external_body]
    pub fn entry(&mut self, k: K) -> (e: BtEntry<'_, K, V>)
        ensures e.key() == k, e.before() == old(self).view(), final(self).view() == e.fin(),
    { unimplemented!() }
    // the entry with the greatest / smallest key
    #[verifier::external_body]
    pub fn last_entry(&mut self) -> (r: Option<BtOccupied<'_, K, V>>)
        ensures old(self).view().len() == 0 ==> r is None && final(self).view() == old(self).view(),
            old(self).view().len() > 0 ==> r is Some && r->0.cur() == old(self).view() && r->0.idx() == old(self).view().len() - 1 && final(self).view() == r->0.fin(),
    { unimplemented!() }
    #[verifier::external_body]
    pub fn first_entry(&mut self) -> (r: Option<BtOccupied<'_, K, V>>)
        ensures old(self).view().len() == 0 ==> r is None && final(self).view() == old(self).view(),
            old(self).view().len() > 0 ==> r is Some && r->0.cur() == old(self).view() && r->0.idx() == 0 && final(self).view() == r->0.fin(),
    { unimplemented!() }
    // values in ascending key order, as mutable references (what is written through them is not tracked: the only
    // caller clears the map afterwards)
    #[verifier::external_body]
    pub fn values_mut(&mut self) -> (it: BtValuesMut<'_, K, V>)
        ensures it.decrease() is Some, it.remaining().len() == old(self).view().len(),
            forall|j: int| 0 <= j < it.remaining().len() ==> *(#[trigger] it.remaining()[j]) == old(self).view()[j].1,
    { unimplemented!() }
}
impl<'a, K, V> BtEntry<'a, K, V> {
    pub uninterp spec fn key(&self) -> K;
    pub uninterp spec fn before(&self) -> Seq<(K, V)>;
    pub uninterp spec fn fin(&self) -> Seq<(K, V)>;   // prophecy: the map when the borrow ends
}
impl<'a, K, V: Default> BtEntry<'a, K, V> {
    #[verifier::external_body]
    pub fn or_default(self) -> (r: &'a mut V)
        ensures
            bt_found(bt_keys(self.before()), self.key()) ==> *r == self.before()[bt_idx(bt_keys(self.before()), self.key())].1,
            !bt_found(bt_keys(self.before()), self.key()) ==> *r == default_of::<V>(),
            self.fin() == bt_upsert(self.before(), self.key(), *final(r)),
    { unimplemented!() }
}
impl<'a, K, V> BtOccupied<'a, K, V> {
    pub uninterp spec fn cur(&self) -> Seq<(K, V)>;   // the map as seen through this entry, now
    pub uninterp spec fn idx(&self) -> int;
    pub uninterp spec fn fin(&self) -> Seq<(K, V)>;   // prophecy: the map when the entry is dropped or removed
    #[verifier::external_body]
    pub fn get_mut(&mut self) -> (r: &mut V)
        ensures *r == old(self).cur()[old(self).idx()].1,
            final(self).cur() == old(self).cur().update(old(self).idx(), (old(self).cur()[old(self).idx()].0, *final(r))),
            final(self).idx() == old(self).idx(), final(self).fin() == old(self).fin(),
    { unimplemented!() }
    #[verifier::external_body]
    pub fn remove(self) -> (r: V)
        ensures self.fin() == self.cur().remove(self.idx()), r == self.cur()[self.idx()].1,
    { unimplemented!() }
}
// an entry that goes out of scope without remove() leaves the map as seen through it
pub broadcast axiom fn axiom_bt_occupied_resolved<'a, K, V>(e: BtOccupied<'a, K, V>)
    ensures #[trigger] has_resolved(e) ==> e.fin() == e.cur();

impl<'a, K, V> Iterator for BtValuesMut<'a, K, V> {
    type Item = &'a mut V;
    #[verifier::external_body]
    fn next(&mut self) -> Option<&'a mut V> { unimplemented!() }
}
impl<'a, K, V> DoubleEndedIterator for BtValuesMut<'a, K, V> {
    #[verifier::external_body]
    fn next_back(&mut self) -> Option<&'a mut V> { unimplemented!() }
}
impl<'a, K, V> vstd::std_specs::iter::IteratorSpecImpl for BtValuesMut<'a, K, V> {
    open spec fn obeys_prophetic_iter_laws(&self) -> bool { true }
    #[verifier::prophetic]
    uninterp spec fn remaining(&self) -> Seq<&'a mut V>;
    #[verifier::prophetic]
    open spec fn will_return_none(&self) -> bool { true }
    uninterp spec fn decrease(&self) -> Option<nat>;
    uninterp spec fn peek(&self, i: int) -> Option<&'a mut V>;
}
impl<'a, K, V> vstd::std_specs::iter::DoubleEndedIteratorSpecImpl for BtValuesMut<'a, K, V> {
    uninterp spec fn peek_back(&self, i: int) -> Option<&'a mut V>;
}

pub assume_specification<T, A: std::alloc::Allocator>[ std::collections::VecDeque::<T, A>::is_empty ](d: &std::collections::VecDeque<T, A>) -> (r: bool)
    ensures r == (d@.len() == 0);
pub broadcast axiom fn axiom_default_vecdeque<T>() ensures #[trigger] default_of::<std::collections::VecDeque<T>>()@ == Seq::<T>::empty();
