// ---- trusted: opening a byte source. `source(r)` is the fixed sequence of read results the source WILL deliver (a byte, or a
// failing read); Read::bytes() consumes nothing; File::open and BufReader::new read nothing either (the buffering of
// BufReader happens at the first read, inside std: the C14 bound "a bounded number of bytes past the value" includes it).
pub uninterp spec fn file_source(p: std::path::PathBuf) -> Seq<Option<u8>>;
pub uninterp spec fn path_name(p: std::path::PathBuf) -> Option<String>;
pub uninterp spec fn path_of<P>(p: P) -> std::path::PathBuf;
#[verifier::external_type_specification]
#[verifier::external_body]
pub struct ExFile(std::fs::File);
#[verifier::external_type_specification]
#[verifier::external_body]
#[verifier::reject_recursive_types(R)]
pub struct ExBufReader<R: ?Sized>(std::io::BufReader<R>);
#[verifier::external_type_specification]
#[verifier::external_body]
pub struct ExPathBuf(std::path::PathBuf);
pub assume_specification<R: std::io::Read>[ std::io::BufReader::<R>::new ](inner: R) -> (r: std::io::BufReader<R>)
    ensures source(r) == source(inner);
#[verifier::allow(undeclared_external_trait)]
pub assume_specification<P: AsRef<std::path::Path>>[ std::fs::File::open::<P> ](p: P) -> (r: std::io::Result<std::fs::File>)
    ensures r is Ok ==> source(r->Ok_0) == file_source(path_of(p));
pub mod vopen {
use vstd::prelude::*;
use super::*;
pub broadcast axiom fn ax_path_of_ref(p: &std::path::PathBuf) ensures #[trigger] path_of(p) == *p;
// file_name.to_str().map(ToString::to_string) (rewrite to_string_fn): the name of the path as text, if it is valid UTF-8
#[verifier::external_body]
pub fn name_of(file_name: &std::path::PathBuf) -> (r: Option<String>)
    ensures r == path_name(*file_name),
{ file_name.to_str().map(ToString::to_string) }
}
