// ---- trusted: `for (k, v) in &hash_map` is `hash_map.iter()` (std: impl IntoIterator for &HashMap { self.iter() }) ----
// Same facts vstd's own specification of HashMap::iter provides: every entry exactly once, in some order.
pub assume_specification<'a, K, V, S, A: std::alloc::Allocator>[ <&'a HashMap<K, V, S, A> as IntoIterator>::into_iter ](m: &'a HashMap<K, V, S, A>) -> (it: std::collections::hash_map::Iter<'a, K, V>)
    ensures it.obeys_prophetic_iter_laws(), it.decrease() is Some,
        vstd::std_specs::hash::obeys_key_model::<K>() && vstd::std_specs::hash::builds_valid_hashers::<S>() ==> {
            &&& it.remaining().no_duplicates()
            &&& it.remaining().len() == m@.len()
            &&& forall|j: int| 0 <= j < it.remaining().len() ==> m@.contains_key(*(#[trigger] it.remaining()[j]).0) && m@[*it.remaining()[j].0] == *it.remaining()[j].1
            &&& forall|k: K| m@.contains_key(k) ==> exists|j: int| 0 <= j < it.remaining().len() && *(#[trigger] it.remaining()[j]).0 == k
        };
