// ---- Context as seen from outside src/processor.rs: an opaque type with the ghost view of unit CTX. ----
// Every method contract below is generated from the SAME spec file that unit CTX proves against the real body
// (assume-guarantee between units; `//@@ assume` emits the real signature + that header as external_body).
#[verifier::external_body]
pub struct RegexCache { _p: () }
//@@ item src/reader.rs :: struct Location
//@@ derives Clone
//@@ enditem
//@@ item src/processor.rs :: struct InputContext
//@@ enditem
#[verifier::external_body]
pub struct Context { _p: () }

impl Context {
    pub uninterp spec fn inp(&self) -> JsonValue;
    pub uninterp spec fn parents(&self) -> Seq<JsonValue>;
    pub uninterp spec fn res(&self) -> Seq<(String, Option<JsonValue>)>;
    pub uninterp spec fn vars(&self) -> Map<String, JsonValue>;
    pub uninterp spec fn defs(&self) -> Map<String, Rc<dyn Get>>;
    pub uninterp spec fn ictx(&self) -> Option<Rc<InputContext>>;
    pub uninterp spec fn cache(&self) -> RegexCache;
    pub open spec fn same_inputs(&self, o: &Context) -> bool { self.inp() == o.inp() && self.parents() == o.parents() }

//@@ fn ctxo.input = src/processor.rs :: impl Context :: fn input
//@@ ret r
//@@ assume
//@@ header-from specs/ctx/input.spec
//@@ endfn
//@@ fn ctxo.with_inupt = src/processor.rs :: impl Context :: fn with_inupt
//@@ ret r
//@@ assume
//@@ header-from specs/ctx/with_inupt.spec
//@@ header-from specs/ctx/with_inupt.det.spec
//@@ endfn
//@@ fn ctxo.with_result = src/processor.rs :: impl Context :: fn with_result
//@@ ret r
//@@ assume
//@@ header-from specs/ctx/with_result.spec
//@@ header-from specs/ctx/with_result.det.spec
//@@ endfn
//@@ fn ctxo.with_variable = src/processor.rs :: impl Context :: fn with_variable
//@@ ret r
//@@ assume
//@@ header-from specs/ctx/with_variable.spec
//@@ header-from specs/ctx/with_variable.det.spec
//@@ endfn
//@@ fn ctxo.with_variables = src/processor.rs :: impl Context :: fn with_variables
//@@ ret r
//@@ assume
//@@ header-from specs/ctx/with_variables.spec
//@@ header-from specs/ctx/with_variables.det.spec
//@@ endfn
//@@ fn ctxo.with_definition = src/processor.rs :: impl Context :: fn with_definition
//@@ ret r
//@@ assume
//@@ header-from specs/ctx/with_definition.spec
//@@ header-from specs/ctx/with_definition.det.spec
//@@ endfn
//@@ fn ctxo.with_definitions = src/processor.rs :: impl Context :: fn with_definitions
//@@ ret r
//@@ assume
//@@ header-from specs/ctx/with_definitions.spec
//@@ header-from specs/ctx/with_definitions.det.spec
//@@ endfn
//@@ fn ctxo.parent_input = src/processor.rs :: impl Context :: fn parent_input
//@@ ret r
//@@ assume
//@@ header-from specs/ctx/parent_input.spec
//@@ endfn
//@@ fn ctxo.get_variable_value = src/processor.rs :: impl Context :: fn get_variable_value
//@@ ret r
//@@ assume
//@@ header-from specs/ctx/get_variable_value.spec
//@@ endfn
//@@ fn ctxo.get_definition = src/processor.rs :: impl Context :: fn get_definition
//@@ ret r
//@@ assume
//@@ header-from specs/ctx/get_definition.spec
//@@ endfn
//@@ fn ctxo.build = src/processor.rs :: impl Context :: fn build
//@@ ret r
//@@ assume
//@@ header-from specs/ctx/build.spec
//@@ header-from specs/ctx/build.det.spec
//@@ endfn
//@@ fn ctxo.get_selected = src/processor.rs :: impl Context :: fn get_selected
//@@ ret r
//@@ assume
//@@ header-from specs/ctx/get_selected.spec
//@@ endfn
//@@ fn ctxo.new_with_no_context = src/processor.rs :: impl Context :: fn new_with_no_context
//@@ ret r
//@@ assume
//@@ header-from specs/ctx/new_with_no_context.spec
//@@ header-from specs/ctx/new_with_no_context.det.spec
//@@ endfn
//@@ fn ctxo.new_with_input = src/processor.rs :: impl Context :: fn new_with_input
//@@ ret r
//@@ assume
//@@ header-from specs/ctx/new_with_input.spec
//@@ header-from specs/ctx/new_with_input.det.spec
//@@ endfn
//@@ fn ctxo.to_list = src/processor.rs :: impl Context :: fn to_list
//@@ ret r
//@@ assume
//@@ header-from specs/ctx/to_list.spec
//@@ endfn
//@@ fn ctxo.input_context = src/processor.rs :: impl Context :: fn input_context
//@@ ret r
//@@ assume
//@@ header-from specs/ctx/input_context.spec
//@@ endfn
}

// Determinism of the constructors (trusted): a derived context is a FUNCTION of the arguments. Unit CTX proves what the
// result's view is; these uninterpreted functions only give that result a name usable in sequence-level specifications.
pub uninterp spec fn ctx_with_input(c: Context, v: JsonValue) -> Context;
pub uninterp spec fn ctx_with_result(c: Context, title: String, v: Option<JsonValue>) -> Context;
pub uninterp spec fn ctx_with_variable(c: Context, name: String, v: JsonValue) -> Context;
pub uninterp spec fn ctx_with_variables(c: Context, vars: Map<String, JsonValue>) -> Context;
pub uninterp spec fn ctx_with_definition(c: Context, name: String, d: Rc<dyn Get>) -> Context;
pub uninterp spec fn ctx_with_definitions(c: Context, defs: Map<String, Rc<dyn Get>>) -> Context;
pub uninterp spec fn ctx_of_value(v: JsonValue) -> Context;
pub uninterp spec fn ctx_new(v: JsonValue, start: Location, end: Location, file_index: u64, index: u64) -> Context;
pub uninterp spec fn ctx_build(c: Context) -> JsonValue;
