// ---- Reader<R> as seen from outside src/reader.rs: opaque, with the ghost view of unit R; every method contract is
// generated from the SAME spec file unit R proves against the real body.
#[verifier::external_trait_specification]
pub trait ExRead {
    type ExternalTraitSpecificationFor: std::io::Read;
}
#[verifier::external_type_specification]
#[verifier::external_body]
pub struct ExIoError(std::io::Error);

//@@ item src/reader.rs :: struct Location
//@@ derives Clone
//@@ enditem

#[verifier::external_body]
#[verifier::reject_recursive_types(R)]
pub struct Reader<R: Read> { _p: std::marker::PhantomData<R> }

//@@ include lemmas/reader_spec.rs

impl<R: Read> Reader<R> {
    pub uninterp spec fn rest(&self) -> Seq<Option<u8>>;
    pub uninterp spec fn cur(&self) -> Option<u8>;
    pub uninterp spec fn line(&self) -> int;
    pub uninterp spec fn col(&self) -> int;
    pub uninterp spec fn name(&self) -> Option<String>;
    pub uninterp spec fn wf(&self) -> bool;
    pub open spec fn pending(&self) -> Seq<Option<u8>> {
        if self.cur() is Some { seq![self.cur()].add(self.rest()) } else { self.rest() }
    }
    pub open spec fn mu(&self) -> nat { self.pending().len() }
    pub open spec fn room(&self) -> bool { self.line() + self.rest().len() < usize::MAX && self.col() + self.rest().len() < usize::MAX }

//@@ fn ro.next = src/reader.rs :: impl<R: Read> Reader<R> :: fn next
//@@ ret r
//@@ assume
//@@ header-from specs/reader/next.spec
//@@ endfn
//@@ fn ro.peek = src/reader.rs :: impl<R: Read> Reader<R> :: fn peek
//@@ ret r
//@@ assume
//@@ header-from specs/reader/peek.spec
//@@ endfn
//@@ fn ro.eat_whitespace = src/reader.rs :: impl<R: Read> Reader<R> :: fn eat_whitespace
//@@ ret r
//@@ assume
//@@ header-from specs/reader/eat_whitespace.spec
//@@ endfn
//@@ fn ro.read_digits = src/reader.rs :: impl<R: Read> Reader<R> :: fn read_digits
//@@ ret r
//@@ assume
//@@ header-from specs/reader/read_digits.spec
//@@ endfn
//@@ fn ro.where_am_i = src/reader.rs :: impl<R: Read> Reader<R> :: fn where_am_i
//@@ ret r
//@@ assume
//@@ header-from specs/reader/where_am_i.spec
//@@ endfn
}
