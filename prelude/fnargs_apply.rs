// ---- the argument getters of a function implementation (`struct Impl(Vec<Rc<dyn Get>>)`) ----
pub open spec fn arg(args: Seq<Rc<dyn Get>>, value: &Context, i: int) -> Option<JsonValue> {
    if 0 <= i < args.len() { args[i].get_spec(value) } else { None }
}
pub trait Arguments {
    spec fn args(&self) -> Seq<Rc<dyn Get>>;
//@@ fn arguments.apply = src/functions_definitions.rs :: trait Arguments :: fn apply
//@@ ret r
//@@ header
        ensures r == arg(self.args(), value, index as int),
//@@ endfn
}
impl Arguments for Vec<Rc<dyn Get>> {
    open spec fn args(&self) -> Seq<Rc<dyn Get>> { self@ }
//@@ fn args.apply = src/functions_definitions.rs :: impl Arguments for Vec<Rc<dyn Get>> :: fn apply
//@@ safety C07 C04 C05
//@@ post spec "apply(i) is the value of the i-th argument getter on the context, nothing when there is no i-th argument"
//@@ endfn
}
