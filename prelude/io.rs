// ---- trusted: byte source ------------------------------------------------
// std::io::Bytes<R> is an iterator over a FIXED finite sequence of read results:
// Some(b) = the byte b is delivered, None = the read at that offset fails.
// `Interrupted` retries and chunking happen inside std and are assumed (C17 chunk clause).
#[verifier::external_trait_specification]
pub trait ExRead {
    type ExternalTraitSpecificationFor: std::io::Read;
    // wrapping a source into its byte iterator reads nothing
    fn bytes(self) -> (b: std::io::Bytes<Self>) where Self: Sized
        ensures stream(&b) == source(self);
}

#[verifier::external_type_specification]
#[verifier::external_body]
pub struct ExIoError(std::io::Error);

#[verifier::external_type_specification]
#[verifier::external_body]
#[verifier::reject_recursive_types(R)]
pub struct ExBytes<R>(std::io::Bytes<R>);

pub uninterp spec fn stream<R>(b: &std::io::Bytes<R>) -> Seq<Option<u8>>;
// the fixed sequence of read results a source WILL deliver (a byte, or a failing read)
pub uninterp spec fn source<R>(r: R) -> Seq<Option<u8>>;

pub assume_specification<R: std::io::Read>[ <std::io::Bytes<R> as Iterator>::next ](b: &mut std::io::Bytes<R>) -> (r: Option<std::io::Result<u8>>)
    ensures
        stream(old(b)).len() == 0 ==> r is None && stream(final(b)) == stream(old(b)),
        stream(old(b)).len() > 0 ==> r is Some && stream(final(b)) == stream(old(b)).subrange(1, stream(old(b)).len() as int),
        stream(old(b)).len() > 0 && stream(old(b))[0] is Some ==> r == Some(Ok::<u8, std::io::Error>(stream(old(b))[0].unwrap())),
        stream(old(b)).len() > 0 && stream(old(b))[0] is None ==> r.unwrap() is Err,
;
