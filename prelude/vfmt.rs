// ---- trusted: formatting primitives the write!/writeln! rewrites expand to (DESIGN §3.2) ----
pub mod vfmt {
use vstd::prelude::*;
#[verifier::external_trait_specification]
pub trait ExFmtWrite {
    type ExternalTraitSpecificationFor: std::fmt::Write;
    fn write_str(&mut self, s: &str) -> std::fmt::Result;
}

// what has been written to a fmt::Write so far; for a String it is the string itself
pub uninterp spec fn wlog<W: ?Sized>(w: &W) -> Seq<char>;
pub broadcast axiom fn axiom_wlog_string(s: String) ensures #[trigger] wlog::<String>(&s) == s@;
pub open spec fn is_pre(a: Seq<char>, b: Seq<char>) -> bool { a.len() <= b.len() && b.subrange(0, a.len() as int) =~= a }

// Display of the types jawk formats: a char / string is its own text; integers their canonical decimal; a double
// Rust's shortest round-trip positional decimal (or `inf` / `-inf` / `NaN` when not finite!)
pub uninterp spec fn dec_u64(n: u64) -> Seq<char>;
pub uninterp spec fn dec_i64(n: i64) -> Seq<char>;
pub uninterp spec fn dec_f64(n: f64) -> Seq<char>;
pub trait VDisp { spec fn text(&self) -> Seq<char>; }
impl VDisp for char { open spec fn text(&self) -> Seq<char> { seq![*self] } }
impl VDisp for String { open spec fn text(&self) -> Seq<char> { self@ } }
impl VDisp for str { open spec fn text(&self) -> Seq<char> { self@ } }
impl VDisp for u64 { open spec fn text(&self) -> Seq<char> { dec_u64(*self) } }
impl VDisp for i64 { open spec fn text(&self) -> Seq<char> { dec_i64(*self) } }
impl VDisp for f64 { open spec fn text(&self) -> Seq<char> { dec_f64(*self) } }
impl<T: VDisp + ?Sized> VDisp for &T { open spec fn text(&self) -> Seq<char> { (**self).text() } }

// lower-case hexadecimal, zero-padded to AT LEAST four digits (five or six for n > 0xFFFF — the spec must not hide that)
pub open spec fn hex_digit(d: u64) -> char { if d < 10 { (0x30 + d) as char } else { (0x61 + d - 10) as char } }
pub open spec fn hex4(n: u64) -> Seq<char> { seq![hex_digit((n / 0x1000) % 16), hex_digit((n / 0x100) % 16), hex_digit((n / 0x10) % 16), hex_digit(n % 16)] }
pub uninterp spec fn hex_long(n: u64) -> Seq<char>;
pub open spec fn hex_min4_text(n: u64) -> Seq<char> { if n <= 0xFFFF { hex4(n) } else { hex_long(n) } }
pub open spec fn is_hex_char(c: char) -> bool { ('0' <= c && c <= '9') || ('a' <= c && c <= 'f') || ('A' <= c && c <= 'F') }
pub open spec fn all_hex(s: Seq<char>) -> bool { forall|i: int| 0 <= i < s.len() ==> is_hex_char(#[trigger] s[i]) }
pub broadcast axiom fn axiom_hex_long(n: u64) requires n > 0xFFFF ensures (#[trigger] hex_long(n)).len() >= 5, all_hex(hex_long(n));

#[verifier::external_body]
pub fn lit<W: std::fmt::Write>(f: &mut W, s: &str) -> (r: std::fmt::Result)
    ensures r is Ok ==> wlog(final(f)) == wlog(old(f)).add(s@), r is Err ==> is_pre(wlog(old(f)), wlog(final(f)))
{ unimplemented!() }
#[verifier::external_body]
pub fn disp<W: std::fmt::Write, T: VDisp + ?Sized>(f: &mut W, x: &T) -> (r: std::fmt::Result)
    ensures r is Ok ==> wlog(final(f)) == wlog(old(f)).add(x.text()), r is Err ==> is_pre(wlog(old(f)), wlog(final(f)))
{ unimplemented!() }
#[verifier::external_body]
pub fn hex_min4<W: std::fmt::Write>(f: &mut W, n: u64) -> (r: std::fmt::Result)
    ensures r is Ok ==> wlog(final(f)) == wlog(old(f)).add(seq!['\\', 'u']).add(hex_min4_text(n)), r is Err ==> is_pre(wlog(old(f)), wlog(final(f)))
{ unimplemented!() }
}

// ---- trusted: output sinks. `Rc<RefCell<dyn std::io::Write + Send>>` is rejected by Verus; the rewrite `dyn_write`
// replaces the type by this opaque sink, and `w.borrow_mut()` by `&mut w`. log() is what THIS owner has written to it.
pub mod vio {
use vstd::prelude::*;
use super::vfmt::{VDisp, is_pre};
#[verifier::external_body]
pub struct Out { _p: () }
impl Out {
    pub uninterp spec fn log(&self) -> Seq<char>;
    // which stream of the run this handle writes to: 1 = the designated output stream, 2 = the designated diagnostics stream
    pub uninterp spec fn fd(&self) -> int;
}
pub uninterp spec fn same_sink(a: Out, b: Out) -> bool;
impl Clone for Out {
    #[verifier::external_body]
    fn clone(&self) -> (r: Self) ensures same_sink(*self, r), r.fd() == self.fd() { unimplemented!() }
}
#[verifier::external_body]
pub fn disp<T: VDisp + ?Sized>(w: &mut Out, x: &T) -> (r: std::io::Result<()>)
    ensures r is Ok ==> final(w).log() == old(w).log().add(x.text()), r is Err ==> is_pre(old(w).log(), final(w).log())
{ unimplemented!() }
#[verifier::external_body]
pub fn disp2<A: VDisp + ?Sized, B: VDisp + ?Sized>(w: &mut Out, a: &A, b: &B) -> (r: std::io::Result<()>)
    ensures r is Ok ==> final(w).log() == old(w).log().add(a.text()).add(b.text()), r is Err ==> is_pre(old(w).log(), final(w).log())
{ unimplemented!() }
#[verifier::external_body]
#[verifier::reject_recursive_types(R)]
pub struct StdinFactory<R> { _p: std::marker::PhantomData<R> }
impl<R> StdinFactory<R> {
    #[verifier::external_body]
    pub fn call(&self) -> (r: R) { unimplemented!() }
}
}

//@@ include prelude/vit.rs
