// ---- trusted: exact definitions of the std byte-classification predicates (core::num, u8) ----
pub assume_specification[ u8::is_ascii_whitespace ](b: &u8) -> (r: bool)
    ensures r == (*b == 0x20u8 || *b == 0x09u8 || *b == 0x0au8 || *b == 0x0cu8 || *b == 0x0du8);
pub assume_specification[ u8::is_ascii_digit ](b: &u8) -> (r: bool)
    ensures r == (0x30u8 <= *b <= 0x39u8);
pub assume_specification[ u8::is_ascii_control ](b: &u8) -> (r: bool)
    ensures r == (*b < 0x20u8 || *b == 0x7fu8);
pub assume_specification[ u8::is_ascii_alphabetic ](b: &u8) -> (r: bool)
    ensures r == ((0x41u8 <= *b <= 0x5au8) || (0x61u8 <= *b <= 0x7au8));
pub assume_specification[ u8::is_ascii_alphanumeric ](b: &u8) -> (r: bool)
    ensures r == ((0x30u8 <= *b <= 0x39u8) || (0x41u8 <= *b <= 0x5au8) || (0x61u8 <= *b <= 0x7au8));
pub assume_specification[ u8::is_ascii ](b: &u8) -> (r: bool)
    ensures r == (*b < 0x80u8);
// io::Error::kind: some kind (nothing is known about it)
#[verifier::external_type_specification]
pub struct ExIoErrorKind(std::io::ErrorKind);
pub assume_specification[ std::io::Error::kind ](e: &std::io::Error) -> std::io::ErrorKind;
