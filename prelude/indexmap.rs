// ---- trusted stand-in for the dependency `indexmap::IndexMap` (assumed contract on a dependency) ----
// An IndexMap is an insertion-ordered sequence of (key, value) pairs with pairwise distinct keys.
#[verifier::external_body]
#[verifier::accept_recursive_types(K)]
#[verifier::accept_recursive_types(V)]
pub struct IndexMap<K, V> { _k: std::marker::PhantomData<(K, V)> }
#[verifier::external_body]
#[verifier::accept_recursive_types(K)]
#[verifier::accept_recursive_types(V)]
pub struct Entry<'a, K, V> { _k: std::marker::PhantomData<&'a mut (K, V)> }

pub open spec fn im_has<K, V>(s: Seq<(K, V)>, k: K) -> bool { exists|i: int| 0 <= i < s.len() && (#[trigger] s[i]).0 == k }
pub open spec fn im_idx<K, V>(s: Seq<(K, V)>, k: K) -> int { choose|i: int| 0 <= i < s.len() && (#[trigger] s[i]).0 == k }
pub open spec fn im_distinct<K, V>(s: Seq<(K, V)>) -> bool {
    forall|i: int, j: int| 0 <= i < j < s.len() ==> (#[trigger] s[i]).0 != (#[trigger] s[j]).0
}
// insertion-ordered insert: overwrite in place when the key is present, append otherwise
pub open spec fn im_insert<K, V>(s: Seq<(K, V)>, k: K, v: V) -> Seq<(K, V)> {
    if im_has(s, k) { s.update(im_idx(s, k), (k, v)) } else { s.push((k, v)) }
}
pub uninterp spec fn default_of<V>() -> V;
pub broadcast axiom fn axiom_default_vec<T>() ensures #[trigger] default_of::<Vec<T>>()@ == Seq::<T>::empty();

impl<K, V> IndexMap<K, V> {
    pub uninterp spec fn entries(&self) -> Seq<(K, V)>;
    pub open spec fn distinct(&self) -> bool { im_distinct(self.entries()) }
    pub open spec fn has(&self, k: K) -> bool { im_has(self.entries(), k) }

    #[verifier::external_body]
    pub fn new() -> (r: Self) ensures r.entries().len() == 0, r.distinct() { unimplemented!() }
    #[verifier::external_body]
    pub fn with_capacity(n: usize) -> (r: Self) ensures r.entries().len() == 0, r.distinct() { unimplemented!() }
    #[verifier::external_body]
    pub fn len(&self) -> (r: usize) ensures r == self.entries().len() { unimplemented!() }
    #[verifier::external_body]
    pub fn is_empty(&self) -> (r: bool) ensures r == (self.entries().len() == 0) { unimplemented!() }
    #[verifier::external_body]
    pub fn insert(&mut self, k: K, v: V) -> (r: Option<V>)
        ensures final(self).entries() == im_insert(old(self).entries(), k, v),
            r is Some <==> old(self).has(k),
    { unimplemented!() }
    #[verifier::external_body]
    pub fn contains_key(&self, k: &K) -> (r: bool) ensures r == self.has(*k) { unimplemented!() }
    #[verifier::external_body]
    pub fn get(&self, k: &K) -> (r: Option<&V>)
        ensures r is Some <==> self.has(*k), r is Some ==> *r->Some_0 == self.entries()[im_idx(self.entries(), *k)].1,
    { unimplemented!() }
    // iter(): the entries in insertion order; `let (k, v) = element` binds k: &K, v: &V exactly as with the real crate's (&K, &V)
    #[verifier::external_body]
    pub fn iter(&self) -> (it: std::slice::Iter<'_, (K, V)>)
        ensures it.obeys_prophetic_iter_laws(), it.decrease() is Some,
            it.remaining().len() == self.entries().len(),
            forall|j: int| 0 <= j < it.remaining().len() ==> *(#[trigger] it.remaining()[j]) == self.entries()[j],
    { unimplemented!() }
    #[verifier::external_body]
    pub fn clear(&mut self)
        ensures final(self).entries().len() == 0,
    { unimplemented!() }
    // entry(k).or_default(): the Entry carries a prophecy of the map's entries when the borrow ends
    #[verifier::external_body]
    pub fn entry(&mut self, k: K) -> (e: Entry<'_, K, V>)
        ensures e.key() == k, e.before() == old(self).entries(), final(self).entries() == e.fin(),
    { unimplemented!() }
}
impl<'a, K, V> Entry<'a, K, V> {
    pub uninterp spec fn key(&self) -> K;
    pub uninterp spec fn before(&self) -> Seq<(K, V)>;
    pub uninterp spec fn fin(&self) -> Seq<(K, V)>;
}
impl<'a, K, V: Default> Entry<'a, K, V> {
    #[verifier::external_body]
    pub fn or_default(self) -> (r: &'a mut V)
        ensures
            im_has(self.before(), self.key()) ==> *r == self.before()[im_idx(self.before(), self.key())].1,
            !im_has(self.before(), self.key()) ==> *r == default_of::<V>(),
            self.fin() == im_insert(self.before(), self.key(), *final(r)),
    { unimplemented!() }
}
// iteration in insertion order; `for (k, v) in &map` binds k: &K, v: &V exactly as with the real crate
impl<'a, K, V> IntoIterator for &'a IndexMap<K, V> {
    type Item = &'a (K, V);
    type IntoIter = std::slice::Iter<'a, (K, V)>;
    #[verifier::external_body]
    fn into_iter(self) -> (it: std::slice::Iter<'a, (K, V)>)
        ensures it.obeys_prophetic_iter_laws(), it.decrease() is Some,
            it.remaining().len() == self.entries().len(),
            forall|j: int| 0 <= j < it.remaining().len() ==> *(#[trigger] it.remaining()[j]) == self.entries()[j],
    { unimplemented!() }
}
impl<K, V> IntoIterator for IndexMap<K, V> {
    type Item = (K, V);
    type IntoIter = std::vec::IntoIter<(K, V)>;
    #[verifier::external_body]
    fn into_iter(self) -> (it: std::vec::IntoIter<(K, V)>)
        ensures it.obeys_prophetic_iter_laws(), it.decrease() is Some,
            it.remaining() == self.entries(),
    { unimplemented!() }
}
// the data-structure invariant of IndexMap: keys are pairwise distinct
pub broadcast axiom fn axiom_im_distinct<K, V>(m: IndexMap<K, V>) ensures #[trigger] m.distinct();
// an IndexMap is a finite tree over its entries: recursion through the entries terminates (as vstd's axiom_vec_decreases_to_view)
pub broadcast axiom fn axiom_im_decreases<K, V>(m: IndexMap<K, V>) ensures #[trigger] (decreases_to!(m => m.entries()));
