// ---- trusted stand-in for the dependency `indexmap::IndexMap` (assumed contract on a dependency) ----
// An IndexMap is an insertion-ordered sequence of (key, value) pairs with pairwise distinct keys.
#[verifier::external_body]
#[verifier::accept_recursive_types(K)]
#[verifier::accept_recursive_types(V)]
pub struct IndexMap<K, V> { _k: std::marker::PhantomData<(K, V)> }

pub trait KeyEq { spec fn key_eq(&self, o: &Self) -> bool; }

impl<K, V> IndexMap<K, V> {
    pub uninterp spec fn entries(&self) -> Seq<(K, V)>;
    pub open spec fn keys_seq(&self) -> Seq<K> { Seq::new(self.entries().len(), |i: int| self.entries()[i].0) }
    pub open spec fn distinct(&self) -> bool {
        forall|i: int, j: int| 0 <= i < j < self.entries().len() ==> self.entries()[i].0 != self.entries()[j].0
    }
    pub open spec fn pos(&self, k: K) -> int
        recommends self.has(k)
    { choose|i: int| 0 <= i < self.entries().len() && self.entries()[i].0 == k }
    pub open spec fn has(&self, k: K) -> bool { exists|i: int| 0 <= i < self.entries().len() && self.entries()[i].0 == k }

    #[verifier::external_body]
    pub fn new() -> (r: Self) ensures r.entries().len() == 0, r.distinct() { unimplemented!() }
    #[verifier::external_body]
    pub fn with_capacity(n: usize) -> (r: Self) ensures r.entries().len() == 0, r.distinct() { unimplemented!() }
    #[verifier::external_body]
    pub fn len(&self) -> (r: usize) ensures r == self.entries().len() { unimplemented!() }
    #[verifier::external_body]
    pub fn is_empty(&self) -> (r: bool) ensures r == (self.entries().len() == 0) { unimplemented!() }
}

// insertion-ordered insert: overwrite in place when the key is present, append otherwise
pub open spec fn im_insert<K, V>(s: Seq<(K, V)>, k: K, v: V) -> Seq<(K, V)> {
    if exists|i: int| 0 <= i < s.len() && s[i].0 == k {
        let i = choose|i: int| 0 <= i < s.len() && s[i].0 == k;
        s.update(i, (k, v))
    } else {
        s.push((k, v))
    }
}
impl<K, V> IndexMap<K, V> {
    #[verifier::external_body]
    pub fn insert(&mut self, k: K, v: V) -> (r: Option<V>)
        requires old(self).distinct(),
        ensures final(self).entries() == im_insert(old(self).entries(), k, v), final(self).distinct(),
            r is Some <==> old(self).has(k),
    { unimplemented!() }
    #[verifier::external_body]
    pub fn clear(&mut self)
        ensures final(self).entries().len() == 0, final(self).distinct(),
    { unimplemented!() }
}
