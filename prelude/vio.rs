// ---- trusted: output sinks. `Rc<RefCell<dyn std::io::Write + Send>>` is rejected by Verus ("dyn with more than one trait",
// unsizing coercion); the rewrite `dyn_write` replaces the type by this opaque sink. Clone yields a handle on the same sink.
pub mod vio {
use vstd::prelude::*;
#[verifier::external_body]
pub struct Out { _p: () }
pub uninterp spec fn same_sink(a: Out, b: Out) -> bool;
impl Clone for Out {
    #[verifier::external_body]
    fn clone(&self) -> (r: Self) ensures same_sink(*self, r) { unimplemented!() }
}
// writeln!(w.borrow_mut(), "error:{e}") (rewrite writeln_error): one `error:` line on that sink, or an io::Error
#[verifier::external_body]
pub fn error_line<E>(w: &Out, e: &E) -> std::io::Result<()> { unimplemented!() }
// `Box<dyn Fn() -> R>` (rewrite stdin_factory): opaque; its only use is in the unverified half of go()
#[verifier::external_body]
#[verifier::reject_recursive_types(R)]
pub struct StdinFactory<R> { _p: std::marker::PhantomData<R> }
}
