//@@ include prelude/vfmt.rs
