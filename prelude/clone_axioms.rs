// vstd specifies Vec<T>::clone / Option<T>::clone through `cloned(a, b)` (= the postcondition of T::clone).
// For the element types below T::clone is std's tuple/Option/Rc/String clone or the derived JsonValue clone: a copy.
pub broadcast axiom fn axiom_cloned_result_pair(a: (Rc<String>, Option<JsonValue>), b: (Rc<String>, Option<JsonValue>))
    requires #[trigger] cloned(a, b),
    ensures a == b;
pub broadcast axiom fn axiom_cloned_rc_json(a: Rc<JsonValue>, b: Rc<JsonValue>)
    requires #[trigger] cloned(a, b),
    ensures a == b;
pub broadcast axiom fn axiom_cloned_opt_json(a: Option<JsonValue>, b: Option<JsonValue>)
    requires #[trigger] cloned(a, b),
    ensures a == b;
pub broadcast axiom fn axiom_cloned_json(a: JsonValue, b: JsonValue)
    requires #[trigger] cloned(a, b),
    ensures a == b;
pub broadcast axiom fn axiom_cloned_string(a: String, b: String)
    requires #[trigger] cloned(a, b),
    ensures a == b;
// std's Hash/Eq for String are deterministic and consistent (vstd ships this axiom for integers and bool only)
pub broadcast axiom fn axiom_string_obeys_key_model()
    ensures #[trigger] vstd::std_specs::hash::obeys_key_model::<String>();
// `==` on String is equality of the strings (vstd leaves PartialEqSpec for String unspecified), and Strings are extensional
pub broadcast axiom fn axiom_string_obeys_eq_spec()
    ensures #[trigger] <String as vstd::std_specs::cmp::PartialEqSpec>::obeys_eq_spec();
pub broadcast axiom fn axiom_string_eq_spec(a: String, b: String)
    ensures #[trigger] vstd::std_specs::cmp::PartialEqSpec::eq_spec(&a, &b) == (a == b);
pub broadcast axiom fn axiom_string_ext(a: String, b: String)
    requires #[trigger] a@ == #[trigger] b@,
    ensures a == b;
// allocation bound: a Vec / HashMap whose elements occupy >= 8 bytes cannot hold usize::MAX elements (capacity * size <= isize::MAX)
pub broadcast axiom fn axiom_vec_rc_json_len(v: Vec<Rc<JsonValue>>)
    ensures #[trigger] v@.len() < usize::MAX;
pub broadcast axiom fn axiom_hashmap_len<V>(m: std::collections::HashMap<String, V>)
    ensures #[trigger] m@.len() < usize::MAX;
pub broadcast group group_clone_is_copy {
    axiom_vec_rc_json_len, axiom_hashmap_len,
    axiom_string_obeys_eq_spec, axiom_string_eq_spec,
    axiom_string_obeys_key_model,
    axiom_cloned_result_pair, axiom_cloned_rc_json, axiom_cloned_opt_json, axiom_cloned_json, axiom_cloned_string,
}
