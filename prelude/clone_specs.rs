// ---- trusted: Clone of the std / derived types used here is a structural copy ----
pub assume_specification<T: ?Sized, A: std::alloc::Allocator + Clone>[ <Rc<T, A> as Clone>::clone ](a: &Rc<T, A>) -> (r: Rc<T, A>)
    ensures r == *a;

pub assume_specification<T: ?Sized, A: std::alloc::Allocator>[ <Rc<T, A> as std::ops::Deref>::deref ](a: &Rc<T, A>) -> (r: &T)
    ensures r == &**a;
