// ---- the real value types, copied from src/json_value.rs (derives dropped; Clone is a trusted structural copy)
//@@ item src/json_value.rs :: enum NumberValue
//@@ derives Clone
//@@ enditem

//@@ item src/json_value.rs :: enum JsonValue
//@@ derives Clone PartialEq
//@@ enditem

// ---- trusted stand-in for #[derive(PartialEq)] on JsonValue (NumberValue's PartialEq is hand-written: Kani unit V) ----
// derive(PartialEq) on an enum: same variant and equal payloads (payload equality is the payload type's PartialEq).
pub uninterp spec fn json_eq(a: JsonValue, b: JsonValue) -> bool;
impl PartialEq for JsonValue {
    #[verifier::external_body]
    fn eq(&self, other: &Self) -> (r: bool) ensures r == json_eq(*self, *other) { unimplemented!() }
}
impl vstd::std_specs::cmp::PartialEqSpecImpl for JsonValue {
    open spec fn obeys_eq_spec() -> bool { true }
    open spec fn eq_spec(&self, other: &Self) -> bool { json_eq(*self, *other) }
}
pub broadcast axiom fn axiom_json_eq_bool(a: JsonValue, b: bool)
    ensures #[trigger] json_eq(a, JsonValue::Boolean(b)) == (a == JsonValue::Boolean(b));
pub broadcast axiom fn axiom_json_eq_null(a: JsonValue)
    ensures #[trigger] json_eq(a, JsonValue::Null) == (a == JsonValue::Null);
pub broadcast axiom fn axiom_json_eq_string(a: JsonValue, s: String)
    ensures #[trigger] json_eq(a, JsonValue::String(s)) == (a == JsonValue::String(s));
pub broadcast group group_json_eq { axiom_json_eq_bool, axiom_json_eq_null, axiom_json_eq_string }
