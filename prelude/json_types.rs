// ---- the real value types, copied from src/json_value.rs (derives dropped; Clone is a trusted structural copy)
//@@ item src/json_value.rs :: enum NumberValue
//@@ derives Clone
//@@ enditem

//@@ item src/json_value.rs :: enum JsonValue
//@@ derives Clone
//@@ enditem
