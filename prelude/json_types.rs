// ---- the real value types, copied from src/json_value.rs (derives dropped; Clone is a trusted structural copy)
//@@ item src/json_value.rs :: enum NumberValue
//@@ derives Clone
//@@ enditem

//@@ item src/json_value.rs :: enum JsonValue
//@@ derives Clone PartialEq
//@@ enditem

// ---- trusted stand-in for #[derive(PartialEq)] on JsonValue (NumberValue's PartialEq is hand-written: Kani unit V) ----
// derive(PartialEq) on an enum: same variant and equal payloads (payload equality is the payload type's PartialEq).
pub uninterp spec fn json_eq(a: JsonValue, b: JsonValue) -> bool;
impl PartialEq for JsonValue {
    #[verifier::external_body]
    fn eq(&self, other: &Self) -> (r: bool) ensures r == json_eq(*self, *other) { unimplemented!() }
}
impl vstd::std_specs::cmp::PartialEqSpecImpl for JsonValue {
    open spec fn obeys_eq_spec() -> bool { true }
    open spec fn eq_spec(&self, other: &Self) -> bool { json_eq(*self, *other) }
}
pub broadcast axiom fn axiom_json_eq_bool(a: JsonValue, b: bool)
    ensures #[trigger] json_eq(a, JsonValue::Boolean(b)) == (a == JsonValue::Boolean(b));
pub broadcast axiom fn axiom_json_eq_null(a: JsonValue)
    ensures #[trigger] json_eq(a, JsonValue::Null) == (a == JsonValue::Null);
pub broadcast axiom fn axiom_json_eq_string(a: JsonValue, s: String)
    ensures #[trigger] json_eq(a, JsonValue::String(s)) == (a == JsonValue::String(s));
pub broadcast group group_json_eq { axiom_json_eq_bool, axiom_json_eq_null, axiom_json_eq_string }

// ---- naming collection values by their content (trusted: Vec / IndexMap are determined by their elements) ----
pub uninterp spec fn json_array(s: Seq<JsonValue>) -> JsonValue;
pub uninterp spec fn json_object(e: Seq<(String, JsonValue)>) -> JsonValue;
pub broadcast axiom fn axiom_json_array(v: Vec<JsonValue>)
    ensures JsonValue::Array(v) == #[trigger] json_array(v@);
pub broadcast axiom fn axiom_json_object(m: IndexMap<String, JsonValue>)
    ensures JsonValue::Object(m) == #[trigger] json_object(m.entries());
pub broadcast group group_json_names { axiom_json_array, axiom_json_object }

// the real conversions src/json_value.rs: impl From<Vec<JsonValue>> / From<IndexMap<..>> for JsonValue
// (the spec side of vstd's From/Into specification; the bodies below are verified against it)
impl vstd::std_specs::convert::FromSpecImpl<Vec<JsonValue>> for JsonValue {
    open spec fn obeys_from_spec() -> bool { true }
    open spec fn from_spec(v: Vec<JsonValue>) -> Self { JsonValue::Array(v) }
}
impl vstd::std_specs::convert::FromSpecImpl<IndexMap<String, JsonValue>> for JsonValue {
    open spec fn obeys_from_spec() -> bool { true }
    open spec fn from_spec(v: IndexMap<String, JsonValue>) -> Self { JsonValue::Object(v) }
}
impl From<Vec<JsonValue>> for JsonValue {
//@@ fn jv.from_vec = src/json_value.rs :: impl From<Vec<JsonValue>> for JsonValue :: fn from
//@@ ret r
//@@ header
        ensures r == JsonValue::Array(value),
//@@ endfn
}
impl From<IndexMap<String, JsonValue>> for JsonValue {
//@@ fn jv.from_map = src/json_value.rs :: impl From<IndexMap<String, JsonValue>> for JsonValue :: fn from
//@@ ret r
//@@ header
        ensures r == JsonValue::Object(value),
//@@ endfn
}
impl vstd::std_specs::convert::FromSpecImpl<String> for JsonValue {
    open spec fn obeys_from_spec() -> bool { true }
    open spec fn from_spec(v: String) -> Self { JsonValue::String(v) }
}
impl From<String> for JsonValue {
//@@ fn jv.from_string = src/json_value.rs :: impl From<String> for JsonValue :: fn from
//@@ ret r
//@@ header
        ensures r == JsonValue::String(str),
//@@ endfn
}
