// Get::get is assumed to be a FUNCTION of the getter and the context (standing assumption of C03/C10/C11/C13)
pub trait Get {
    spec fn get_spec(&self, value: &Context) -> Option<JsonValue>;
//@@ fn get.get = src/selection.rs :: trait Get :: fn get
//@@ ret r
//@@ header
        ensures r == self.get_spec(value),
//@@ endfn
}
