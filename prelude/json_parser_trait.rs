// ---- src/json_parser.rs: trait JsonParser with its contract (proved for Reader<R> in unit LEX, assumed elsewhere) ----
// ---- L1: look-ahead discipline, progress, fault propagation (C01.look, C05.progress, C16.read) ----
pub ghost struct RView { pub pending: Seq<Option<u8>>, pub cur: Option<u8>, pub ok: bool, pub name: Option<String> }
pub open spec fn rview<R: Read>(r: &Reader<R>) -> RView { RView { pending: r.pending(), cur: r.cur(), ok: r.wf() && r.room(), name: r.name() } }
pub open spec fn is_io<T>(r: Result<T>) -> bool { r is Err && r->Err_0 is IoError }
// what every parsing function guarantees about the reader
pub open spec fn lex_post<T>(o: RView, n: RView, r: Result<T>) -> bool {
    &&& n.ok && n.name == o.name
    // unless a read failed (always reported as the fatal IoError, never as end of input or as a value): only a prefix of
    // the pending bytes is consumed, nothing is reordered or put back, and every consumed byte was a delivered byte
    &&& (is_io(r) || advance(o.pending, n.pending))
    // after a value the byte that follows it is the current byte
    &&& (r is Ok ==> (n.cur is None ==> n.pending.len() == 0))
    // the fatal IoError is reported ONLY when a read failed: on a source without read failures no parsing function ever returns it
    &&& (is_io(r) ==> has_fault(o.pending))
}
// a value or a recoverable error has consumed at least one byte: the read loop always makes progress
pub open spec fn progress<T>(o: RView, n: RView, r: Result<T>) -> bool { !is_io(r) ==> n.pending.len() < o.pending.len() }

pub open spec fn value_kind(b: u8, v: JsonValue) -> bool {
    if b == 0x74u8 { v == JsonValue::Boolean(true) } else if b == 0x66u8 { v == JsonValue::Boolean(false) } else if b == 0x6eu8 { v == JsonValue::Null }
    else if b == 0x22u8 { v is String } else if b == 0x5bu8 { v is Array } else if b == 0x7bu8 { v is Object } else { (b == 0x2du8 || is_digit(b)) && v is Number }
}
pub trait JsonParser {
    spec fn rv(&self) -> RView;
//@@ fn jsonparser.next_json_value = src/json_parser.rs :: trait JsonParser :: fn next_json_value
//@@ ret r
//@@ header
        requires old(self).rv().ok,
        ensures
            lex_post(old(self).rv(), final(self).rv(), r), // @tobl L1.post
            // Ok(None) only at the true end of the input
            r is Ok && r->Ok_0 is None ==> final(self).rv().pending.len() == 0, // @tobl L1.eof
            !(r is Ok && r->Ok_0 is None) ==> progress(old(self).rv(), final(self).rv(), r), // @tobl L1.progress
            // end of input is reported only when nothing but white space was left: no value is ever dropped silently
            r is Ok && r->Ok_0 is None ==> ws_run(old(self).rv().pending) == old(self).rv().pending.len(), // @tobl L2.eof_only_ws
            // a byte that cannot start a value is a recoverable error that consumes the white space before it and exactly that byte
            ({ let p = old(self).rv().pending; let w = ws_run(p) as int;
               !is_io(r) && at(p, w) is Some && !starts_value(at(p, w)->0) ==> r is Err && final(self).rv().pending.len() == p.len() - w - 1 }), // @tobl L2.resync
            // the kind of value returned is the one its first byte announces
            ({ let p = old(self).rv().pending; let w = ws_run(p) as int;
               r is Ok && r->Ok_0 is Some ==> at(p, w) is Some && value_kind(at(p, w)->0, r->Ok_0->0) }), // @tobl L2.dispatch
            // THE VALUE: what is returned is the value the spec parser pv reads from the pending bytes (RFC 8259 grammar: strings
            // decoded by str_dec, numbers by num_val, array elements in order, object members by insertion), exactly its text
            // is consumed, and the byte after it is the current byte
            ({ let p = old(self).rv().pending;
               r is Ok && r->Ok_0 is Some ==> (match pv(p) {
                   Some((v, n)) => r->Ok_0->0 == v && 0 < n <= p.len() && final(self).rv().pending =~= from(p, n),
                   None => false }) }), // @tobl L3.value
            // COMPLETENESS: a value spelled in one of the accepted ways (pvs) is never rejected — no valid input is dropped
            !is_io(r) && pvs(old(self).rv().pending) ==> r is Ok && r->Ok_0 is Some, // @tobl L4.accepts
            !is_io(r) && ws_run(old(self).rv().pending) == old(self).rv().pending.len() ==> r is Ok && r->Ok_0 is None, // @tobl L4.eof
        decreases old(self).rv().pending.len(), 2int,
//@@ endfn
}

