// ---- what a function implementation (`struct Impl(Vec<Rc<dyn Get>>)`) sees: the context, its argument getters ----
#[verifier::external_body] pub struct Context { _p: () }
// Get::get is assumed to be a FUNCTION of the getter and the context (standing assumption, as in C03/C10/C11/C13)
pub trait Get {
    spec fn get_spec(&self, value: &Context) -> Option<JsonValue>;
//@@ fn get.get = src/selection.rs :: trait Get :: fn get
//@@ ret r
//@@ header
        ensures r == self.get_spec(value),
//@@ endfn
}
pub open spec fn arg(args: Seq<Rc<dyn Get>>, value: &Context, i: int) -> Option<JsonValue> {
    if 0 <= i < args.len() { args[i].get_spec(value) } else { None }
}
pub trait Arguments {
    spec fn args(&self) -> Seq<Rc<dyn Get>>;
//@@ fn arguments.apply = src/functions_definitions.rs :: trait Arguments :: fn apply
//@@ ret r
//@@ header
        ensures r == arg(self.args(), value, index as int),
//@@ endfn
}
impl Arguments for Vec<Rc<dyn Get>> {
    open spec fn args(&self) -> Seq<Rc<dyn Get>> { self@ }
//@@ fn args.apply = src/functions_definitions.rs :: impl Arguments for Vec<Rc<dyn Get>> :: fn apply
//@@ safety C07 C04 C05
//@@ post spec "apply(i) is the value of the i-th argument getter on the context, nothing when there is no i-th argument"
//@@ endfn
}
