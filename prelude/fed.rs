// ---- what "the rows fed so far" means for a pipeline (shared by units LOOP and GO) ----
// after feeding `fed` to the chain `o` it has become `n`: whatever is fed later, the final output is what `o` would print
// for `fed` followed by it (the read loop's summary of (P1))
pub open spec fn fed_post(o: &dyn Process, n: &dyn Process, fed: Seq<Context>) -> bool {
    forall|x: Seq<Context>| n.log().add(#[trigger] n.fut(x)) == o.log().add(o.fut(fed.add(x)))
}
// the chain needs no more rows: nothing fed later can change the output
pub open spec fn done(p: &dyn Process) -> bool { forall|x: Seq<Context>| #[trigger] p.fut(x) == p.fut(Seq::empty()) }
pub proof fn lemma_fed_trans(a: &dyn Process, b: &dyn Process, c: &dyn Process, f1: Seq<Context>, f2: Seq<Context>)
    requires fed_post(a, b, f1), fed_post(b, c, f2),
    ensures fed_post(a, c, f1.add(f2)),
{
    assert forall|x: Seq<Context>| c.log().add(#[trigger] c.fut(x)) == a.log().add(a.fut(f1.add(f2).add(x))) by {
        assert(f1.add(f2).add(x) =~= f1.add(f2.add(x)));
    }
}
pub open spec fn fed_box(o: Box<dyn Process>, n: Box<dyn Process>, fed: Seq<Context>) -> bool { fed_post(&*o, &*n, fed) }
