// ---- `.iter().enumerate()` (rewrite `enumerate`): own iterator type, since vstd has no specification for Enumerate ----
pub mod vit {
use vstd::prelude::*;
use vstd::std_specs::iter::IteratorSpec;
#[verifier::external_body]
#[verifier::reject_recursive_types(I)]
pub struct VEnumerate<I> { _p: std::marker::PhantomData<I> }
impl<I: Iterator> Iterator for VEnumerate<I> {
    type Item = (usize, I::Item);
    #[verifier::external_body]
    fn next(&mut self) -> Option<(usize, I::Item)> { unimplemented!() }
}
impl<I: Iterator> vstd::std_specs::iter::IteratorSpecImpl for VEnumerate<I> {
    open spec fn obeys_prophetic_iter_laws(&self) -> bool { true }
    #[verifier::prophetic]
    uninterp spec fn remaining(&self) -> Seq<(usize, I::Item)>;
    #[verifier::prophetic]
    open spec fn will_return_none(&self) -> bool { true }
    uninterp spec fn decrease(&self) -> Option<nat>;
    uninterp spec fn peek(&self, i: int) -> Option<(usize, I::Item)>;
}
#[verifier::external_body]
pub fn venumerate<I: Iterator>(it: I) -> (r: VEnumerate<I>)
    requires it.obeys_prophetic_iter_laws(), it.decrease() is Some,
    ensures r.decrease() is Some, r.remaining().len() == it.remaining().len(),
        forall|j: int| 0 <= j < r.remaining().len() ==> (#[trigger] r.remaining()[j]).0 == j && r.remaining()[j].1 == it.remaining()[j],
{ unimplemented!() }
// `.iter().rev()` (rewrite `iter_rev`): the same items, last first. (vstd specifies Rev, but inside a trait method implementation the
// verifier loses the facts about that adapter's ghost iterator; this own iterator type carries them as the contract of `vrev`.)
#[verifier::external_body]
#[verifier::reject_recursive_types(I)]
pub struct VRev<I> { _p: std::marker::PhantomData<I> }
impl<I: Iterator> Iterator for VRev<I> {
    type Item = I::Item;
    #[verifier::external_body]
    fn next(&mut self) -> Option<I::Item> { unimplemented!() }
}
impl<I: Iterator> vstd::std_specs::iter::IteratorSpecImpl for VRev<I> {
    open spec fn obeys_prophetic_iter_laws(&self) -> bool { true }
    #[verifier::prophetic]
    uninterp spec fn remaining(&self) -> Seq<I::Item>;
    #[verifier::prophetic]
    open spec fn will_return_none(&self) -> bool { true }
    uninterp spec fn decrease(&self) -> Option<nat>;
    uninterp spec fn peek(&self, i: int) -> Option<I::Item>;
}
#[verifier::external_body]
pub fn vrev<I: Iterator>(it: I) -> (r: VRev<I>)
    requires it.obeys_prophetic_iter_laws(), it.decrease() is Some,
    ensures r.decrease() is Some, r.remaining().len() == it.remaining().len(),
        forall|j: int| 0 <= j < r.remaining().len() ==> (#[trigger] r.remaining()[j]) == it.remaining()[it.remaining().len() - 1 - j],
{ unimplemented!() }
}
// ---- `.into_iter().filter_map(f).collect()` / `.into_iter().filter(f).collect()` on a Vec (rewrites filter_map_collect /
// filter_collect): own functions, since vstd has no specification for the adapters. Assumed std contract: if every answer of
// the closure is the value of a spec function c, the collected Vec is the filter_map / filter of the elements by c, in order.
pub mod vitc {
use vstd::prelude::*;
pub struct VCollected<U> { pub v: Vec<U> }
impl<U> VCollected<U> { pub fn collect(self) -> (r: Vec<U>) ensures r == self.v { self.v } }
// `.flatten()` between the adapter and collect(): the items of the yielded Vecs, one Vec after the other
pub open spec fn flat_spec<T>(s: Seq<Vec<T>>) -> Seq<T>
    decreases s.len()
{
    if s.len() == 0 { Seq::empty() } else { s[0]@.add(flat_spec(s.drop_first())) }
}
impl<T> VCollected<Vec<T>> {
    #[verifier::external_body]
    pub fn flatten(self) -> (r: VCollected<T>) ensures r.v@ == flat_spec(self.v@) { unimplemented!() }
}
pub open spec fn filter_map_spec<T, U>(s: Seq<T>, c: spec_fn(T) -> Option<U>) -> Seq<U>
    decreases s.len()
{
    if s.len() == 0 { Seq::empty() } else {
        let rest = filter_map_spec(s.drop_first(), c);
        match c(s[0]) { Some(u) => seq![u].add(rest), None => rest }
    }
}
#[verifier::external_body]
pub fn vfilter_map<T, U, F: FnMut(T) -> Option<U>>(v: Vec<T>, f: F) -> (r: VCollected<U>)
    requires forall|x: T| #[trigger] f.requires((x,)),
    ensures forall|c: spec_fn(T) -> Option<U>| (forall|x: T, o: Option<U>| #[trigger] f.ensures((x,), o) ==> o == c(x)) ==> r.v@ == #[trigger] filter_map_spec(v@, c),
{ unimplemented!() }
pub open spec fn enum_map_spec<T, U>(s: Seq<T>, c: spec_fn(int, T) -> U) -> Seq<U> { Seq::new(s.len(), |i: int| c(i, s[i])) }
#[verifier::external_body]
pub fn venum_map<T, U, F: FnMut((usize, T)) -> U>(v: Vec<T>, f: F) -> (r: VCollected<U>)
    requires forall|x: (usize, T)| #[trigger] f.requires((x,)),
    ensures forall|c: spec_fn(int, T) -> U| (forall|x: (usize, T), o: U| #[trigger] f.ensures((x,), o) ==> o == c(x.0 as int, x.1)) ==> r.v@ == #[trigger] enum_map_spec(v@, c),
{ unimplemented!() }
#[verifier::external_body]
pub fn vfilter<T, F: FnMut(&T) -> bool>(v: Vec<T>, f: F) -> (r: VCollected<T>)
    requires forall|x: &T| #[trigger] f.requires((x,)),
    ensures forall|c: spec_fn(T) -> bool| (forall|x: &T, o: bool| #[trigger] f.ensures((x,), o) ==> o == c(*x)) ==> r.v@ == #[trigger] v@.filter(c),
{ unimplemented!() }
}

// ---- `map.into_iter().filter_map(f).collect::<IndexMap<_, _>>()` / `.filter(f)` on an IndexMap (rewrites entries_filter_map /
// entries_filter / collect_indexmap): own functions over the entries in insertion order; collecting pairs into an IndexMap inserts
// them one after the other (assumed std / indexmap contracts)
pub mod vitm {
use vstd::prelude::*;
use super::jt::*;
use super::vitc::filter_map_spec;
pub open spec fn im_from(p: Seq<(String, JsonValue)>) -> Seq<(String, JsonValue)>
    decreases p.len()
{
    if p.len() == 0 { Seq::empty() } else { im_insert(im_from(p.drop_last()), p.last().0, p.last().1) }
}
pub struct VPairs { pub v: Vec<(String, JsonValue)> }
impl VPairs {
    #[verifier::external_body]
    pub fn collect_map(self) -> (r: IndexMap<String, JsonValue>) ensures r.entries() == im_from(self.v@) { unimplemented!() }
}
#[verifier::external_body]
pub fn vfilter_map_entries<F: FnMut((String, JsonValue)) -> Option<(String, JsonValue)>>(m: IndexMap<String, JsonValue>, f: F) -> (r: VPairs)
    requires forall|x: (String, JsonValue)| #[trigger] f.requires((x,)),
    ensures forall|c: spec_fn((String, JsonValue)) -> Option<(String, JsonValue)>| (forall|x: (String, JsonValue), o: Option<(String, JsonValue)>| #[trigger] f.ensures((x,), o) ==> o == c(x)) ==> r.v@ == #[trigger] filter_map_spec(m.entries(), c),
{ unimplemented!() }
#[verifier::external_body]
pub fn vfilter_entries<F: FnMut(&(String, JsonValue)) -> bool>(m: IndexMap<String, JsonValue>, f: F) -> (r: VPairs)
    requires forall|x: &(String, JsonValue)| #[trigger] f.requires((x,)),
    ensures forall|c: spec_fn((String, JsonValue)) -> bool| (forall|x: &(String, JsonValue), o: bool| #[trigger] f.ensures((x,), o) ==> o == c(*x)) ==> r.v@ == #[trigger] m.entries().filter(c),
{ unimplemented!() }
}
