// ---- `.iter().enumerate()` (rewrite `enumerate`): own iterator type, since vstd has no specification for Enumerate ----
pub mod vit {
use vstd::prelude::*;
use vstd::std_specs::iter::IteratorSpec;
#[verifier::external_body]
#[verifier::reject_recursive_types(I)]
pub struct VEnumerate<I> { _p: std::marker::PhantomData<I> }
impl<I: Iterator> Iterator for VEnumerate<I> {
    type Item = (usize, I::Item);
    #[verifier::external_body]
    fn next(&mut self) -> Option<(usize, I::Item)> { unimplemented!() }
}
impl<I: Iterator> vstd::std_specs::iter::IteratorSpecImpl for VEnumerate<I> {
    open spec fn obeys_prophetic_iter_laws(&self) -> bool { true }
    #[verifier::prophetic]
    uninterp spec fn remaining(&self) -> Seq<(usize, I::Item)>;
    #[verifier::prophetic]
    open spec fn will_return_none(&self) -> bool { true }
    uninterp spec fn decrease(&self) -> Option<nat>;
    uninterp spec fn peek(&self, i: int) -> Option<(usize, I::Item)>;
}
#[verifier::external_body]
pub fn venumerate<I: Iterator>(it: I) -> (r: VEnumerate<I>)
    requires it.obeys_prophetic_iter_laws(), it.decrease() is Some,
    ensures r.decrease() is Some, r.remaining().len() == it.remaining().len(),
        forall|j: int| 0 <= j < r.remaining().len() ==> (#[trigger] r.remaining()[j]).0 == j && r.remaining()[j].1 == it.remaining()[j],
{ unimplemented!() }
}
// ---- `.into_iter().filter_map(f).collect()` / `.into_iter().filter(f).collect()` on a Vec (rewrites filter_map_collect /
// filter_collect): own functions, since vstd has no specification for the adapters. Assumed std contract: if every answer of
// the closure is the value of a spec function c, the collected Vec is the filter_map / filter of the elements by c, in order.
pub mod vitc {
use vstd::prelude::*;
pub struct VCollected<U> { pub v: Vec<U> }
impl<U> VCollected<U> { pub fn collect(self) -> (r: Vec<U>) ensures r == self.v { self.v } }
pub open spec fn filter_map_spec<T, U>(s: Seq<T>, c: spec_fn(T) -> Option<U>) -> Seq<U>
    decreases s.len()
{
    if s.len() == 0 { Seq::empty() } else {
        let rest = filter_map_spec(s.drop_first(), c);
        match c(s[0]) { Some(u) => seq![u].add(rest), None => rest }
    }
}
#[verifier::external_body]
pub fn vfilter_map<T, U, F: FnMut(T) -> Option<U>>(v: Vec<T>, f: F) -> (r: VCollected<U>)
    requires forall|x: T| #[trigger] f.requires((x,)),
    ensures forall|c: spec_fn(T) -> Option<U>| (forall|x: T, o: Option<U>| #[trigger] f.ensures((x,), o) ==> o == c(x)) ==> r.v@ == #[trigger] filter_map_spec(v@, c),
{ unimplemented!() }
#[verifier::external_body]
pub fn vfilter<T, F: FnMut(&T) -> bool>(v: Vec<T>, f: F) -> (r: VCollected<T>)
    requires forall|x: &T| #[trigger] f.requires((x,)),
    ensures forall|c: spec_fn(T) -> bool| (forall|x: &T, o: bool| #[trigger] f.ensures((x,), o) ==> o == c(*x)) ==> r.v@ == #[trigger] v@.filter(c),
{ unimplemented!() }
}
