// ---- `.iter().enumerate()` (rewrite `enumerate`): own iterator type, since vstd has no specification for Enumerate ----
pub mod vit {
use vstd::prelude::*;
use vstd::std_specs::iter::IteratorSpec;
#[verifier::external_body]
#[verifier::reject_recursive_types(I)]
pub struct VEnumerate<I> { _p: std::marker::PhantomData<I> }
impl<I: Iterator> Iterator for VEnumerate<I> {
    type Item = (usize, I::Item);
    #[verifier::external_body]
    fn next(&mut self) -> Option<(usize, I::Item)> { unimplemented!() }
}
impl<I: Iterator> vstd::std_specs::iter::IteratorSpecImpl for VEnumerate<I> {
    open spec fn obeys_prophetic_iter_laws(&self) -> bool { true }
    #[verifier::prophetic]
    uninterp spec fn remaining(&self) -> Seq<(usize, I::Item)>;
    #[verifier::prophetic]
    open spec fn will_return_none(&self) -> bool { true }
    uninterp spec fn decrease(&self) -> Option<nat>;
    uninterp spec fn peek(&self, i: int) -> Option<(usize, I::Item)>;
}
#[verifier::external_body]
pub fn venumerate<I: Iterator>(it: I) -> (r: VEnumerate<I>)
    requires it.obeys_prophetic_iter_laws(), it.decrease() is Some,
    ensures r.decrease() is Some, r.remaining().len() == it.remaining().len(),
        forall|j: int| 0 <= j < r.remaining().len() ==> (#[trigger] r.remaining()[j]).0 == j && r.remaining()[j].1 == it.remaining()[j],
{ unimplemented!() }
}
