// ---- --set: the trait PreSetCollection (src/pre_sets.rs) with its contract. Unit STAGE proves it for the real
// `impl PreSetCollection for Vec<String>`; unit GO assumes it (same text: this file is included by both). ----
#[verifier::external_body] pub struct PreSetParserError { _p: () }
impl PreSetParserError {
    #[allow(non_snake_case)] #[verifier::external_body] pub fn DuplicateKeys(k: String) -> Self { unimplemented!() }
}
//@@ item src/pre_sets.rs :: enum Value
//@@ rewrite pub_struct
//@@ enditem
//@@ item src/pre_sets.rs :: struct PreSet
//@@ rewrite pub_struct pub_fields
//@@ enditem
pub open spec fn is_preset_of(r: Box<dyn Process>, next: Box<dyn Process>, none: bool, v: Map<String, JsonValue>, m: Map<String, Rc<dyn Get>>) -> bool {
    &&& forall|rows: Seq<Context>| #[trigger] r.fut(rows) == next.fut(presets(none, v, m, rows))
    &&& forall|t: Seq<String>, rows: Seq<Context>| #[trigger] r.sfut(t, rows) == next.sfut(t, presets(none, v, m, rows))
}
pub open spec fn presets(none: bool, v: Map<String, JsonValue>, m: Map<String, Rc<dyn Get>>, rows: Seq<Context>) -> Seq<Context> {
    if none { rows } else { preset_rows(v, m, rows) }
}
// what one --set text parses to (PreSet::from_str is a FUNCTION of the text: assumed, see impl PreSet below)
pub uninterp spec fn preset_of(text: Seq<char>) -> Option<PreSet>;
// ... reduced to the bound name and its kind (true: variable, false: macro)
pub open spec fn preset_key(text: Seq<char>) -> Option<(String, bool)> {
    match preset_of(text) { Some(p) => Some((p.key, p.value is Calculated)), None => None }
}
// the variables / macros bound by the first n --set texts (later texts never overwrite: duplicates are an error)
pub open spec fn vars_upto(texts: Seq<String>, n: int) -> Map<String, JsonValue> decreases n {
    if n <= 0 { Map::empty() } else {
        let m = vars_upto(texts, n - 1);
        match preset_of(texts[n - 1]@) { Some(p) => match p.value { Value::Calculated(v) => m.insert(p.key, v), _ => m }, None => m }
    }
}
pub open spec fn macros_upto(texts: Seq<String>, n: int) -> Map<String, Rc<dyn Get>> decreases n {
    if n <= 0 { Map::empty() } else {
        let m = macros_upto(texts, n - 1);
        match preset_of(texts[n - 1]@) { Some(p) => match p.value { Value::Macro(g) => m.insert(p.key, g), _ => m }, None => m }
    }
}
// two --set options bind the same variable name, or the same macro name
pub open spec fn dup_keys(texts: Seq<String>) -> bool {
    exists|i: int, j: int| 0 <= i < j < texts.len() && #[trigger] preset_key(texts[i]@) is Some && #[trigger] preset_key(texts[j]@) is Some
        && preset_key(texts[i]@) == preset_key(texts[j]@)
}
impl PreSet {
    // PreSet::from_str (string surgery on the option text + read_getter: not under contract): a FUNCTION of the text
    #[verifier::external_body]
    pub fn from_str(s: &str) -> (r: std::result::Result<PreSet, PreSetParserError>)
        ensures r is Ok <==> preset_of(s@) is Some, r is Ok ==> Some(r->Ok_0) == preset_of(s@),
    { unimplemented!() }
}
pub trait PreSetCollection {
    spec fn texts(&self) -> Seq<String>;
//@@ fn presetcollection.create_process = src/pre_sets.rs :: trait PreSetCollection :: fn create_process
//@@ ret r
//@@ header
        requires next.inv(),
        // with no --set the stage is `next` itself; otherwise it feeds `next` every row with exactly the parsed bindings (C03)
        ensures r is Ok ==> r->Ok_0.inv() && r->Ok_0.log() == next.log() && r->Ok_0.must_break() == next.must_break()
            && is_preset_of(r->Ok_0, next, self.texts().len() == 0, vars_upto(self.texts(), self.texts().len() as int), macros_upto(self.texts(), self.texts().len() as int)), // @tobl ctor
            // an unparsable --set, or the same name bound twice, is an error (C18)
            (exists|i: int| 0 <= i < self.texts().len() && preset_key(#[trigger] self.texts()[i]@) is None) ==> r is Err, // @tobl malformed
            dup_keys(self.texts()) ==> r is Err, // @tobl duplicate
//@@ endfn
}
