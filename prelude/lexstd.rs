// ---- trusted: std items the lexer uses ----
#[verifier::external_type_specification]
#[verifier::external_body]
pub struct ExFromUtf8Error(std::string::FromUtf8Error);
#[verifier::external_type_specification]
#[verifier::external_body]
pub struct ExParseIntError(std::num::ParseIntError);
#[verifier::external_type_specification]
#[verifier::external_body]
pub struct ExParseFloatError(std::num::ParseFloatError);

// src/json_value.rs items the parser calls: JsonValue::type_name (only feeds an error message: opaque) and
// From<f64> for JsonValue (its contract is what Kani harnesses V1 prove on the real body, bit-precisely)
pub uninterp spec fn json_of_f64(f: f64) -> JsonValue;
impl JsonValue {
    #[verifier::external_body]
    pub fn type_name(&self) -> String { unimplemented!() }
}
impl vstd::std_specs::convert::FromSpecImpl<f64> for JsonValue {
    open spec fn obeys_from_spec() -> bool { true }
    open spec fn from_spec(v: f64) -> Self { json_of_f64(v) }
}
impl From<f64> for JsonValue {
    #[verifier::external_body]
    fn from(value: f64) -> (r: Self) ensures r == json_of_f64(value), r is Number { unimplemented!() }
}
pub broadcast axiom fn axiom_json_of_f64_is_number(f: f64) ensures (#[trigger] json_of_f64(f)) is Number;

// String::from_utf8: Ok exactly for well-formed UTF-8, and then the string has exactly those bytes
pub uninterp spec fn valid_utf8(b: Seq<u8>) -> bool;
pub uninterp spec fn str_bytes(s: Seq<char>) -> Seq<u8>;
pub assume_specification[ String::from_utf8 ](v: Vec<u8>) -> (r: std::result::Result<String, std::string::FromUtf8Error>)
    ensures r is Ok <==> valid_utf8(v@), r is Ok ==> str_bytes(r->Ok_0@) == v@;

// str::parse::<F>: a function of the text (u64 / i64: the exact decimal value, PosOverflow/NegOverflow when out of range;
// f64: the nearest double)
#[verifier::external_trait_specification]
pub trait ExFromStr: Sized {
    type ExternalTraitSpecificationFor: std::str::FromStr;
    type Err;
    fn from_str(s: &str) -> std::result::Result<Self, Self::Err>;
}
pub uninterp spec fn parse_of<F>(s: Seq<char>) -> Option<F>;
pub assume_specification<F: std::str::FromStr>[ <str>::parse::<F> ](s: &str) -> (r: std::result::Result<F, F::Err>)
    ensures r is Ok <==> parse_of::<F>(s@) is Some, r is Ok ==> r->Ok_0 == parse_of::<F>(s@)->0;

#[verifier::external_type_specification]
pub struct ExIntErrorKind(std::num::IntErrorKind);
pub assume_specification[ std::num::ParseIntError::kind ](e: &std::num::ParseIntError) -> &std::num::IntErrorKind;

// building the "expected one of ..." text of an error message
pub assume_specification<T, A: std::alloc::Allocator, I: IntoIterator<Item = T>>[ <Vec<T, A> as Extend<T>>::extend ](v: &mut Vec<T, A>, iter: I);

pub uninterp spec fn char_of_u32(n: u32) -> Option<char>;
pub assume_specification[ char::from_u32 ](n: u32) -> (r: Option<char>)
    ensures r == char_of_u32(n), r is Some ==> r->0 as u32 == n,
        // exactly the Unicode scalar values
        r is Some <==> (n < 0xD800 || (0xE000 <= n <= 0x10FFFF));
pub uninterp spec fn utf8_of(c: char) -> Seq<u8>;
pub assume_specification[ char::encode_utf8 ](c: char, dst: &mut [u8]) -> (r: &mut str)
    requires old(dst)@.len() >= 4,
    ensures str_bytes(r@) == utf8_of(c), 1 <= utf8_of(c).len() <= 4;
pub uninterp spec fn f64_finite(f: f64) -> bool;
pub assume_specification[ f64::is_finite ](f: f64) -> (r: bool) ensures r == f64_finite(f);
pub assume_specification[ String::len ](s: &String) -> (r: usize)
    ensures r == str_bytes(s@).len();

// UTF-8 is injective: a string is determined by its bytes
pub uninterp spec fn text_of(b: Seq<u8>) -> Seq<char>;
pub broadcast axiom fn axiom_text_of(s: Seq<char>) ensures #[trigger] text_of(str_bytes(s)) == s;
// vstd's own view of a str as bytes is the same UTF-8 encoding that str_bytes names
pub broadcast axiom fn axiom_spec_bytes(s: Seq<char>) ensures #[trigger] vstd::utf8::encode_utf8(s) == str_bytes(s);
