// ---- the Process protocol (src/processor.rs: trait Process), DESIGN §4.3 ----
#[verifier::external_body]
pub struct ProcessError { _p: () }
// the variant constructor used by TextProcess::start (the enum itself stays opaque: only Ok/Err matters to the contracts)
impl ProcessError {
    #[allow(non_snake_case)]
    #[verifier::external_body]
    pub fn InvalidInputError(msg: &'static str) -> Self { unimplemented!() }
}
pub type ProcessResult<T> = std::result::Result<T, ProcessError>;

pub open spec fn title_values(n: Seq<String>) -> Seq<Option<JsonValue>> { Seq::new(n.len(), |i: int| Some(JsonValue::String(n[i]))) }
#[verifier::external_body]
pub struct Titles { _p: () }
impl Titles {
    pub uninterp spec fn names(&self) -> Seq<String>;
    #[verifier::external_body]
    pub fn with_title(&self, title: &Rc<String>) -> (r: Self) ensures r.names() == self.names().push(**title) { unimplemented!() }
    #[verifier::external_body]
    pub fn len(&self) -> (r: usize) ensures r == self.names().len() { unimplemented!() }
    // the header row: one string value per title, in order (src/processor.rs: Titles::to_list — not under contract: assumed)
    #[verifier::external_body]
    pub fn to_list(&self) -> (r: Vec<Option<JsonValue>>)
        ensures r@ == title_values(self.names())
    { unimplemented!() }
}
impl Default for Titles {
    #[verifier::external_body]
    fn default() -> (r: Self) ensures r.names().len() == 0, r.names() == Seq::<String>::empty() { unimplemented!() }
}

//@@ item src/processor.rs :: enum ProcessDesision
//@@ derives PartialEq
//@@ enditem
// trusted stand-in for #[derive(PartialEq)] on the field-less enum ProcessDesision: equality of the variants
impl PartialEq for ProcessDesision {
    #[verifier::external_body]
    fn eq(&self, other: &Self) -> (r: bool) ensures r == (*self == *other) { unimplemented!() }
}
impl vstd::std_specs::cmp::PartialEqSpecImpl for ProcessDesision {
    open spec fn obeys_eq_spec() -> bool { true }
    open spec fn eq_spec(&self, other: &Self) -> bool { *self == *other }
}

//@@ include prelude/get_trait.rs

pub mod prefix_lemmas {
use vstd::prelude::*;
pub open spec fn is_prefix(a: Seq<char>, b: Seq<char>) -> bool { a.len() <= b.len() && b.subrange(0, a.len() as int) =~= a }
pub broadcast proof fn lemma_prefix_refl(a: Seq<char>) ensures #[trigger] is_prefix(a, a) {}
pub broadcast proof fn lemma_prefix_trans(a: Seq<char>, b: Seq<char>, c: Seq<char>)
    requires #[trigger] is_prefix(a, b), #[trigger] is_prefix(b, c) ensures is_prefix(a, c)
{ assert(c.subrange(0, a.len() as int) =~= b.subrange(0, a.len() as int)); }
pub broadcast proof fn lemma_prefix_add(a: Seq<char>, b: Seq<char>) ensures #[trigger] is_prefix(a, a.add(b)) { assert(a.add(b).subrange(0, a.len() as int) =~= a); }
pub broadcast group group_prefix { lemma_prefix_refl, lemma_prefix_trans, lemma_prefix_add }
}
pub use prefix_lemmas::is_prefix;

pub mod processor_trait {
use vstd::prelude::*;
use super::*;
pub type Result<T> = std::result::Result<T, ProcessError>;
pub trait Process {
    // representation invariant (includes the successor's)
    spec fn inv(&self) -> bool;
    // what has reached the terminal sink so far
    spec fn log(&self) -> Seq<char>;
    // what WOULD be appended to the log if `rows` were fed now and complete() called
    spec fn fut(&self, rows: Seq<Context>) -> Seq<char>;
    // "the pipeline below me needs no more rows"
    spec fn must_break(&self) -> bool;
    // terminal printers: process(c) appends fut([c]) at once, complete() appends nothing
    spec fn eager(&self) -> bool;
    // start(titles) FAILS: the configuration is invalid for these selection names (csv / headers without selections ...)
    spec fn rejects(&self, titles: Seq<String>) -> bool;
    // what start(titles) writes when it succeeds (the header row of csv / text --headers; nothing otherwise)
    spec fn header(&self, titles: Seq<String>) -> Seq<char>;
    // what fut() WILL BE once start(titles) has succeeded: what would be appended to the log, behind the header, if start(titles)
    // succeeded now, `rows` were fed and complete() called — starting a chain must not change what it computes
    spec fn sfut(&self, titles: Seq<String>, rows: Seq<Context>) -> Seq<char>;

//@@ fn process.start = src/processor.rs :: trait Process :: fn start
//@@ ret r
//@@ header
        requires old(self).inv(),
        ensures final(self).inv(), // @tobl inv
            is_prefix(old(self).log(), final(self).log()), // @tobl start.log
            old(self).eager() ==> final(self).eager(), // @tobl start.eager
            r is Ok ==> final(self).must_break() == old(self).must_break(), // @tobl start.break
            // an invalid configuration is reported by start itself, through every stage, with nothing written (C18);
            // a valid one writes exactly the header of the selection names that reach the printer, in order (C15)
            old(self).rejects(titles_so_far.names()) ==> r is Err && final(self).log() == old(self).log(), // @tobl start.rejects
            r is Ok ==> final(self).log() == old(self).log().add(old(self).header(titles_so_far.names())), // @tobl start.header
            // the started stage computes what the assembled stage promised for these selection names (C03: start changes nothing else)
            r is Ok ==> forall|rows: Seq<Context>| #[trigger] final(self).fut(rows) == old(self).sfut(titles_so_far.names(), rows), // @tobl start.fut
//@@ endfn

//@@ fn process.process = src/processor.rs :: trait Process :: fn process
//@@ ret r
//@@ header
        requires old(self).inv(),
        ensures final(self).inv(), // @tobl inv
            // (P1) the final output is invariant: feeding c now and R later is what feeding [c]+R would have given
            r is Ok ==> forall|rows: Seq<Context>| final(self).log().add(#[trigger] final(self).fut(rows)) == old(self).log().add(old(self).fut(seq![context].add(rows))), // @tobl P1
            // (P2) a stage that becomes "done" says Break; and Break means no later row can change the output
            r is Ok && !old(self).must_break() && final(self).must_break() ==> r->Ok_0 is Break, // @tobl P2.break
            r is Ok && r->Ok_0 is Break ==> forall|rows: Seq<Context>| #[trigger] final(self).fut(rows) == final(self).fut(Seq::empty()), // @tobl P2.done
            // (P3) whatever happens (also on failure) nothing already written is lost or changed
            is_prefix(old(self).log(), final(self).log()), // @tobl P3
            // eager sinks
            old(self).eager() ==> final(self).eager(),
            old(self).eager() && r is Ok ==> final(self).log() == old(self).log().add(old(self).fut(seq![context]))
                && forall|rows: Seq<Context>| #[trigger] final(self).fut(rows) == old(self).fut(rows), // @tobl eager.process
//@@ endfn

//@@ fn process.complete = src/processor.rs :: trait Process :: fn complete
//@@ ret r
//@@ header
        requires old(self).inv(),
        ensures final(self).inv(), // @tobl inv
            // (P4) end of input flushes exactly fut([])
            r is Ok ==> final(self).log() == old(self).log().add(old(self).fut(Seq::empty())), // @tobl P4
            is_prefix(old(self).log(), final(self).log()), // @tobl P3
            old(self).eager() && r is Ok ==> final(self).log() == old(self).log(), // @tobl eager.complete
//@@ endfn
}
}
pub use processor_trait::Process;
